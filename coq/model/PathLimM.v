(* The length limit of a path as the code has it: Path.maxlen is an integer or None, and
   None means NO LIMIT (Path.append: "if self.maxlen is None or self.length < self.maxlen").
   model/PathM.v (shared with C09-C12) fixes the limit to a number; this file adds, without
   touching it, the same operations over paths whose limit is [option nat]:
   empty_path, append, the append loops, copy, reverse and paste_paths, mirroring
   infretis/classes/path.py branch by branch.  [lift] embeds the paths of PathM; proofs/PathPLim.v
   shows that on lifted paths every operation here IS the one of PathM (so the C15 theorems
   about limited paths carry over) and what happens when the limit is None.  No proofs here. *)
From Coq Require Import ZArith List Bool Lia.
Import ListNotations.
From Inf Require Import model.PathM.
Open Scope Z_scope.

Definition limit := option nat.          (* None = no limit *)

Record lpath := mkLP { lpts : list frame; llimit : limit; lorigin : Z }.

Definition lplen (p : lpath) : nat := length (lpts p).

Definition lift (p : path) : lpath := mkLP (pts p) (Some (maxlen p)) (torigin p).

(* Path.empty_path(maxlen=ml, time_origin=t0): the limit handed in is the limit of the new
   path, None included *)
Definition lempty_path (ml : limit) (t0 : Z) : lpath := mkLP [] ml t0.

(* the test of Path.append: maxlen is None or length < maxlen *)
Definition has_room (l : limit) (n : nat) : bool :=
  match l with None => true | Some m => (n <? m)%nat end.

Definition lappend (p : lpath) (f : frame) : lpath * bool :=
  if has_room (llimit p) (lplen p) then (mkLP (lpts p ++ [f]) (llimit p) (lorigin p), true)
  else (p, false).

Fixpoint lappend_all (p : lpath) (fs : list frame) : lpath * bool :=
  match fs with
  | [] => (p, true)
  | f :: r => let '(p', ok) := lappend p f in
              if ok then lappend_all p' r else (p', false)
  end.

(* the limit paste_paths gives to the new path.  [req] = the maxlen argument (None = not
   given: then the limits of the two segments decide -- equal: that one, both numbers: the
   larger; exactly one None: max(None, int) raises TypeError in the code as it is, modelled
   by the outer None) *)
Definition paste_limit (req lb lf : limit) : option limit :=
  match req with
  | Some m => Some (Some m)
  | None =>
      match lb, lf with
      | None, None => Some None
      | Some x, Some y => Some (Some (if (x =? y)%nat then x else Nat.max x y))
      | _, _ => None
      end
  end.

(* paste_paths(path_back, path_forw, overlap, maxlen) *)
Definition lpaste (back forw : lpath) (overlap : bool) (req : limit) : option lpath :=
  match paste_limit req (llimit back) (llimit forw) with
  | None => None
  | Some m =>
      let np := lempty_path m (lorigin back - Z.of_nat (lplen back) + 1) in
      let '(p1, ok) := lappend_all np (rev (lpts back)) in
      Some (if ok then fst (lappend_all p1 (if overlap then tl (lpts forw) else lpts forw))
            else p1)
  end.

(* Path.reverse(None, rev_v): new_path = self.empty_path(maxlen=self.maxlen) *)
Definition lreverse (next : nat) (p : lpath) (rev_v : bool) : lpath :=
  let cp := copy_frames next (rev (lpts p)) in
  let cp := if rev_v then map flip cp else cp in
  fst (lappend_all (lempty_path (llimit p) 0) cp).

(* Path.copy(): empty_path(maxlen=self.maxlen), the append loop, then maxlen and
   time_origin are assigned from self *)
Definition lcopy (next : nat) (p : lpath) : lpath :=
  let np := fst (lappend_all (lempty_path (llimit p) 0) (copy_frames next (lpts p))) in
  mkLP (lpts np) (llimit p) (lorigin p).
