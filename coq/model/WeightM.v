(* Executable model of the high-acceptance weights of infretis/core/tis.py:
   wirefence_weight_and_pick, compute_weight, calc_cv_vector, high_acc_swap's ratio.
   Literal translation: same branch order, same comparison operators.  No proofs here. *)
From Coq Require Import ZArith QArith List Bool Lia.
Import ListNotations.
From Inf Require Import model.PathM.
Open Scope Z_scope.

(* state of the scan loop: key_l, key_r, isave, path_arr (in append order) *)
Record wst := mkW { kl : bool; kr : bool; isave : nat; arr : list (nat * nat * nat) }.

Definition wst0 : wst := mkW false false 0%nat [].

(* one iteration: i, op1 = order[i], op2 = order[i+1] *)
Definition wf_step (left right : Z) (st : wst) (i : nat) (op1 op2 : Z) : wst :=
  if ((op1 <? left) && (right <=? op2)) || ((op2 <? left) && (right <=? op1)) then st
  else if (left <=? op2) && (op1 <? left) && negb (kl st) then mkW true (kr st) i (arr st)
  else if (op2 <? right) && (right <=? op1) && negb (kr st) then mkW (kl st) true i (arr st)
  else if (kr st) && ((right <=? op2) && (op1 <? right)) then mkW false false (isave st) (arr st)
  else if ((kl st) || (kr st)) &&
          (((op2 <? left) && (left <=? op1)) || ((right <=? op2) && (op1 <? right)))
       then mkW false false (isave st) (arr st ++ [(isave st, S i, (i - isave st)%nat)])
  else st.

Fixpoint wf_loop (left right : Z) (st : wst) (i : nat) (l : list Z) : wst :=
  match l with
  | op1 :: ((op2 :: _) as r) => wf_loop left right (wf_step left right st i op1 op2) (S i) r
  | _ => st
  end.

(* path_arr of the code: list of (isave, exit index, number of interior frames) *)
Definition wf_segments (left right : Z) (ords : list Z) : list (nat * nat * nat) :=
  arr (wf_loop left right wst0 0%nat ords).

Definition seg_count (s : nat * nat * nat) : nat := snd s.

Definition wf_nframes (left right : Z) (ords : list Z) : nat :=
  fold_right (fun s acc => (seg_count s + acc)%nat) 0%nat (wf_segments left right ords).

(* segment choice: first segment whose cumulative count / n_frames >= u, u in [0,1) a
   rational; returns the segment, or None when the loop falls through (u > 1 never
   happens for rgen.random()) *)
Fixpoint wf_pick_from (segs : list (nat * nat * nat)) (cum : nat) (n : nat) (u : Q)
  : option (nat * nat * nat) :=
  match segs with
  | [] => None
  | s :: r =>
      let cum' := (cum + seg_count s)%nat in
      if Qle_bool u (Z.of_nat cum' # Pos.of_nat n) then Some s else wf_pick_from r cum' n u
  end.

Definition wf_pick (left right : Z) (ords : list Z) (u : Q) : option (nat * nat * nat) :=
  let n := wf_nframes left right ords in
  if (n =? 0)%nat then None else wf_pick_from (wf_segments left right ords) 0%nat n u.

(* frames isave .. exit inclusive *)
Definition seg_frames {A} (s : nat * nat * nat) (l : list A) : list A :=
  let '(a, b, _) := s in firstn (b + 1 - a) (skipn a l).

(* The seeding segment as the code builds it:
     new_segment = path.empty_path(maxlen=path.maxlen)
     for j in range(ipath[0], ipath[1] + 1): new_segment.append(path.phasepoints[j])
   Path.append adds the point iff maxlen is None or length < maxlen and otherwise drops it
   silently (the loop ignores the return value).  [lim] is the limit of the container:
   path.maxlen, None = Python's None.  Nothing else is read by the code, in particular not
   ens_set["tis_set"]["maxlength"]. *)
Definition append_lim {A} (lim : option nat) (acc : list A) (x : A) : list A :=
  match lim with
  | None => acc ++ [x]
  | Some m => if (length acc <? m)%nat then acc ++ [x] else acc
  end.

Definition wf_seed {A} (pmaxlen : option nat) (sg : nat * nat * nat) (l : list A) : list A :=
  fold_left (append_lim pmaxlen) (seg_frames sg l) [].

(* return_seg=True: the chosen (entry, exit, count) and the frames of the returned segment;
   [frames] are the path's phase points (any payload), [pmaxlen] is path.maxlen *)
Definition wf_pick_seed {A} (left right : Z) (ords : list Z) (frames : list A)
           (pmaxlen : option nat) (u : Q) : option ((nat * nat * nat) * list A) :=
  match wf_pick left right ords u with
  | None => None
  | Some sg => Some (sg, wf_seed pmaxlen sg frames)
  end.

(* compute_weight(path, [i0, i1, i2], move): wf weight (1 for other moves), doubled when
   start side <> end side w.r.t. (i0, i2) for moves ss / wf.  [None] = the assertion
   left <= right of get_start_point fails or the path is empty. *)
Inductive move := Msh | Mwf | Mss.

Definition compute_weight (ords : list Z) (i0 i1 i2 : Z) (mv : move) : option Z :=
  let p := mkP (map (fun o => mkF o 0 false 0%nat) ords) 0%nat 0 in
  let w := match mv with Mwf => Z.of_nat (wf_nframes i1 i2 ords) | _ => 1 end in
  match start_point p i0 i2, end_point p i0 i2 with
  | Some s, Some e =>
      let differ := match s, e with
                    | SL, SL | SR, SR => false
                    | SNone, _ => true   (* '?' never equals 'L'/'R'/None *)
                    | _, _ => true
                    end in
      Some (if differ then match mv with Msh => w | _ => 2 * w end else w)
  | _, _ => None
  end.

Definition list_max (d : Z) (l : list Z) : Z := fold_left Z.max l d.

(* calc_cv_vector(path, interfaces, moves, lambda_minus_one, cap, minus).
   moves has one more leading entry (the [0-] move): moves[idx+1] belongs to interface idx.
   lm1 = None models False (lambda_minus_one not in use); Some l is a number, 0 included: the
   code tests `lambda_minus_one is not False`, never the truth value of the number. *)
Fixpoint cv_plus (ords : list Z) (pmax : Z) (i0 : Z) (capv : Z) (intfs : list Z) (mvs : list move)
  : option (list Z) :=
  match intfs with
  | [] => Some []
  | [_] => Some [0]                      (* cv.append(0.0) for the last interface *)
  | li :: rest =>
      match mvs with
      | [] => None                       (* IndexError: fewer moves than interfaces *)
      | mv :: mrest =>
          let this := match mv with
                      | Mwf => compute_weight ords i0 li capv Mwf
                      | _ => Some (if li <=? pmax then 1 else 0)
                      end in
          match this, cv_plus ords pmax i0 capv rest mrest with
          | Some w, Some ws => Some (w :: ws)
          | _, _ => None
          end
      end
  end.

Definition calc_cv_vector (ords : list Z) (intfs : list Z) (mvs : list move)
           (lm1 : option Z) (cap : option Z) (minus : bool) : option (list Z) :=
  match ords with
  | [] => None
  | o :: r =>
      let pmax := list_max o r in
      if minus then
        match lm1 with
        | Some l => Some [if l <=? pmax then 1 else 0]
        | None => match intfs with
                  | i0 :: _ => Some [if i0 <=? pmax then 1 else 0]
                  | [] => None
                  end
        end
      else
        match intfs with
        | [] => Some [0]
        | i0 :: _ =>
            let capv := match cap with Some c => c | None => last intfs i0 end in
            cv_plus ords pmax i0 capv intfs (tl mvs)
        end
  end.

(* high_acc_swap: p_swap_acc = c1_new*c2_new/(c1_old*c2_old), 1 when a denominator is 0;
   accept iff rand < p *)
Definition high_acc_ratio (c1_old c2_old c1_new c2_new : Z) : Q :=
  if (c1_old =? 0) || (c2_old =? 0) then 1%Q
  else Qmake (c1_new * c2_new * Z.sgn (c1_old * c2_old)) (Z.to_pos (Z.abs (c1_old * c2_old))).

Definition high_acc_accept (rand : Q) (c1_old c2_old c1_new c2_new : Z) : bool :=
  negb (Qle_bool (high_acc_ratio c1_old c2_old c1_new c2_new) rand).
