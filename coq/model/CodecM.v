(* Executable model of the codecs of infretis/classes/engines (property C19).  No proofs here.

   Text is a list of code points ([str] = list Z), a file is either a flat [str] or a list
   of lines (each line *including* its terminating "\n" when it has one).  Numbers are exact
   rationals: the value handed to Python's "{:W.Df}".format is the exact binary value of the
   float, and what float() returns is the double nearest to the exact decimal the model
   computes (that last rounding is outside the model: trusted, checked per value by the
   harness).

   Modelled here
   A. "{:W.Df}".format(x) = [print_fixed W D nz x] and float(s) on plain decimal literals =
      [parse_fixed s]; the g96 atom line (label + fixed-width fields, read back by slicing
      at _pos + k*_len) and box line; the xyz atom line (name + " field"s, read back by
      split()).  All widths / precisions / slice constants come from gen/ParamsC19.v.
   B. gromacs.swap_integer, struct-unpacking of 32-bit integers for both byte orders,
      read_trr_header, is_double, read_trr_data / skip_trr_data on byte lists.
   C. the template editors: EngineBase._modify_input / _read_input_settings (mdp),
      cp2k.update_node's data-line editing (the repaired version: a None value always
      prints the bare key, and a dict handed to a new node is formatted like an update),
      lammps.write_for_run (token level).
   D. reverse-velocities on a configuration record; frame extraction (xyz snapshot state
      machine on lines; lammpstrj block arithmetic; TRR frame walk).

   Abstracted: unicode beyond ASCII white space / digits; "\r" newline translation;
   exponent / inf / nan / underscore float literals ([parse_fixed] answers None for them);
   IEEE decoding of the 4/8-byte reals of a TRR file (kept as byte groups in big-endian
   order); LAMMPS: [lmp_write_for_run] is the whole-word substitution the property asks for,
   [lmp_impl_write_for_run] the code as written (`str.replace` inside every word of a line
   one of whose words is the variable); they agree on [lmp_line_clean] lines (CodecP). *)
From Coq Require Import ZArith QArith List Bool Lia.
Import ListNotations.
From Inf Require Import gen.ParamsC19.
Open Scope Z_scope.

Definition str := list Z.

Definition c_nl : Z := 10.
Definition c_sp : Z := 32.
Definition c_plus : Z := 43.
Definition c_minus : Z := 45.
Definition c_dot : Z := 46.
Definition c_zero : Z := 48.
Definition c_eq : Z := 61.

(* str.isspace on ASCII: \t \n \v \f \r, \x1c..\x1f, space *)
Definition is_space (c : Z) : bool :=
  (c =? 32) || ((9 <=? c) && (c <=? 13)) || ((28 <=? c) && (c <=? 31)).
Definition is_digit (c : Z) : bool := (48 <=? c) && (c <=? 57).

Definition is_nil {A} (l : list A) : bool := match l with [] => true | _ => false end.

Fixpoint str_eqb (a b : str) : bool :=
  match a, b with
  | [], [] => true
  | x :: a', y :: b' => (x =? y) && str_eqb a' b'
  | _, _ => false
  end.

Fixpoint lstrip (s : str) : str :=
  match s with
  | c :: r => if is_space c then lstrip r else s
  | [] => []
  end.
Definition rstrip (s : str) : str := rev (lstrip (rev s)).
Definition strip (s : str) : str := rstrip (lstrip s).

(* str.split(): maximal runs of non-space characters *)
Fixpoint tokens_aux (cur : str) (s : str) : list str :=
  match s with
  | [] => if is_nil cur then [] else [rev cur]
  | c :: r =>
    if is_space c then (if is_nil cur then tokens_aux [] r else rev cur :: tokens_aux [] r)
    else tokens_aux (c :: cur) r
  end.
Definition tokens (s : str) : list str := tokens_aux [] s.

(* ------------------------------------------------------------------ A. fixed point *)

Definition pow10 (k : nat) : Z := 10 ^ Z.of_nat k.
Definition pow10p (k : nat) : positive := Z.to_pos (pow10 k).

(* nearest integer, ties to even *)
Definition rhe (q : Q) : Z :=
  let n := Qnum q in
  let d := Zpos (Qden q) in
  let f := n / d in
  let r2 := 2 * (n mod d) in
  if r2 <? d then f else if d <? r2 then f + 1 else if Z.even f then f else f + 1.

Definition scaled (d : nat) (x : Q) : Z := rhe (x * inject_Z (pow10 d)).
Definition round_d (d : nat) (x : Q) : Q := scaled d x # pow10p d.

(* exactly k decimal digits of n (mod 10^k), most significant first *)
Fixpoint fixed_digits (k : nat) (n : Z) : str :=
  match k with
  | O => []
  | S k' => fixed_digits k' (n / 10) ++ [c_zero + n mod 10]
  end.

Fixpoint ndigits_fuel (f : nat) (n : Z) : nat :=
  match f with
  | O => 1%nat
  | S f' => if n <? 10 then 1%nat else S (ndigits_fuel f' (n / 10))
  end.
Definition ndigits (n : Z) : nat := ndigits_fuel (S (Z.to_nat (Z.log2 n))) n.
Definition int_digits (n : Z) : str := fixed_digits (ndigits n) n.

Fixpoint digits_value (acc : Z) (s : str) : Z :=
  match s with
  | [] => acc
  | c :: r => digits_value (10 * acc + (c - c_zero)) r
  end.

Fixpoint span_digits (s : str) : str * str :=
  match s with
  | c :: r => if is_digit c then let '(a, b) := span_digits r in (c :: a, b) else ([], s)
  | [] => ([], [])
  end.

(* the sign Python prints: the sign bit of the float, so -0.0 and tiny negatives
   rounding to zero print "-0.000000000"; [nz] = "x is negative zero" *)
Definition is_neg (nz : bool) (x : Q) : bool := (Qnum x <? 0) || ((Qnum x =? 0) && nz).

Definition fixed_body (d : nat) (nz : bool) (x : Q) : str :=
  let N := Z.abs (scaled d x) in
  (if is_neg nz x then [c_minus] else []) ++ int_digits (N / pow10 d) ++
  (match d with O => [] | S _ => c_dot :: fixed_digits d N end).

Definition pad_left (w : nat) (s : str) : str := repeat c_sp (w - length s) ++ s.
Definition pad_right (w : nat) (s : str) : str := s ++ repeat c_sp (w - length s).

(* "{:w.df}".format(x) *)
Definition print_fixed (w d : nat) (nz : bool) (x : Q) : str := pad_left w (fixed_body d nz x).

(* number of characters the value needs; the field is exactly w wide iff needed <= w *)
Definition needed_len (d : nat) (nz : bool) (x : Q) : nat := length (fixed_body d nz x).
Definition width_guard (w d : nat) (nz : bool) (x : Q) : bool := (needed_len d nz x <=? w)%nat.

Definition parse_unsigned (u : str) : option Q :=
  let '(ip, rest) := span_digits u in
  match rest with
  | [] => if is_nil ip then None else Some (inject_Z (digits_value 0 ip))
  | c :: fp =>
    if (c =? c_dot) && forallb is_digit fp && negb (is_nil ip && is_nil fp)
    then Some (digits_value 0 (ip ++ fp) # pow10p (length fp)) else None
  end.

(* float(s) restricted to [ws] [+-] digits [. digits] [ws]; None = not such a literal *)
Definition parse_fixed (s : str) : option Q :=
  match strip s with
  | c :: r =>
    if c =? c_minus then option_map Qopp (parse_unsigned r)
    else if c =? c_plus then parse_unsigned r
    else parse_unsigned (c :: r)
  | [] => None
  end.

Definition slice (s : str) (i n : nat) : str := firstn n (skipn i s).

Definition num := (bool * Q)%type.   (* (negative-zero flag, value) *)
Definition print_num (w d : nat) (v : num) : str := print_fixed w d (fst v) (snd v).

(* ---- g96 atom line: _G96_FMT.format(label, x, y, z) without the final "\n" *)
Definition g96_write_line (label : str) (xs : list num) : str :=
  label ++ concat (map (print_num g96_w g96_d) xs).

(* range(start, stop, step) *)
Fixpoint range_fuel (f : nat) (i stop step : nat) : list nat :=
  match f with
  | O => []
  | S f' => if (i <? stop)%nat then i :: range_fuel f' (i + step) stop step else []
  end.
Definition g96_starts : list nat :=
  range_fuel (4 * g96_read_len) g96_read_pos (4 * g96_read_len) g96_read_len.

(* read_gromos96_file on one POSITION/VELOCITY line: (label, [float(slice)...]) *)
Definition g96_read_line (line : str) : str * list (option Q) :=
  let l := rstrip line in
  (firstn g96_read_pos l, map (fun i => parse_fixed (slice l i g96_read_len)) g96_starts).

(* box line: _G96_BOX_FMT / _G96_BOX_FMT_3 applied to the box ; read back with split() *)
Definition g96_write_box (xs : list num) : str := concat (map (print_num g96_box9_w g96_box9_d) xs).
Definition read_floats (line : str) : list (option Q) := map parse_fixed (tokens line).

(* ---- xyz atom line: _XYZ_BIG_VEL_FMT.format(name, x, y, z, vx, vy, vz) *)
Definition xyz_write_line (name : str) (xs : list num) : str :=
  pad_right xyzv_name_w name ++ concat (map (fun v => c_sp :: print_num xyzv_w xyzv_d v) xs).
Definition xyz_read_line (line : str) : option (str * list (option Q)) :=
  match tokens (strip line) with
  | [] => None
  | nm :: r => Some (nm, map parse_fixed r)
  end.
(* "Box: " + " ".join(f"{i:9.4f}") ; read with split() after "box:" *)
Fixpoint join_sp (l : list str) : str :=
  match l with
  | [] => []
  | [a] => a
  | a :: r => a ++ c_sp :: join_sp r
  end.
Definition xyz_write_box (xs : list num) : str := join_sp (map (print_num xyz_box_w xyz_box_d) xs).

(* ------------------------------------------------------------------ B. TRR *)

Definition swap_term (x : Z) (t : bool * Z * Z) : Z :=
  let '(l, s, m) := t in Z.land (if l then Z.shiftl x s else Z.shiftr x s) m.
Definition swap_integer (x : Z) : Z := fold_left Z.lor (map (swap_term x) swap_terms) 0.

Inductive endian := BE | LE.
Definition endian_eqb (a b : endian) : bool :=
  match a, b with BE, BE => true | LE, LE => true | _, _ => false end.
Definition order (e : endian) (bs : list Z) : list Z := match e with BE => bs | LE => rev bs end.

Definition u_of_be (bs : list Z) : Z := fold_left (fun a b => a * 256 + b) bs 0.
Definition signed32 (u : Z) : Z := if u <? 2 ^ 31 then u else u - 2 ^ 32.
(* two's-complement bytes of x, most significant first (struct.pack(">i", x)) *)
Definition byte (k : Z) (x : Z) : Z := (x / 2 ^ (8 * k)) mod 256.
Definition be32 (x : Z) : list Z := [byte 3 x; byte 2 x; byte 1 x; byte 0 x].

(* result of a read: value, EOFError (empty read), or another exception *)
Inductive res (A : Type) := Ok (a : A) | Eof | Bad.
Arguments Ok {A} a. Arguments Eof {A}. Arguments Bad {A}.
Definition bind {A B} (r : res A) (f : A -> res B) : res B :=
  match r with Ok a => f a | Eof => Eof | Bad => Bad end.

(* read_struct_buff: fileh.read(n); empty -> EOFError; short -> struct.error *)
Definition take (n : nat) (bs : list Z) : res (list Z * list Z) :=
  if is_nil (firstn n bs) then Eof
  else if (length bs <? n)%nat then Bad else Ok (firstn n bs, skipn n bs).

Fixpoint chunks (sz n : nat) (bs : list Z) : list (list Z) :=
  match n with
  | O => []
  | S n' => firstn sz bs :: chunks sz n' (skipn sz bs)
  end.

(* struct.unpack(f"{endian}{n}i") *)
Definition get_i32s (e : endian) (n : nat) (bs : list Z) : res (list Z * list Z) :=
  bind (take (4 * n) bs) (fun '(a, r) =>
    Ok (map (fun c => signed32 (u_of_be (order e c))) (chunks 4 n a), r)).
(* struct.unpack(f"{endian}{n}f"/"d"): each real kept as its bytes in big-endian order *)
Definition get_reals (e : endian) (sz n : nat) (bs : list Z) : res (list (list Z) * list Z) :=
  bind (take (sz * n) bs) (fun '(a, r) => Ok (map (order e) (chunks sz n a), r)).

Record trr_header := mkH {
  h_ints : list Z;        (* the 13 integers ir_size .. nre *)
  h_time : list Z;        (* bytes of "time", big-endian order *)
  h_lambda : list Z;
  h_endian : endian;
  h_double : bool }.

Definition geti (ints : list Z) (k : nat) : Z := nth k ints 0.

Fixpoint is_double_size (ints : list Z) (ks : list nat) : option Z :=
  match ks with
  | [] => Some 0
  | k :: r =>
    if geti ints k =? 0 then is_double_size ints r
    else if (k =? trr_i_box_size)%nat then Some (Z.quot (geti ints k) (trr_dim ^ 2))
    else if geti ints trr_i_natoms * trr_dim =? 0 then None   (* ZeroDivisionError *)
    else Some (Z.quot (geti ints k) (geti ints trr_i_natoms * trr_dim))
  end.
Definition is_double (ints : list Z) : option bool :=
  match is_double_size ints trr_double_keys with
  | None => None
  | Some size =>
    if (size =? trr_size_float) || (size =? trr_size_double) then Some (size =? trr_size_double)
    else None                                                    (* ValueError *)
  end.

Fixpoint until_zero (bs : list Z) : list Z :=
  match bs with [] => [] | b :: r => if b =? 0 then [] else b :: until_zero r end.

Definition real_size (double : bool) : nat :=
  Z.to_nat (if double then trr_size_double else trr_size_float).

Definition decode_header (bs : list Z) : res (trr_header * list Z) :=
  bind (get_i32s BE 1 bs) (fun '(m, r1) =>
  (* a magic that is wrong in both byte orders is only logged *)
  let e := if geti m 0 =? trr_magic then BE else LE in
  bind (get_i32s e 2 r1) (fun '(slen, r2) =>
  if geti slen 0 - 1 <? 0 then Bad else
  bind (take (Z.to_nat (geti slen 0 - 1)) r2) (fun '(raw, r3) =>
  if negb (str_eqb (until_zero raw) trr_version) then Bad else
  bind (get_i32s e trr_nints r3) (fun '(ints, r4) =>
  match is_double ints with
  | None => Bad
  | Some dbl =>
    bind (get_reals e (real_size dbl) 2 r4) (fun '(tl, r5) =>
      Ok (mkH ints (nth 0 tl []) (nth 1 tl []) e dbl, r5))
  end)))).

Definition encode_header (h : trr_header) : list Z :=
  let e := h_endian h in
  order e (be32 trr_magic) ++ order e (be32 (Z.of_nat (length trr_version) + 1)) ++
  order e (be32 (Z.of_nat (length trr_version))) ++ trr_version ++
  concat (map (fun i => order e (be32 i)) (h_ints h)) ++ order e (h_time h) ++ order e (h_lambda h).

(* read_trr_data: box, vir, pres (DIM*DIM reals each) then x, v, f (natoms*DIM each),
   each present iff its size field is non-zero *)
Definition trr_blocks (ints : list Z) : list (nat * nat) :=   (* (size-field index, number of reals) *)
  let m := Z.to_nat (trr_dim * trr_dim) in
  let c := Z.to_nat (geti ints trr_i_natoms * trr_dim) in
  [(trr_i_box_size, m); (trr_i_vir_size, m); (trr_i_pres_size, m);
   (trr_i_x_size, c); (trr_i_v_size, c); (trr_i_f_size, c)].

Fixpoint decode_blocks (e : endian) (sz : nat) (ints : list Z) (bl : list (nat * nat)) (bs : list Z)
  : res (list (option (list (list Z))) * list Z) :=
  match bl with
  | [] => Ok ([], bs)
  | (k, n) :: r =>
    if geti ints k =? 0 then
      bind (decode_blocks e sz ints r bs) (fun '(out, rest) => Ok (None :: out, rest))
    else
      bind (get_reals e sz n bs) (fun '(v, bs') =>
      bind (decode_blocks e sz ints r bs') (fun '(out, rest) => Ok (Some v :: out, rest)))
  end.
Definition decode_data (h : trr_header) (bs : list Z) :=
  decode_blocks (h_endian h) (real_size (h_double h)) (h_ints h) (trr_blocks (h_ints h)) bs.

Definition encode_blocks (e : endian) (data : list (option (list (list Z)))) : list Z :=
  concat (map (fun b => match b with None => [] | Some v => concat (map (order e) v) end) data).

(* skip_trr_data: seek over the sum of the six size fields *)
Definition data_size (ints : list Z) : Z := fold_right Z.add 0 (map (geti ints) trr_data_items).

Definition decode_frame (bs : list Z) :=
  bind (decode_header bs) (fun '(h, r) =>
  bind (decode_data h r) (fun '(d, r') => Ok (h, d, r'))).
Definition encode_frame (h : trr_header) (d : list (option (list (list Z)))) : list Z :=
  encode_header h ++ encode_blocks (h_endian h) d.

(* read_trr_frame(file, index): walk over headers, skipping data by the size fields *)
Fixpoint trr_frame_at (fuel : nat) (idx : nat) (bs : list Z)
  : option (trr_header * list (option (list (list Z)))) :=
  match fuel with
  | O => None
  | S f =>
    match decode_header bs with
    | Ok (h, r) =>
      match idx with
      | O => match decode_data h r with Ok (d, _) => Some (h, d) | _ => None end
      | S i => trr_frame_at f i (skipn (Z.to_nat (data_size (h_ints h))) r)
      end
    | _ => None
    end
  end.

(* ------------------------------------------------------------------ C. template editors *)

Fixpoint lookup {V} (k : str) (kv : list (str * V)) : option V :=
  match kv with
  | [] => None
  | (k', v) :: r => if str_eqb k k' then Some v else lookup k r
  end.
Definition mem_str (k : str) (l : list str) : bool := existsb (str_eqb k) l.

(* generic "replace the value of known keys, append the missing ones" editor.
   [fin] is applied to the last line when something is appended (mdp: terminate it). *)
Section Edit.
  Context {V : Type}.
  Variable key_of : str -> option str.
  Variable repl : str -> V -> str.          (* existing line with a requested key *)
  Variable newl : str -> V -> str.          (* line appended for a missing key *)
  Variable fin : str -> str.

  Definition edit1 (s : list (str * V)) (l : str) : str :=
    match key_of l with
    | Some k => match lookup k s with Some v => repl l v | None => l end
    | None => l
    end.
  Definition keys_of (ls : list str) : list str :=
    flat_map (fun l => match key_of l with Some k => [k] | None => [] end) ls.
  Definition missing (s : list (str * V)) (ls : list str) : list (str * V) :=
    filter (fun kv => negb (mem_str (fst kv) (keys_of ls))) s.
  Fixpoint map_last (ls : list str) : list str :=
    match ls with
    | [] => []
    | [l] => [fin l]
    | l :: r => l :: map_last r
    end.
  Definition edit_lines (s : list (str * V)) (ls : list str) : list str :=
    let body := map (edit1 s) ls in
    let miss := missing s ls in
    (if is_nil miss then body else map_last body) ++ map (fun kv => newl (fst kv) (snd kv)) miss.
End Edit.

(* ---- EngineBase._modify_input (delim "="), with the repair that a last line without
   "\n" is terminated before settings are appended *)
Fixpoint before_delim (s : str) : option str :=   (* re.match(r"(.*?)=", line).group(1) *)
  match s with
  | [] => None
  | c :: r =>
    if c =? c_eq then Some []
    else if c =? c_nl then None
    else option_map (cons c) (before_delim r)
  end.
Definition mdp_key (l : str) : option str := option_map strip (before_delim l).
Definition mdp_repl (l : str) (v : str) : str :=
  match before_delim l with
  | Some pre => pre ++ [c_eq; c_sp] ++ v ++ [c_nl]
  | None => l
  end.
Definition mdp_newl (k v : str) : str := k ++ [c_sp; c_eq; c_sp] ++ v ++ [c_nl].
Definition ends_nl (l : str) : bool := match rev l with c :: _ => c =? c_nl | [] => false end.
Definition mdp_fin (l : str) : str := if is_nil l || ends_nl l then l else l ++ [c_nl].
Definition mdp_edit_lines (s : list (str * str)) (ls : list str) : list str :=
  edit_lines mdp_key mdp_repl mdp_newl mdp_fin s ls.

(* iteration over a text file: lines keep their "\n" *)
Fixpoint split_lines_aux (cur : str) (s : str) : list str :=
  match s with
  | [] => if is_nil cur then [] else [rev cur]
  | c :: r => if c =? c_nl then rev (c :: cur) :: split_lines_aux [] r else split_lines_aux (c :: cur) r
  end.
Definition split_lines (s : str) : list str := split_lines_aux [] s.
Definition mdp_edit (s : list (str * str)) (text : str) : str :=
  concat (mdp_edit_lines s (split_lines text)).

(* _read_input_settings: key -> line.split("=")[1].strip(); later lines overwrite *)
Fixpoint until_eq (s : str) : str :=
  match s with [] => [] | c :: r => if c =? c_eq then [] else c :: until_eq r end.
Fixpoint after_eq (s : str) : str :=
  match s with [] => [] | c :: r => if c =? c_eq then r else after_eq r end.
Definition mdp_value (l : str) : str := strip (until_eq (after_eq l)).
Definition mdp_read (ls : list str) : list (str * str) :=
  flat_map (fun l => match mdp_key l with Some k => [(k, mdp_value l)] | None => [] end) ls.
(* dict semantics: the last binding wins *)
Definition mdp_get (k : str) (ls : list str) : option str := lookup k (rev (mdp_read ls)).

(* ---- cp2k.update_node, replace=False: data lines keyed by their first token *)
Definition first_token (l : str) : option str := hd_error (tokens l).
Definition cp2k_fmt (k : str) (v : option str) : str :=
  match v with None => k | Some v' => k ++ c_sp :: v' end.
Definition cp2k_repl (l : str) (v : option str) : str :=
  match first_token l with Some k => cp2k_fmt k v | None => l end.
Definition cp2k_update_data (data : list (str * option str)) (ls : list str) : list str :=
  edit_lines first_token cp2k_repl cp2k_fmt (fun l => l) data ls.
(* _add_node with a dict (repaired): same lines as updating an empty section *)
Definition cp2k_new_data (data : list (str * option str)) : list str :=
  map (fun kv => cp2k_fmt (fst kv) (snd kv)) data.
(* the unrepaired constructor keeps list(dict) = the keys only *)
Definition cp2k_new_data_unrepaired (data : list (str * option str)) : list str := map fst data.

(* ---- lammps.write_for_run on tokenised lines.  A line is a list of pieces; a piece is
   (is_token, text): white-space runs are kept verbatim. *)
Definition piece := (bool * str)%type.
Definition subst_piece (s : list (str * str)) (p : piece) : piece :=
  if fst p then match lookup (snd p) s with Some v => (true, v) | None => p end else p.
Definition lmp_subst_line (s : list (str * str)) (l : list piece) : list piece := map (subst_piece s) l.
Definition line_tokens (l : list piece) : list str := map snd (filter fst l).
Definition lmp_found (k : str) (ls : list (list piece)) : bool :=
  existsb (fun l => mem_str k (line_tokens l)) ls.
(* (output lines, variables never found -> ValueError when non-empty) *)
Definition lmp_write_for_run (s : list (str * str)) (ls : list (list piece))
  : list (list piece) * list str :=
  (map (lmp_subst_line s) ls, map fst (filter (fun kv => negb (lmp_found (fst kv) ls)) s)).

(* ---- lammps.write_for_run as it is written.  The code does not substitute tokens: per line
       spl = line.split()
       for var in input_settings: if var in spl: line = line.replace(var, str(value))
   i.e. a variable that is a WORD of the (original) line is replaced wherever it str_occurs as a
   SUBSTRING of the running text of that line, in dictionary order.  A word of a line is
   non-empty and free of white space, so an occurrence never spans a white-space piece:
   str.replace on the line is str.replace inside every token piece. *)
Fixpoint str_starts (k t : str) : bool :=
  match k, t with
  | [], _ => true
  | x :: k', y :: t' => (x =? y) && str_starts k' t'
  | _ :: _, [] => false
  end.
(* str.replace(k, v) for a non-empty k: left to right, non-overlapping; [skip] = characters
   of the current match still to be dropped *)
Fixpoint str_replace (k v : str) (skip : nat) (t : str) : str :=
  match t with
  | [] => []
  | c :: t' =>
    match skip with
    | S n => str_replace k v n t'
    | O => if str_starts k t then v ++ str_replace k v (length k - 1) t' else c :: str_replace k v O t'
    end
  end.
(* `k in t` on strings *)
Fixpoint str_occurs (k t : str) : bool :=
  match t with
  | [] => is_nil k
  | _ :: t' => str_starts k t || str_occurs k t'
  end.
Definition repl_piece (k v : str) (p : piece) : piece :=
  if fst p then (true, str_replace k v O (snd p)) else p.
(* one iteration of the inner loop; [T] = spl, the words of the line as read *)
Definition lmp_impl_step (T : list str) (l : list piece) (kv : str * str) : list piece :=
  if mem_str (fst kv) T then map (repl_piece (fst kv) (snd kv)) l else l.
Definition lmp_impl_line (s : list (str * str)) (l : list piece) : list piece :=
  fold_left (lmp_impl_step (line_tokens l)) s l.
Definition lmp_impl_write_for_run (s : list (str * str)) (ls : list (list piece))
  : list (list piece) * list str :=
  (map (lmp_impl_line s) ls, map fst (filter (fun kv => negb (lmp_found (fst kv) ls)) s)).

(* the lines on which the code IS the whole-word substitution: when a variable that is a
   word of the line is applied, it str_occurs in no other word still standing and in no value
   written by an earlier variable of this line *)
Definition is_some {A} (o : option A) : bool := match o with Some _ => true | None => false end.
Fixpoint lmp_clean_from (T : list str) (done s : list (str * str)) : bool :=
  match s with
  | [] => true
  | kv :: s' =>
    (if mem_str (fst kv) T then
       negb (is_nil (fst kv))
       && forallb (fun t => str_eqb t (fst kv) || is_some (lookup t done) || negb (str_occurs (fst kv) t)) T
       && forallb (fun d => negb (mem_str (fst d) T) || negb (str_occurs (fst kv) (snd d))) done
     else true)
    && lmp_clean_from T (done ++ [kv]) s'
  end.
Definition lmp_line_clean (s : list (str * str)) (l : list piece) : bool :=
  lmp_clean_from (line_tokens l) [] s.

(* the variant `if var in line` (substring test instead of the word test) *)
Definition lmp_substr_step (l : list piece) (kv : str * str) : list piece :=
  if existsb (fun p => fst p && str_occurs (fst kv) (snd p)) l then map (repl_piece (fst kv) (snd kv)) l else l.
Definition lmp_substr_line (s : list (str * str)) (l : list piece) : list piece :=
  fold_left lmp_substr_step s l.

(* ------------------------------------------------------------------ D. records, frames *)

Record config := mkC {
  c_ids : list str;            (* atom names / labels / (id, type) *)
  c_pos : list (list Q);
  c_vel : list (list Q);
  c_box : list Q }.
Definition reverse_velocities (c : config) : config :=
  mkC (c_ids c) (c_pos c) (map (map Qopp) (c_vel c)) (c_box c).

(* read_txt_snapshots as a state machine over lines.  [count_of] = int(line.strip())
   (None = ValueError), kept abstract: the lines are opaque. *)
Section Snapshots.
  Context {L : Type}.
  Variable count_of : L -> option nat.
  Record snap := mkS { s_header : L; s_atoms : list L }.
  (* state: (read_header, lines_to_read, current snapshot (None = {}), emitted (reversed)) *)
  Inductive rd_state := RdS (read_header : bool) (to_read : nat) (cur : option snap) (out : list snap) | RdErr.
  Definition rd_step (st : rd_state) (l : L) : rd_state :=
    match st with
    | RdErr => RdErr
    | RdS true n _ out => RdS false n (Some (mkS l [])) out
    | RdS false O cur out =>
      match count_of l with
      | None => RdErr
      | Some n => RdS true n None (match cur with Some s => s :: out | None => out end)
      end
    | RdS false (S n) cur out =>
      RdS false n (match cur with Some s => Some (mkS (s_header s) (s_atoms s ++ [l])) | None => None end) out
    end.
  Definition read_snapshots (ls : list L) : option (list snap) :=
    match fold_left rd_step ls (RdS false O None []) with
    | RdErr => None
    | RdS _ _ cur out => Some (rev (match cur with Some s => s :: out | None => out end))
    end.
  (* CP2KEngine._extract_frame: the idx-th snapshot yielded *)
  Definition xyz_extract (ls : list L) (idx : nat) : option snap :=
    match read_snapshots ls with Some fs => nth_error fs idx | None => None end.
End Snapshots.

(* read_lammpstrj(file, frame, n): rows [bs*frame+5, +3) and [bs*frame+9, +n), bs = n+9 *)
Definition lmp_frame_rows {L} (ls : list L) (frame n : nat) : list L * list L :=
  let bs := (n + 9)%nat in
  (firstn 3 (skipn (bs * frame + 5) ls), firstn n (skipn (bs * frame + 9) ls)).

(* sort the atom rows by id: insertion sort (ids are distinct in a dump) *)
Fixpoint insert_by {A} (key : A -> Z) (a : A) (l : list A) : list A :=
  match l with
  | [] => [a]
  | b :: r => if key a <=? key b then a :: l else b :: insert_by key a r
  end.
Definition sort_by {A} (key : A -> Z) (l : list A) : list A := fold_right (insert_by key) [] l.

(* shift_boxbounds on exact numbers: positions minus lower bounds, lengths = hi - lo *)
Definition shift_boxbounds (xyz : list (list Q)) (box : list (Q * Q)) : list (list Q) * list Q :=
  (map (fun r => map (fun p => fst p - fst (snd p))%Q (combine r box)) xyz,
   map (fun b => snd b - fst b)%Q box).

(* ------------------------------------------------------------------ E. concrete instances
   (used by the correspondence runner; the theorems are stated over the generic parts) *)

(* int(line.strip()) for plain unsigned digit strings; anything else = ValueError *)
Definition count_of_str (l : str) : option nat :=
  let s := strip l in
  if negb (is_nil s) && forallb is_digit s then Some (Z.to_nat (digits_value 0 s)) else None.

(* frame idx of an xyz trajectory: (header.strip(), [(name, floats)] per atom line) *)
Definition xyz_frame (ls : list str) (idx : nat) : option (str * list (option (str * list (option Q)))) :=
  option_map (fun s => (strip (s_header s), map xyz_read_line (s_atoms s)))
             (xyz_extract count_of_str ls idx).

(* get_box_from_header: low = header.lower(); low.split("box:")[1].strip().split() *)
Definition lower (c : Z) : Z := if (65 <=? c) && (c <=? 90) then c + 32 else c.
Fixpoint is_prefix (p s : str) : bool :=
  match p, s with
  | [], _ => true
  | a :: p', b :: s' => (a =? b) && is_prefix p' s'
  | _ :: _, [] => false
  end.
(* text after the first occurrence of p (None = p does not occur) *)
Fixpoint after_sub (p s : str) : option str :=
  match s with
  | [] => None
  | c :: r => if is_prefix p s then Some (skipn (length p) s) else after_sub p r
  end.
(* text before the first occurrence of p (all of s when p does not occur) *)
Fixpoint before_sub (p s : str) : str :=
  match s with
  | [] => []
  | c :: r => if is_prefix p s then [] else c :: before_sub p r
  end.
Definition box_tag : str := [98; 111; 120; 58].   (* "box:" *)
Definition xyz_header_box (h : str) : option (list (option Q)) :=
  match after_sub box_tag (map lower h) with
  | None => None
  | Some r => Some (read_floats (before_sub box_tag r))
  end.

(* read_lammpstrj on rows tagged (id, line number): the three box rows and the atom rows
   sorted by id *)
Definition lmp_read_rows (rows : list (Z * nat)) (frame n : nat) : list nat * list nat :=
  let '(b, a) := lmp_frame_rows rows frame n in (map snd b, map snd (sort_by fst a)).

(* ------------------------------------------------------------------ F. CP2K section trees
   (cp2k.py: SectionNode, read_cp2k_input, set_parents, update_node, _add_node, remove_node,
   dfs_print, update_cp2k_input).  Python keeps the sub-sections in a `set`, so sibling
   order is arbitrary there; here children are a list in creation order and results are
   compared modulo sibling order.  Every node carries the number of its creation (its
   identity).  With the repairs of proposed_fixes/C19_cp2k_dict_data.diff (see C above). *)

Inductive node := Node (nid : nat) (title : str) (setts : list str) (ndata : list str) (kids : list node).
Definition node_id (n : node) : nat := match n with Node i _ _ _ _ => i end.
Definition node_title (n : node) : str := match n with Node _ t _ _ _ => t end.
Definition node_setts (n : node) : list str := match n with Node _ _ s _ _ => s end.
Definition node_data (n : node) : list str := match n with Node _ _ _ d _ => d end.
Definition node_kids (n : node) : list node := match n with Node _ _ _ _ k => k end.

Definition c_amp : Z := 38.
Definition upper (c : Z) : Z := if (97 <=? c) && (c <=? 122) then c - 32 else c.
Definition s_end : str := [101; 110; 100].          (* "end" *)
Definition s_END : str := [38; 69; 78; 68; 32].     (* "&END " *)
Definition s_arrow : str := [45; 62].               (* "->" *)

(* ---- read_cp2k_input: a stack of open sections (innermost first) *)
Record rd_cp2k := mkR { r_next : nat; r_stack : list node; r_roots : list node }.
Definition add_kid_top (c : node) (st : list node) (roots : list node) : list node * list node :=
  match st with
  | [] => ([], roots ++ [c])
  | Node i t s d k :: rest => (Node i t s d (k ++ [c]) :: rest, roots)
  end.
(* None = the Python code crashes (AttributeError on "&END" without an open section,
   IndexError on a bare "&") *)
Definition cp2k_line (st : rd_cp2k) (line : str) : option rd_cp2k :=
  let l := strip line in
  match l with
  | [] => Some st
  | c :: r =>
    if c =? c_amp then
      if is_prefix s_end (map lower r) then
        match r_stack st with
        | [] => None
        | top :: rest => let '(stk, roots) := add_kid_top top rest (r_roots st) in Some (mkR (r_next st) stk roots)
        end
      else
        match tokens r with
        | [] => None
        | t :: ss => Some (mkR (S (r_next st)) (Node (r_next st) (map upper t) ss [] [] :: r_stack st) (r_roots st))
        end
    else
      match r_stack st with
      | [] => Some st
      | Node i t s d k :: rest => Some (mkR (r_next st) (Node i t s (d ++ [l]) k :: rest) (r_roots st))
      end
  end.
Fixpoint cp2k_lines (st : rd_cp2k) (ls : list str) : option rd_cp2k :=
  match ls with
  | [] => Some st
  | l :: r => match cp2k_line st l with Some st' => cp2k_lines st' r | None => None end
  end.
(* sections still open at the end of the file stay in the tree *)
Fixpoint close_into (c : node) (rest : list node) (roots : list node) : list node :=
  match rest with
  | [] => roots ++ [c]
  | Node i t s d k :: rest' => close_into (Node i t s d (k ++ [c])) rest' roots
  end.
Definition close_all (stk : list node) (roots : list node) : list node :=
  match stk with
  | [] => roots
  | top :: rest => close_into top rest roots
  end.
Definition cp2k_read (ls : list str) : option (nat * list node) :=
  match cp2k_lines (mkR 0 [] []) ls with
  | Some st => Some (r_next st, close_all (r_stack st) (r_roots st))
  | None => None
  end.

(* ---- dfs_print / the file written by update_cp2k_input (lines without "\n") *)
Fixpoint print_node (lvl : nat) (n : node) : list str :=
  match n with
  | Node _ t s d k =>
    let pre := repeat c_sp (2 * lvl) in
    (pre ++ c_amp :: t ++ (if is_nil s then [] else c_sp :: join_sp s)) ::
    map (fun l => pre ++ c_sp :: c_sp :: l) d ++
    flat_map (print_node (S lvl)) k ++
    [pre ++ s_END ++ t]
  end.
Fixpoint cp2k_print (roots : list node) : list str :=
  match roots with
  | [] => []
  | n :: r => print_node 0 n ++ (match r with [] => [] | _ :: _ => [] :: cp2k_print r end)
  end.

(* ---- set_parents: the dictionary path -> node *)
Fixpoint join_with (sep : str) (l : list str) : str :=
  match l with
  | [] => []
  | [a] => a
  | a :: r => a ++ sep ++ join_with sep r
  end.
Definition refd := list (str * (nat * list str)).     (* key -> (node id, its settings) *)
Fixpoint dict_remove {V} (k : str) (d : list (str * V)) : list (str * V) :=
  match d with
  | [] => []
  | (k', v) :: r => if str_eqb k k' then dict_remove k r else (k', v) :: dict_remove k r
  end.
Definition dict_set {V} (k : str) (v : V) (d : list (str * V)) : list (str * V) := dict_remove k d ++ [(k, v)].
(* two sections with the same path are told apart by their settings *)
Definition ref_add (d : refd) (par : str) (i : nat) (ss : list str) : refd :=
  match lookup par d with
  | Some (pi, ps) =>
    dict_set (par ++ s_arrow ++ join_sp ss) (i, ss)
      (dict_set (par ++ s_arrow ++ join_sp ps) (pi, ps) (dict_remove par d))
  | None => dict_set par (i, ss) d
  end.
(* nodes in depth-first pre-order with their title paths *)
Fixpoint walk (path : list str) (n : node) : list (list str * nat * list str) :=
  match n with
  | Node i t s _ k => (path ++ [t], i, s) :: flat_map (walk (path ++ [t])) k
  end.
Definition cp2k_refs (roots : list node) : refd :=
  fold_left (fun d e => let '(p, i, s) := e in ref_add d (join_with s_arrow p) i s)
            (flat_map (walk []) roots) [].

(* ---- tree surgery by node identity *)
Fixpoint upd_node (i : nat) (g : list str * list str -> list str * list str) (n : node) : node :=
  match n with
  | Node j t s d k =>
    let k' := map (upd_node i g) k in
    if (j =? i)%nat then let '(s', d') := g (s, d) in Node j t s' d' k' else Node j t s d k'
  end.
Fixpoint add_kid (i : nat) (c : node) (n : node) : node :=
  match n with
  | Node j t s d k =>
    let k' := map (add_kid i c) k in
    if (j =? i)%nat then Node j t s d (k' ++ [c]) else Node j t s d k'
  end.
Fixpoint del_node (i : nat) (n : node) : list node :=
  match n with
  | Node j t s d k => if (j =? i)%nat then [] else [Node j t s d (flat_map (del_node i) k)]
  end.

(* target.split("->") *)
Fixpoint split_sub_fuel (f : nat) (sep s : str) : list str :=
  match f with
  | O => [s]
  | S f' =>
    match after_sub sep s with
    | None => [s]
    | Some r => before_sub sep s :: split_sub_fuel f' sep r
    end
  end.
Definition split_sub (sep s : str) : list str := split_sub_fuel (length s) sep s.

Record cp2k_state := mkT { t_next : nat; t_roots : list node; t_refs : refd }.

(* _add_node; None = KeyError (cannot happen: the parent is created first) *)
Fixpoint add_node_fuel (f : nat) (target : str) (ss dl : list str) (st : cp2k_state) : option cp2k_state :=
  match f with
  | O => None
  | S f' =>
    let parts := split_sub s_arrow target in
    match parts with
    | [] | [_] =>
      Some (mkT (S (t_next st)) (t_roots st ++ [Node (t_next st) target ss dl []])
                (dict_set target (t_next st, ss) (t_refs st)))
    | _ =>
      let par := join_with s_arrow (removelast parts) in
      let st1 := match lookup par (t_refs st) with
                 | Some _ => Some st
                 | None => add_node_fuel f' par [] [] st
                 end in
      match st1 with
      | None => None
      | Some st1 =>
        match lookup par (t_refs st1) with
        | None => None
        | Some (pid, _) =>
          let c := Node (t_next st1) (last parts []) ss dl [] in
          Some (mkT (S (t_next st1)) (map (add_kid pid c) (t_roots st1))
                    (dict_set target (t_next st1, ss) (t_refs st1)))
        end
      end
    end
  end.

(* one entry of the `update` dictionary.  [u_dict] says whether "data" is a dict
   ([u_data]) or an already formatted list ([u_lines]). *)
Record cp2k_upd := mkU {
  u_target : str; u_setts : list str; u_replace : bool;
  u_dict : bool; u_data : list (str * option str); u_lines : list str }.

Definition cp2k_update1 (st : cp2k_state) (u : cp2k_upd) : option cp2k_state :=
  match lookup (u_target u) (t_refs st) with
  | None =>
    add_node_fuel (S (length (u_target u))) (u_target u) (u_setts u)
                  (if u_dict u then cp2k_new_data (u_data u) else u_lines u) st
  | Some (i, _) =>
    let g := fun sd : list str * list str =>
      let '(s, d) := sd in
      if u_replace u then (u_setts u, if u_dict u then map fst (u_data u) else u_lines u)
      else (s ++ u_setts u, cp2k_update_data (u_data u) d) in
    Some (mkT (t_next st) (map (upd_node i g) (t_roots st)) (t_refs st))
  end.
Definition cp2k_remove1 (st : cp2k_state) (target : str) : cp2k_state :=
  match lookup target (t_refs st) with
  | None => st
  | Some (i, _) => mkT (t_next st) (flat_map (del_node i) (t_roots st)) (dict_remove target (t_refs st))
  end.
Fixpoint cp2k_updates (st : cp2k_state) (us : list cp2k_upd) : option cp2k_state :=
  match us with
  | [] => Some st
  | u :: r => match cp2k_update1 st u with Some st' => cp2k_updates st' r | None => None end
  end.
(* update_cp2k_input(template, output, update, remove) on lines *)
Definition cp2k_apply (ls : list str) (us : list cp2k_upd) (rm : list str) : option (list str) :=
  match cp2k_read ls with
  | None => None
  | Some (next, roots) =>
    match cp2k_updates (mkT next roots (cp2k_refs roots)) us with
    | None => None
    | Some st => Some (cp2k_print (t_roots (fold_left cp2k_remove1 rm st)))
    end
  end.

(* ------------------------------------------------------------------ G. extraction histories
   EngineBase.dump_config -> <Engine>._extract_frame(traj_file, idx, out_file) seen as an
   operation on the worker directory.  A directory maps file names (numbers) to the list of
   frames the file holds; a file without any complete frame (empty, unparsable) holds [].
   Every engine opens the output for WRITING (CP2K / TurtleMD: write_xyz_trajectory(...,
   append=False); LAMMPS: write_lammpstrj (append defaults to False); GROMACS:
   write_gromos96_file / shutil.copyfile; ASE: ase.io.write), so whatever the output held
   before is gone:  extract files src k out = files[out := [frame k of src]].
   The source is read before the output is opened (CP2K / TurtleMD return right after the
   write, so nothing is read from a truncated source), hence src = out is covered too.
   None = the source does not exist or has no frame k (the engines log an error or raise:
   outside the claim). *)
Section ExtractHistory.
  Context {F : Type}.
  Definition fx_dir := list (nat * list F).
  Fixpoint fx_get (d : fx_dir) (n : nat) : option (list F) :=
    match d with
    | [] => None
    | (m, c) :: r => if (m =? n)%nat then Some c else fx_get r n
    end.
  (* open(name, "w") + write: replace the content, or create the file *)
  Fixpoint fx_set (d : fx_dir) (n : nat) (c : list F) : fx_dir :=
    match d with
    | [] => [(n, c)]
    | (m, c0) :: r => if (m =? n)%nat then (m, c) :: r else (m, c0) :: fx_set r n c
    end.
  Definition fx_frame (d : fx_dir) (src k : nat) : option F :=
    match fx_get d src with Some fs => nth_error fs k | None => None end.
  Definition fx_extract (d : fx_dir) (src k out : nat) : option fx_dir :=
    option_map (fun f => fx_set d out [f]) (fx_frame d src k).
  (* the engines' _read_configuration / _reverse_velocities take the FIRST snapshot *)
  Definition fx_read (d : fx_dir) (n : nat) : option F :=
    match fx_get d n with Some (f :: _) => Some f | _ => None end.

  Record fx_op := mkOp { o_src : nat; o_k : nat; o_out : nat }.
  Definition fx_step (d : fx_dir) (o : fx_op) : option fx_dir := fx_extract d (o_src o) (o_k o) (o_out o).
  Fixpoint fx_run (d : fx_dir) (ops : list fx_op) : option fx_dir :=
    match ops with
    | [] => Some d
    | o :: r => match fx_step d o with Some d' => fx_run d' r | None => None end
    end.
  (* the directory after every operation (for the correspondence runner) *)
  Fixpoint fx_trace (d : fx_dir) (ops : list fx_op) : list (option fx_dir) :=
    match ops with
    | [] => []
    | o :: r => match fx_step d o with
                | Some d' => Some d' :: fx_trace d' r
                | None => [None]
                end
    end.

  (* the variant that opens the output for APPENDING (what write_xyz_trajectory does by
     default): refuted in proofs/CodecP.v *)
  Definition fx_extract_append (d : fx_dir) (src k out : nat) : option fx_dir :=
    option_map (fun f => fx_set d out (match fx_get d out with Some c => c ++ [f] | None => [f] end))
               (fx_frame d src k).
  Fixpoint fx_run_append (d : fx_dir) (ops : list fx_op) : option fx_dir :=
    match ops with
    | [] => Some d
    | o :: r => match fx_extract_append d (o_src o) (o_k o) (o_out o) with
                | Some d' => fx_run_append d' r
                | None => None
                end
    end.
End ExtractHistory.
Arguments fx_dir F : clear implicits.
