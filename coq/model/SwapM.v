(* Executable model of the [0-] <-> [0+] swap moves of infretis/core/tis.py:
   retis_swap_zero (with high_acc_swap), quantis_swap_zero, and the dispatch in
   select_shoot.  Literal translation: same branches, same comparison operators, same
   order of effects.  No proofs here.

   External things are inputs:
   * the MD engines: [streams] — the k-th call of propagate (in call order) returns the
     frames of the k-th list, the first element being the frame the engine emits for the
     initial phase point; WHICH engine object the k-th call is made on (engine0 =
     engines[-1][0] of [0-], engine1 = engines[0][0] of [0+]) is part of the model's answer
     ([c_eng] of the k-th [call]) and is compared with the implementation; section
     [Reversible2] below instantiates the streams with two different dynamics accordingly;
     the stop rule applied to the
     list is MovesM.propagate_fixed (= EngineBase.add_to_path as it is now, with
     "if path.length == path.maxlen and not success": a frame that crosses an interface is a
     success also when it is the maxlen-th frame);
   * dump_phasepoint: [dumpf label tag] is the config a dumped copy points to;
   * random numbers: [draws], consumed left to right;
   * energies: [vpot_of tag] is the potential energy stored with the frame of that tag
     (None = no energy); exp: [expf];  engine0.beta / engine1.beta: rationals;
   * the two length limits: e_maxlen e0 = picked[-1]["ens"]["tis_set"]["maxlength"] (maxlen0 in
     the code) and e_maxlen e1 = picked[0]["ens"]["tis_set"]["maxlength"] (maxlen1) are
     independent inputs.  Each new path is sized and measured by its OWN ensemble's limit:
     retis_swap_zero: maxlen0 - 1 sizes the backward container, maxlen0 the new [0-] path and its
     BTX test (==); maxlen1 - 1 the forward container, maxlen1 the new [0+] path and its FTX test
     (>=).  quantis_swap_zero: maxlen0 for everything of the new [0-] path, maxlen1 (read from
     ens_set1) for everything of the new [0+] path.
     This is the code AFTER proposed_fixes/C11_zero_swap_own_limits.diff.  The code before that
     repair is kept behind the boolean [fixed] of retis_path0_g / retis_swap_zero_g /
     quantis_complete_g / quantis_swap_zero_g / select_swap_g: [fixed = false] sizes the
     backward container of retis_swap_zero with maxlen1 - 1 ("path_tmp =
     path_old1.empty_path(maxlen=maxlen1 - 1)") and lets quantis_swap_zero read the [0-] limit
     for both paths ("maxlen1 = ens_set0["tis_set"]["maxlength"]"); retis_swap_zero,
     quantis_swap_zero, select_swap (what every theorem but the two ..._before_fix_refuted
     witnesses is about) are the [true] instances.
   -inf as the left interface of [0-] is represented by any integer below every order value
   of the case (see [neg_inf_for]); the comparisons the code makes with -inf then have the
   same outcome.
   Python exceptions (IndexError on a missing frame, AssertionError in get_start_point /
   get_end_point, TypeError on a missing energy) are the outcome [OErr ERaise]; a stream
   that ends before the stop rule fires is [OErr EExhausted].
   Path attributes not modelled: generated, path_number, weights. Object identities: every
   new object gets oid 0 (aliasing is the subject of C15, not of C11). *)
From Coq Require Import ZArith QArith List Bool Lia.
Import ListNotations.
From Inf Require Import model.PathM model.EngineM model.WeightM.
From Inf Require model.MovesM.     (* not imported: only the repaired stop rule is used *)
Open Scope Z_scope.

Inductive status :=
| SEmpty            (* ""  : Path() default *)
| BTX | BTS | ZML   (* "0-L" *) | ACC | FTX | FTS | HAS
| QNE | QLL | QS0 | QS1 | QEA | QRS (* "QR*" *) | QLR | ZPR (* "0+R" *).

Definition is_acc (s : status) : bool := match s with ACC => true | _ => false end.

(* ensemble dict: interfaces triple, start_cond as a set of letters, mc_move, and the
   entries of tis_set the swap reads *)
Record ens := mkEns {
  e_i0 : Z; e_i1 : Z; e_i2 : Z;
  e_scL : bool;            (* "L" in start_cond *)
  e_scR : bool;            (* "R" in start_cond *)
  e_move : move;
  e_maxlen : nat;          (* tis_set["maxlength"] *)
  e_cap : option Z;        (* tis_set.get("interface_cap") *)
  e_accept_all : bool      (* tis_set["accept_all"] *)
}.

(* a path object as the swap returns it *)
Record spath := mkSP { sp_path : path; sp_status : status; sp_weight : Z }.

Inductive dlabel := DSecond | DSecondLast.

(* the engine object a propagate call is made on: engines[-1][0] (the [0-] engine, engine0 in
   the code) or engines[0][0] (the [0+] engine, engine1).  With one [engine] section they are
   the same object; with simulation.ensemble_engines they are different dynamics. *)
Inductive eng := E0 | E1.

Record call := mkCall {
  c_eng : eng;         (* the engine object whose propagate was called *)
  c_init : frame;      (* the phase point handed to propagate *)
  c_rev : bool;        (* reverse= *)
  c_left : Z; c_right : Z; c_maxlen : nat;
  c_used : nat         (* frames the engine produced before the stop rule fired *)
}.

Inductive err := ERaise | EExhausted.

Inductive outcome :=
| Out (accept : bool) (p0 p1 : spath) (st : status) (calls : list call) (ndraws : nat)
| OErr (e : err).

Inductive res (A : Type) := Ok (a : A) | Err (e : err).
Arguments Ok {A} a.
Arguments Err {A} e.

Definition intf_of (e : ens) : list Z := [e_i0 e; e_i1 e; e_i2 e].
Definition cap_or (c : option Z) (d : Z) : Z := match c with Some x => x | None => d end.
Definition is_R (s : side) : bool := match s with SR => true | _ => false end.
Definition opt_is_L (s : option side) : bool := match s with Some SL => true | _ => false end.
Definition opt_is_R (s : option side) : bool := match s with Some SR => true | _ => false end.

(* "L" in path.check_interfaces(interfaces)[:2]   (an empty path gives (None, None)) *)
Definition has_L_start_end (p : path) (e : ens) : bool :=
  match check_interfaces p (intf_of e) with
  | Some ci => opt_is_L (ci_start ci) || opt_is_L (ci_end ci)
  | None => false
  end.

(* set(start_cond) == {"L","R"} and check_interfaces(interfaces)[1] == "L" *)
Definition lm1_early (e0 : ens) (p : path) : bool :=
  e_scL e0 && e_scR e0 &&
  match check_interfaces p (intf_of e0) with
  | Some ci => opt_is_L (ci_end ci)
  | None => false
  end.

Definition first_frame (p : path) : option frame := nth_error (pts p) 0.
Definition second_frame (p : path) : option frame := nth_error (pts p) 1.
Definition last_frame (p : path) : option frame := nth_error (rev (pts p)) 0.      (* [-1] *)
Definition last2_frame (p : path) : option frame := nth_error (rev (pts p)) 1.     (* [-2] *)

(* engine.propagate(path, ens_set, system, reverse): next stream, current stop rule *)
Definition engine_call (who : eng) (p : path) (streams : list (list frame)) (init : frame) (rv : bool)
           (l r : Z) : res (path * list (list frame) * call) :=
  match streams with
  | [] => Err EExhausted
  | [] :: _ => Err EExhausted
  | (f :: tl) :: rest =>
      match MovesM.propagate_fixed p f tl l r with
      | PR p' _ n => Ok (p', rest, mkCall who init rv l r (maxlen p) n)
      | PRExhausted _ => Err EExhausted
      | PRError => Err ERaise
      end
  end.

Definition orders_of (p : path) : list Z := orders p.

Section Swap.
Variable dumpf : dlabel -> Z -> Z.

(* phase_point = x.copy(); engine.dump_phasepoint(phase_point, label) *)
Definition dump (lab : dlabel) (f : frame) : frame :=
  mkF (ford f) (dumpf lab (ftag f)) (frev f) 0%nat.

(* ------------------------------------------------------------------ retis_swap_zero *)

(* 1. path for [0-] from [0+].  [fixed]: the backward container is sized with the [0-] limit
   (true, the code) / with the [0+] limit (false, the code before the repair) *)
Definition retis_path0_g (fixed : bool) (e0 e1 : ens) (allowed : bool) (old1 : path) (streams : list (list frame))
  : res (path * status * list (list frame) * list call) :=
  let maxlen0 := e_maxlen e0 in
  let maxlen1 := e_maxlen e1 in
  match first_frame old1 with
  | None => Err ERaise
  | Some f10 =>
    let shpt := copy_frame 0 f10 in
    let tmp := empty_path ((if fixed then maxlen0 else maxlen1) - 1) 0 in
    match (if allowed
           then match engine_call E0 tmp streams shpt true (e_i0 e0) (e_i2 e0) with
                | Ok (p, s, c) => Ok (p, s, [c])
                | Err e => Err e
                end
           else Ok (fst (append tmp shpt), streams, [])) with
    | Err e => Err e
    | Ok (path_tmp, streams1, calls) =>
      let path0 := fst (append_all (empty_path maxlen0 0) (rev (pts path_tmp))) in
      match second_frame old1 with
      | None => Err ERaise
      | Some f11 =>
        let path0 := fst (append path0 (dump DSecond f11)) in
        let st :=
          if (plen path0 =? maxlen0)%nat then BTX
          else if (plen path0 <? 3)%nat then BTS
          else if negb (e_scL e0) && has_L_start_end path0 e0 then ZML
          else ACC in
        Ok (path0, st, streams1, calls)
      end
    end
  end.

Definition retis_path0 : ens -> ens -> bool -> path -> list (list frame)
                         -> res (path * status * list (list frame) * list call) := retis_path0_g true.

(* 2. path for [0+] from [0-] *)
Definition retis_path1 (e0 e1 : ens) (allowed : bool) (old0 : path) (streams : list (list frame))
  : res (path * status * list (list frame) * list call) :=
  let maxlen1 := e_maxlen e1 in
  let tmp := empty_path (maxlen1 - 1) 0 in
  match last_frame old0 with
  | None => Err ERaise
  | Some f0l =>
    let system := copy_frame 0 f0l in
    match (if allowed
           then match engine_call E1 tmp streams system false (e_i0 e1) (e_i2 e1) with
                | Err e => Err e
                | Ok (path_tmp, s, c) =>
                    match last2_frame old0 with
                    | None => Err ERaise
                    | Some f0m2 =>
                        let path1 := fst (append (empty_path maxlen1 0) (dump DSecondLast f0m2)) in
                        Ok (iadd 0 path1 path_tmp, s, [c])
                    end
                end
           else Ok (fst (append tmp system), streams, [])) with
    | Err e => Err e
    | Ok (path1, streams1, calls) =>
      let st :=
        if (maxlen1 <=? plen path1)%nat then FTX
        else if (plen path1 <? 3)%nat then FTS
        else ACC in
      Ok (path1, st, streams1, calls)
    end
  end.

Definition is_wf (m : move) : bool := match m with Mwf => true | _ => false end.

(* intf_w[i]: the triple with the third entry replaced by interface_cap when present *)
Definition intf_w (e : ens) : Z * Z * Z := (e_i0 e, e_i1 e, cap_or (e_cap e) (e_i2 e)).

Definition cw (p : path) (w : Z * Z * Z) (m : move) : option Z :=
  let '(a, b, c) := w in compute_weight (orders p) a b c m.

(* path.weight = compute_weight(path, intf_w[i], move) if move in ("wf") else 1 *)
Definition final_weight (p : path) (e : ens) : option Z :=
  match e_move e with Mwf => cw p (intf_w e) Mwf | _ => Some 1 end.

(* high_acc_swap([path1, path_old1], rgen, intf_w[0], intf_w[1], ens_moves) *)
Definition high_acc_swap (path1 old1 : path) (e0 e1 : ens) (u : Q) : option (bool * status) :=
  match cw path1 (intf_w e0) (e_move e0), cw old1 (intf_w e1) (e_move e1),
        cw old1 (intf_w e0) (e_move e0), cw path1 (intf_w e1) (e_move e1) with
  | Some c1_old, Some c2_old, Some c1_new, Some c2_new =>
      if high_acc_accept u c1_old c2_old c1_new c2_new then Some (true, ACC) else Some (false, HAS)
  | _, _, _, _ => None
  end.

Definition retis_swap_zero_g (fixed : bool) (e0 e1 : ens) (old0 old1 : spath)
           (streams : list (list frame)) (draws : list Q) : outcome :=
  let p_old0 := sp_path old0 in
  let p_old1 := sp_path old1 in
  (* 0. allowed = path_old0.get_end_point(intf[0], intf[-1]) == "R" *)
  match end_point p_old0 (e_i0 e0) (e_i2 e0) with
  | None => OErr ERaise
  | Some ep =>
    let allowed := is_R ep in
    (* lambda_minus_one: reject early, before any propagation *)
    if lm1_early e0 p_old0 then Out false old0 old1 ZML [] 0
    else
    match retis_path0_g fixed e0 e1 allowed p_old1 streams with
    | Err e => OErr e
    | Ok (path0, st0, streams1, calls0) =>
    match retis_path1 e0 e1 allowed p_old0 streams1 with
    | Err e => OErr e
    | Ok (path1, st1, _, calls1) =>
      let calls := calls0 ++ calls1 in
      let accept := is_acc st0 && is_acc st1 in
      let stat := if accept then ACC else if is_acc st0 then st1 else st0 in
      (* high-acceptance swap when wire fencing is used *)
      match (if accept && (is_wf (e_move e0) || is_wf (e_move e1))
             then match draws with
                  | [] => Err ERaise
                  | u :: _ =>
                      match high_acc_swap path1 p_old1 e0 e1 u with
                      | Some (a, s) => Ok (a, s, 1%nat)
                      | None => Err ERaise
                      end
                  end
             else Ok (accept, stat, 0%nat)) with
      | Err e => OErr e
      | Ok (acc, stat, nd) =>
        let fix_st (s : status) := if negb acc && is_acc s then stat else s in
        match final_weight path0 e0, final_weight path1 e1 with
        | Some w0, Some w1 =>
            Out acc (mkSP path0 (fix_st st0) w0) (mkSP path1 (fix_st st1) w1) stat calls nd
        | _, _ => OErr ERaise
        end
      end
    end
    end
  end.

(* the code *)
Definition retis_swap_zero : ens -> ens -> spath -> spath -> list (list frame) -> list Q -> outcome :=
  retis_swap_zero_g true.
(* the code before proposed_fixes/C11_zero_swap_own_limits.diff: refuted by
   C11_swap_valid_limit_order_refuted *)
Definition retis_swap_zero_before_fix : ens -> ens -> spath -> spath -> list (list frame) -> list Q -> outcome :=
  retis_swap_zero_g false.

(* ------------------------------------------------------------------ variants of retis_swap_zero *)
(* NOT the code: the same two functions with the places a variant changes made parameters, so that
   theorems/C11.v can refute variants (proofs/SwapP.v shows by reflexivity that the code's values of
   the parameters give back retis_path1 / retis_swap_zero).
   [retis_path1_seg seg]: step 2 with the container handed to engine1.propagate allocated with
   [seg] frames; the code is seg = maxlen1 - 1 (one frame is kept free for old[0-][-2]). *)
Definition retis_path1_seg (seg : nat) (e0 e1 : ens) (allowed : bool) (old0 : path) (streams : list (list frame))
  : res (path * status * list (list frame) * list call) :=
  let maxlen1 := e_maxlen e1 in
  let tmp := empty_path seg 0 in
  match last_frame old0 with
  | None => Err ERaise
  | Some f0l =>
    let system := copy_frame 0 f0l in
    match (if allowed
           then match engine_call E1 tmp streams system false (e_i0 e1) (e_i2 e1) with
                | Err e => Err e
                | Ok (path_tmp, s, c) =>
                    match last2_frame old0 with
                    | None => Err ERaise
                    | Some f0m2 =>
                        let path1 := fst (append (empty_path maxlen1 0) (dump DSecondLast f0m2)) in
                        Ok (iadd 0 path1 path_tmp, s, [c])
                    end
                end
           else Ok (fst (append tmp system), streams, [])) with
    | Err e => Err e
    | Ok (path1, streams1, calls) =>
      let st :=
        if (maxlen1 <=? plen path1)%nat then FTX
        else if (plen path1 <? 3)%nat then FTS
        else ACC in
      Ok (path1, st, streams1, calls)
    end
  end.

(* retis_swap_zero with step 2 computed by [p1f] *)
Definition retis_swap_zero_with
           (p1f : ens -> ens -> bool -> path -> list (list frame) -> res (path * status * list (list frame) * list call))
           (e0 e1 : ens) (old0 old1 : spath)
           (streams : list (list frame)) (draws : list Q) : outcome :=
  let p_old0 := sp_path old0 in
  let p_old1 := sp_path old1 in
  match end_point p_old0 (e_i0 e0) (e_i2 e0) with
  | None => OErr ERaise
  | Some ep =>
    let allowed := is_R ep in
    if lm1_early e0 p_old0 then Out false old0 old1 ZML [] 0
    else
    match retis_path0 e0 e1 allowed p_old1 streams with
    | Err e => OErr e
    | Ok (path0, st0, streams1, calls0) =>
    match p1f e0 e1 allowed p_old0 streams1 with
    | Err e => OErr e
    | Ok (path1, st1, _, calls1) =>
      let calls := calls0 ++ calls1 in
      let accept := is_acc st0 && is_acc st1 in
      let stat := if accept then ACC else if is_acc st0 then st1 else st0 in
      match (if accept && (is_wf (e_move e0) || is_wf (e_move e1))
             then match draws with
                  | [] => Err ERaise
                  | u :: _ =>
                      match high_acc_swap path1 p_old1 e0 e1 u with
                      | Some (a, s) => Ok (a, s, 1%nat)
                      | None => Err ERaise
                      end
                  end
             else Ok (accept, stat, 0%nat)) with
      | Err e => OErr e
      | Ok (acc, stat, nd) =>
        let fix_st (s : status) := if negb acc && is_acc s then stat else s in
        match final_weight path0 e0, final_weight path1 e1 with
        | Some w0, Some w1 =>
            Out acc (mkSP path0 (fix_st st0) w0) (mkSP path1 (fix_st st1) w1) stat calls nd
        | _, _ => OErr ERaise
        end
      end
    end
    end
  end.

(* the variant that sizes the forward container of the new [0+] path with the [0-] limit
   ("path_tmp = path0.empty_path(maxlen=maxlen0 - 1)"): refuted by
   C11_forward_segment_minus_limit_refuted *)
Definition retis_swap_zero_fwd_minus_limit : ens -> ens -> spath -> spath -> list (list frame) -> list Q -> outcome :=
  retis_swap_zero_with (fun e0 e1 => retis_path1_seg (e_maxlen e0 - 1) e0 e1).

(* ------------------------------------------------------------------ quantis_swap_zero *)
Variable vpot_of : Z -> option Q.     (* frame tag -> stored potential energy *)
Variable expf : Q -> Q.               (* np.exp *)

Definition vpot (f : frame) : option Q := vpot_of (ftag f).
Definition is_none {A} (o : option A) : bool := match o with None => true | _ => false end.

(* deltaV0 * engine0.beta - deltaV1 * engine1.beta with the four energies the code reads *)
Definition quantis_exponent (beta0 beta1 V0_r0 V0_r1 V1_r1 V1_r0 : Q) : Q :=
  ((V0_r0 - V0_r1) * beta0 - (V1_r0 - V1_r1) * beta1)%Q.

(* min(1.0, x) *)
Definition qmin1 (x : Q) : Q := if Qle_bool 1 x then 1%Q else x.

(* the energies read for the acceptance rule, from the frames the code reads them from *)
Definition quantis_energies (old0 old1 tmp0 tmp1 : path) : option (Q * Q * Q * Q) :=
  match last2_frame old0, first_frame tmp0, first_frame old1, first_frame tmp1 with
  | Some a, Some b, Some c, Some d =>
      match vpot a, vpot b, vpot c, vpot d with
      | Some V0_r0, Some V0_r1, Some V1_r1, Some V1_r0 => Some (V0_r0, V0_r1, V1_r1, V1_r0)
      | _, _, _, _ => None
      end
  | _, _, _, _ => None
  end.

Definition quantis_pacc (beta0 beta1 : Q) (en : Q * Q * Q * Q) : Q :=
  let '(V0_r0, V0_r1, V1_r1, V1_r0) := en in
  qmin1 (expf (quantis_exponent beta0 beta1 V0_r0 V0_r1 V1_r1 V1_r0)).

(* path.get_end_point(lambda0) == "R" *)
Definition end_is_R1 (p : path) (l : Z) : bool := opt_is_R (end_point p l l).

(* completion of the two paths once the energy rule passed *)
(* [fixed]: maxlen1 is read from ens_set1 (true, the code) / from ens_set0 (false, the code
   before the repair) *)
Definition quantis_complete_g (fixed : bool) (e0 e1 : ens) (tmp0 tmp1 : path) (start_cond1_L : bool)
           (streams : list (list frame)) (calls : list call) (nd : nat) : outcome :=
  let maxlen0 := e_maxlen e0 in
  let maxlen1 := e_maxlen (if fixed then e1 else e0) in
  let lambda0 := e_i2 e0 in
  match first_frame tmp0 with
  | None => OErr ERaise
  | Some t00 =>
    let shooting_point0 := copy_frame 0 t00 in
    let new_path0 := empty_path (maxlen0 - 1) 0 in
    if negb start_cond1_L then
      Out false (mkSP (fst (append new_path0 shooting_point0)) SEmpty 0) (mkSP tmp1 QRS 0) QRS calls nd
    else
    match engine_call E0 new_path0 streams shooting_point0 true (e_i0 e0) (e_i2 e0) with
    | Err e => OErr e
    | Ok (back0, streams1, c0) =>
      let calls := calls ++ [c0] in
      let new_path0 := paste back0 tmp0 true (Some maxlen0) in
      let st0 :=
        if (maxlen0 <=? plen new_path0)%nat then BTX
        else if (plen new_path0 <? 3)%nat then BTS
        else if negb (e_scL e0) && has_L_start_end new_path0 e0 then ZML
        else ACC in
      if negb (is_acc st0) then Out false (mkSP new_path0 st0 0) (mkSP tmp1 SEmpty 0) st0 calls nd
      else
      match last_frame tmp1 with
      | None => OErr ERaise
      | Some t1l =>
        let shooting_point1 := copy_frame 0 t1l in
        let new_path1 := empty_path (maxlen1 - 1) 0 in
        if ford shooting_point1 <? lambda0 then
          Out false (mkSP new_path0 QLR 0) (mkSP (fst (append new_path1 shooting_point1)) QLR 0) QLR calls nd
        else
        match engine_call E1 new_path1 streams1 shooting_point1 false (e_i0 e1) (e_i2 e1) with
        | Err e => OErr e
        | Ok (forw1, _, c1) =>
          let calls := calls ++ [c1] in
          let new_path1 := paste (reverse 0 tmp1 false) forw1 true (Some maxlen1) in
          match start_point new_path1 lambda0 lambda0 with
          | None => OErr ERaise      (* cannot happen: evaluated lazily in the code, see st1 *)
          | Some sp =>
            let st1 :=
              if (plen new_path1 =? maxlen1)%nat then FTX
              else if (plen new_path1 <? 3)%nat then FTS
              else if negb (match sp with SL => true | _ => false end) then ZPR
              else ACC in
            if negb (is_acc st1) then Out false (mkSP new_path0 ACC 0) (mkSP new_path1 st1 0) st1 calls nd
            else Out true (mkSP new_path0 ACC 1) (mkSP new_path1 ACC 1) ACC calls nd
          end
        end
      end
    end
  end.

Definition quantis_complete : ens -> ens -> path -> path -> bool -> list (list frame) -> list call -> nat -> outcome :=
  quantis_complete_g true.

Definition quantis_swap_zero_g (fixed : bool) (e0 e1 : ens) (beta0 beta1 : Q) (old0 old1 : spath)
           (streams : list (list frame)) (draws : list Q) : outcome :=
  let p_old0 := sp_path old0 in
  let p_old1 := sp_path old1 in
  let lambda0 := e_i2 e0 in
  match first_frame p_old1, last2_frame p_old0 with
  | Some f10, Some f0m2 =>
    let shooting_point0 := copy_frame 0 f10 in
    let shooting_point1 := copy_frame 0 f0m2 in
    let tmp_path0 := empty_path 2 0 in
    let tmp_path1 := empty_path 2 0 in
    let with_sp st := Out false (mkSP (fst (append tmp_path0 shooting_point0)) st 0)
                                (mkSP (fst (append tmp_path1 shooting_point1)) st 0) st [] 0 in
    (* energies present? *)
    if is_none (vpot shooting_point0) || is_none (vpot shooting_point1) then with_sp QNE
    else
    let start_cond0_L := ford shooting_point0 <? lambda0 in
    let start_cond1_L := ford shooting_point1 <? lambda0 in
    if negb start_cond0_L || negb start_cond1_L then with_sp QLL
    else
    (* one step in [0-] *)
    match engine_call E0 tmp_path0 streams shooting_point0 false (e_i0 e0) (e_i2 e0) with
    | Err e => OErr e
    | Ok (tmp0, streams1, c0) =>
      if negb (end_is_R1 tmp0 lambda0) then
        Out false (mkSP tmp0 QS0 0) (mkSP (fst (append tmp_path1 shooting_point1)) QS0 0) QS0 [c0] 0
      else
      (* one step in [0+]  (sic: propagated with ens_set0) *)
      match engine_call E1 tmp_path1 streams1 shooting_point1 false (e_i0 e0) (e_i2 e0) with
      | Err e => OErr e
      | Ok (tmp1, streams2, c1) =>
        if negb (end_is_R1 tmp1 lambda0) then
          Out false (mkSP tmp0 SEmpty 0) (mkSP tmp1 QS1 0) QS1 [c0; c1] 0
        else
        (* energy acceptance rule *)
        match quantis_energies p_old0 p_old1 tmp0 tmp1 with
        | None => OErr ERaise
        | Some en =>
          let pacc := quantis_pacc beta0 beta1 en in
          match draws with
          | [] => OErr ERaise
          | rand :: _ =>
            if e_accept_all e0 || Qle_bool rand pacc
            then quantis_complete_g fixed e0 e1 tmp0 tmp1 start_cond1_L streams2 [c0; c1] 1
            else Out false (mkSP tmp1 QEA 0) (mkSP tmp1 QEA 0) QEA [c0; c1] 1   (* sic: tmp_path1 twice *)
          end
        end
      end
    end
  | _, _ => OErr ERaise
  end.

(* the code *)
Definition quantis_swap_zero : ens -> ens -> Q -> Q -> spath -> spath -> list (list frame) -> list Q -> outcome :=
  quantis_swap_zero_g true.
(* the code before proposed_fixes/C11_zero_swap_own_limits.diff: refuted by
   C11_quantis_limit_order_refuted *)
Definition quantis_swap_zero_before_fix : ens -> ens -> Q -> Q -> spath -> spath -> list (list frame) -> list Q -> outcome :=
  quantis_swap_zero_g false.

(* select_shoot, two picked ensembles: quantis flag of [0-]'s tis_set decides.
   [fixed_r] / [fixed_q]: which retis_swap_zero / quantis_swap_zero (see above) *)
Definition select_swap_g (fixed_r fixed_q : bool) (quantis : bool) (e0 e1 : ens) (beta0 beta1 : Q) (old0 old1 : spath)
           (streams : list (list frame)) (draws : list Q) : outcome :=
  if quantis then quantis_swap_zero_g fixed_q e0 e1 beta0 beta1 old0 old1 streams draws
  else retis_swap_zero_g fixed_r e0 e1 old0 old1 streams draws.

Definition select_swap : bool -> ens -> ens -> Q -> Q -> spath -> spath -> list (list frame) -> list Q -> outcome :=
  select_swap_g true true.

End Swap.

(* -inf: an integer strictly below every order value that occurs in the case *)
Definition neg_inf_for (old0 old1 : path) (streams : list (list frame)) : Z :=
  fold_left Z.min (orders old0 ++ orders old1 ++ map ford (concat streams)) 0 - 1.

Definition with_left (e : ens) (l : Z) : ens :=
  mkEns l (e_i1 e) (e_i2 e) (e_scL e) (e_scR e) (e_move e) (e_maxlen e) (e_cap e) (e_accept_all e).

(* ------------------------------------------------------------------ reversible dynamics *)
(* An abstract deterministic time-reversible MD engine: state space X (what a config file
   holds, encoded in the frame tag), one step T, velocity reversal R, order parameter ord.
   A frame with vel_rev = true stands for the state R(config). *)
Section Reversible.
Variable X : Type.
Variable T : X -> X.
Variable R : X -> X.
Variable ord : X -> Z.
Variable enc : X -> Z.
Variable dec : Z -> X.

Fixpoint traj (n : nat) (s : X) : list X :=
  match n with O => [] | S k => s :: traj k (T s) end.

(* what propagate does with the initial phase point: reverse the velocities of the stored
   configuration when reverse != system.vel_rev *)
Definition start_state (f : frame) (reverse : bool) : X :=
  let c := dec (ftag f) in if xorb reverse (frev f) then R c else c.

(* the frames an engine run of n steps produces: config = the propagated state, vel_rev = reverse *)
Definition frame_of (reverse : bool) (s : X) : frame := mkF (ord s) (enc s) reverse 0%nat.

Definition det_stream (n : nat) (f : frame) (reverse : bool) : list frame :=
  map (frame_of reverse) (traj n (start_state f reverse)).

(* the physical state a frame stands for *)
Definition phys (f : frame) : X := let c := dec (ftag f) in if frev f then R c else c.

(* retis_swap_zero driven by the deterministic engine; a dumped copy holds the same state.
   n = number of frames the engine could produce at most (>= the length limits) *)
Definition det_retis (n : nat) (e0 e1 : ens) (old0 old1 : spath) : outcome :=
  match first_frame (sp_path old1), last_frame (sp_path old0) with
  | Some f10, Some f0l =>
      retis_swap_zero (fun _ t => t) e0 e1 old0 old1
        [det_stream n (copy_frame 0 f10) true; det_stream n (copy_frame 0 f0l) false] []
  | _, _ => OErr ERaise
  end.

End Reversible.

(* ------------------------------------------------------------------ two different engines *)
(* [0-] and [0+] driven by DIFFERENT deterministic time-reversible dynamics over one phase
   space (simulation.ensemble_engines without quantis): engine0 = (T0, R0) is the engine of
   [0-], engine1 = (T1, R1) the engine of [0+].  Configurations (X, enc, dec) and the order
   parameter are shared: a config file written by one engine is read by the other. *)
Section Reversible2.
Variable X : Type.
Variable T0 R0 T1 R1 : X -> X.
Variable ord : X -> Z.
Variable enc : X -> Z.
Variable dec : Z -> X.

Definition T_of (w : eng) : X -> X := match w with E0 => T0 | E1 => T1 end.
Definition R_of (w : eng) : X -> X := match w with E0 => R0 | E1 => R1 end.

(* what engine object w answers to propagate(init, reverse), up to n frames *)
Definition eng_stream (w : eng) (n : nat) (f : frame) (reverse : bool) : list frame :=
  det_stream X (T_of w) (R_of w) ord enc dec n f reverse.

(* retis_swap_zero with the backward run answered by engine0 and the forward run by engine1 *)
Definition det_retis2 (n : nat) (e0 e1 : ens) (old0 old1 : spath) : outcome :=
  match first_frame (sp_path old1), last_frame (sp_path old0) with
  | Some f10, Some f0l =>
      retis_swap_zero (fun _ t => t) e0 e1 old0 old1
        [eng_stream E0 n (copy_frame 0 f10) true; eng_stream E1 n (copy_frame 0 f0l) false] []
  | _, _ => OErr ERaise
  end.

(* every stream is the answer of the engine object the model says the call was made on, for
   the phase point and direction the model says it was given *)
Definition streams_of_engines (n : nat) (streams : list (list frame)) (calls : list call) : Prop :=
  forall k c s, nth_error calls k = Some c -> nth_error streams k = Some s ->
                s = eng_stream (c_eng c) n (c_init c) (c_rev c).

End Reversible2.
