(* Executable model for property C14 (stored paths read back unchanged; live paths never lose
   files).  No proofs here.

   Part A -- PathStorage.output / load_path (infretis/classes/formatter.py, path.py)
     * the three text files of a stored path, byte for byte: the "# Cycle: ..." comment line,
       the table header of _make_header, one line per frame (OrderFormatter.format_data,
       EnergyFormatter.apply_format, PathExtFormatter.format); all widths, precisions, labels,
       literal pieces, file and directory names come from gen/ParamsC14.v;
     * read_some_lines / _read_line_data (comment blocks, column-count rule, malformed lines
       are skipped, only the first block is used), OutputFormatter.parse, PathExtFormatter.parse;
     * output()'s clean-up of the target directory (both variants, see [clean_dir]),
       _generate_file_names, the keep_traj_fnames extension of _move_path, the remove/move loop,
       on a disk that is a finite map file name -> content;
     * load_path with its assertions, _load_energies_for_path, Path.update_energies.
     Numbers are exact rationals, printed by CodecM.print_fixed ("{:>W.Df}") and parsed by
     CodecM.parse_fixed (float() on plain decimal literals); NaN / an absent energy is [None].
     Abstracted: directories (make_dirs, isdir), unicode beyond ASCII, "\r" newline
     translation, inf, float() literals with exponents, os.path.join with an absolute second
     argument (second arguments here are base names or fixed relative names).

   Part B -- the deletion logic of REPEX_state.treat_output as a small state machine:
     live path numbers, the pn_olds queue (an insertion-ordered dict), the next path number,
     what is left of every path directory, the active list of restart.toml on disk.
     Micro operations: one accepted ensemble of a step (MItem), the end of a treat_output call
     (MEnd: write_toml), a restart (MRestart: pn_olds is empty again).  Comparison constants
     (n - 2 three times) come from gen/ParamsC14.v. *)
From Coq Require Import ZArith QArith List Bool Lia.
Import ListNotations.
From Inf Require Import gen.ParamsC14 model.CodecM.
Open Scope Z_scope.

Definition c_hash : Z := 35.
Definition c_slash : Z := 47.

(* ------------------------------------------------------------------ integers *)

(* "{}".format(i) / "{:d}".format(i) *)
Definition int_str (z : Z) : str := (if z <? 0 then [c_minus] else []) ++ int_digits (Z.abs z).

Definition all_digits (s : str) : bool := negb (is_nil s) && forallb is_digit s.

(* int(tok) on [+-]digits; None = ValueError *)
Definition parse_int (s : str) : option Z :=
  match s with
  | c :: r =>
      if c =? c_minus then (if all_digits r then Some (- digits_value 0 r) else None)
      else if c =? c_plus then (if all_digits r then Some (digits_value 0 r) else None)
      else if all_digits s then Some (digits_value 0 s) else None
  | [] => None
  end.

(* ------------------------------------------------------------------ float fields *)

Definition fval := option num.          (* None = NaN (an absent energy is written as NaN) *)
Definition nan_str : str := [110; 97; 110].

Definition fbody (d : nat) (v : fval) : str :=
  match v with Some x => fixed_body d (fst x) (snd x) | None => nan_str end.
(* "{:>w.df}".format(v) *)
Definition print_field (w d : nat) (v : fval) : str := pad_left w (fbody d v).
(* float(tok): Some None = NaN, None = ValueError *)
Definition parse_field (s : str) : option (option Q) :=
  if str_eqb s nan_str then Some None else option_map (@Some Q) (parse_fixed s).

Fixpoint sequence {A} (l : list (option A)) : option (list A) :=
  match l with
  | [] => Some []
  | None :: _ => None
  | Some a :: r => match sequence r with Some r' => Some (a :: r') | None => None end
  end.

(* ------------------------------------------------------------------ file names *)

Definition has_slash (s : str) : bool := existsb (Z.eqb c_slash) s.

(* os.path.basename *)
Fixpoint basename (s : str) : str :=
  match s with
  | [] => []
  | c :: r => if has_slash r then basename r else if c =? c_slash then r else c :: r
  end.

Definition ends_slash (a : str) : bool :=
  match rev a with c :: _ => c =? c_slash | [] => false end.

(* os.path.join(a, b) for a relative b *)
Definition pjoin (a b : str) : str :=
  if is_nil a then b else if ends_slash a then a ++ b else a ++ c_slash :: b.

Fixpoint lstrip_slash (r : str) : str :=
  match r with c :: t => if c =? c_slash then lstrip_slash t else r | [] => [] end.

(* os.path.split(s)[0] *)
Definition dirname (s : str) : str :=
  let h := firstn (length s - length (basename s)) s in
  let h' := rev (lstrip_slash (rev h)) in
  if is_nil h' then h else h'.

Fixpoint last_dot (s : str) (i : nat) (best : option nat) : option nat :=
  match s with
  | [] => best
  | c :: r => last_dot r (S i) (if c =? c_dot then Some i else best)
  end.

(* os.path.splitext(fname)[0] for a name without "/" *)
Definition stem (fname : str) : str :=
  match last_dot fname 0 None with
  | None => fname
  | Some k => if forallb (Z.eqb c_dot) (firstn k fname) then fname else firstn k fname
  end.

(* ------------------------------------------------------------------ the text files *)

Record frame := mkFrame {
  f_orders : list fval;      (* phasepoint.order *)
  f_vpot : fval;             (* None = attribute is None *)
  f_ekin : fval;
  f_file : str;              (* phasepoint.config[0] *)
  f_idx : option Z;          (* phasepoint.config[1] *)
  f_rev : bool }.            (* phasepoint.vel_rev *)

Fixpoint join_with (sep : str) (l : list str) : str :=
  match l with
  | [] => []
  | [a] => a
  | a :: r => a ++ sep ++ join_with sep r
  end.

(* _make_header *)
Definition nth_width (ws : list nat) (i : nat) : nat := nth i ws (last ws 0%nat).
Fixpoint header_cells (labels : list str) (ws : list nat) (i : nat) : list str :=
  match labels with
  | [] => []
  | l :: r =>
      (if (i =? 0)%nat then c_hash :: c_sp :: pad_left (nth_width ws i - 2) l
       else pad_left (nth_width ws i) l) :: header_cells r ws (S i)
  end.
Definition make_header (labels : list str) (ws : list nat) (spacing : nat) : str :=
  join_with (repeat c_sp spacing) (header_cells labels ws 0).

Definition order_header : str := make_header order_hdr_labels order_hdr_width order_hdr_spacing.
Definition energy_header : str := make_header energy_hdr_labels energy_hdr_width energy_hdr_spacing.
Definition traj_header : str := make_header traj_hdr_labels traj_hdr_width traj_hdr_spacing.

(* f"# Cycle: {step}, status: {status}" and f"..., move: {move}" *)
Definition cycle_line2 (step : Z) : str := cyc_a ++ int_str step ++ cyc_b ++ store_status.
Definition cycle_line3 (step : Z) (move : str) : str := cycle_line2 step ++ cyc_c ++ move.

Definition num_line (iw w d : nat) (i : nat) (vs : list fval) : str :=
  pad_left iw (int_str (Z.of_nat i)) ++ concat (map (fun v => c_sp :: print_field w d v) vs).

Definition order_line (i : nat) (fr : frame) : str := num_line order_iw order_w order_d i (f_orders fr).

Definition energy_vals (fr : frame) : list fval :=
  map (fun k => if (k =? energy_vpot_col)%nat then f_vpot fr
                else if (k =? energy_ekin_col)%nat then f_ekin fr else None)
      (seq 0 energy_nterms).
Definition energy_line (i : nat) (fr : frame) : str := num_line energy_iw energy_w energy_d i (energy_vals fr).

Definition idx_written (fr : frame) : Z := match f_idx fr with None => traj_none_idx | Some k => k end.
Definition traj_cells (i : nat) (fr : frame) : list str :=
  [int_str (Z.of_nat i); basename (f_file fr); int_str (idx_written fr);
   int_str (if f_rev fr then traj_rev_val else traj_fwd_val)].
Definition traj_line (i : nat) (fr : frame) : str :=
  join_with (repeat c_sp traj_sep)
            (map (fun wc => pad_left (fst wc) (snd wc)) (combine traj_w (traj_cells i fr))).

Fixpoint enum_from {A} (i : nat) (l : list A) : list (nat * A) :=
  match l with [] => [] | a :: r => (i, a) :: enum_from (S i) r end.
Definition lines_of (f : nat -> frame -> str) (p : list frame) : list str :=
  map (fun x => f (fst x) (snd x)) (enum_from 0 p).

Definition order_file (step : Z) (move : str) (p : list frame) : list str :=
  cycle_line3 step move :: order_header :: lines_of order_line p.
Definition energy_file (step : Z) (move : str) (p : list frame) : list str :=
  cycle_line3 step move :: energy_header :: lines_of energy_line p.
Definition traj_file (step : Z) (p : list frame) : list str :=
  cycle_line2 step :: traj_header :: lines_of traj_line p.

(* output.write(f"{line}\n") for every line *)
Definition render (ls : list str) : str := concat (map (fun l => l ++ [c_nl]) ls).

(* ------------------------------------------------------------------ read_some_lines *)

Definition is_comment (s : str) : bool := match s with c :: _ => c =? c_hash | [] => false end.

Section Reader.
  Context {T : Type}.
  Variable parse : str -> option (list T).     (* None = ValueError / IndexError *)

  (* next(read_some_lines(...)): the rows of the first block; None = StopIteration.
     ncol: None = -1 (not set); yb = yield_block; rc = read_comment *)
  Fixpoint first_block (lines : list str) (ncol : option nat) (yb rc : bool) (acc : list (list T))
    : option (list (list T)) :=
    match lines with
    | [] => if yb then Some (rev acc) else None
    | l :: rest =>
      let s := strip l in
      if is_comment s then
        if rc then first_block rest ncol yb true acc
        else if yb then Some (rev acc)
        else first_block rest None true true []
      else
        match parse s with
        | None => first_block rest ncol yb false acc
        | Some d =>
          let k := length d in
          let same := match ncol with None => true | Some n => (k =? n)%nat end in
          if same && negb (is_nil d) then first_block rest (Some k) true false (d :: acc)
          else first_block rest ncol yb false acc
        end
    end.

  Definition read_block (text : str) : option (list (list T)) :=
    first_block (split_lines text) None false false [].
End Reader.

(* PathExtFormatter.parse *)
Definition parse_tokens (s : str) : option (list str) := Some (tokens s).
(* OutputFormatter.parse: int(col) for the first column, float(col) for the others *)
Definition parse_numrow (s : str) : option (list (option Q)) :=
  match tokens s with
  | [] => Some []
  | t :: r =>
      match parse_int t with
      | None => None
      | Some z => match sequence (map parse_field r) with
                  | Some vs => Some (Some (inject_Z z) :: vs)
                  | None => None
                  end
      end
  end.

(* ------------------------------------------------------------------ the disk *)

Definition fsmap := list (str * str).        (* file name -> content *)

Fixpoint fs_get (d : fsmap) (k : str) : option str :=
  match d with
  | [] => None
  | kv :: r => if str_eqb k (fst kv) then Some (snd kv) else fs_get r k
  end.
Definition fs_del (d : fsmap) (k : str) : fsmap := filter (fun kv => negb (str_eqb k (fst kv))) d.
Definition fs_set (d : fsmap) (k v : str) : fsmap := (k, v) :: fs_del d k.
Definition isfile (d : fsmap) (k : str) : bool := match fs_get d k with Some _ => true | None => false end.

(* an insertion-ordered dict str -> str *)
Definition dict := list (str * str).
Definition dict_has (k : str) (l : dict) : bool := existsb (fun kv => str_eqb k (fst kv)) l.
Fixpoint dict_set (k v : str) (l : dict) : dict :=
  match l with
  | [] => [(k, v)]
  | kv :: r => if str_eqb k (fst kv) then (fst kv, v) :: r else kv :: dict_set k v r
  end.

(* _generate_file_names (prefix=None): unique source -> destination, in order of appearance *)
Definition dst (target s : str) : str := pjoin target (basename s).
Definition gen_names (target : str) (p : list frame) : dict :=
  fold_left (fun src fr => if dict_has (f_file fr) src then src
                           else dict_set (f_file fr) (dst target (f_file fr)) src) p [].

(* _move_path: files next to a source file with the same stem and a listed extension *)
Definition keep_one (d : fsmap) (target : str) (keep : list str) (acc : dict) (s : str) : dict :=
  let dir := dirname s in
  let st := stem (basename s) in
  fold_left (fun acc2 ext =>
               let nf := st ++ ext in
               let fp := pjoin dir nf in
               if isfile d fp then dict_set fp (pjoin target nf) acc2 else acc2) keep acc.
Definition keep_extras (d : fsmap) (target : str) (keep : list str) (src : dict) : dict :=
  fold_left (keep_one d target keep) (map fst src) src.

Definition move_list (d : fsmap) (target : str) (keep : list str) (p : list frame) : dict :=
  keep_extras d target keep (gen_names target p).

(* for src, dest in source.items(): if src != dest: remove an existing dest, shutil.move;
   None = shutil.move raised (source missing) *)
Fixpoint do_moves (d : fsmap) (l : dict) : option fsmap :=
  match l with
  | [] => Some d
  | kv :: r =>
      let s := fst kv in let t := snd kv in
      if str_eqb s t then do_moves d r
      else match fs_get (fs_del d t) s with
           | None => None
           | Some c => do_moves (fs_set (fs_del (fs_del d t) s) t c) r
           end
  end.

Definition archive_dir (home : str) (pn : Z) : str := pjoin home (int_str pn).
Definition accepted_dir (pdir : str) : str := pjoin pdir acc_dir.

(* files directly inside a directory (os.listdir + isfile) *)
Definition in_dir (dir k : str) : bool :=
  let P := pjoin dir [] in
  str_eqb (firstn (length P) k) P && negb (is_nil (skipn (length P) k)) && negb (has_slash (skipn (length P) k)).

(* output(): files found in the target directory are removed before the path is stored (fix
   5456497).  [ko = false]: all of them -- also a file the path itself refers to; [ko = true]
   (proposed repair): files the path refers to are spared. *)
Definition clean_dir (ko : bool) (tdir : str) (p : list frame) (d : fsmap) : fsmap :=
  filter (fun kv => negb (in_dir tdir (fst kv) && negb (ko && mem_str (fst kv) (map f_file p)))) d.

Definition write_txt (d : fsmap) (arch : str) (step : Z) (move : str) (p : list frame) : fsmap :=
  let d1 := fs_set d (pjoin arch order_txt) (render (order_file step move p)) in
  let d2 := fs_set d1 (pjoin arch energy_txt) (render (energy_file step move p)) in
  fs_set d2 (pjoin arch traj_txt) (render (traj_file step p)).

(* PathStorage.output(step, {"path": p, "dir": home}) with p.path_number = pn, str(p.generated)
   = move.  Result: the disk afterwards and the configs of the returned path copy. *)
Definition store_gen (ko : bool) (d : fsmap) (step : Z) (move home : str) (pn : Z) (keep : list str) (p : list frame)
  : option (fsmap * list (str * option Z)) :=
  let arch := archive_dir home pn in
  let tdir := accepted_dir arch in
  let d3 := write_txt (clean_dir ko tdir p d) arch step move p in
  match do_moves d3 (move_list d3 tdir keep p) with
  | Some d4 => Some (d4, map (fun fr => (dst tdir (f_file fr), f_idx fr)) p)
  | None => None
  end.
(* the code as it is in /repo *)
Definition store := store_gen store_keeps_own.

(* ------------------------------------------------------------------ load_path *)

Record lframe := mkL {
  l_orders : list (option Q);          (* None = NaN *)
  l_vpot : option (option Q);          (* None = attribute None, Some None = NaN *)
  l_ekin : option (option Q);
  l_file : str;
  l_idx : Z;
  l_rev : bool }.

Definition traj_row (pdir : str) (row : list str) : option (str * Z * bool) :=
  match row with
  | _ :: nm :: i :: v :: _ =>
      match parse_int v with
      | None => None
      | Some vz => match parse_int i with
                   | None => None
                   | Some iz => Some (pjoin (accepted_dir pdir) nm, iz, vz =? traj_rev_val)
                   end
      end
  | _ => None
  end.

(* energy["data"][ENERGY_TERMS[k]]: exists iff k + 1 < min(ncol, nterms + 1); k < nterms *)
Definition energy_column (k : nat) (rows : list (list (option Q))) : option (list (option Q)) :=
  if (S k <? length (hd [] rows))%nat then Some (map (fun r => nth (S k) r None) rows) else None.

(* result of _load_energies_for_path: None = exception, Some None = no energy file *)
Definition load_energies (d : fsmap) (pdir : str) : option (option (list (option Q) * list (option Q))) :=
  match fs_get d (pjoin pdir energy_txt) with
  | None => Some None
  | Some etxt =>
      match read_block parse_numrow etxt with
      | None => None
      | Some erows =>
          if is_nil erows then None
          else match energy_column energy_ekin_col erows, energy_column energy_vpot_col erows with
               | Some ek, Some vp => Some (Some (vp, ek))
               | _, _ => None
               end
      end
  end.

Definition energy_at (en : option (list (option Q) * list (option Q))) (i : nat) : option (option Q) * option (option Q) :=
  match en with
  | None => (None, None)
  | Some (vp, ek) => (nth_error vp i, nth_error ek i)
  end.

Fixpoint build_frames (i : nat) (tr : list (str * Z * bool)) (ors : list (list (option Q)))
         (en : option (list (option Q) * list (option Q))) : list lframe :=
  match tr, ors with
  | t :: tr', o :: ors' =>
      mkL (skipn 1 o) (fst (energy_at en i)) (snd (energy_at en i)) (fst (fst t)) (snd (fst t)) (snd t)
      :: build_frames (S i) tr' ors' en
  | _, _ => []
  end.

(* load_path(pdir); None = an assertion failed or an exception was raised *)
Definition load (d : fsmap) (pdir : str) : option (list lframe) :=
  match fs_get d (pjoin pdir traj_txt), fs_get d (pjoin pdir order_txt) with
  | Some ttxt, Some otxt =>
      match read_block parse_tokens ttxt with
      | None => None
      | Some trows =>
          match sequence (map (traj_row pdir) trows) with
          | None => None
          | Some tr =>
              if negb (forallb (fun x => isfile d (fst (fst x))) tr) then None
              else match read_block parse_numrow otxt with
                   | None => None
                   | Some orows =>
                       if is_nil orows then None
                       else match load_energies d pdir with
                            | None => None
                            | Some en => Some (build_frames 0 tr orows en)
                            end
                   end
          end
      end
  | _, _ => None
  end.

(* what the statement promises for one frame *)
Definition rnd (d : nat) (v : fval) : option Q := option_map (fun x => round_d d (snd x)) v.
Definition reload (pdir : str) (fr : frame) : lframe :=
  mkL (map (rnd order_d) (f_orders fr)) (Some (rnd energy_d (f_vpot fr))) (Some (rnd energy_d (f_ekin fr)))
      (dst (accepted_dir pdir) (f_file fr)) (idx_written fr) (f_rev fr).

(* ================================================================== Part B: deletion *)

Record dinfo := mkI { d_txt : bool;        (* the three text files are there *)
                      d_traj : bool;       (* the trajectory files the path refers to are there *)
                      d_ntraj : nat;       (* how many (for comparison with the real tree) *)
                      d_nextra : nat }.    (* files kept by keep_traj_fnames *)

Record dstate := mkD {
  live : list Z;                 (* path number per ensemble slot *)
  queue : list Z;                (* keys of pn_olds, oldest first *)
  next : Z;                      (* config["current"]["traj_num"] *)
  dirs : list (Z * dinfo);       (* load/<pn>/ *)
  rec_ : list Z;                 (* restart.toml on disk: [current].active *)
  cnt : nat;                     (* ensembles treated since the last write_toml *)
  dead : bool }.                 (* treat_output raised *)

Inductive event :=
| ERepl (old new : Z)            (* path old replaced by the new path new *)
| EDel (pn : Z)                  (* files of path pn removed *)
| ECrash.                        (* exception inside treat_output *)

Inductive mop :=
| MItem (old : Z) (ntraj nextra : nat)   (* one ensemble of an accepted move *)
| MEnd                                   (* end of treat_output: write_toml *)
| MRestart.                              (* the program is started again from restart.toml *)

Definition replace_z (old new : Z) (l : list Z) : list Z := map (fun x => if x =? old then new else x) l.
Definition zmem (x : Z) (l : list Z) : bool := existsb (Z.eqb x) l.
Definition qpush (k : Z) (q : list Z) : list Z := if zmem k q then q else q ++ [k].

Definition dir_get (ds : list (Z * dinfo)) (pn : Z) : option dinfo :=
  match find (fun x => fst x =? pn) ds with Some x => Some (snd x) | None => None end.
Definition dir_del (ds : list (Z * dinfo)) (pn : Z) := filter (fun x => negb (fst x =? pn)) ds.
Definition dir_set (ds : list (Z * dinfo)) (pn : Z) (i : dinfo) := dir_del ds pn ++ [(pn, i)].

Section Deletion.
  Variable delete_old delete_all : bool.
  Variable n : Z.                           (* REPEX_state.n *)

  (* remove the files of the oldest replaced path; returns the directory table and whether
     os.rmdir raised (directory not empty) *)
  Definition delete_path (ds : list (Z * dinfo)) (pd : Z) : list (Z * dinfo) * bool :=
    match dir_get ds pd with
    | None => (ds, false)
    | Some i =>
        if delete_all then
          if (0 <? d_nextra i)%nat then (dir_set ds pd (mkI false false 0 (d_nextra i)), true)
          else (dir_del ds pd, false)
        else (dir_set ds pd (mkI (d_txt i) false 0 (d_nextra i)), false)
    end.

  Definition item_step (st : dstate) (old : Z) (ntraj nextra : nat) : dstate * list event :=
    let new := next st in
    let ds1 := dir_set (dirs st) new (mkI true true ntraj nextra) in
    let live' := replace_z old new (live st) in
    let cnt' := S (cnt st) in
    if delete_old && (old >? n - guard_off) then
      if Z.of_nat (length (queue st)) >? n - lag_off then
        match queue st with
        | [] => (* next(iter({})) raises StopIteration *)
            (mkD (live st) [] (next st) ds1 (rec_ st) cnt' true, [ERepl old new; ECrash])
        | pd :: q' =>
            let '(ds2, failed) := delete_path ds1 pd in
            if failed then (mkD (live st) (queue st) (next st) ds2 (rec_ st) cnt' true, [ERepl old new; EDel pd; ECrash])
            else
              let q2 := if Z.of_nat (length q') <=? n - push_off then qpush old q' else q' in
              (mkD live' q2 (new + 1) ds2 (rec_ st) cnt' false, [ERepl old new; EDel pd])
        end
      else
        let q2 := if Z.of_nat (length (queue st)) <=? n - push_off then qpush old (queue st) else queue st in
        (mkD live' q2 (new + 1) ds1 (rec_ st) cnt' false, [ERepl old new])
    else (mkD live' (queue st) (new + 1) ds1 (rec_ st) cnt' false, [ERepl old new]).

  Definition mstep (st : dstate) (o : mop) : dstate * list event :=
    if dead st then (st, [])
    else match o with
         | MItem old ntraj nextra => item_step st old ntraj nextra
         | MEnd => (mkD (live st) (queue st) (next st) (dirs st) (live st) 0 false, [])
         | MRestart => (mkD (rec_ st) [] (next st) (dirs st) (rec_ st) 0 false, [])
         end.

  Fixpoint mrun (st : dstate) (ops : list mop) : dstate * list event :=
    match ops with
    | [] => (st, [])
    | o :: r => let '(st1, e1) := mstep st o in let '(st2, e2) := mrun st1 r in (st2, e1 ++ e2)
    end.

  (* every intermediate state, for the trace validation *)
  Fixpoint mtrace (st : dstate) (ops : list mop) : list dstate :=
    match ops with
    | [] => []
    | o :: r => let st1 := fst (mstep st o) in st1 :: mtrace st1 r
    end.
End Deletion.

Definition full_dir (ntraj : nat) : dinfo := mkI true true ntraj 0.
Definition init_state (lv : list Z) (nx : Z) (ds : list (Z * dinfo)) : dstate := mkD lv [] nx ds lv 0 false.
