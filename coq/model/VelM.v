(* Executable model of velocity regeneration at a shooting point (property C16):
     EngineBase.draw_maxwellian_velocities            infretis/classes/engines/enginebase.py
     kinetic_energy, reset_momentum                   infretis/classes/engines/cp2k.py
     {CP2K,Gromacs(infretis_genvel),LAMMPS,TurtleMD,ASE}Engine.modify_velocities
     prepare_shooting_point (copy, then modify)       infretis/core/tis.py
     the settings shoot / wire_fencing hand to it     infretis/core/tis.py
   No proofs here.

   Numbers are exact rationals.  The square root is not computed: the standard deviations
   the implementation passes to `rgen.normal(scale=...)` are an *input* [sig] of the model
   (the harness captures them and checks sig^2 * m * beta = 1 separately); theorems take that
   equation as a hypothesis.  The random stream is an input as well (a list of standard
   normal values in the order numpy hands them out, row-major over (atom, component)).

   Layout: a velocity array of shape (npart, dim) is kept as its [dim] *columns* (one list
   of npart values per Cartesian component), because every numpy operation of the code acts
   on the components independently (broadcast of a (npart,1) mass/sigma column, sum over
   axis 0, trace of mom^T vel).

   Constants (Boltzmann constant per engine, LAMMPS velocity scale, CP2K mass factor, the
   0.5 of the kinetic energy, loc of the draw, zero_momentum defaults) come from
   gen/ParamsC16.v, regenerated from the Python sources on every run. *)
From Coq Require Import ZArith QArith List Bool.
Import ListNotations.
From Inf Require Import gen.ParamsC16.
Open Scope Q_scope.

Definition col := list Q.

(* value-preserving normalisation, only there to keep the extracted arithmetic small *)
Definition nq (x : Q) : Q := Qred x.

Fixpoint sumQ (l : list Q) : Q :=
  match l with
  | [] => 0
  | x :: r => nq (x + sumQ r)
  end.

Fixpoint map2 (f : Q -> Q -> Q) (a b : list Q) : list Q :=
  match a, b with
  | x :: a', y :: b' => f x y :: map2 f a' b'
  | _, _ => []
  end.

(* ------------------------------------------------------------------ the random stream *)
(* rgen.normal(..., size=(npart, dim)) fills the array in C order: element (i, j) is the
   (i*dim + j)-th value taken from the stream. *)
Definition stream_col (npart dim : nat) (s : list Q) (j : nat) : col :=
  map (fun i => nth (i * dim + j)%nat s 0) (seq 0 npart).

Definition cols_of_stream (npart dim : nat) (s : list Q) : list col :=
  map (stream_col npart dim s) (seq 0 dim).

Definition stream_rest (npart dim : nat) (s : list Q) : list Q := skipn (npart * dim) s.

(* ------------------------------------------------------------------ enginebase / cp2k helpers *)
(* self._beta = 1 / (self.temperature * self.kb) *)
Definition beta_of (kb temp : Q) : Q := 1 / (temp * kb).

(* vel = rgen.normal(loc, scale=sigma_v (npart,1), size=(npart,dim)):  loc + sigma_i * z_ij *)
Definition draw_col (sig : list Q) (z : col) : col :=
  map2 (fun s x => draw_loc + s * x) sig z.

(* vel /= scale *)
Definition unscale_col (s : Q) (c : col) : col := map (fun v => v / s) c.

(* np.sum(vel * mass, axis=0), one component *)
Definition mom_col (m : list Q) (c : col) : Q := sumQ (map2 Qmult c m).

(* reset_momentum: vel -= mom / mass.sum() *)
Definition reset_col (m : list Q) (c : col) : col :=
  let d := mom_col m c / sumQ m in
  map (fun v => v - d) c.

(* kinetic_energy(vel, mass)[0]: mom = vel*mass; trace(0.5 * mom^T vel) *)
Definition kin_col (m : list Q) (c : col) : Q :=
  kin_half * sumQ (map2 Qmult (map2 Qmult c m) c).

Definition kinetic (m : list Q) (v : list col) : Q := sumQ (map (kin_col m) v).

(* ------------------------------------------------------------------ frames and engines *)
(* what a configuration file holds: positions, velocities (columns), box, atom identities *)
Record frame := mkFrame { f_pos : list col; f_vel : list col; f_box : list Q; f_ids : list Z }.

Definition f_npart (f : frame) : nat := match f_vel f with c :: _ => length c | [] => O end.
Definition f_dim (f : frame) : nat := length (f_vel f).

Inductive engine := Cp2k | Gromacs | Lammps | Turtle | Ase.

Definition zm_default (e : engine) : bool :=
  match e with
  | Cp2k => zm_default_cp2k | Gromacs => zm_default_gromacs | Lammps => zm_default_lammps
  | Turtle => zm_default_turtlemd | Ase => zm_default_ase
  end.

(* vel_settings.get("zero_momentum", default) ; None = key absent *)
Definition use_zm (e : engine) (zm : option bool) : bool :=
  match zm with Some b => b | None => zm_default e end.

(* post-processing of the drawn velocities: only LAMMPS rescales *)
Definition vscale (e : engine) : option Q :=
  match e with Lammps => Some scale_lammps | _ => None end.

Definition kb_engine (e : engine) (kb_user : Q) : Q :=
  match e with
  | Cp2k => kb_cp2k | Gromacs => kb_gromacs | Lammps => kb_lammps | Ase => kb_ase
  | Turtle => kb_user            (* TurtleMD: `boltzmann` of the input file *)
  end.

Record result := mkRes {
  r_frame : frame;               (* content of genvel.<ext> *)
  r_kin_new : Q;
  r_dek : option Q;              (* None = float("inf") *)
  r_kin_old : option Q
}.

(* CP2K, TurtleMD, LAMMPS, GROMACS (infretis_genvel): same statement sequence.
   [src] is the frame dumped from system.config, [ekin_stored] is system.ekin. *)
Definition modify_std (e : engine) (mass : list Q) (src : frame) (ekin_stored : option Q)
           (zm : option bool) (sig : list Q) (z : list col) : result :=
  let kin_old := match e with
                 | Gromacs => ekin_stored                          (* kin_old = system.ekin *)
                 | _ => Some (kinetic mass (f_vel src))            (* kinetic_energy(vel, mass)[0] *)
                 end in
  let v1 := map (draw_col sig) z in
  let v2 := match vscale e with Some s => map (unscale_col s) v1 | None => v1 end in
  let v3 := if use_zm e zm then map (reset_col mass) v2 else v2 in
  let kin_new := kinetic mass v3 in
  let dek := match e, kin_old with
             | _, None => None                                     (* kin_old is None *)
             | Gromacs, Some k => Some (kin_new - k)
             | _, Some k => if Qeq_bool k 0 then None else Some (kin_new - k)   (* kin_old == 0.0 *)
             end in
  mkRes (mkFrame (f_pos src) v3 (f_box src) (f_ids src)) kin_new dek kin_old.

(* ------------------------------------------------------------------ ASE *)
(* Atoms.get_kinetic_energy() = 0.5 * vdot(momenta, momenta / masses) *)
Definition ase_kin_col (m : list Q) (p : col) : Q :=
  (1 # 2) * sumQ (map2 Qmult p (map2 Qdiv p m)).
Definition ase_kin (m : list Q) (p : list col) : Q := sumQ (map (ase_kin_col m) p).

(* Stationary(atoms, preserve_temperature=False):
   p0 = sum(p, 0); v0 = p0 / sum(m); p -= v0 * m[:, newaxis] *)
Definition stationary_col (m : list Q) (p : col) : col :=
  let v0 := sumQ p / sumQ m in
  map2 (fun pi mi => pi - v0 * mi) p m.

(* ASEEngine.modify_velocities.  MaxwellBoltzmannDistribution sets
   momenta = xi * sqrt(masses * kT)[:, newaxis]; [sigp] is that square root.
   [fixed_L6 = true] is the repaired statement order (kin_new read after Stationary);
   [false] is the order of the defect recorded as lead L6 (kin_new read before it). *)
Definition modify_ase (fixed_L6 : bool) (mass : list Q) (src : frame) (zm : option bool)
           (sigp : list Q) (z : list col) : result :=
  let p_old := map (fun c => map2 Qmult c mass) (f_vel src) in
  let kin_old := ase_kin mass p_old in
  let p1 := map (fun zc => map2 Qmult zc sigp) z in
  let kin_before := ase_kin mass p1 in
  let p2 := if use_zm Ase zm then map (stationary_col mass) p1 else p1 in
  let kin_new := if fixed_L6 then ase_kin mass p2 else kin_before in
  let v := map (fun pc => map2 Qdiv pc mass) p2 in
  let dek := if Qeq_bool kin_old 0 then None else Some (kin_new - kin_old) in
  mkRes (mkFrame (f_pos src) v (f_box src) (f_ids src)) kin_new dek (Some kin_old).

(* ------------------------------------------------------------------ driven by the stream *)
Definition modify_std_stream (e : engine) (mass : list Q) (src : frame) (ekin_stored : option Q)
           (zm : option bool) (sig : list Q) (s : list Q) : result * list Q :=
  (modify_std e mass src ekin_stored zm sig (cols_of_stream (f_npart src) (f_dim src) s),
   stream_rest (f_npart src) (f_dim src) s).

(* rng.standard_normal((len(masses), 3)) *)
Definition modify_ase_stream (fixed_L6 : bool) (mass : list Q) (src : frame) (zm : option bool)
           (sigp : list Q) (s : list Q) : result * list Q :=
  (modify_ase fixed_L6 mass src zm sigp (cols_of_stream (length mass) 3 s),
   stream_rest (length mass) 3 s).

(* ------------------------------------------------------------------ files and the System object *)
(* File names the operation can touch: the file the shooting point refers to (any number of
   them exist), and the two files the engine writes in its exe_dir. *)
Inductive fname := FSrc (n : Z) | FConf | FGenvel.

Definition fname_eqb (a b : fname) : bool :=
  match a, b with
  | FSrc x, FSrc y => Z.eqb x y
  | FConf, FConf => true
  | FGenvel, FGenvel => true
  | _, _ => false
  end.

Definition world := fname -> option frame.
Definition write (w : world) (f : fname) (c : frame) : world :=
  fun g => if fname_eqb g f then Some c else w g.

Record system := mkSys { s_file : fname; s_ekin : option Q }.

(* modify_velocities seen with its file effects: dump_frame writes conf.<ext>, the result
   goes to genvel.<ext>, the System handed in is re-pointed to it. *)
Definition modify_world (run : frame -> option Q -> result) (w : world) (s : system)
  : option (world * system * result) :=
  match w (s_file s) with
  | None => None
  | Some fr =>
      let w1 := write w FConf fr in
      let r := run fr (s_ekin s) in
      let w2 := write w1 FGenvel (r_frame r) in
      Some (w2, mkSys FGenvel (Some (r_kin_new r)), r)
  end.

(* prepare_shooting_point: shpt_copy = shooting_point.copy(); modify_velocities(shpt_copy).
   Returns the new world, the path (a list of Systems, returned as it is after the call),
   the modified copy and dek. *)
Definition prepare (run : frame -> option Q -> result) (w : world) (path : list system) (idx : nat)
  : option (world * list system * system * option Q) :=
  match nth_error path idx with
  | None => None
  | Some sp =>
      let cp := mkSys (s_file sp) (s_ekin sp) in
      match modify_world run w cp with
      | None => None
      | Some (w', cp', r) => Some (w', path, cp', r_dek r)
      end
  end.

(* ------------------------------------------------------------------ several calls in one exe_dir *)
(* A wire-fencing move regenerates velocities once per jump between two clean_up() calls of the
   worker directory: conf.<ext> and genvel.<ext> of the previous call are still there when the
   next one starts.  Files are now TRAJECTORIES (their snapshots in order) and a shooting point
   is (file, index), as System.config is.

     pos = self.dump_frame(system)      _extract_frame(file, idx, conf.<ext>)
        rule "extraction overwrites" [overwrite = true]: afterwards conf.<ext> holds exactly that
        snapshot (write_xyz_trajectory(..., append=False) for CP2K / TurtleMD, write_lammpstrj
        opening with "w", shutil.copyfile for .g96, ase.io.write); [false] stands for an
        extraction that appends behind what is there (the default of write_xyz_trajectory)
     self._read_configuration(pos) / read_lammpstrj(pos, 0, n) / read_gromos96_file(pos)
        the FIRST snapshot of conf.<ext> (ase.io.read returns the last one; with the rule in
        place the file holds one snapshot, see [extract_overwrites])
     genvel.<ext> is always rewritten and the System re-pointed to (genvel, 0). *)
Definition tworld := fname -> list frame.

Definition twrite (append : bool) (w : tworld) (f : fname) (c : frame) : tworld :=
  fun g => if fname_eqb g f then (if append then w g ++ [c] else [c]) else w g.

Record tsystem := mkTSys { t_file : fname; t_idx : nat; t_ekin : option Q }.

Definition modify_tworld (overwrite : bool) (run : frame -> option Q -> result) (w : tworld) (s : tsystem)
  : option (tworld * tsystem * result) :=
  match nth_error (w (t_file s)) (t_idx s) with
  | None => None
  | Some fr =>
      let w1 := twrite (negb overwrite) w FConf fr in
      match w1 FConf with
      | [] => None
      | fr0 :: _ =>
          let r := run fr0 (t_ekin s) in
          Some (twrite false w1 FGenvel (r_frame r), mkTSys FGenvel 0 (Some (r_kin_new r)), r)
      end
  end.

(* one call = its shooting point and its operation (engine, masses, setting and ITS draws) *)
Definition vcall := (tsystem * (frame -> option Q -> result))%type.

Fixpoint modify_seq (overwrite : bool) (w : tworld) (calls : list vcall) : option (tworld * list result) :=
  match calls with
  | [] => Some (w, [])
  | (s, run) :: rest =>
      match modify_tworld overwrite run w s with
      | None => None
      | Some (w1, _, r) =>
          match modify_seq overwrite w1 rest with
          | None => None
          | Some (w2, rs) => Some (w2, r :: rs)
          end
      end
  end.

(* what a call yields when nothing else ever happened in the directory: its operation on its own
   shooting point, looked up in the world [w] *)
Definition call_alone (w : tworld) (c : vcall) : option result :=
  match nth_error (w (t_file (fst c))) (t_idx (fst c)) with
  | Some fr => Some (snd c fr (t_ekin (fst c)))
  | None => None
  end.

Definition from_source (c : vcall) : Prop := exists n, t_file (fst c) = FSrc n.

(* the sequence of the harness: one engine, one setting, per call (source file, index, stored ekin, stream) *)
Definition std_call (e : engine) (mass : list Q) (zm : option bool) (sig : list Q)
           (c : Z * nat * option Q * list Q) : vcall :=
  let '(fno, idx, ek, s) := c in
  (mkTSys (FSrc fno) idx ek,
   fun fr ekin => modify_std e mass fr ekin zm sig (cols_of_stream (f_npart fr) (f_dim fr) s)).

Definition ase_call (fixed_L6 : bool) (mass : list Q) (zm : option bool) (sigp : list Q)
           (c : Z * nat * option Q * list Q) : vcall :=
  let '(fno, idx, ek, s) := c in
  (mkTSys (FSrc fno) idx ek,
   fun fr _ => modify_ase fixed_L6 mass fr zm sigp (cols_of_stream (length mass) 3 s)).

Definition world_of_files (files : list (list frame)) : tworld :=
  fun g => match g with
           | FSrc n => if (n <? 0)%Z then [] else nth (Z.to_nat n) files []
           | _ => []
           end.

Definition seq_results (overwrite : bool) (files : list (list frame)) (calls : list vcall) : option (list result) :=
  match modify_seq overwrite (world_of_files files) calls with
  | Some (_, rs) => Some rs
  | None => None
  end.

(* ------------------------------------------------------------------ unit systems (specification) *)
(* SI values (2019 SI: k, N_A, e exact; CODATA 2018 for E_h, m_u, m_e; thermochemical cal). *)
Definition si_k   : Q := 1380649 # (10 ^ 29).            (* J/K *)
Definition si_NA  : Q := 602214076 * (10 ^ 15 # 1).      (* 1/mol *)
Definition si_e   : Q := 1602176634 # (10 ^ 28).         (* C, J per eV *)
Definition si_cal : Q := 4184 # 1000.                    (* J *)
Definition si_Eh  : Q := 43597447222071 # (10 ^ 31).     (* J *)
Definition si_mu  : Q := 166053906660 # (10 ^ 38).       (* kg *)
Definition si_me  : Q := 91093837015 # (10 ^ 41).        (* kg *)

(* engine unit systems: energy unit in J, mass unit in kg, velocity unit in m/s of the
   numbers written to the configuration file *)
Definition gmx_energy : Q := 1000 / si_NA.               (* kJ/mol *)
Definition gmx_mass   : Q := (1 # 1000) / si_NA.         (* g/mol *)
Definition gmx_vel    : Q := 1000.                       (* nm/ps *)
Definition lmp_energy : Q := 1000 * si_cal / si_NA.      (* kcal/mol *)
Definition lmp_mass   : Q := (1 # 1000) / si_NA.         (* g/mol *)
Definition lmp_vel    : Q := 100000.                     (* Angstrom/fs *)
Definition tol6 : Q := 1 # 1000000.

(* factor that takes the square of a written velocity back to the unit of the draw
   (mass unit * draw unit^2 = the engine's energy unit): scale^2 for LAMMPS, 1 otherwise *)
Definition vunit2 (e : engine) : Q :=
  match vscale e with Some s => s * s | None => 1 end.

(* CP2K (Hartree atomic units) and ASE (eV, amu, Angstrom): mass unit in kg and the square of
   the velocity unit in (m/s)^2, the latter *defined* by energy unit = mass unit * velocity unit^2 *)
Definition cp2k_mass : Q := si_me.
Definition cp2k_vel2 : Q := si_Eh / si_me.
Definition ase_mass  : Q := si_mu.
Definition ase_vel2  : Q := si_e / si_mu.

(* LAMMPS: joule per (mass unit * draw-velocity unit^2), the draw being scale * (file velocity) *)
Definition lmp_draw_energy : Q := lmp_mass * (lmp_vel * lmp_vel) / (scale_lammps * scale_lammps).

(* sum of the squares of all drawn standard-normal values *)
Definition sum_sq (z : list col) : Q := sumQ (map (fun zc => sumQ (map (fun x => x * x) zc)) z).

(* ------------------------------------------------------------------ optional entries of a configuration file *)
(* What a configuration FILE holds.  Two entries of the formats are optional:
     velocities -- the VELOCITY block of a .g96 file (read_gromos96_file), the vx vy vz columns
                   of an xyz snapshot (convert_snapshot), the momenta of ASE Atoms;
     box        -- the "Box:" entry in the comment line of an xyz snapshot.
   The readers return zero velocities of the shape of the positions for the former; for the
   latter TurtleMD carries `None` along (no box is written either) and CP2K substitutes the ABC
   of its input template ([dflt_box]; the empty list stands for `None`). *)
Record cfile := mkCfile {
  c_pos : list col; c_vel : option (list col); c_box : option (list Q); c_ids : list Z }.

Definition zero_cols (p : list col) : list col := map (map (fun _ => 0)) p.

Definition col_len (v : list col) : nat := match v with c :: _ => length c | [] => O end.
Definition c_npart (c : cfile) : nat := col_len (c_pos c).

Definition read_cfile (dflt_box : list Q) (c : cfile) : frame :=
  mkFrame (c_pos c)
          (match c_vel c with Some v => v | None => zero_cols (c_pos c) end)
          (match c_box c with Some b => b | None => dflt_box end)
          (c_ids c).

(* Number of velocity lines in genvel.<ext>.  write_xyz_trajectory / write_lammpstrj write one
   line per atom, velocities included.  write_gromos96_file writes one velocity line per entry
   of txt["VELOCITY"] (the labels read from the source's VELOCITY block: none for a frame
   without one); GromacsEngine.modify_velocities (infretis_genvel) therefore has the special case
       if not txt["VELOCITY"]: txt["VELOCITY"] = txt["POSITION"]
   [special = true] is that statement as it is in the source; [false] stands for a test that
   never fires (e.g. `"VELOCITY" not in txt`: the key is always present). *)
Definition vel_lines (e : engine) (special : bool) (c : cfile) : nat :=
  match e, c_vel c with
  | Gromacs, Some v => col_len v
  | Gromacs, None => if special then c_npart c else O
  | _, _ => c_npart c
  end.

(* modify_velocities of CP2K / TurtleMD / LAMMPS / GROMACS (infretis_genvel) on the file level:
   what is read from the source file, what the operation returns and what genvel.<ext> holds *)
Definition modify_file (e : engine) (special : bool) (dflt_box : list Q) (mass : list Q) (c : cfile)
           (ekin_stored : option Q) (zm : option bool) (sig : list Q) (z : list col) : result :=
  let r := modify_std e mass (read_cfile dflt_box c) ekin_stored zm sig z in
  let fr := r_frame r in
  mkRes (mkFrame (f_pos fr) (map (firstn (vel_lines e special c)) (f_vel fr)) (f_box fr) (f_ids fr))
        (r_kin_new r) (r_dek r) (r_kin_old r).

Definition modify_file_stream (e : engine) (special : bool) (dflt_box : list Q) (mass : list Q)
           (c : cfile) (ekin_stored : option Q) (zm : option bool) (sig : list Q) (s : list Q)
  : result * list Q :=
  (modify_file e special dflt_box mass c ekin_stored zm sig
               (cols_of_stream (c_npart c) (length (c_pos c)) s),
   stream_rest (c_npart c) (length (c_pos c)) s).

(* ------------------------------------------------------------------ call sites (tis.py) *)
(* Which settings dictionary reaches modify_velocities.  The only caller is
     prepare_shooting_point(path, rgen, engine, ens_set): engine.modify_velocities(copy, ens_set["tis_set"])
   called by shoot(ens_set, ...) when no shooting point is given; wire_fencing calls shoot once
   per jump with
     sub_ens = {..., "tis_set": ens_set["tis_set"]}          (the SAME dictionary object)
     sub_ens["tis_set"]["allowmaxlength"] = True
     sub_ens["tis_set"]["maxlength"] = ens_set["tis_set"]["maxlength"]
   A dictionary is an association list with unique keys; keys and values are opaque numbers
   (the harness interns the strings and values). *)
Definition settings := list (Z * Z).
Fixpoint sget (k : Z) (s : settings) : option Z :=
  match s with
  | [] => None
  | (k', v) :: r => if Z.eqb k k' then Some v else sget k r
  end.
(* d[k] = v: in place when the key exists, a new last entry otherwise *)
Fixpoint sset (k v : Z) (s : settings) : settings :=
  match s with
  | [] => [(k, v)]
  | (k', v') :: r => if Z.eqb k k' then (k', v) :: r else (k', v') :: sset k v r
  end.

(* None = KeyError("maxlength") *)
Definition wf_sub_settings (k_allow k_maxlen v_true : Z) (s : settings) : option settings :=
  let s1 := sset k_allow v_true s in
  match sget k_maxlen s1 with
  | Some m => Some (sset k_maxlen m s1)
  | None => None
  end.

(* the variant that builds a fresh dictionary {"allowmaxlength": True, "maxlength": ...} *)
Definition wf_sub_settings_rebuilt (k_allow k_maxlen v_true : Z) (s : settings) : option settings :=
  match sget k_maxlen s with
  | Some m => Some [(k_allow, v_true); (k_maxlen, m)]
  | None => None
  end.

(* a wire-fencing move whose path has no frame between the interfaces returns before any jump *)
Inductive vmove := MShoot | MWireFencing (usable : bool) (n_jumps : nat).

(* the vel_settings of the modify_velocities calls a move makes, in order *)
Definition handed_with (sub : settings -> option settings) (mv : vmove) (s : settings) : option (list settings) :=
  match mv with
  | MShoot => Some [s]
  | MWireFencing false _ => Some []
  | MWireFencing true n => match sub s with Some s' => Some (repeat s' n) | None => None end
  end.
Definition handed (k_allow k_maxlen v_true : Z) := handed_with (wf_sub_settings k_allow k_maxlen v_true).

(* vel_settings.get("zero_momentum", D) with the interned value of True *)
Definition zm_of (v_true : Z) (o : option Z) : option bool :=
  match o with Some v => Some (Z.eqb v v_true) | None => None end.
