(* Executable model of infretis/classes/orderparameter.py (pbc_dist_coordinate, Distance,
   Distancevel, Position, Velocity, Dihedral, Puckering), of the velocity handling of
   EngineBase.calculate_order (classes/engines/enginebase.py) and of the order
   recomputation of Path.reverse (classes/path.py).  No proofs here.

   Numbers.  Coordinates, velocities and box lengths are integers: a float is a dyadic
   rational, so every finite set of floats is an integer configuration divided by a
   common power of two (the harness feeds grid coordinates k / 2^g as the integers k);
   homogeneity of every function below under a positive common factor is proved in
   proofs/GeomP.v, which is what makes the integer scale immaterial.  Floating-point
   rounding is not modelled (exact arithmetic).

   Irrational steps.  sqrt, arctan2, sin and cos are not interpreted.  Each calculate
   function returns the exact integer ARGUMENTS from which the class obtains its result by
   a fixed expression in those functions (given next to each definition); the theorems
   show that these arguments are invariant.

   Errors.  IndexError / TypeError of the Python code = None. *)
From Coq Require Import ZArith List Bool.
Import ListNotations.
Open Scope Z_scope.

(* ------------------------------------------------------------------ vectors *)

Record v3 := V3 { vx : Z; vy : Z; vz : Z }.

Definition vzero : v3 := V3 0 0 0.
Definition vadd (a b : v3) : v3 := V3 (vx a + vx b) (vy a + vy b) (vz a + vz b).
Definition vsub (a b : v3) : v3 := V3 (vx a - vx b) (vy a - vy b) (vz a - vz b).
Definition vneg (a : v3) : v3 := V3 (- vx a) (- vy a) (- vz a).
Definition vscale (k : Z) (a : v3) : v3 := V3 (k * vx a) (k * vy a) (k * vz a).
(* component-wise product: k o L = (kx Lx, ky Ly, kz Lz), a lattice vector of the box L *)
Definition vmul (k l : v3) : v3 := V3 (vx k * vx l) (vy k * vy l) (vz k * vz l).
Definition dot (a b : v3) : Z := vx a * vx b + vy a * vy b + vz a * vz b.
Definition cross (a b : v3) : v3 :=
  V3 (vy a * vz b - vz a * vy b) (vz a * vx b - vx a * vz b) (vx a * vy b - vy a * vx b).
Definition triple (a b c : v3) : Z := dot (cross a b) c.

Definition comp (v : v3) (dim : nat) : option Z :=
  match dim with
  | O => Some (vx v)
  | S O => Some (vy v)
  | S (S O) => Some (vz v)
  | _ => None
  end.

Definition vlist (v : v3) : list Z := [vx v; vy v; vz v].

(* ------------------------------------------------------------------ minimum image *)

(* np.rint(d * (1.0 / L)) for L > 0 in exact arithmetic: nearest integer of d / L, ties to
   the even neighbour (numpy's rint is round-half-even) *)
Definition rint_div (d L : Z) : Z :=
  let q := d / L in
  let r := d mod L in
  if 2 * r <? L then q
  else if L <? 2 * r then q + 1
  else if Z.even q then q else q + 1.

(* d is exactly a half-integer multiple of L: the rounding tie *)
Definition tieb (d L : Z) : bool := 2 * (d mod L) =? L.

(* body of the loop of pbc_dist_coordinate for one component:
     if np.abs(d) > 0.5 * L:  d - np.rint(d * ilength) * L   else: d *)
Definition pbc1 (d L : Z) : Z :=
  if L <? 2 * Z.abs d then d - rint_div d L * L else d.

(* pbc_dist_coordinate(distance, box_lengths): pbcdist = zeros(distance.shape); the loop
   runs over enumerate(box_lengths) and writes pbcdist[i] from distance[i], so a box with
   more entries than the distance has components raises IndexError and components beyond
   the box stay zero *)
Fixpoint pbc_loop (d box : list Z) {struct box} : option (list Z) :=
  match box with
  | [] => Some (map (fun _ => 0) d)
  | L :: box' =>
    match d with
    | [] => None
    | x :: d' =>
      match pbc_loop d' box' with
      | Some r => Some (pbc1 x L :: r)
      | None => None
      end
    end
  end.

Definition pbc_vec (d : v3) (box : list Z) : option v3 :=
  match pbc_loop (vlist d) box with
  | Some [a; b; c] => Some (V3 a b c)
  | _ => None
  end.

(* ------------------------------------------------------------------ system *)

(* System.pos, System.vel, System.box (None, or the 3- or 9-component list the engines
   produce: lengths first, then the off-diagonal elements) *)
Record system := Sys { spos : list v3; svel : list v3; sbox : option (list Z) }.

(* "if self.periodic and system.box is not None: box = np.array(system.box[:3]);
    v = pbc_dist_coordinate(v, box)" *)
Definition wrap (periodic : bool) (box : option (list Z)) (d : v3) : option v3 :=
  match periodic, box with
  | true, Some b => pbc_vec d (firstn 3 b)
  | _, _ => Some d
  end.

(* Distancevel as it is in /repo passes system.box unsliced (lead L7); fixed_L7 = true is
   the repaired code (proposed_fixes/C20_distancevel_box.diff), which slices like the
   other classes *)
Definition wrap_dv (fixed_L7 periodic : bool) (box : option (list Z)) (d : v3) : option v3 :=
  match periodic, box with
  | true, Some b => pbc_vec d (if fixed_L7 then firstn 3 b else b)
  | _, _ => Some d
  end.

(* ------------------------------------------------------------------ Distance
   result = [sqrt(dist2)] *)
Definition distance_core (periodic : bool) (box : option (list Z)) (p0 p1 : v3) : option Z :=
  match wrap periodic box (vsub p1 p0) with
  | Some d => Some (dot d d)
  | None => None
  end.

Definition distance_calc (i0 i1 : nat) (periodic : bool) (s : system) : option Z :=
  match nth_error (spos s) i1, nth_error (spos s) i0 with
  | Some p1, Some p0 => distance_core periodic (sbox s) p0 p1
  | _, _ => None
  end.

(* ------------------------------------------------------------------ Distancevel
   result = [num / sqrt(den2)] with (num, den2) = (delta . delta_v, delta . delta) *)
Definition distancevel_core (fixed_L7 periodic : bool) (box : option (list Z))
           (p0 p1 w0 w1 : v3) : option (Z * Z) :=
  match wrap_dv fixed_L7 periodic box (vsub p1 p0) with
  | Some d => Some (dot d (vsub w1 w0), dot d d)
  | None => None
  end.

Definition distancevel_calc (fixed_L7 : bool) (i0 i1 : nat) (periodic : bool) (s : system)
  : option (Z * Z) :=
  match nth_error (spos s) i1, nth_error (spos s) i0 with
  | Some p1, Some p0 =>
    match nth_error (svel s) i1, nth_error (svel s) i0 with
    | Some w1, Some w0 => distancevel_core fixed_L7 periodic (sbox s) p0 p1 w0 w1
    | _, _ => None
    end
  | _, _ => None
  end.

(* ------------------------------------------------------------------ Position / Velocity
   result = [system.pos[i, dim]]  /  [system.vel[i][dim]] *)
Definition position_calc (i dim : nat) (s : system) : option Z :=
  match nth_error (spos s) i with Some p => comp p dim | None => None end.

Definition velocity_calc (i dim : nat) (s : system) : option Z :=
  match nth_error (svel s) i with Some w => comp w dim | None => None end.

(* ------------------------------------------------------------------ Dihedral
   vector1 = A - B, vector2 = B - C, vector3 = D - C (each wrapped when periodic);
   vector2 /= |vector2|;  denom = v1.v3 - (v1.v2)(v2.v3);  numer = (v1 x v2).v3.
   With the five integers (a, b, c, bb, t) = (v1.v3, v1.v2, v2.v3, v2.v2, (v1 x v2).v3) of
   the un-normalised vectors:
     result = [arctan2(t / sqrt(bb), a - b * c / bb)] *)
Record dih := Dih { dh_a : Z; dh_b : Z; dh_c : Z; dh_bb : Z; dh_t : Z }.

Definition dihedral_core (periodic : bool) (box : option (list Z)) (pa pb pc pd : v3) : option dih :=
  match wrap periodic box (vsub pa pb), wrap periodic box (vsub pb pc), wrap periodic box (vsub pd pc) with
  | Some v1, Some v2, Some v3 =>
    Some (Dih (dot v1 v3) (dot v1 v2) (dot v2 v3) (dot v2 v2) (triple v1 v2 v3))
  | _, _, _ => None
  end.

Definition dihedral_calc (i0 i1 i2 i3 : nat) (periodic : bool) (s : system) : option dih :=
  match nth_error (spos s) i0, nth_error (spos s) i1, nth_error (spos s) i2, nth_error (spos s) i3 with
  | Some pa, Some pb, Some pc, Some pd => dihedral_core periodic (sbox s) pa pb pc pd
  | _, _, _, _ => None
  end.

(* ------------------------------------------------------------------ Puckering
   pos = system.pos[index] (a copy); when periodic: pos[i] = pbc(pos[i] - pos[0]) for
   i = 1..5 and pos[0] = 0; centre; R1 = sum pos[i] sin(2 pi (i-6)/6),
   R2 = sum pos[i] cos(2 pi (i-6)/6); n = R1 x R2 / |R1 x R2|; z[i] = pos[i] . n.
   sin takes the values 0, s, s, 0, -s, -s (s = sqrt(3)/2 > 0) and cos the values
   1, 1/2, -1/2, -1, -1/2, 1/2, so with q[i] = 6 (pos[i] - centre) (integers),
   S = q1 + q2 - q4 - q5 and T = 2 q0 + q1 - q2 - 2 q3 - q4 + q5:
     R1 = (s / 6) S,  R2 = T / 12,  n = (S x T) / |S x T|,
     z[i] = zeta[i] / (6 sqrt(nn))  with  zeta[i] = q[i] . (S x T),  nn = (S x T).(S x T);
   the result [theta, phi, Q] is a fixed function of z[0..5] only. *)
Definition vsum (l : list v3) : v3 := fold_right vadd vzero l.

Fixpoint wrap_rel (b : list Z) (p0 : v3) (l : list v3) : option (list v3) :=
  match l with
  | [] => Some []
  | p :: l' =>
    match pbc_vec (vsub p p0) b, wrap_rel b p0 l' with
    | Some w, Some r => Some (w :: r)
    | _, _ => None
    end
  end.

Definition puck_whole (periodic : bool) (box : option (list Z)) (ps : list v3) : option (list v3) :=
  match periodic, box, ps with
  | true, Some b, p0 :: rest =>
    match wrap_rel (firstn 3 b) p0 rest with
    | Some r => Some (vzero :: r)
    | None => None
    end
  | _, _, _ => Some ps
  end.

Record puck := Puck { pk_zeta : list Z; pk_nn : Z }.

(* q[i] = 6 (pos[i] - mean(pos)) *)
Definition centre6 (ps : list v3) : list v3 :=
  let c := vsum ps in map (fun p => vsub (vscale 6 p) c) ps.

Definition plane_of (qs : list v3) : option puck :=
  match qs with
  | [q0; q1; q2; q3; q4; q5] =>
    let S := vsub (vsub (vadd q1 q2) q4) q5 in
    let T := vadd (vsub (vsub (vsub (vadd (vscale 2 q0) q1) q2) (vscale 2 q3)) q4) q5 in
    let n := cross S T in
    Some (Puck (map (fun qi => dot qi n) qs) (dot n n))
  | _ => None
  end.

Definition puck_plane (ps : list v3) : option puck := plane_of (centre6 ps).

Definition puckering_core (periodic : bool) (box : option (list Z)) (ps : list v3) : option puck :=
  match puck_whole periodic box ps with
  | Some w => puck_plane w
  | None => None
  end.

(* system.pos[list(index)] *)
Fixpoint lookup_all (pos : list v3) (idx : list nat) : option (list v3) :=
  match idx with
  | [] => Some []
  | i :: r =>
    match nth_error pos i, lookup_all pos r with
    | Some p, Some l => Some (p :: l)
    | _, _ => None
    end
  end.

Definition puckering_calc (idx : list nat) (periodic : bool) (s : system) : option puck :=
  match lookup_all (spos s) idx with
  | Some ps => puckering_core periodic (sbox s) ps
  | None => None
  end.

(* ------------------------------------------------------------------ calculate_order
   EngineBase.calculate_order(system, xyz, vel, box) with all three given:
     system.pos = xyz; system.vel = vel * -1.0 if system.vel_rev else vel; system.box = box;
     return order_function.calculate(system) *)
Definition calculate_order {A} (calc : system -> option A) (vel_rev : bool)
           (xyz vel : list v3) (box : option (list Z)) : option A :=
  calc (Sys xyz (if vel_rev then map vneg vel else vel) box).

(* The two routes of calculate_order(system, xyz=None, vel=None, box=None):
     if any((xyz is None, vel is None, box is None)):
         out = self._read_configuration(system.config[0]); xyz, vel, box = out[0], out[1], out[2]
     if xyz is not None: system.pos = xyz
     if vel is not None: system.vel = vel * -1.0 if system.vel_rev else vel
     if box is not None: system.box = box
     return self.order_function.calculate(system)
   [conf] is what the engine's _read_configuration returns for the file the phase point
   references (an explicit input; readers return arrays for positions and velocities and
   None for a missing box), [box0] is what system.box holds before the call (kept when the
   file has no box).  As soon as one override is missing ALL three are taken from the file. *)
Definition calculate_order_args {A} (calc : system -> option A) (vel_rev : bool)
           (conf : system) (box0 : option (list Z))
           (xyz vel : option (list v3)) (box : option (list Z)) : option A :=
  match xyz, vel, box with
  | Some x, Some v, Some b => calculate_order calc vel_rev x v (Some b)
  | _, _, _ =>
    calc (Sys (spos conf) (if vel_rev then map vneg (svel conf) else svel conf)
              (match sbox conf with Some b => Some b | None => box0 end))
  end.

(* ------------------------------------------------------------------ EngineBase.propagate
   The direction flag at the call site of calculate_order.  propagate(path, ens_set, system,
   reverse) does, before the engine runs:
     initial_file = self.dump_frame(system)
     if reverse != system.vel_rev:  self._reverse_velocities(initial_file, r_<initial_file>)
     system.set_pos((initial_conf, 0))
     system.vel_rev = reverse
     self._propagate_from(name, path, system, ens_set, msg_file, reverse=reverse)
   and every engine's _propagate_from does, for each frame it stores, with the RAW arrays
   xyz / vel / box of the running engine:
     order = self.calculate_order(system, xyz=..., vel=..., box=...)
     snapshot = {"order": order, "config": (traj_file, step_nr), "vel_rev": reverse}
   [flag_in] is system.vel_rev of the incoming shooting point, [vel] the velocities its file
   holds.  [propagate_start] = the velocities the engine is started with, [propagate_flag] =
   what system.vel_rev holds while _propagate_from runs, [propagate_frame] = (order, vel_rev)
   stored for a frame whose raw content is xyz / vel / box. *)
Definition propagate_start (flag_in reverse : bool) (vel : list v3) : list v3 :=
  if Bool.eqb reverse flag_in then vel else map vneg vel.

Definition propagate_flag (flag_in reverse : bool) : bool := reverse.

Definition propagate_frame {A} (calc : system -> option A) (flag_in reverse : bool)
           (xyz vel : list v3) (box : option (list Z)) : option A * bool :=
  (calculate_order calc (propagate_flag flag_in reverse) xyz vel box, reverse).

(* frame 0 of the run: the engine's raw arrays are the start configuration *)
Definition propagate_frame0 {A} (calc : system -> option A) (flag_in reverse : bool)
           (xyz vel : list v3) (box : option (list Z)) : option A * bool :=
  propagate_frame calc flag_in reverse xyz (propagate_start flag_in reverse vel) box.

(* ------------------------------------------------------------------ Path.reverse
   A frame holds an order value, the vel_rev flag and what System.pos/vel/box hold
   (None models pos = vel = None, which is what snapshot_to_system stores).
     new_point = phasepoint.copy(); if rev_v: new_point.vel_rev = not new_point.vel_rev
     if order_function.velocity_dependent and rev_v:
         phasepoint.order = order_function.calculate(phasepoint)
   calculate reads phasepoint.vel as stored: the toggled flag is not applied to it. *)
Record pframe (A : Type) := PF { pf_order : A; pf_rev : bool; pf_sys : option system }.
Arguments PF {A}.
Arguments pf_order {A}.
Arguments pf_rev {A}.
Arguments pf_sys {A}.

Definition reverse_frame {A} (calc : system -> option A) (veldep rev_v : bool) (f : pframe A)
  : option (pframe A) :=
  let r := if rev_v then negb (pf_rev f) else pf_rev f in
  if veldep && rev_v then
    match pf_sys f with
    | Some s => match calc s with
                | Some o => Some (PF o r (pf_sys f))
                | None => None
                end
    | None => None
    end
  else Some (PF (pf_order f) r (pf_sys f)).

Fixpoint all_some {B} (l : list (option B)) : option (list B) :=
  match l with
  | [] => Some []
  | Some x :: r => match all_some r with Some t => Some (x :: t) | None => None end
  | None :: _ => None
  end.

Definition path_reverse {A} (calc : system -> option A) (veldep rev_v : bool)
           (fs : list (pframe A)) : option (list (pframe A)) :=
  all_some (map (reverse_frame calc veldep rev_v) (rev fs)).

(* ------------------------------------------------------------------ the symmetries *)

Definition translate (t : v3) (s : system) : system :=
  Sys (map (vadd t) (spos s)) (svel s) (sbox s).

(* atom i is moved by the lattice vector ks[i] o L *)
Fixpoint imgshift (L : v3) (ks pos : list v3) : list v3 :=
  match pos, ks with
  | p :: pos', k :: ks' => vadd p (vmul k L) :: imgshift L ks' pos'
  | _, _ => pos
  end.

Definition shift_images (L : v3) (ks : list v3) (s : system) : system :=
  Sys (imgshift L ks (spos s)) (svel s) (sbox s).

Definition reverse_vel (s : system) : system :=
  Sys (spos s) (map vneg (svel s)) (sbox s).

Definition scale_sys (c : Z) (s : system) : system :=
  Sys (map (vscale c) (spos s)) (map (vscale c) (svel s))
      (match sbox s with Some b => Some (map (Z.mul c) b) | None => None end).

(* rows of a 3x3 integer matrix; the rational matrix M / c is orthogonal when
   M^T M = c^2 I, a rotation when moreover det M = c^3 (every rational rotation has this
   form, e.g. from Pythagorean quadruples) *)
Record m3 := M3 { row1 : v3; row2 : v3; row3 : v3 }.
Definition mapply (m : m3) (v : v3) : v3 := V3 (dot (row1 m) v) (dot (row2 m) v) (dot (row3 m) v).
Definition col1 (m : m3) : v3 := V3 (vx (row1 m)) (vx (row2 m)) (vx (row3 m)).
Definition col2 (m : m3) : v3 := V3 (vy (row1 m)) (vy (row2 m)) (vy (row3 m)).
Definition col3 (m : m3) : v3 := V3 (vz (row1 m)) (vz (row2 m)) (vz (row3 m)).
Definition det (m : m3) : Z := triple (row1 m) (row2 m) (row3 m).
Definition orthogonal (m : m3) (c : Z) : Prop :=
  dot (col1 m) (col1 m) = c * c /\ dot (col2 m) (col2 m) = c * c /\ dot (col3 m) (col3 m) = c * c /\
  dot (col1 m) (col2 m) = 0 /\ dot (col1 m) (col3 m) = 0 /\ dot (col2 m) (col3 m) = 0.

Definition rotate (m : m3) (s : system) : system :=
  Sys (map (mapply m) (spos s)) (map (mapply m) (svel s)) (sbox s).
