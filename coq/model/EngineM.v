(* Executable model of the engine contract common to every engine class
   (EngineBase.add_to_path and the loop every _propagate_from runs around it).
   The MD program is an input: the stream of frames it would produce after the
   initial phase point.  No proofs here. *)
From Coq Require Import ZArith List Bool Lia.
Import ListNotations.
From Inf Require Import model.PathM.
Open Scope Z_scope.

(* EngineBase.add_to_path(path, phase_point, left, right) -> (success, stop, add).
   [None] models the IndexError of phasepoints[-1] on an empty path (maxlen = 0). *)
Definition add_to_path (p : path) (f : frame) (left right : Z)
  : option (path * bool * bool * bool) :=
  let '(p1, add) := append p f in
  (* if not add: success = False; stop = True *)
  let success := false in
  let stop := negb add in
  match rev (pts p1) with
  | [] => None
  | lastf :: _ =>
      let '(success, stop) :=
        if ford lastf <? left then (true, true)
        else if right <? ford lastf then (true, true)
        else (success, stop) in
      let '(success, stop) :=
        if (plen p1 =? maxlen p1)%nat then (false, true) else (success, stop) in
      Some (p1, success, stop, add)
  end.

Inductive prop_result :=
| PR (p : path) (success : bool) (consumed : nat)   (* normal return *)
| PRExhausted (p : path)                            (* the MD program ended before a stop *)
| PRError.                                          (* IndexError, maxlen = 0 *)

(* The loop "for each frame produced: add_to_path; if stop: break".  The first element of
   [stream] is the initial phase point itself (every engine adds it first). *)
Fixpoint propagate_loop (p : path) (stream : list frame) (left right : Z) (n : nat) : prop_result :=
  match stream with
  | [] => PRExhausted p
  | f :: r =>
      match add_to_path p f left right with
      | None => PRError
      | Some (p1, success, stop, _) =>
          if stop then PR p1 success (S n) else propagate_loop p1 r left right (S n)
      end
  end.

Definition propagate (p : path) (init : frame) (stream : list frame) (left right : Z) : prop_result :=
  propagate_loop p (init :: stream) left right 0.
