(* Certificate-checked picks for the REPEX model (property C05).

   pick() draws (row, column) from the probability matrix P; for the permanent ratios of a
   non-negative weight matrix, P_ij > 0 exactly when the pair (i, j) belongs to some perfect
   matching of the idle block.  The model of model/RepexM.v lets pick take ANY idle pair with
   non-zero weight (enough for exclusivity, C03).  Here every take carries a certificate: a
   perfect matching [m] of the idle block with m(i) = j, checked by the boolean [matb].
   The trace validator computes such a certificate for every pick the real program made; if
   none exists the real pick had probability zero under the exact P.
   No proofs in this file. *)
From Coq Require Import ZArith QArith List Bool Lia.
Import ListNotations.
From Inf Require Import model.RepexM.
Open Scope nat_scope.

(* m[r] = the column matched to row r (entries of busy rows are ignored) *)
Definition mrow (m : list nat) (r : nat) : nat := nth r m 0.

Definition matb (s : rstate) (m : list nat) : bool :=
  (length m =? size s) &&
  forallb (fun r => is_locked s r ||
     (negb (is_locked s (mrow m r)) && negb (wij s r (mrow m r) =? 0)%Z &&
      forallb (fun r' => is_locked s r' || negb (mrow m r =? mrow m r') || (r =? r')) (seq 0 (size s))))
    (seq 0 (size s)).

Definition take_cert (s : rstate) (m : list nat) (i j : nat) : bool := matb s m && (mrow m i =? j).

(* certificates for the entries of a recorded job re-issued by pick_lock *)
Fixpoint pick_lock_certs (s : rstate) (cols paths : list nat) (ws : list (list nat)) : bool :=
  match cols, paths, ws with
  | [], [], [] => true
  | c :: cr, p :: pr, m :: wr =>
      match index_of p (removelast (trajs s)) with
      | None => false
      | Some idx =>
          take_cert s m idx c &&
          match lock (swap s idx c) c with
          | None => false
          | Some s1 => pick_lock_certs s1 cr pr wr
          end
      end
  | _, _, _ => false
  end.

Definition step_m (f : fstate) (o : op) (ws : list (list nat)) : option fstate :=
  match o with
  | OpPick c pin =>
      match ws with
      | m1 :: rest =>
          if negb (take_cert (core f) m1 (pk_i c) (pk_j c)) then None else
          match pk_zs c, rest with
          | None, [] => step f o
          | Some k, [m2] =>
              match lock (swap (core f) (pk_i c) (pk_j c)) (pk_j c), partner (pk_j c) with
              | Some s1, Some other => if take_cert s1 m2 k other then step f o else None
              | _, _ => None
              end
          | _, _ => None
          end
      | [] => None
      end
  | OpPickLock cols paths pin =>
      if pick_lock_certs (core f) cols paths ws then step f o else None
  | OpTreat _ _ _ _ =>
      match ws with [] => step f o | _ => None end
  end.

Fixpoint run_m (f : fstate) (ops : list (op * list (list nat))) : option fstate :=
  match ops with
  | [] => Some f
  | (o, ws) :: r => match step_m f o ws with None => None | Some f' => run_m f' r end
  end.

(* ------------------------------------------------------------------ staircase states
   (for the bounded termination theorem of sort_trajstate) *)

(* plus row of height h among m plus ensembles: columns 1..h are 1, the rest 0; n = m + 2 *)
Definition plus_row (m h : nat) : list Z :=
  0%Z :: (repeat 1%Z h ++ repeat 0%Z (m - h)) ++ [0%Z].

Definition minus_row (m : nat) : list Z := 1%Z :: repeat 0%Z (m + 1).

Definition ghost_row (m : nat) : list Z := repeat 0%Z (m + 2).

(* heights hs (one per plus slot), busy flags lk for slots 0..m *)
Definition stair_state (hs : list nat) (lk : list bool) : rstate :=
  let m := length hs in
  mkR (minus_row m :: map (plus_row m) hs ++ [ghost_row m])
      (seq 0 (m + 1) ++ [0]) (lk ++ [true]) [] (m + 1).

Fixpoint tuples {A} (vals : list A) (k : nat) : list (list A) :=
  match k with
  | 0 => [[]]
  | S k' => flat_map (fun t => map (fun v => v :: t) vals) (tuples vals k')
  end.

Fixpoint insert_all {A} (x : A) (l : list A) : list (list A) :=
  match l with
  | [] => [[x]]
  | a :: r => (x :: l) :: map (cons a) (insert_all x r)
  end.

Fixpoint perms {A} (l : list A) : list (list A) :=
  match l with
  | [] => [[]]
  | a :: r => flat_map (insert_all a) (perms r)
  end.

(* busy slots hold a path with non-zero weight there (what the exclusivity invariant gives) *)
Definition busy_diag_ok (s : rstate) : bool :=
  forallb (fun c => negb (is_locked s c) || negb (wij s c c =? 0)%Z) (seq 0 (size s - 1)).

Definition sort_ok (s : rstate) : bool :=
  match sort_trajstate s with SortOk _ it => it <=? size s * size s | _ => false end.

(* every staircase state with m plus ensembles, any busy set: if busy slots are valid and the
   idle block has a perfect matching then the literal re-sorting loop ends without error *)
Definition sort_sweep (m : nat) : bool :=
  forallb (fun hs =>
    forallb (fun lk =>
      let s := stair_state hs lk in
      negb (busy_diag_ok s) || negb (existsb (matb s) (map (fun p => p ++ [0]) (perms (seq 0 (m + 1))))) || sort_ok s)
      (tuples [false; true] (m + 1)))
    (tuples (seq 1 m) m).
