(* Independent specification for property C10 (wire-fencing weights).  It shares no code
   with model/WeightM.v: frames are classified into three regions and the valid sub-paths
   are described (a) declaratively and (b) by a small structurally recursive function over
   the region sequence, which the check also extracts and uses as its oracle.  No proofs
   here. *)
From Coq Require Import ZArith QArith List Bool Lia.
Import ListNotations.
Open Scope nat_scope.

(* region of a frame w.r.t. the pair (left, right):
   RA = below left, RB = inside [left, right), RC = at or above right.
   For an empty region (right <= left) RB never occurs. *)
Inductive reg := RA | RB | RC.

Definition region (left right o : Z) : reg :=
  if (o <? left)%Z then RA else if (o <? right)%Z then RB else RC.

Definition isB (r : reg) : bool := match r with RB => true | _ => false end.
Definition isC (r : reg) : bool := match r with RC => true | _ => false end.

(* length of the maximal run of inside-frames at the head of a list *)
Fixpoint spanB (rs : list reg) : nat :=
  match rs with
  | RB :: r => S (spanB r)
  | _ => 0
  end.

(* For every outside frame i: the maximal inside-run that follows it has n frames; it is a
   valid sub-path when n > 0, a frame (i + n + 1) terminates the run and entry/exit are
   not both on the right.  Result entries: (entry index, exit index, interior count). *)
Fixpoint spec_from (i : nat) (rs : list reg) : list (nat * nat * nat) :=
  match rs with
  | [] => []
  | x :: r =>
      let rest := spec_from (S i) r in
      if isB x then rest
      else
        let n := spanB r in
        match nth_error r n with
        | Some y =>
            if (0 <? n) && negb (isC x && isC y) then (i, i + n + 1, n) :: rest else rest
        | None => rest
        end
  end.

Definition spec_segments (rs : list reg) : list (nat * nat * nat) := spec_from 0 rs.

Definition wf_spec (left right : Z) (ords : list Z) : list (nat * nat * nat) :=
  spec_segments (map (region left right) ords).

Definition sum_counts (l : list (nat * nat * nat)) : nat :=
  fold_right (fun s acc => snd s + acc) 0 l.

Definition wf_spec_weight (left right : Z) (ords : list Z) : nat :=
  sum_counts (wf_spec left right ords).

(* ---- declarative validity, on the region sequence *)
Definition validR (rs : list reg) (s e n : nat) : Prop :=
  e = s + n + 1 /\ 1 <= n /\
  (exists x y, nth_error rs s = Some x /\ nth_error rs e = Some y /\
               x <> RB /\ y <> RB /\ ~ (x = RC /\ y = RC)) /\
  (forall j, s < j < e -> nth_error rs j = Some RB).

(* ---- declarative validity, directly on the order parameters: frame s and frame e lie
   outside [left, right), all n >= 1 frames strictly between them lie inside, and the
   sub-path does not go right -> right. *)
Definition valid_seg (left right : Z) (ords : list Z) (s e n : nat) : Prop :=
  e = s + n + 1 /\ 1 <= n /\
  (exists os oe, nth_error ords s = Some os /\ nth_error ords e = Some oe /\
                 (os < left \/ right <= os)%Z /\ (oe < left \/ right <= oe)%Z /\
                 ~ (right <= os /\ right <= oe)%Z) /\
  (forall j, s < j < e -> exists oj, nth_error ords j = Some oj /\ (left <= oj < right)%Z).

(* frame j lies on a valid sub-path *)
Definition on_valid (left right : Z) (ords : list Z) (j : nat) : Prop :=
  exists s e n, valid_seg left right ords s e n /\ s < j < e.

(* time reversal of a segment of a path with L frames *)
Definition mirror (L : nat) (sg : nat * nat * nat) : nat * nat * nat :=
  let '(s, e, n) := sg in (L - 1 - e, L - 1 - s, n).

(* cumulative interior counts of the first k segments *)
Definition cum_counts (segs : list (nat * nat * nat)) (k : nat) : nat :=
  sum_counts (firstn k segs).
