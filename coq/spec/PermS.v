(* Specification for C02: the permanent by expansion along the first row, minors, and
   the exact path-to-ensemble probability  Pspec W i j = W_ij * perm(W \ i,j) / perm W.

   Independent of the model (coq/model/PermM.v): nothing here mentions sorting, blocks,
   Glynn's formula or the staircase shortcut.  Matrices are functions nat -> nat -> Q with
   an explicit size; a list-of-lists matrix is read through [of_lists]. Equality on Q is
   Qeq (==) throughout. *)
From Coq Require Import QArith List Arith.
Import ListNotations.
Open Scope Q_scope.

Definition mat := nat -> nat -> Q.

(* index map that jumps over position i *)
Definition skip (i a : nat) : nat := if (a <? i)%nat then a else S a.

(* delete row i and column j *)
Definition minor (i j : nat) (M : mat) : mat := fun a b => M (skip i a) (skip j b).

(* sum_{k < n} f k *)
Fixpoint qsum (n : nat) (f : nat -> Q) : Q :=
  match n with
  | O => 0
  | S k => qsum k f + f k
  end.

(* permanent of the leading n x n part, expansion along row 0 *)
Fixpoint perm (n : nat) (M : mat) : Q :=
  match n with
  | O => 1
  | S k => qsum (S k) (fun j => M O j * perm k (minor 0 j M))
  end.

Definition Pspec (n : nat) (W : mat) (i j : nat) : Q :=
  W i j * perm (pred n) (minor i j W) / perm n W.

Definition of_lists (W : list (list Q)) : mat := fun i j => nth j (nth i W []) 0.

Definition transpose (M : mat) : mat := fun a b => M b a.

(* multiply row k by c *)
Definition scale_row (k : nat) (c : Q) (M : mat) : mat :=
  fun a b => if (a =? k)%nat then c * M a b else M a b.

(* the n x n table of Pspec, for the extracted oracle (perm W evaluated once) *)
Definition Pspec_table (n : nat) (W : list (list Q)) : list (list Q) :=
  let M := of_lists W in
  let d := perm n M in
  map (fun i => map (fun j => Qred (M i j * perm (pred n) (minor i j M) / d)) (seq 0 n)) (seq 0 n).

Definition perm_lists (W : list (list Q)) : Q := Qred (perm (length W) (of_lists W)).

(* Glynn's formula, written as the plain sum over sign vectors (delta_0 = +1):
   perm M = 2^-(n-1) * sum_delta (prod_k delta_k) * prod_j (sum_i delta_i M_ij) *)
Fixpoint qprod (n : nat) (f : nat -> Q) : Q :=
  match n with
  | O => 1
  | S k => qprod k f * f k
  end.

Fixpoint signs (k : nat) : list (list Q) :=
  match k with
  | O => [[]]
  | S k' => flat_map (fun s => [1 :: s; (-1) :: s]) (signs k')
  end.

Definition glynn_plain (n : nat) (M : mat) : Q :=
  match n with
  | O => 1
  | S k =>
    fold_right Qplus 0
      (map (fun d => fold_right Qmult 1 d *
                     qprod (S k) (fun j => M O j + qsum k (fun i => nth i d 0 * M (S i) j)))
           (signs k))
    / inject_Z (2 ^ Z.of_nat k)
  end.

(* ------------------------------------------------------------------ *)
(* The reachable family named by the property, as enumerable finite sets (used by the
   bounded theorems; nothing here mentions the model).

   State matrix of a run with m plus-ensembles: n = m + 2; row/column 0 belong to [0-],
   rows/columns 1..m to the plus ensembles, the last row/column is the ghost ensemble
   (always zero, always locked).  The path in slot r has non-zero weight in the first
   ks[r] plus ensembles (a "staircase" row); the [0-] path only in [0-]. *)

Definition stair_row (m : nat) (ws : list Q) : list Q := (0 :: ws) ++ repeat 0 (S (m - length ws)).

Definition wstair_matrix (rows : list (list Q)) : list (list Q) :=
  let m := length rows in
  ((1 :: repeat 0 (S m)) :: map (stair_row m) rows) ++ [repeat 0 (S (S m))].

(* 0/1 staircase with supports ks *)
Definition stair_matrix (ks : list nat) : list (list Q) := wstair_matrix (map (fun k => repeat 1 k) ks).

(* all lists of length len over the alphabet *)
Fixpoint lists_over {A} (alphabet : list A) (len : nat) : list (list A) :=
  match len with
  | O => [[]]
  | S l => flat_map (fun x => map (cons x) (lists_over alphabet l)) alphabet
  end.

(* every sequence of supports (= every staircase in every row order) *)
Definition all_supports (m : nat) : list (list nat) := lists_over (seq 1 m) m.
(* every lock vector over [0-] and the m plus ensembles; the ghost is locked *)
Definition all_locks (m : nat) : list (list bool) := map (fun l => l ++ [true]) (lists_over [false; true] (S m)).

(* non-decreasing support sequences only (the order inf_retis sorts into) *)
Fixpoint nondecr_from (lo m len : nat) : list (list nat) :=
  match len with
  | O => [[]]
  | S l => flat_map (fun k => map (cons k) (nondecr_from k m l)) (seq lo (S m - lo))
  end.
Definition sorted_supports (m : nat) : list (list nat) := nondecr_from 1 m m.

(* weighted staircase rows: every non-empty weight list of length <= m over the alphabet *)
Definition all_wrows (ws : list Q) (m : nat) : list (list Q) := flat_map (lists_over ws) (seq 1 m).
Definition all_wstairs (ws : list Q) (m : nat) : list (list (list Q)) := lists_over (all_wrows ws m) m.

(* idle (= unlocked) positions and the idle block *)
Definition idle_idx (locks : list bool) : list nat :=
  filter (fun i => negb (nth i locks true)) (seq 0 (length locks)).
Definition idle_block (W : list (list Q)) (locks : list bool) : list (list Q) :=
  let idx := idle_idx locks in map (fun i => map (fun j => nth j (nth i W []) 0) idx) idx.

(* the property's right-hand side, as a predicate on a full-size result P:
   P = Pspec on the idle block, 0 on every busy row and column *)
Definition is_Pspec_on_idle (W : list (list Q)) (locks : list bool) (P : nat -> nat -> Q) : Prop :=
  let idx := idle_idx locks in
  let k := length idx in
  let S := of_lists (idle_block W locks) in
  (forall a b, (a < k)%nat -> (b < k)%nat -> P (nth a idx O) (nth b idx O) == Pspec k S a b) /\
  (forall i j, (i < length locks)%nat -> (j < length locks)%nat ->
               nth i locks true = true \/ nth j locks true = true -> P i j == 0).

(* the same, decidable (perm of the idle block evaluated once) *)
Definition is_Pspec_on_idle_b (W : list (list Q)) (locks : list bool) (P : nat -> nat -> Q) : bool :=
  let idx := idle_idx locks in
  let k := length idx in
  let S := of_lists (idle_block W locks) in
  let d := perm k S in
  forallb (fun a => forallb (fun b =>
      Qeq_bool (P (nth a idx O) (nth b idx O)) (S a b * perm (pred k) (minor a b S) / d)) (seq 0 k)) (seq 0 k)
  && forallb (fun i => forallb (fun j =>
      if nth i locks true || nth j locks true then Qeq_bool (P i j) 0 else true)
      (seq 0 (length locks))) (seq 0 (length locks)).
