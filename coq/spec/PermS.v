(* Specification for C02: the permanent by expansion along the first row, minors, and
   the exact path-to-ensemble probability  Pspec W i j = W_ij * perm(W \ i,j) / perm W.

   Independent of the model (coq/model/PermM.v): nothing here mentions sorting, blocks,
   Glynn's formula or the staircase shortcut.  Matrices are functions nat -> nat -> Q with
   an explicit size; a list-of-lists matrix is read through [of_lists]. Equality on Q is
   Qeq (==) throughout. *)
From Coq Require Import QArith List Arith.
Import ListNotations.
Open Scope Q_scope.

Definition mat := nat -> nat -> Q.

(* index map that jumps over position i *)
Definition skip (i a : nat) : nat := if (a <? i)%nat then a else S a.

(* delete row i and column j *)
Definition minor (i j : nat) (M : mat) : mat := fun a b => M (skip i a) (skip j b).

(* sum_{k < n} f k *)
Fixpoint qsum (n : nat) (f : nat -> Q) : Q :=
  match n with
  | O => 0
  | S k => qsum k f + f k
  end.

(* permanent of the leading n x n part, expansion along row 0 *)
Fixpoint perm (n : nat) (M : mat) : Q :=
  match n with
  | O => 1
  | S k => qsum (S k) (fun j => M O j * perm k (minor 0 j M))
  end.

Definition Pspec (n : nat) (W : mat) (i j : nat) : Q :=
  W i j * perm (pred n) (minor i j W) / perm n W.

Definition of_lists (W : list (list Q)) : mat := fun i j => nth j (nth i W []) 0.

Definition transpose (M : mat) : mat := fun a b => M b a.

(* multiply row k by c *)
Definition scale_row (k : nat) (c : Q) (M : mat) : mat :=
  fun a b => if (a =? k)%nat then c * M a b else M a b.

(* the n x n table of Pspec, for the extracted oracle (perm W evaluated once) *)
Definition Pspec_table (n : nat) (W : list (list Q)) : list (list Q) :=
  let M := of_lists W in
  let d := perm n M in
  map (fun i => map (fun j => Qred (M i j * perm (pred n) (minor i j M) / d)) (seq 0 n)) (seq 0 n).

Definition perm_lists (W : list (list Q)) : Q := Qred (perm (length W) (of_lists W)).

(* Glynn's formula, written as the plain sum over sign vectors (delta_0 = +1):
   perm M = 2^-(n-1) * sum_delta (prod_k delta_k) * prod_j (sum_i delta_i M_ij) *)
Fixpoint qprod (n : nat) (f : nat -> Q) : Q :=
  match n with
  | O => 1
  | S k => qprod k f * f k
  end.

Fixpoint signs (k : nat) : list (list Q) :=
  match k with
  | O => [[]]
  | S k' => flat_map (fun s => [1 :: s; (-1) :: s]) (signs k')
  end.

Definition glynn_plain (n : nat) (M : mat) : Q :=
  match n with
  | O => 1
  | S k =>
    fold_right Qplus 0
      (map (fun d => fold_right Qmult 1 d *
                     qprod (S k) (fun j => M O j + qsum k (fun i => nth i d 0 * M (S i) j)))
           (signs k))
    / inject_Z (2 ^ Z.of_nat k)
  end.
