(* Property C06 — same seed, same run: determinism and restart equivalence.
   Statements only; proofs in proofs/RestartP.v. *)
From Coq Require Import List Bool Arith Lia.
Import ListNotations.
From Inf Require Import model.RngM model.RepexM proofs.RepexP proofs.RestartP proofs.RestartInstP.
Open Scope nat_scope.

(* For ANY deterministic step function, persisted image and recovery such that recovering
   what was persisted gives back a state equal on everything the step reads: every chain of
   stop/restart segments ends in the same state as the straight run of the same total length
   and emits exactly the same rows in the same order. *)
Theorem C06_restart_chain_equiv :
  forall (St Dk Out : Type) (step : St -> St * list Out) (persist : St -> Dk) (recover : Dk -> St) (eqv : St -> St -> Prop),
  (forall s, eqv s s) -> (forall a b c, eqv a b -> eqv b c -> eqv a c) ->
  (forall a b, eqv a b -> eqv (fst (step a)) (fst (step b)) /\ snd (step a) = snd (step b)) ->
  (forall s, eqv (recover (persist s)) s) ->
  forall segs s,
    eqv (fst (run_chain St Dk Out step persist recover segs s)) (fst (run St Out step (fold_right Nat.add 0 segs) s)) /\
    snd (run_chain St Dk Out step persist recover segs s) = snd (run St Out step (fold_right Nat.add 0 segs) s).
Proof. intros St Dk Out step persist recover eqv r t se rp. exact (restart_chain_equiv St Dk Out step persist recover eqv r t se rp). Qed.
Print Assumptions C06_restart_chain_equiv.

(* the scheduler's generator (entropy, spawn counter, bit-generator state) is recovered exactly
   by the repaired set_rgen from what write_toml stores, for every seed, step and number of
   in-flight jobs, whether or not the counter is derivable *)
Theorem C06_rng_recover_persist : forall sd cstep nlocked g,
  rf_entropy g = sd -> rng_recover true (rng_persist sd cstep nlocked g) = g.
Proof. exact rng_recover_persist. Qed.
Print Assumptions C06_rng_recover_persist.

(* the original set_rgen (before fix 439cda4) does not: seed <> 0, or several workers *)
Theorem C06_rng_recover_persist_original_refuted :
  (exists sd cstep g, rf_entropy g = sd /\ rf_nchild g = cstep /\ rng_recover false (rng_persist sd cstep 0 g) <> g) /\
  (exists cstep nl g, rf_entropy g = 0 /\ rf_nchild g = cstep + nl /\ rng_recover false (rng_persist 0 cstep nl g) <> g).
Proof. exact rng_recover_persist_original_refuted. Qed.
Print Assumptions C06_rng_recover_persist_original_refuted.

(* with several workers a restart re-issues exactly the recorded (ensemble, path) jobs: the job
   created by pick_lock from a recorded entry holds those ensembles and those paths, which sit
   in those ensembles, and it is entered in the lock list again *)
Theorem C06_reissue_exact : forall s cols paths pin s' jb,
  Inv s -> ~ In pin (map jpin (locked s)) -> cols <> [] -> length cols = length paths ->
  pick_lock s cols paths pin = Some (s', jb) ->
  jcols jb = cols /\ jpaths jb = paths /\ Inv s' /\ In jb (locked s') /\
  forall k c, nth_error cols k = Some c ->
    nth_error paths k = Some (nth c (trajs s') 0) /\ is_locked s' c = true.
Proof. exact reissue_exact. Qed.
Print Assumptions C06_reissue_exact.

(* ------------------------------------------------------------------ the generic theorem instantiated
   with the model of the program (proofs/RestartInstP.v).  State = bookkeeping state (RepexM) +
   scheduler generator (RngM) + path store (path number -> weight row: the files load_paths reads);
   [persist] = what write_toml stores (no worker pins, as in the real file); [recover] = load_paths
   (rows rebuilt from the store, everything idle) followed by the model's own pick_lock for every
   recorded job, in order, and the repaired set_rgen; [Good]: the invariant, the store agrees with
   the state, the generator derives from the seed.  [eqv]: equality up to worker pins and the spawn
   counter (re-issued jobs get pins 0,1,2,... and fresh streams). *)
Theorem C06_recover_persist : forall sd s,
  Good sd s -> Good sd (recover (persist sd s)) /\ eqv (recover (persist sd s)) s.
Proof. exact recover_persist. Qed.
Print Assumptions C06_recover_persist.

(* with nothing in flight (one worker: every write) the restart gives back the state exactly *)
Theorem C06_recover_persist_idle : forall sd s,
  Good sd s -> locked (core (mf s)) = [] -> recover (persist sd s) = s.
Proof. exact recover_persist_idle. Qed.
Print Assumptions C06_recover_persist_idle.

(* every chain of stop/restart segments of the model ends in an equivalent state and emits exactly
   the data rows of the straight run, for ANY policy (the random draws and MD outcomes as a function
   of the state) that does not read pins or the spawn counter, gives a new job a free pin, and hands
   back the stored old path on a rejected move *)
Theorem C06_restart_chain_model : forall sd (policy : mstate -> op * nat),
  (forall a b, Good sd a -> Good sd b -> eqv a b ->
     erase_op (fst (policy a)) = erase_op (fst (policy b)) /\ snd (policy a) = snd (policy b)) ->
  (forall s, Good sd s -> op_pin_fresh (core (mf s)) (fst (policy s))) ->
  (forall s, Good sd s -> rej_rows_stored (core (mf s)) (mstore s) (fst (policy s))) ->
  forall segs s, Good sd s ->
  eqv (fst (run_chain mstate image (nat * qrow) (mstep policy) (persist sd) recover segs s))
      (fst (run mstate (nat * qrow) (mstep policy) (fold_right Nat.add 0 segs) s)) /\
  snd (run_chain mstate image (nat * qrow) (mstep policy) (persist sd) recover segs s) =
  snd (run mstate (nat * qrow) (mstep policy) (fold_right Nat.add 0 segs) s).
Proof. exact restart_chain_model. Qed.
Print Assumptions C06_restart_chain_model.

(* non-vacuity: a counter machine with a lossy but sufficient persisted image *)
Example C06_example_chain :
  let step := fun s : nat * nat => ((S (fst s), snd s), [fst s]) in
  snd (run_chain (nat * nat) nat nat step fst (fun d => (d, 0)) [2; 3; 1] (0, 9)) = [0; 1; 2; 3; 4; 5].
Proof. reflexivity. Qed.

Example C06_example_rng : rng_recover true (rng_persist 7 3 1 (mkRF 7 6 42)) = mkRF 7 6 42
                          /\ rd_children (rng_persist 7 3 1 (mkRF 7 4 42)) = None.
Proof. split; reflexivity. Qed.
