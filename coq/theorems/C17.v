(* Property C17 — exactly the requested number of moves runs; each result is consumed once.
   Statements only; proofs in proofs/SchedP.v; model model/SchedM.v (the scheduler loop with
   REPEX_state.initiate/loop, and the task-runner protocol of asyncrunner.py). *)
From Coq Require Import ZArith List Bool Lia Permutation.
Import ListNotations.
From Inf Require Import model.SchedM proofs.SchedP proofs.SchedCrashP.
Open Scope nat_scope.

(* For every worker count W >= 1, every start step c0 <= T (0 or ANY restart point, also one with
   fewer steps left than workers) and EVERY completion order [sched]: the run ends; exactly
   T - c0 jobs were submitted and exactly those were completed, each once; nothing is in
   flight; the step counter is T and so is the one in the restart file, whose lock list is empty. *)
Theorem C17_steps_exact : forall c0 T W, 1 <= W -> c0 <= T -> forall sched,
  exists s', scheduler c0 T W sched = Some s' /\
    cstep s' = T /\ length (completed s') = T - c0 /\ submitted s' = T - c0 /\ pending s' = [] /\
    Permutation (completed s') (seq 0 (T - c0)) /\ restart_cstep s' = T /\ restart_locked s' = [].
Proof. exact scheduler_steps_exact. Qed.
Print Assumptions C17_steps_exact.

(* every completion rewrites the restart file with the current step counter and counts once *)
Theorem C17_restart_counter : forall s choice,
  pending s <> [] -> restart_cstep (complete s choice) = cstep s /\
  length (completed (complete s choice)) = S (length (completed s)).
Proof. exact complete_records. Qed.
Print Assumptions C17_restart_counter.

(* Stop + restart.  The run (any W, any start step c0, any completion order) is stopped after ANY
   number n of consumed results (between two iterations of the main loop; [main_prefix] is the
   first n iterations of main_loop, see C17_prefix_is_scheduler); a new run is started from the
   step counter found in the restart file, with ANY worker count W2 and completion order: the
   file's counter is c0 + n, no job ordinal is both consumed and still in flight, the new run ends,
   and the results consumed by the two runs add up to exactly T - c0; nothing stays in flight. *)
Theorem C17_stop_restart_exact : forall c0 T W, 1 <= W -> c0 <= T ->
  forall n W2 sched1 sched2, n <= T - c0 -> 1 <= W2 ->
  exists s0 s', init_phase (W + 2) (start c0 T W) = Some s0 /\
    restart_cstep (main_prefix n s0 sched1) = c0 + n /\ cstep (main_prefix n s0 sched1) = c0 + n /\
    length (completed (main_prefix n s0 sched1)) = n /\
    NoDup (completed (main_prefix n s0 sched1) ++ pending (main_prefix n s0 sched1)) /\
    scheduler (restart_cstep (main_prefix n s0 sched1)) T W2 sched2 = Some s' /\
    length (completed (main_prefix n s0 sched1)) + length (completed s') = T - c0 /\
    cstep s' = T /\ pending s' = [] /\ restart_cstep s' = T /\ restart_locked s' = [].
Proof. exact crash_restart_total. Qed.
Print Assumptions C17_stop_restart_exact.

(* the stopped state is one the uninterrupted scheduler passes through *)
Theorem C17_prefix_is_scheduler : forall c0 T W, 1 <= W -> c0 <= T -> forall n sched, n <= T - c0 ->
  exists s0, init_phase (W + 2) (start c0 T W) = Some s0 /\
    scheduler c0 T W sched = main_loop (T - c0 - n + 2) (main_prefix n s0 sched) (skipn n sched).
Proof. exact prefix_is_scheduler. Qed.
Print Assumptions C17_prefix_is_scheduler.

(* The task runner, for EVERY interleaving of submissions, wrapper take-overs, task
   completions (results or exceptions), deliveries and the stop request that the protocol
   admits: no unit is executed twice, no result is delivered twice, what is delivered is the
   outcome stored in that unit's own future, and after a clean shutdown every submitted unit was
   executed and its future resolved. *)
Theorem C17_runner_exactly_once : forall w es r,
  rrun (runner_init w) es = Some r ->
  NoDup (map fst (executed r)) /\ NoDup (map fst (delivered r)) /\
  (forall u o, In (u, o) (delivered r) -> fut_get u (futs r) = Some (FDone o)) /\
  (quiescent r = true ->
     queue r = [] /\
     forall u, u < next_unit r -> In u (map fst (executed r)) /\ exists o, fut_get u (futs r) = Some (FDone o)).
Proof. exact runner_exactly_once. Qed.
Print Assumptions C17_runner_exactly_once.

(* a future is resolved once: its outcome never changes afterwards *)
Theorem C17_future_set_once : forall r e r' u o,
  rstep r e = Some r' -> fut_get u (futs r) = Some (FDone o) -> fut_get u (futs r') = Some (FDone o).
Proof. exact future_set_once. Qed.
Print Assumptions C17_future_set_once.

(* the ORIGINAL initiate() (before fix 49b84d7) started jobs it never consumed when fewer steps
   were left than workers: the statement above is refuted for it *)
Theorem C17_steps_exact_original_refuted :
  exists s', scheduler_g false 5 6 2 [] = Some s' /\ length (completed s') = 1 /\ submitted s' = 2 /\ pending s' = [1]
             /\ restart_locked s' = [1].
Proof. eexists. vm_compute. repeat split. Qed.
Print Assumptions C17_steps_exact_original_refuted.

Example C17_short_restart_now :
  exists s', scheduler 5 6 2 [] = Some s' /\ length (completed s') = 1 /\ submitted s' = 1 /\ pending s' = [].
Proof. eexists. vm_compute. repeat split. Qed.

(* non-vacuity *)
Example C17_example_sched :
  exists s', scheduler 0 6 3 [2; 0; 1; 1; 0; 0] = Some s' /\ completed s' = [2; 0; 3; 4; 1; 5] /\ cstep s' = 6.
Proof. eexists. vm_compute. repeat split. Qed.

Example C17_example_runner :
  exists r, rrun (runner_init 2) [ESubmit; ESubmit; ESubmit; ETake 1; ETake 0; EFinish 0 (Exc 7); ETake 0;
                                  EFinish 1 (Res 1); EDeliver; EFinish 0 (Res 3); EDeliver; EStop; EDeliver] = Some r
            /\ delivered r = [(0, Res 1); (1, Exc 7); (2, Res 3)] /\ quiescent r = true.
Proof. eexists. vm_compute. repeat split. Qed.

Definition C17_ex_sk (s0 : sch) : sch := main_prefix 2 s0 [2; 0].
Example C17_example_stop_restart :
  exists s0, init_phase (3 + 2) (start 0 6 3) = Some s0 /\
    completed (C17_ex_sk s0) = [2; 0] /\ pending (C17_ex_sk s0) = [1; 3; 4] /\ restart_cstep (C17_ex_sk s0) = 2 /\
    restart_locked (C17_ex_sk s0) = [1; 3] /\
    exists s', scheduler (restart_cstep (C17_ex_sk s0)) 6 2 [1; 0; 0; 0] = Some s' /\ length (completed s') = 4.
Proof. eexists. split; [vm_compute; reflexivity|]. vm_compute. repeat split. eexists. split; reflexivity. Qed.
