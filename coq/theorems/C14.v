(* Property C14 -- stub while the proofs are being developed. *)
From Coq Require Import ZArith List.
From Inf Require Import gen.ParamsC14 model.StoreM proofs.StoreP.
Open Scope Z_scope.
Theorem C14_params_pinned : order_d = 6%nat /\ energy_d = 6%nat /\ guard_off = 2 /\ lag_off = 2 /\ push_off = 2.
Proof. repeat split; reflexivity. Qed.
Print Assumptions C14_params_pinned.
