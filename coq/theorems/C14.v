(* Property C14 -- stored paths read back unchanged; live paths never lose files.
   This file only restates results proved in proofs/StoreP.v (and, for the written precision,
   in proofs/CodecP.v of C19) so that the statements cannot be weakened silently; each is
   followed by Print Assumptions.  Model: model/StoreM.v.  All theorems are unbounded. *)
From Coq Require Import ZArith QArith Qabs List Bool Lia.
Import ListNotations.
From Inf Require Import gen.ParamsC14 model.CodecM proofs.CodecP model.StoreM proofs.StoreP.
Open Scope Z_scope.

(* the constants and formats of /repo the statements below are about (regenerated from the
   sources on every run: editing one of them re-opens this obligation) *)
Theorem C14_params_pinned :
  order_d = 6%nat /\ energy_d = 6%nat /\ order_w = 12%nat /\ energy_w = 14%nat /\
  traj_none_idx = 0 /\ traj_rev_val = -1 /\ traj_fwd_val = 1 /\
  guard_off = 2 /\ lag_off = 2 /\ push_off = 2.
Proof. repeat split; reflexivity. Qed.
Print Assumptions C14_params_pinned.

(* ------------------------------------------------------------------ (1) store, then load *)

(* PathStorage.output first removes what it finds in the target directory (fix 5456497 in /repo).
   The model has both variants: [store_gen false] removes everything -- also a file the path
   being stored refers to --, [store_gen true] (proposed_fixes/C14_store_keeps_own_files.diff)
   spares those.  The statements below are for the repaired code; this obligation says that
   /repo is the repaired code (it fails to check while /repo is not: see C14_inplace_refuted). *)
Theorem C14_store_is_repaired : store = store_gen true.
Proof. reflexivity. Qed.
Print Assumptions C14_store_is_repaired.

(* For ANY disk, step number, move text, home directory, path number, keep_traj_fnames list and
   path: if
     - the path is not empty, the move text has no line break,
     - every frame's file has a non-empty base name without white space,
     - all frames have the same number of order columns,
     - the kept extensions contain no "/", every source file exists,
     - no file that is moved is one of the three text files just written,
   and PathStorage.output succeeds, then load_path on the path's directory succeeds and returns,
   frame by frame, [reload]: the base name re-rooted under <home>/<n>/accepted/, the index
   (None -> 0), the velocity direction, every order value rounded to the written decimals,
   vpot/ekin rounded likewise, absent (None) energies as NaN. *)
Theorem C14_store_load_roundtrip :
  forall (d : fsmap) (step : Z) (move home : str) (pn : Z) (keep : list str) (p : list frame) (ncol : nat),
  p <> [] -> nonl move -> Forall name_ok p ->
  Forall (fun fr => length (f_orders fr) = ncol) p ->
  Forall no_slash keep ->
  Forall (fun fr => isfile d (f_file fr) = true) p ->
  txt_untouched (move_list (write_txt (clean_dir true (accepted_dir (archive_dir home pn)) p d) (archive_dir home pn) step move p)
                           (accepted_dir (archive_dir home pn)) keep p) (archive_dir home pn) ->
  forall d' cfg, store_gen true d step move home pn keep p = Some (d', cfg) ->
  load d' (archive_dir home pn) = Some (map (reload (archive_dir home pn)) p).
Proof. exact roundtrip_repaired. Qed.
Print Assumptions C14_store_load_roundtrip.

(* both variants: the same, with "every source file exists" read on the disk after the leftovers
   were removed (for [ko = false]: no source file lies directly in the target directory) *)
Theorem C14_store_load_roundtrip_guarded :
  forall (ko : bool) (d : fsmap) (step : Z) (move home : str) (pn : Z) (keep : list str) (p : list frame) (ncol : nat),
  p <> [] -> nonl move -> Forall name_ok p ->
  Forall (fun fr => length (f_orders fr) = ncol) p ->
  Forall no_slash keep ->
  Forall (fun fr => isfile (clean_dir ko (accepted_dir (archive_dir home pn)) p d) (f_file fr) = true) p ->
  txt_untouched (move_list (write_txt (clean_dir ko (accepted_dir (archive_dir home pn)) p d) (archive_dir home pn) step move p)
                           (accepted_dir (archive_dir home pn)) keep p) (archive_dir home pn) ->
  forall d' cfg, store_gen ko d step move home pn keep p = Some (d', cfg) ->
  load d' (archive_dir home pn) = Some (map (reload (archive_dir home pn)) p).
Proof. exact store_load_roundtrip. Qed.
Print Assumptions C14_store_load_roundtrip_guarded.

(* the unrepaired variant violates the full statement: a path stored again in its own directory *)
Theorem C14_inplace_refuted :
  exists d p d' cfg,
    p <> [] /\ Forall name_ok p /\ Forall (fun fr => length (f_orders fr) = 1%nat) p /\
    Forall (fun fr => isfile d (f_file fr) = true) p /\ distinct_basenames p /\
    (forall fr, In fr p -> ~ In (f_file fr) (txt_files (archive_dir [108] 3))) /\
    store_gen false d 7 [115; 104] [108] 3 [] p = Some (d', cfg) /\ load d' (archive_dir [108] 3) = None /\
    exists d2 cfg2, store_gen true d 7 [115; 104] [108] 3 [] p = Some (d2, cfg2) /\
                    load d2 (archive_dir [108] 3) = Some (map (reload (archive_dir [108] 3)) p).
Proof. exact inplace_refuted. Qed.
Print Assumptions C14_inplace_refuted.

(* what [reload] promises, spelled out *)
Theorem C14_reload_frame : forall pdir fr,
  l_file (reload pdir fr) = pjoin (pjoin pdir acc_dir) (basename (f_file fr)) /\
  l_idx (reload pdir fr) = match f_idx fr with None => 0 | Some k => k end /\
  l_rev (reload pdir fr) = f_rev fr /\
  length (l_orders (reload pdir fr)) = length (f_orders fr) /\
  (forall k v q, nth_error (f_orders fr) k = Some (Some v) -> nth_error (l_orders (reload pdir fr)) k = Some (Some q) ->
     (Qabs (q - snd v) <= 1 # 2000000)%Q) /\
  (forall k, nth_error (f_orders fr) k = Some None -> nth_error (l_orders (reload pdir fr)) k = Some None) /\
  (forall v, f_vpot fr = Some v -> exists q, l_vpot (reload pdir fr) = Some (Some q) /\ (Qabs (q - snd v) <= 1 # 2000000)%Q) /\
  (f_vpot fr = None -> l_vpot (reload pdir fr) = Some None) /\
  (forall v, f_ekin fr = Some v -> exists q, l_ekin (reload pdir fr) = Some (Some q) /\ (Qabs (q - snd v) <= 1 # 2000000)%Q) /\
  (f_ekin fr = None -> l_ekin (reload pdir fr) = Some None).
Proof. exact reload_frame_spec. Qed.
Print Assumptions C14_reload_frame.

(* the round trip does not depend on the field width; inside the width guard of C19 the field
   is exactly as wide as the format says (the columns stay aligned) *)
Theorem C14_width_guard : forall nz x,
  width_guard order_w order_d nz x = true <-> length (print_field order_w order_d (Some (nz, x))) = order_w.
Proof. exact width_guard_field. Qed.
Print Assumptions C14_width_guard.

(* ------------------------------------------------------------------ (2) referenced files exist *)

Theorem C14_stored_files_exist :
  forall (d : fsmap) (step : Z) (move home : str) (pn : Z) (keep : list str) (p : list frame),
  Forall no_slash keep ->
  Forall (fun fr => isfile d (f_file fr) = true) p ->
  forall d' cfg, store_gen true d step move home pn keep p = Some (d', cfg) ->
  forall lf, In lf (map (reload (archive_dir home pn)) p) ->
  exists s, In (s, l_file lf) (move_list (write_txt (clean_dir true (accepted_dir (archive_dir home pn)) p d) (archive_dir home pn) step move p)
                                          (accepted_dir (archive_dir home pn)) keep p) /\
            l_file lf = pjoin (accepted_dir (archive_dir home pn)) (basename s) /\
            isfile d' (l_file lf) = true.
Proof. exact files_exist_repaired. Qed.
Print Assumptions C14_stored_files_exist.

(* with the explicit hypothesis that distinct source files of the path have distinct base names
   (no keep_traj_fnames), every referenced file holds exactly what its source held *)
Theorem C14_stored_content_distinct_basenames :
  forall (d : fsmap) (step : Z) (move home : str) (pn : Z) (p : list frame),
  distinct_basenames p ->
  (forall fr, In fr p -> ~ In (f_file fr) (txt_files (archive_dir home pn))) ->
  forall d' cfg, store_gen true d step move home pn [] p = Some (d', cfg) ->
  forall fr, In fr p -> fs_get d' (l_file (reload (archive_dir home pn) fr)) = fs_get d (f_file fr).
Proof. exact stored_content_distinct. Qed.
Print Assumptions C14_stored_content_distinct_basenames.

(* the general form: distinct destinations of everything that is moved *)
Theorem C14_stored_content :
  forall (d : fsmap) (step : Z) (move home : str) (pn : Z) (keep : list str) (p : list frame),
  Forall no_slash keep ->
  txt_untouched (move_list (write_txt (clean_dir true (accepted_dir (archive_dir home pn)) p d) (archive_dir home pn) step move p)
                           (accepted_dir (archive_dir home pn)) keep p) (archive_dir home pn) ->
  forall d' cfg, store_gen true d step move home pn keep p = Some (d', cfg) ->
  NoDup (map snd (move_list (write_txt (clean_dir true (accepted_dir (archive_dir home pn)) p d) (archive_dir home pn) step move p)
                            (accepted_dir (archive_dir home pn)) keep p)) ->
  forall fr, In fr p -> fs_get d' (dst (accepted_dir (archive_dir home pn)) (f_file fr)) = fs_get d (f_file fr).
Proof. exact content_repaired. Qed.
Print Assumptions C14_stored_content.

(* without that hypothesis the statement is false: two source files w0/a and w1/a *)
Theorem C14_collision_refuted :
  exists d step move home pn p d' cfg fr,
    Forall (fun fr => isfile d (f_file fr) = true) p /\ store_gen true d step move home pn [] p = Some (d', cfg) /\
    load d' (archive_dir home pn) = Some (map (reload (archive_dir home pn)) p) /\
    In fr p /\ fs_get d' (l_file (reload (archive_dir home pn) fr)) <> fs_get d (f_file fr).
Proof. exact collision_refuted. Qed.
Print Assumptions C14_collision_refuted.

(* non-vacuity of group (1)/(2): a two-file path with a reversed frame, index None, a missing
   energy, a tie of the sixth decimal and a value beyond the field width meets every hypothesis *)
Example C14_example_store :
  exists d p d' cfg,
    p <> [] /\ Forall name_ok p /\ Forall (fun fr => length (f_orders fr) = 2%nat) p /\
    Forall (fun fr => isfile d (f_file fr) = true) p /\ distinct_basenames p /\
    store_gen true d 7 [115; 104] [108] 3 [] p = Some (d', cfg) /\
    load d' (archive_dir [108] 3) = Some (map (reload (archive_dir [108] 3)) p) /\ length p = 3%nat.
Proof. exact example_store. Qed.

(* ------------------------------------------------------------------ (3) deletion *)

(* Histories: any sequence of accepted ensembles (MItem old ...), ends of treat_output (MEnd)
   and restarts at step boundaries (MRestart), for every n and both flags; [valid]: the replaced
   path is live and one treat_output call handles at most kmax <= n - 1 ensembles (2 in infretis,
   n >= 3).  [wf st0]: numbers in use are below traj_num and the live paths are complete. *)

Theorem C14_delete_safe :
  forall (delete_old delete_all : bool) (n : Z) (kmax : nat), Z.of_nat kmax <= n - lag_off + 1 ->
  forall st0 st o pd, wf n st0 -> reach delete_old delete_all n kmax st0 st -> valid kmax st o ->
  In (EDel pd) (snd (mstep delete_old delete_all n st o)) ->
  (* not live before, not in restart.toml on disk, not live after (hence not in the restart
     record written at the end of the step), not an initial path *)
  ~ In pd (live st) /\ ~ In pd (rec_ st) /\ ~ In pd (live (fst (mstep delete_old delete_all n st o))) /\ n - guard_off < pd /\
  (* and every live path / path of the restart record still has all its files *)
  (forall p, In p (live (fst (mstep delete_old delete_all n st o))) \/ In p (rec_ st) ->
             complete (dirs (fst (mstep delete_old delete_all n st o))) p).
Proof. exact reach_delete_safe. Qed.
Print Assumptions C14_delete_safe.

Theorem C14_live_paths_complete :
  forall (delete_old delete_all : bool) (n : Z) (kmax : nat), Z.of_nat kmax <= n - lag_off + 1 ->
  forall st0 st, wf n st0 -> reach delete_old delete_all n kmax st0 st -> dead st = false ->
  forall p, In p (live st) \/ In p (rec_ st) -> complete (dirs st) p.
Proof. exact reach_live_complete. Qed.
Print Assumptions C14_live_paths_complete.

Theorem C14_deleted_never_returns :
  forall (delete_old delete_all : bool) (n : Z) (kmax : nat), Z.of_nat kmax <= n - lag_off + 1 ->
  forall st0 st o pd st2, wf n st0 -> reach delete_old delete_all n kmax st0 st -> valid kmax st o ->
  In (EDel pd) (snd (mstep delete_old delete_all n st o)) ->
  reach delete_old delete_all n kmax (fst (mstep delete_old delete_all n st o)) st2 ->
  ~ In pd (live st2) /\ ~ In pd (rec_ st2) /\
  forall o2 old nw, valid kmax st2 o2 -> In (ERepl old nw) (snd (mstep delete_old delete_all n st2 o2)) -> nw <> pd.
Proof. exact deleted_never_returns. Qed.
Print Assumptions C14_deleted_never_returns.

Theorem C14_new_number_fresh :
  forall (delete_old delete_all : bool) (n : Z) (kmax : nat), Z.of_nat kmax <= n - lag_off + 1 ->
  forall st0 st o old nw, wf n st0 -> reach delete_old delete_all n kmax st0 st -> valid kmax st o ->
  In (ERepl old nw) (snd (mstep delete_old delete_all n st o)) ->
  nw = next st /\ ~ In nw (live st) /\ ~ In nw (queue st) /\ ~ In nw (rec_ st) /\ ~ In nw (map fst (dirs st)) /\
  (dead (fst (mstep delete_old delete_all n st o)) = false -> next (fst (mstep delete_old delete_all n st o)) = nw + 1).
Proof. exact new_number_fresh. Qed.
Print Assumptions C14_new_number_fresh.

Theorem C14_numbers_increase : forall (delete_old delete_all : bool) (n : Z) st o,
  next st <= next (fst (mstep delete_old delete_all n st o)).
Proof. exact next_monotone. Qed.
Print Assumptions C14_numbers_increase.

(* the lag, for EVERY sequence of operations (no side condition): whenever the files of a path
   are removed, that path was replaced earlier in this run segment and at least n - 1 further
   replacements happened in between (restarts empty the queue: older replaced paths are kept) *)
Theorem C14_delete_lag :
  forall (delete_old delete_all : bool) (n : Z) ops lv nx ds evA pd evB,
  snd (mrun delete_old delete_all n (init_state lv nx ds) ops) = evA ++ EDel pd :: evB ->
  exists e1 nw e2, evA = e1 ++ ERepl pd nw :: e2 /\ n - 1 <= Z.of_nat (count_repl e2).
Proof. exact lag_from_start_n1. Qed.
Print Assumptions C14_delete_lag.

Theorem C14_initial_state_wf : forall n lv nx ds,
  (forall p, In p lv -> p < nx) -> (forall p, In p (map fst ds) -> p < nx) -> (forall p, In p lv -> complete ds p) ->
  wf n (init_state lv nx ds).
Proof. exact init_state_wf. Qed.
Print Assumptions C14_initial_state_wf.

(* observation O2 (outside the statement): delete_old_all with files kept by keep_traj_fnames
   ends in os.rmdir of a non-empty directory -- the machine reaches its dead state *)
Theorem C14_O2_rmdir_nonempty :
  exists ops, dead (fst (mrun true true 4 o2_st0 ops)) = true /\ In ECrash (snd (mrun true true 4 o2_st0 ops)).
Proof. exact o2_witness. Qed.
Print Assumptions C14_O2_rmdir_nonempty.

(* non-vacuity of group (3): 3 ensembles (n = 4), delete_old: the start state is well formed, two
   ensembles per step are allowed, and after four later replacements path 3 is deleted *)
Example C14_example_delete :
  let st0 := o2_st0 in   (* init_state [0; 1; 2] 3 [(0, full_dir 1); (1, full_dir 1); (2, full_dir 1)] *)
  let ops := [MItem 0 2 0; MEnd; MItem 3 2 0; MItem 1 2 0; MEnd; MItem 4 2 0; MEnd; MRestart; MItem 6 2 0; MEnd; MItem 7 2 0; MEnd;
              MItem 8 2 0; MItem 5 2 0; MEnd; MItem 9 2 0; MEnd] in
  wf 4 st0 /\ Z.of_nat 2 <= 4 - lag_off + 1 /\
  snd (mrun true false 4 st0 ops) =
    [ERepl 0 3; ERepl 3 4; ERepl 1 5; ERepl 4 6; ERepl 6 7; ERepl 7 8; ERepl 8 9; ERepl 5 10; EDel 6; ERepl 9 11; EDel 7] /\
  live (fst (mrun true false 4 st0 ops)) = [11; 10; 2].
Proof. exact example_delete. Qed.

(* ------------------------------------------------------------------ (1b) a directory that is stored into again *)
(* Round 6.  A path directory can be stored into twice: a step that is done again after the run
   died between PathStorage.output and the rewrite of restart.toml re-uses the path number, and a
   run started from scratch re-uses the numbers of the load/<n>/ directories an earlier run left.
   Storing is "write = replace": the round-trip theorem holds for EVERY disk, in particular for
   the result of an earlier store into the same directory -- what is read back is the path stored
   last.  (proofs/StoreAgainP.v; no new model definitions.) *)
From Inf Require Import proofs.StoreAgainP.

(* whatever the three text files held before, after write_txt they hold exactly the rendering of
   the path being stored (the files are opened for writing, not for appending) *)
Theorem C14_txt_written_not_appended :
  forall (d : fsmap) (arch : str) (step : Z) (move : str) (p : list frame) (old_order old_energy old_traj : str),
  fs_get (write_txt (fs_set (fs_set (fs_set d (pjoin arch order_txt) old_order) (pjoin arch energy_txt) old_energy) (pjoin arch traj_txt) old_traj)
                    arch step move p) (pjoin arch order_txt) = Some (render (order_file step move p)) /\
  fs_get (write_txt (fs_set (fs_set (fs_set d (pjoin arch order_txt) old_order) (pjoin arch energy_txt) old_energy) (pjoin arch traj_txt) old_traj)
                    arch step move p) (pjoin arch energy_txt) = Some (render (energy_file step move p)) /\
  fs_get (write_txt (fs_set (fs_set (fs_set d (pjoin arch order_txt) old_order) (pjoin arch energy_txt) old_energy) (pjoin arch traj_txt) old_traj)
                    arch step move p) (pjoin arch traj_txt) = Some (render (traj_file step p)).
Proof. exact write_txt_replaces. Qed.
Print Assumptions C14_txt_written_not_appended.

(* path A (any step, move, keep list) was stored into <home>/<pn>/ giving disk d1; then path p is
   stored into the SAME directory, under the hypotheses of C14_store_load_roundtrip read on d1:
   load_path returns p (frame by frame [reload p]), not A and not a mixture *)
Theorem C14_store_again_replaces :
  forall (d : fsmap) (stepA : Z) (moveA : str) (keepA : list str) (pA : list frame) (d1 : fsmap) (cfgA : list (str * option Z))
         (step : Z) (move home : str) (pn : Z) (keep : list str) (p : list frame) (ncol : nat),
  store_gen true d stepA moveA home pn keepA pA = Some (d1, cfgA) ->
  p <> [] -> nonl move -> Forall name_ok p ->
  Forall (fun fr => length (f_orders fr) = ncol) p ->
  Forall no_slash keep ->
  Forall (fun fr => isfile d1 (f_file fr) = true) p ->
  txt_untouched (move_list (write_txt (clean_dir true (accepted_dir (archive_dir home pn)) p d1) (archive_dir home pn) step move p)
                           (accepted_dir (archive_dir home pn)) keep p) (archive_dir home pn) ->
  forall d2 cfg, store_gen true d1 step move home pn keep p = Some (d2, cfg) ->
  load d2 (archive_dir home pn) = Some (map (reload (archive_dir home pn)) p).
Proof. exact store_again_roundtrip. Qed.
Print Assumptions C14_store_again_replaces.

Theorem C14_store_again_files_exist :
  forall (d : fsmap) (stepA : Z) (moveA : str) (keepA : list str) (pA : list frame) (d1 : fsmap) (cfgA : list (str * option Z))
         (step : Z) (move home : str) (pn : Z) (keep : list str) (p : list frame),
  store_gen true d stepA moveA home pn keepA pA = Some (d1, cfgA) ->
  Forall no_slash keep ->
  Forall (fun fr => isfile d1 (f_file fr) = true) p ->
  forall d2 cfg, store_gen true d1 step move home pn keep p = Some (d2, cfg) ->
  forall lf, In lf (map (reload (archive_dir home pn)) p) ->
  exists s, l_file lf = pjoin (accepted_dir (archive_dir home pn)) (basename s) /\ isfile d2 (l_file lf) = true.
Proof. exact store_again_files_exist. Qed.
Print Assumptions C14_store_again_files_exist.

(* non-vacuity: A = three frames in two files, B = two frames in two other files; both stores
   succeed, each load returns the path stored last, the two differ, and A's trajectory files are
   no longer in the directory after B was stored *)
Example C14_example_store_again :
  exists d pA d1 cfgA pB d2 cfgB,
    store_gen true d 7 [115; 104] [108] 3 [] pA = Some (d1, cfgA) /\
    load d1 (archive_dir [108] 3) = Some (map (reload (archive_dir [108] 3)) pA) /\
    pB <> [] /\ Forall name_ok pB /\ Forall (fun fr => length (f_orders fr) = 2%nat) pB /\
    Forall (fun fr => isfile d1 (f_file fr) = true) pB /\
    store_gen true d1 7 [115; 104] [108] 3 [] pB = Some (d2, cfgB) /\
    load d2 (archive_dir [108] 3) = Some (map (reload (archive_dir [108] 3)) pB) /\
    length pA = 3%nat /\ length pB = 2%nat /\
    load d2 (archive_dir [108] 3) <> load d1 (archive_dir [108] 3) /\
    (forall fr, In fr pA -> isfile d2 (l_file (reload (archive_dir [108] 3) fr)) = false).
Proof. exact example_store_again. Qed.
