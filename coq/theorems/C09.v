(* Property C09 — accepted paths belong to their ensemble; rejections change nothing.

   Model: model/MovesM.v (shoot, wire_fencing, extender, subt_acceptance, select_shoot, run_md
   glue) on top of PathM / EngineM / WeightM.  The engine is an input (one list of order values
   per propagate call), the random numbers are an input (a list of rationals), [fx] selects the
   stop rule of EngineBase.add_to_path: fx = true is the rule /repo has now
   ("if path.length == path.maxlen and not success"), fx = false the rule before that repair
   (lead L11).  Every theorem below is unbounded: it holds for all old paths, interfaces,
   limits, draws and engine streams; those stated for an arbitrary [fx] hold for both rules.
   This file only restates results proved in proofs/MovesP.v, each followed by
   Print Assumptions.  "Outside" follows the code's own operators: the stop rule uses
   o < left / o > right, the classification of end points uses <= / >=. *)
From Coq Require Import ZArith QArith List Bool Lia.
Import ListNotations.
From Inf Require Import model.PathM model.EngineM model.WeightM model.MovesM proofs.PathP proofs.MovesP.
Open Scope Z_scope.

(* ------------------------------------------------------------------ accept <-> "ACC" *)

Theorem C09_accept_iff_ACC_shoot : forall fx i0 i1 i2 eL eR maxlength allowmax pL pR old old_ld s,
  let R := shoot fx i0 i1 i2 eL eR maxlength allowmax pL pR old old_ld s in
  r_acc R = true <-> r_status R = ACC.
Proof. exact shoot_flag. Qed.
Print Assumptions C09_accept_iff_ACC_shoot.

Theorem C09_accept_iff_ACC_wire_fencing : forall fx e scL scR old s,
  let R := wire_fencing fx e scL scR old s in
  r_acc R = true <-> r_status R = ACC.
Proof. exact wire_fencing_flag. Qed.
Print Assumptions C09_accept_iff_ACC_wire_fencing.

Theorem C09_accept_iff_ACC_select_shoot : forall fx e old old_ld s,
  let R := select_shoot fx e old old_ld s in
  r_acc R = true <-> r_status R = ACC.
Proof. exact select_shoot_flag. Qed.
Print Assumptions C09_accept_iff_ACC_select_shoot.

(* run_md installs the new path (with its weight vector) exactly when the move was accepted *)
Theorem C09_run_md_replaces_iff_accepted : forall fx e old old_ld s intfs mvs lm1 capg minus,
  let '(r, kept, w) := run_md fx e old old_ld s intfs mvs lm1 capg minus in
  r = select_shoot fx e old old_ld s /\
  (r_acc r = true -> kept = r_path r /\ w = calc_cv_vector (orders (r_path r)) intfs mvs lm1 capg minus) /\
  (r_acc r = false -> kept = old /\ w = None).
Proof. exact run_md_keeps. Qed.
Print Assumptions C09_run_md_replaces_iff_accepted.

(* ------------------------------------------------------------------ rejections change nothing *)

Theorem C09_reject_untouched : forall fx e old old_ld s intfs mvs lm1 capg minus,
  r_status (select_shoot fx e old old_ld s) <> ACC ->
  run_md fx e old old_ld s intfs mvs lm1 capg minus = (select_shoot fx e old old_ld s, old, None).
Proof. exact reject_untouched. Qed.
Print Assumptions C09_reject_untouched.

(* ------------------------------------------------------------------ shooting points are never end points *)

(* rgen.integers(1, L-1) is driven by a uniform u in [0,1): index 1 + floor(u (L-2)) *)
Theorem C09_shooting_index_interior : forall u L,
  0 <= Qnum u -> Qnum u < Zpos (Qden u) -> (3 <= L)%nat ->
  (1 <= shooting_index u L <= L - 2)%nat.
Proof. exact shooting_index_interior. Qed.
Print Assumptions C09_shooting_index_interior.

(* ------------------------------------------------------------------ an accepted shooting path is valid *)

(* (i)-(v): the new path is  xb, reversed backward interior, shooting point o, forward interior, xf *)
Theorem C09_acc_valid_shoot : forall fx i0 i1 i2 eL eR maxlength allowmax pL pR old old_ld s,
  let R := shoot fx i0 i1 i2 eL eR maxlength allowmax pL pR old old_ld s in
  r_status R = ACC ->
  exists xb mb o mf xf,
    orders (r_path R) = xb :: rev mb ++ o :: mf ++ [xf] /\
    (* (i) both ends are outside [i0, i2]; the start is on a side start_cond allows; without "L"
           in start_cond neither end is on the left *)
    (xb < i0 \/ i2 < xb) /\ (xf < i0 \/ i2 < xf) /\
    in_sc pL pR (Some (classify i0 i2 xb)) = true /\
    (i0 <= i1 <= i2 -> pL = false -> i2 < xb /\ i2 < xf) /\
    (* (ii) every other frame is inside *)
    Forall (fun x => i0 <= x <= i2) (rev mb ++ o :: mf) /\ i0 <= o < i2 /\
    (* (iii) the ensemble's interface is crossed (unless both start sides are allowed) *)
    (eL && eR = false ->
       exists x y, In x (orders (r_path R)) /\ In y (orders (r_path R)) /\ x < i1 <= y) /\
    (* (iv) length limits: maxlength, and the drawn limit int((L-2)/r) + 2 *)
    (3 <= plen (r_path R) <= maxlength)%nat /\ maxlen (r_path R) = maxlength /\
    (old_ld || allowmax = false ->
       exists u rr ds, s_draws s = u :: rr :: ds /\ 0 < Qnum rr /\
         (Z.of_nat (plen (r_path R)) - 2) * Qnum rr <= (Z.of_nat (plen old) - 2) * Zpos (Qden rr)) /\
    (* (v) the shooting point: interior index of the old path, index len(back) - 1 of the new one *)
    g_b (r_gen R) = S (length mb) /\ g_order (r_gen R) = o /\
    (exists u ds sp, s_draws s = u :: ds /\ g_a (r_gen R) = shooting_index u (plen old) /\
       (1 <= g_a (r_gen R) < plen old)%nat /\
       nth_error (pts old) (g_a (r_gen R)) = Some sp /\ o = shot_order s sp) /\
    torigin (r_path R) = torigin old + Z.of_nat (g_a (r_gen R)) - Z.of_nat (g_b (r_gen R)) /\
    r_acc R = true /\ r_weight R = 1.
Proof. exact acc_valid_shoot_orders. Qed.
Print Assumptions C09_acc_valid_shoot.

(* (v), (vi): time order.  Position p of the new path holds the frame the engine produced |p - jb|
   steps away from the shooting point: frames of the backward call (velocities reversed) before
   it, in reverse order of generation, frames of the forward call after it *)
Theorem C09_acc_shoot_time_ordered : forall fx i0 i1 i2 eL eR maxlength allowmax pL pR old old_ld s,
  let R := shoot fx i0 i1 i2 eL eR maxlength allowmax pL pR old old_ld s in
  r_status R = ACC ->
  exists sb sf rest,
    s_streams s = sb :: sf :: rest /\
    let jb := g_b (r_gen R) in
    let o := g_order (r_gen R) in
    (jb < plen (r_path R))%nat /\
    nth_error (pts (r_path R)) jb = Some (eng_frame (s_ncall s) true 0 o) /\
    (forall p, (p <= jb)%nat ->
       nth_error (pts (r_path R)) p =
       option_map (eng_frame (s_ncall s) true (jb - p)) (nth_error (o :: sb) (jb - p))) /\
    (forall p, (jb < p < plen (r_path R))%nat ->
       nth_error (pts (r_path R)) p =
       option_map (eng_frame (S (s_ncall s)) false (p - jb)) (nth_error (o :: sf) (p - jb))) /\
    (forall p, (p < plen (r_path R))%nat -> nth_error (pts (r_path R)) p <> None).
Proof. exact acc_valid_shoot_frames. Qed.
Print Assumptions C09_acc_shoot_time_ordered.

(* (vii) non-zero weight in the own ensemble, through run_md's calc_cv_vector.
   Plus ensemble k with mc_move "sh": the own entry of the weight vector is 1 *)
Theorem C09_acc_own_weight_shoot_plus : forall fx e old old_ld s i0' irest mvs lm1 capg k v,
  e_move e = Msh -> e_scL e && e_scR e = false ->
  r_status (select_shoot fx e old old_ld s) = ACC ->
  snd (run_md fx e old old_ld s (i0' :: irest) mvs lm1 capg false) = Some v ->
  (S k < length (i0' :: irest))%nat -> nth_error (i0' :: irest) k = Some (e_i1 e) ->
  nth_error mvs (S k) = Some Msh ->
  nth_error v k = Some 1.
Proof. exact run_md_weight_sh_plus. Qed.
Print Assumptions C09_acc_own_weight_shoot_plus.

(* [0-]: the single weight is 1, with lambda_minus_one (= the ensemble's left interface) or
   without (paths start on the right of interfaces[0] = the ensemble's right interface) *)
Theorem C09_acc_own_weight_shoot_minus : forall fx e old old_ld s intfs mvs lm1 capg l,
  e_move e = Msh ->
  r_status (select_shoot fx e old old_ld s) = ACC ->
  (lm1 = Some l \/ (lm1 = None /\ hd_error intfs = Some l)) ->
  (l <= e_i0 e \/ (l <= e_i2 e /\ e_scL e = false /\ e_i0 e <= e_i1 e <= e_i2 e)) ->
  snd (run_md fx e old old_ld s intfs mvs lm1 capg true) = Some [1].
Proof. exact run_md_weight_sh_minus. Qed.
Print Assumptions C09_acc_own_weight_shoot_minus.

(* ------------------------------------------------------------------ the acceptance rule *)

(* A trial whose backward and forward trajectories reach the interfaces (after jb and jf steps),
   whose full path fits maxlength and would be valid for the ensemble, is accepted exactly when
   the drawn number r is at most n_old / n_new (interior points).  Current code (fx = true). *)
Theorem C09_accept_rule : forall i0 i1 i2 eL eR maxlength pL pR old s u rr ds sp sb sf rest jb jf,
  s_draws s = u :: rr :: ds -> 0 < Qnum rr ->
  (3 <= plen old)%nat ->
  nth_error (pts old) (shooting_index u (plen old)) = Some sp ->
  i0 <= shot_order s sp < i2 ->
  s_streams s = sb :: sf :: rest ->
  first_out i0 i2 (shot_order s sp :: sb) = Some jb -> first_out i0 i2 (shot_order s sp :: sf) = Some jf ->
  (jb + jf + 1 <= maxlength)%nat ->
  trial_valid i0 i1 i2 eL eR pL pR (trial_orders (shot_order s sp) sb sf jb jf) ->
  (r_status (shoot true i0 i1 i2 eL eR maxlength false pL pR old false s) = ACC <->
   (rr <= (Z.of_nat (plen old) - 2) # Z.to_pos (Z.of_nat (jb + jf + 1) - 2))%Q).
Proof. exact shoot_accept_rule. Qed.
Print Assumptions C09_accept_rule.

(* The rule before the repair demanded one frame more: r <= n_old / (n_new + 1) (guarded form) *)
Theorem C09_accept_rule_before_repair : forall i0 i1 i2 eL eR maxlength pL pR old s u rr ds sp sb sf rest jb jf,
  s_draws s = u :: rr :: ds -> 0 < Qnum rr ->
  (3 <= plen old)%nat ->
  nth_error (pts old) (shooting_index u (plen old)) = Some sp ->
  i0 <= shot_order s sp < i2 ->
  s_streams s = sb :: sf :: rest ->
  first_out i0 i2 (shot_order s sp :: sb) = Some jb -> first_out i0 i2 (shot_order s sp :: sf) = Some jf ->
  (jb + jf + 2 <= maxlength)%nat ->
  trial_valid i0 i1 i2 eL eR pL pR (trial_orders (shot_order s sp) sb sf jb jf) ->
  (r_status (shoot false i0 i1 i2 eL eR maxlength false pL pR old false s) = ACC <->
   (rr <= (Z.of_nat (plen old) - 2) # Z.to_pos (Z.of_nat (jb + jf + 1) - 1))%Q).
Proof. exact shoot_accept_rule_old. Qed.
Print Assumptions C09_accept_rule_before_repair.

(* ... so the full statement fails for it: old path of 7 frames, r = 1/2, trial path of 12
   frames, 1/2 <= 5/10, rejected FTL by the old rule and accepted by the current one (lead L11) *)
Theorem C09_accept_rule_before_repair_refuted :
  exists i0 i1 i2 eL eR maxlength pL pR old s u rr ds sp sb sf rest jb jf,
    s_draws s = u :: rr :: ds /\ 0 < Qnum rr /\ (3 <= plen old)%nat /\
    nth_error (pts old) (shooting_index u (plen old)) = Some sp /\
    i0 <= shot_order s sp < i2 /\ s_streams s = sb :: sf :: rest /\
    first_out i0 i2 (shot_order s sp :: sb) = Some jb /\ first_out i0 i2 (shot_order s sp :: sf) = Some jf /\
    (jb + jf + 1 <= maxlength)%nat /\
    trial_valid i0 i1 i2 eL eR pL pR (trial_orders (shot_order s sp) sb sf jb jf) /\
    (rr <= (Z.of_nat (plen old) - 2) # Z.to_pos (Z.of_nat (jb + jf + 1) - 2))%Q /\
    r_status (shoot false i0 i1 i2 eL eR maxlength false pL pR old false s) = FTL /\
    r_status (shoot true i0 i1 i2 eL eR maxlength false pL pR old false s) = ACC.
Proof. exact accept_rule_old_refuted. Qed.
Print Assumptions C09_accept_rule_before_repair_refuted.

(* the old rule of MovesM is literally the rule of EngineM (kept for C12's engine model) *)
Theorem C09_rule_before_repair_is_EngineM : forall p f l r, add_to_path_g false p f l r = add_to_path p f l r.
Proof. exact add_to_path_g_false. Qed.
Print Assumptions C09_rule_before_repair_is_EngineM.

(* ------------------------------------------------------------------ an accepted wire-fencing path is valid *)

Theorem C09_acc_valid_wire_fencing : forall fx e scL scR old s,
  let R := wire_fencing fx e scL scR old s in
  r_status R = ACC ->
  let os := orders (r_path R) in
  let i0 := e_i0 e in let i1 := e_i1 e in let i2 := e_i2 e in let cap := cap_of e in
  (* (iv) shorter than maxlength *)
  (plen (r_path R) < e_maxlength e)%nat /\
  (* (i) it starts on the side named by the (single letter) start condition *)
  (exists first, hd_error os = Some first /\ sc_is scL scR (classify i0 i2 first) = true) /\
  (* (i), (ii) neither end could be extended (it is not in [i0, i2)), everything in between is inside *)
  (i0 <= i1 -> cap <= i2 ->
     exists f mid l, os = f :: mid ++ [l] /\ (f < i0 \/ i2 <= f) /\ (l < i0 \/ i2 <= l) /\
                     Forall (fun x => i0 <= x <= i2) mid) /\
  (* (iii) it crosses the ensemble's interface *)
  (e_scL e && e_scR e = false -> exists x y, In x os /\ In y os /\ x < i1 <= y) /\
  (* (vii) its wire-fencing weight is positive, provided no frame lies exactly on the cap *)
  (e_scL e && e_scR e = false -> (forall o, In o os -> o <> cap) -> (0 < wf_nframes i1 cap os)%nat) /\
  r_acc R = true.
Proof. exact acc_valid_wf. Qed.
Print Assumptions C09_acc_valid_wire_fencing.

(* (vii) through run_md: the own entry of the weight vector of a "wf" ensemble is positive *)
Theorem C09_acc_own_weight_wire_fencing : forall fx e old old_ld s i0' irest mvs lm1 capg k v,
  e_move e = Mwf -> e_scL e && e_scR e = false ->
  r_status (select_shoot fx e old old_ld s) = ACC ->
  snd (run_md fx e old old_ld s (i0' :: irest) mvs lm1 capg false) = Some v ->
  (S k < length (i0' :: irest))%nat -> nth_error (i0' :: irest) k = Some (e_i1 e) ->
  nth_error mvs (S k) = Some Mwf ->
  match capg with Some c => c | None => last (i0' :: irest) i0' end = cap_of e ->
  (forall o, In o (orders (r_path (select_shoot fx e old old_ld s))) -> o <> cap_of e) ->
  exists b, nth_error v k = Some b /\ 0 < b.
Proof. exact run_md_weight_wf_plus. Qed.
Print Assumptions C09_acc_own_weight_wire_fencing.

(* The guard is needed (recorded finding): the sub-moves treat a frame exactly on the cap as
   inside (stop rule o > cap) while the weight scan treats it as outside (o >= cap); a segment
   that jumps from below lambda_i onto the cap is accepted with weight 0.
   Witness: interfaces (1, 2, 5), cap 3, accepted path 0 1 3 2 4 6. *)
Theorem C09_wire_fencing_weight_on_cap_refuted :
  exists e scL scR old s,
    let R := wire_fencing true e scL scR old s in
    r_status R = ACC /\ e_scL e && e_scR e = false /\ e_i0 e <= e_i1 e /\ cap_of e <= e_i2 e /\
    In (cap_of e) (orders (r_path R)) /\
    wf_nframes (e_i1 e) (cap_of e) (orders (r_path R)) = 0%nat.
Proof. exact wf_zero_weight_refuted. Qed.
Print Assumptions C09_wire_fencing_weight_on_cap_refuted.

(* ------------------------------------------------------------------ examples: the hypotheses are satisfiable *)

(* a concrete accepted shooting move (the L11 input under the current rule): old path
   0 2 2 2 2 2 0 in the ensemble (1, 3, 4), r = 1/2, backward one step to 0, forward ten steps *)
Example C09_example_accepted_shoot :
  let R := shoot true 1 3 4 true false 100 false true false l11_old false l11_src in
  r_status R = ACC /\ r_acc R = true /\
  orders (r_path R) = [0; 2; 2; 2; 2; 2; 2; 2; 2; 2; 2; 5] /\ g_a (r_gen R) = 1%nat /\ g_b (r_gen R) = 1%nat.
Proof. vm_compute. repeat split; reflexivity. Qed.

(* the hypotheses of C09_accept_rule hold for it, and the rule gives ACC from 1/2 <= 5/10 *)
Example C09_example_accept_rule :
  r_status (shoot true 1 3 4 true false 100 false true false l11_old false l11_src) = ACC.
Proof.
  apply (proj2 (C09_accept_rule 1 3 4 true false 100%nat true false l11_old l11_src (0#1)%Q (1#2)%Q []
                 (mkF 2 1 false 0%nat) [0] [2;2;2;2;2;2;2;2;2;5] [] 1%nat 10%nat
                 eq_refl eq_refl ltac:(vm_compute; lia) eq_refl ltac:(vm_compute; split; [discriminate|reflexivity])
                 eq_refl eq_refl eq_refl ltac:(vm_compute; lia)
                 (conj (ex_intro _ 0 (conj eq_refl eq_refl)) eq_refl))).
  vm_compute. discriminate.
Qed.

(* a concrete accepted wire-fencing move with positive weight: interfaces (1, 2, 5), cap 4, old path
   0 2 0; one jump from the frame 2: backward 3, 1; forward 5; then extended backward from 1 to 0 *)
Example C09_example_accepted_wire_fencing :
  let e := mkE 1 2 5 true false Mwf 20 false (Some 4) 1 in
  let R := wire_fencing true e true false zw_old (mkS [0#1; 0#1]%Q [] [[3; 1]; [5]; [0]] 0%nat) in
  r_status R = ACC /\ orders (r_path R) = [0; 1; 3; 2; 5] /\
  wf_nframes 2 4 (orders (r_path R)) = 2%nat.
Proof. vm_compute. repeat split; reflexivity. Qed.

(* a concrete accepted [0-] move in a permeability set-up with lambda_minus_one = 0 (a number,
   not "absent"): ensemble (0, 2, 4), start condition L or R, old path -1 2 3 2 -1, both
   trajectories return below lambda_-1 without reaching lambda_0 = 4.  The L -> L path is
   accepted, installed by run_md and carries the weight vector (1,); the hypotheses of
   C09_acc_own_weight_shoot_minus hold with l = 0 = e_i0 *)
Example C09_example_minus_lambda_minus_one_zero :
  let e := mkE 0 2 4 true true Msh 100 false None 2 in
  let old := mkP [mkF (-1) 0 false 0%nat; mkF 2 1 false 0%nat; mkF 3 2 false 0%nat;
                  mkF 2 3 false 0%nat; mkF (-1) 4 false 0%nat] 100%nat 0 in
  let s := mkS [0#1; 1#2]%Q [] [[1; -2]; [1; -2]] 0%nat in
  let '(r, kept, w) := run_md true e old false s [4; 9] [Msh; Msh; Msh] (Some 0) None true in
  r_status r = ACC /\ orders kept = [-2; 1; 2; 1; -2] /\ w = Some [1].
Proof. vm_compute. repeat split; reflexivity. Qed.
