From Coq Require Import ZArith QArith List Bool Lia.
Import ListNotations.
From Inf Require Import model.PathM model.EngineM model.WeightM model.MovesM proofs.MovesP.
Open Scope Z_scope.

Theorem C09_current_rule_is_EngineM : forall p f l r, add_to_path_g false p f l r = add_to_path p f l r.
Proof. exact add_to_path_g_false. Qed.
Print Assumptions C09_current_rule_is_EngineM.
