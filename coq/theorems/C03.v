(* Property C03 — a busy ensemble, path, engine or work directory is never shared.
   Statements only; proofs in proofs/RepexP.v and proofs/EnginesP.v. *)
From Coq Require Import ZArith QArith List Bool Lia.
Import ListNotations.
From Inf Require Import model.RepexM proofs.RepexP proofs.EnginesP.
From Inf Require Import proofs.EngineRunP.
Open Scope nat_scope.

(* The invariant holds in every state reachable by ANY sequence of operations the model
   accepts: picks with any random outcome, re-issued jobs after a restart, completions of
   in-flight jobs in any order with any accept/reject outcome and any weight rows. *)
Theorem C03_reachable_invariant : forall ops f f',
  InvF f -> run f ops = Some f' -> InvF f'.
Proof. exact run_Inv. Qed.
Print Assumptions C03_reachable_invariant.

(* ensembles held by two different in-flight jobs are disjoint *)
Theorem C03_ensembles_disjoint : forall s j1 j2 a b c,
  Inv s -> nth_error (locked s) a = Some j1 -> nth_error (locked s) b = Some j2 ->
  In c (jcols j1) -> In c (jcols j2) -> a = b.
Proof. exact job_cols_disjoint. Qed.
Print Assumptions C03_ensembles_disjoint.

(* so are the paths *)
Theorem C03_paths_disjoint : forall s j1 j2 a b p,
  Inv s -> nth_error (locked s) a = Some j1 -> nth_error (locked s) b = Some j2 ->
  In p (jpaths j1) -> In p (jpaths j2) -> a = b.
Proof. exact job_paths_disjoint. Qed.
Print Assumptions C03_paths_disjoint.

(* exactly the held ensembles are marked busy *)
Theorem C03_busy_iff_held : forall s c,
  Inv s -> c < size s - 1 ->
  (is_locked s c = true <-> exists jb, In jb (locked s) /\ In c (jcols jb)).
Proof. exact busy_iff_held. Qed.
Print Assumptions C03_busy_iff_held.

(* every job holds the path sitting in its ensemble, with non-zero weight there *)
Theorem C03_job_path_valid : forall s jb k c,
  Inv s -> In jb (locked s) -> nth_error (jcols jb) k = Some c ->
  nth_error (jpaths jb) k = Some (nth c (trajs s) 0) /\ wij s c c <> 0%Z /\ is_locked s c = true.
Proof.
  intros s jb k c I Hj Hk. destruct (inv_jobs _ I jb Hj) as (_ & _ & J).
  destruct (J k c Hk) as (_ & B & C & D). auto.
Qed.
Print Assumptions C03_job_path_valid.

(* worker pins, hence worker directories worker<pin>, are distinct *)
Theorem C03_pins_distinct : forall s, Inv s -> NoDup (map jpin (locked s)).
Proof. exact inv_pins. Qed.
Print Assumptions C03_pins_distinct.

(* a pick only succeeds on an idle ensemble and an idle path; a zero swap only when both
   [0-] and [0+] are idle, and it then holds both *)
Theorem C03_pick_needs_idle : forall s c pin s' jb,
  pick s c pin = Some (s', jb) ->
  is_locked s (pk_i c) = false /\ is_locked s (pk_j c) = false /\ wij s (pk_i c) (pk_j c) <> 0%Z /\
  (pk_zs c <> None -> jcols jb = [0; 1] /\ is_locked s 0 = false /\ is_locked s 1 = false).
Proof. exact pick_needs_idle. Qed.
Print Assumptions C03_pick_needs_idle.

(* engine instances: the instance handed to a job was free, and instances recorded for
   other workers are untouched *)
Theorem C03_engine_exclusive : forall o e pin o' i,
  occ_take e pin (free_pin pin o) = (o', Some i) ->
  (forall p, holder o e i = Some p -> p = pin) /\
  holder o' e i = Some pin /\
  forall e' i' p, p <> pin -> holder o e' i' = Some p -> holder o' e' i' = Some p.
Proof. exact assign_one_exclusive. Qed.
Print Assumptions C03_engine_exclusive.

Theorem C03_engine_available : forall l i, occupied l < length l -> exists k, first_free i l = Some k.
Proof. exact first_free_total. Qed.
Print Assumptions C03_engine_available.

(* non-vacuity: the initial state of a 3-interface system satisfies the invariant and a run
   with a zero swap, a second job and their completions is accepted *)
Definition ex_init : fstate :=
  mkFS (mkR [[1;0;0;0]; [0;1;0;0]; [0;1;1;0]; [0;0;0;0]]%Z [0;1;2;0] [false;false;false;true] [] 3)
       [(0, [0;0;0;0]%Q); (1, [0;0;0;0]%Q); (2, [0;0;0;0]%Q)] [] 0.

(* ------------------------------------------------------------------ engine instances at run level
   (proofs/EngineRunP.v).  A run is any list of calls (worker pin, requested engine types) of
   assign_engines; [held log p] = the instances the last call of worker p obtained. *)
(* no two workers ever hold the same instance: any start table, any pins, any request lists (they
   may change between calls) *)
Theorem C03_no_shared_engine_instance : forall o calls o' log,
  run_assign o calls = (o', log) ->
  forall p q e i, In (e, Some i) (held log p) -> In (e, Some i) (held log q) -> p = q.
Proof. exact run_no_shared_instance. Qed.
Print Assumptions C03_no_shared_engine_instance.

(* with at most as many workers as instances of every type, no call ever fails to find a free one *)
Theorem C03_engine_always_available : forall sh calls,
  calls_wf (map fst sh) calls ->
  Forall (fun en => length (nodup Nat.eq_dec (map fst calls)) <= snd en) sh ->
  forall pin out e x, In (pin, out) (snd (run_assign (init_occ sh) calls)) -> In (e, x) out -> x <> None.
Proof. exact run_assign_available. Qed.
Print Assumptions C03_engine_always_available.

(* the variant that caches a worker's instances and requests only new types (while assign_engines
   still frees everything the worker holds) lets two workers share an instance *)
Theorem C03_cached_engine_index_refuted :
  exists sh calls p q e i,
    p <> q /\
    In (e, Some i) (held (snd (run_assign_cached (init_occ sh) [] calls)) p) /\
    In (e, Some i) (held (snd (run_assign_cached (init_occ sh) [] calls)) q) /\
    holder (fst (run_assign_cached (init_occ sh) [] calls)) e i <> Some p.
Proof. exact cached_variant_shares. Qed.
Print Assumptions C03_cached_engine_index_refuted.

Example C03_example_init : InvF ex_init.
Proof.
  unfold InvF. cbn. constructor; cbn.
  - constructor; cbn; auto.
  - intros jb [].
  - constructor.
  - intros c Hc Hl. destruct c as [|[|[|c]]]; cbn in Hl; try discriminate; lia.
  - intros a b Ha Hb. destruct a as [|[|[|a]]]; destruct b as [|[|[|b]]]; cbn; intros; try lia; auto.
  - intros a Ha. destruct a as [|[|[|a]]]; cbn; lia.
  - constructor.
Qed.

Example C03_example_run :
  exists f', run ex_init [OpPick (mkPick 1 1 (Some 0)) 0; OpPick (mkPick 2 2 None) 1;
                          OpTreat 1 true [[0;1;1;0]%Z] [];
                          OpTreat 0 false [[1;0;0;0]; [0;1;0;0]]%Z []] = Some f'
             /\ locked (core f') = [] /\ trajs (core f') = [0;1;3;0].
Proof. eexists. vm_compute. repeat split. Qed.
