(* Property C07 — every job gets its own random stream.
   Statements only; proofs in proofs/RngP.v; model model/RngM.v (numpy SeedSequence
   identities: a stream is (entropy, spawn key)).  The table of in-process draw sites is
   regenerated from the sources on every run (gen/ParamsC07.v). *)
From Coq Require Import List Bool Arith Lia.
Import ListNotations.
From Inf Require Import model.RngM proofs.RngP gen.ParamsC07.
Open Scope nat_scope.

(* the invariant holds after any sequence of picks and (repaired) restarts, whatever the number
   of jobs lost at each stop *)
Theorem C07_invariant : forall sd ops, fixed_ops ops = true -> RI (rrun (rinit sd) ops).
Proof. intros sd ops F. apply rrun_RI; [apply RI_init|exact F]. Qed.
Print Assumptions C07_invariant.

(* no two remembered jobs - concurrent or successive, before or after restarts - share a
   stream, neither for move decisions nor for the engine *)
Theorem C07_streams_distinct_jobs : forall s a b ja jb x,
  RI s -> nth_error (issued s) a = Some ja -> nth_error (issued s) b = Some jb ->
  In x (jstreams ja) -> In x (jstreams jb) -> a = b.
Proof. exact streams_distinct_jobs. Qed.
Print Assumptions C07_streams_distinct_jobs.

(* the streams of one job (one move and one engine stream per ensemble) are distinct *)
Theorem C07_streams_distinct_within : forall s k j,
  RI s -> nth_error (issued s) k = Some j -> NoDup (jstreams j).
Proof. exact streams_distinct_within. Qed.
Print Assumptions C07_streams_distinct_within.

(* none is the scheduler's own stream, and all derive from the run's seed *)
Theorem C07_streams_not_scheduler : forall s k j x,
  RI s -> nth_error (issued s) k = Some j -> In x (jstreams j) -> x <> scheduler_stream s /\ fst x = seed s.
Proof. exact streams_not_scheduler. Qed.
Print Assumptions C07_streams_not_scheduler.

(* a job's streams are a function of the seed and the job's ordinal (spawn index) only *)
Theorem C07_streams_function_of_ordinal : forall s k j,
  RI s -> nth_error (issued s) k = Some j -> j = job_of (seed s) (js_index j) (length (js_move j)).
Proof. exact streams_function_of_ordinal. Qed.
Print Assumptions C07_streams_function_of_ordinal.

(* the whole stream table at once: over all remembered jobs, move and engine streams together,
   no stream identity occurs twice *)
Theorem C07_all_streams_nodup : forall s, RI s -> NoDup (all_streams s).
Proof. exact all_streams_nodup. Qed.
Print Assumptions C07_all_streams_nodup.

(* a stop at any point is transparent for the stream assignment: forget the [lost] most recent
   jobs, restart with the repaired set_rgen and issue jobs on as many ensembles as the lost ones
   had - the state (seed, entropy, spawn counter, whole table) is exactly the one before the
   stop, i.e. every re-issued job draws from the streams of the job it replaces *)
Theorem C07_restart_transparent : forall s lost,
  RI s -> lost <= length (issued s) ->
  rrun (rstep s (RRestart lost true)) (map repick (skipn (length (issued s) - lost) (issued s))) = s.
Proof. exact restart_transparent. Qed.
Print Assumptions C07_restart_transparent.

(* the ORIGINAL set_rgen (before fix 439cda4) is refuted: two concurrent jobs after a
   multi-worker restart get the same stream, which does not derive from the seed *)
Theorem C07_original_restart_refuted :
  let s := rrun (rinit 7) [RPick 1; RPick 1; RPick 2; RPick 1; RPick 1;
                           RRestart 1 false; RResetOrig 3; RPick 1; RResetOrig 3; RPick 1] in
  exists a b ja jb x, a <> b /\ nth_error (issued s) a = Some ja /\ nth_error (issued s) b = Some jb /\
                      In x (jstreams ja) /\ In x (jstreams jb) /\ fst x <> seed s.
Proof. exact original_restart_refuted. Qed.
Print Assumptions C07_original_restart_refuted.

(* every in-process random draw in the move and engine code (table regenerated from the
   sources: every call of .random/.normal/.integers/.choice/.standard_normal/... and every use of
   numpy.random.* / random.* / default_rng) has the job's stream as receiver *)
Theorem C07_draw_sites_ok : forallb (fun '(moves, r) => site_ok moves r) draw_sites = true.
Proof. vm_compute. reflexivity. Qed.
Print Assumptions C07_draw_sites_ok.

Definition C07_example_state := rrun (rinit 7) [RPick 1; RPick 2; RRestart 1 true; RPick 2].
Example C07_example :
  RI C07_example_state /\
  all_streams C07_example_state = [(7, [0; 0]); (7, [0; 0; 0]); (7, [1; 0]); (7, [1; 1]); (7, [1; 0; 0]); (7, [1; 1; 0])].
Proof. split; [unfold C07_example_state; apply C07_invariant; reflexivity|reflexivity]. Qed.

(* premises of C07_restart_transparent are met by a non-trivial state, and the statement computes *)
Definition C07_ex_s := rrun (rinit 7) [RPick 1; RPick 2; RPick 1; RPick 2].
Example C07_example_restart :
  RI C07_ex_s /\ 2 <= length (issued C07_ex_s) /\
  map repick (skipn (length (issued C07_ex_s) - 2) (issued C07_ex_s)) = [RPick 1; RPick 2] /\
  rrun (rstep C07_ex_s (RRestart 2 true)) [RPick 1; RPick 2] = C07_ex_s /\
  rrun (rstep C07_ex_s (RRestart 2 false)) [RPick 1; RPick 2] <> C07_ex_s.
Proof.
  split; [apply C07_invariant; reflexivity|]. split; [vm_compute; lia|]. split; [reflexivity|].
  split; [reflexivity|]. vm_compute. discriminate.
Qed.
