(* Property C12 — every engine returns the trajectory it actually ran.  (work in progress) *)
From Coq Require Import ZArith List Bool Lia.
Import ListNotations.
From Inf Require Import model.PathM model.EngineM model.PollM proofs.PollP.
Open Scope Z_scope.

Theorem C12_lammps_prefix_until_stop : forall ord left right rv traj code p0 reads,
  Forall (fun cb => (fst cb <= length traj)%nat) reads ->
  same_outcome code (lammps_run ord left right rv traj code true p0 false reads)
               (run_frames left right p0 (own_stream ord rv (firstn (vmax reads) traj))).
Proof. exact lammps_fixed_any_schedule. Qed.
Print Assumptions C12_lammps_prefix_until_stop.
