(* Property C12 — every engine returns the trajectory it actually ran.
   Models: model/PollM.v (polling / pairing loops of the engine classes, stop rule),
   model/EngineM.v (shared contract, stop rule before the repair of L11).  Proofs: proofs/PollP.v.
   Every statement is unbounded: any order function, interfaces, length limit, trajectory,
   arrival schedule and return code.  [fx] = stop rule (true = /repo now), [rv] = reverse.
   [code] is the SIGNED return code subprocess reports when the program has ended by itself
   (exit status >= 0, or -N for death by signal N); [strict] is the failure test applied to it
   (PollM.exit_failed: true = `!= 0` as in /repo, false = the refuted variant `> 0`). *)
From Coq Require Import ZArith List Bool Lia.
Import ListNotations.
From Inf Require Import model.PathM model.EngineM model.PollM proofs.PollP.
Open Scope Z_scope.

(* ---------------------------------------------------------------- common contract *)
(* EngineBase.propagate from an empty path: the path is the given point followed by the
   produced frames up to and including the first one that is outside the interfaces or is the
   maxlen-th; the success flag is succ_of (fx = true: "that frame is outside") *)
Theorem C12_contract_prefix_until_stop : forall fx left right M t0 init stream,
  (0 < M)%nat ->
  erase_pr (propagate_x fx (empty_path M t0) init stream left right) =
  match first_fire left right M 0 (init :: stream) with
  | Some (k, f) => SStop (mkP (firstn (S k) (init :: stream)) M t0) (succ_of fx left right M k f)
  | None => SMore (mkP (init :: stream) M t0)
  end.
Proof. exact propagate_contract. Qed.
Print Assumptions C12_contract_prefix_until_stop.

(* first_fire is the FIRST index on which the rule fires *)
Theorem C12_contract_first_stop : forall left right fs M k0 k f,
  first_fire left right M k0 fs = Some (k, f) ->
  (k0 <= k)%nat /\ nth_error fs (k - k0) = Some f /\ fires left right M k f = true /\
  (forall j g, (j < k - k0)%nat -> nth_error fs j = Some g -> fires left right M (k0 + j) g = false).
Proof. exact first_fire_spec. Qed.
Print Assumptions C12_contract_first_stop.

(* the length limit: a stream offering M frames always stops *)
Theorem C12_contract_stops_by_maxlen : forall left right fs M k0,
  (k0 < M)%nat -> (M - k0 <= length fs)%nat -> first_fire left right M k0 fs <> None.
Proof. exact first_fire_long. Qed.
Print Assumptions C12_contract_stops_by_maxlen.

Theorem C12_contract_first_frame : forall fx left right M t0 init stream,
  (0 < M)%nat ->
  match erase_pr (propagate_x fx (empty_path M t0) init stream left right) with
  | SStop p _ | SMore p => exists r, pts p = init :: r
  | SErr => False
  end.
Proof. exact propagate_first_frame. Qed.
Print Assumptions C12_contract_first_frame.

(* current rule: stops at the first frame outside or at the limit; success iff outside *)
Theorem C12_contract_success_iff_crossing : forall left right M t0 init stream p s,
  (0 < M)%nat ->
  erase_pr (propagate_x true (empty_path M t0) init stream left right) = SStop p s ->
  exists k f, nth_error (init :: stream) k = Some f /\ pts p = firstn (S k) (init :: stream) /\
    (forall j g, (j < k)%nat -> nth_error (init :: stream) j = Some g ->
                 outside left right g = false /\ S j <> M) /\
    (outside left right f = true \/ S k = M) /\
    s = outside left right f.
Proof. exact propagate_success_iff_crossing. Qed.
Print Assumptions C12_contract_success_iff_crossing.

(* the rule before the repair of L11 is the shared EngineM.propagate *)
Theorem C12_contract_old_rule_is_EngineM : forall p init stream l r,
  propagate_x false p init stream l r = propagate p init stream l r.
Proof. exact propagate_old_rule_is_EngineM. Qed.
Print Assumptions C12_contract_old_rule_is_EngineM.

(* frame_k_own_data: a path that is the stop-rule prefix of a trajectory's own-data frames (what
   every *_returns_prefix theorem below delivers) has, as its k-th frame, the order parameter
   of the k-th configuration's own positions, box and velocity direction, and config index k *)
Theorem C12_frame_k_own_data : forall fx left right M t0 ord rv traj p s,
  (0 < M)%nat ->
  run_frames fx left right (empty_path M t0) (own_stream ord rv traj) = SStop p s ->
  forall k f, nth_error (pts p) k = Some f ->
  exists c, nth_error traj k = Some c /\
    ford f = ord (cpos c) (if rv then - cvel c else cvel c) (cbox c) /\
    ftag f = Z.of_nat k /\ frev f = rv.
Proof. exact stop_prefix_frames_own. Qed.
Print Assumptions C12_frame_k_own_data.

Example C12_contract_example :
  erase_pr (propagate_x true (empty_path 5 0) (mkF 2 0 false 0) [mkF 3 1 false 1; mkF 7 2 false 2; mkF 1 3 false 3] 0 5)
  = SStop (mkP [mkF 2 0 false 0; mkF 3 1 false 1; mkF 7 2 false 2] 5 0) true.
Proof. vm_compute. reflexivity. Qed.

(* ---------------------------------------------------------------- LAMMPS *)
(* any arrival schedule: the outcome is the stop rule over the own-data frames (frame k:
   positions, velocity direction and BOX of frame k, config index k) of the visible prefix *)
Theorem C12_lammps_prefix_until_stop : forall fx ord left right rv traj code strict p0 reads,
  Forall (fun cb => (fst cb <= length traj)%nat) reads ->
  same_outcome code strict (lammps_run fx ord left right rv traj code strict true p0 false reads)
               (run_frames fx left right p0 (own_stream ord rv (firstn (vmax reads) traj))).
Proof. exact lammps_fixed_any_schedule. Qed.
Print Assumptions C12_lammps_prefix_until_stop.

Theorem C12_lammps_schedule_independent : forall fx ord left right rv traj code strict p0 reads,
  Forall (fun cb => (fst cb <= length traj)%nat) reads -> vmax reads = length traj ->
  same_outcome code strict (lammps_run fx ord left right rv traj code strict true p0 false reads)
               (run_frames fx left right p0 (own_stream ord rv traj)).
Proof. exact lammps_schedule_independent. Qed.
Print Assumptions C12_lammps_schedule_independent.

Theorem C12_lammps_returns_prefix : forall fx ord left right rv traj code strict p0 dead reads p s ps,
  Forall (fun cb => (fst cb <= length traj)%nat) reads ->
  lammps_run fx ord left right rv traj code strict true p0 dead reads = Ret p s ps ->
  run_frames fx left right p0 (own_stream ord rv traj) = SStop p s.
Proof. exact lammps_returns_prefix. Qed.
Print Assumptions C12_lammps_returns_prefix.

(* a non-zero exit never gives a normal return without a stop (both pairings) *)
Theorem C12_lammps_failure_raises : forall fx ord left right rv traj code fixL2 p0 dead reads,
  code <> 0 ->
  match lammps_run fx ord left right rv traj code true fixL2 p0 dead reads with
  | Trunc _ _ => False
  | _ => True
  end.
Proof. exact lammps_failure_raises_strict. Qed.
Print Assumptions C12_lammps_failure_raises.

Theorem C12_lammps_dead_before_output_raises : forall fx ord left right rv traj code strict fixL2 p0 reads,
  lammps_run fx ord left right rv traj code strict fixL2 p0 true reads =
  if exit_failed strict code then Raise p0 (PExited code)
  else lammps_run fx ord left right rv traj code strict fixL2 p0 false reads.
Proof. exact lammps_run_dead. Qed.
Print Assumptions C12_lammps_dead_before_output_raises.

Theorem C12_lammps_terminated_at_end : forall fx ord left right rv traj code strict fixL2 p0 dead reads,
  pstate_of (lammps_run fx ord left right rv traj code strict fixL2 p0 dead reads) <> Some PRunning.
Proof. exact lammps_terminated_at_end. Qed.
Print Assumptions C12_lammps_terminated_at_end.

(* lead L2: the pairing before the repair (box_trajectory.pop()) *)
Theorem C12_lammps_pop_last_refuted :
  exists ord left right traj reads p s ps,
    lammps_run true ord left right false traj 0 true false (empty_path 5 0) false reads = Ret p s ps /\
    run_frames true left right (empty_path 5 0) (own_stream ord false traj) <> SStop p s /\
    lammps_run true ord left right false traj 0 true true (empty_path 5 0) false reads <> Ret p s ps.
Proof. exact lammps_pop_last_refuted. Qed.
Print Assumptions C12_lammps_pop_last_refuted.

Theorem C12_lammps_pop_last_harmless_const_box : forall fx ord left right rv traj code strict b p0 dead reads,
  Forall (fun c => cbox c = b) traj ->
  lammps_run fx ord left right rv traj code strict false p0 dead reads =
  lammps_run fx ord left right rv traj code strict true p0 dead reads.
Proof. exact lammps_original_const_box. Qed.
Print Assumptions C12_lammps_pop_last_harmless_const_box.

Example C12_lammps_example :
  let traj := [mkC 0 1 10; mkC 1 2 20; mkC 2 3 30; mkC 3 4 40] in
  let reads := [(0%nat, true); (2%nat, true); (3%nat, true); (4%nat, false)] in
  Forall (fun cb => (fst cb <= length traj)%nat) reads /\ vmax reads = length traj /\
  lammps_run true (fun p v b => p + v + b) (-5) 30 false traj 0 true true (empty_path 9 0) false reads
  = Ret (mkP [mkF 11 0 false 0; mkF 23 1 false 1; mkF 35 2 false 2] 9 0) true PKilled.
Proof. cbn zeta. split; [repeat constructor|]. split; vm_compute; reflexivity. Qed.

(* ---------------------------------------------------------------- CP2K *)
(* two files, two readers: frame k = (position k, velocity k, the initial box); the frames
   processed are those for which both were ever visible *)
Theorem C12_cp2k_prefix_until_stop : forall fx ord left right rv traj code strict box0 p0 reads,
  reads_ok traj reads ->
  same_outcome code strict (cp2k_run fx ord left right rv traj code strict box0 p0 false reads)
    (run_frames fx left right p0
       (own_stream ord rv (map (fixbox box0) (firstn (Nat.min (pmax reads) (qmax reads)) traj)))).
Proof. exact cp2k_any_schedule. Qed.
Print Assumptions C12_cp2k_prefix_until_stop.

Theorem C12_cp2k_returns_prefix : forall fx ord left right rv traj code strict box0 p0 dead reads p s ps,
  reads_ok traj reads ->
  cp2k_run fx ord left right rv traj code strict box0 p0 dead reads = Ret p s ps ->
  run_frames fx left right p0 (own_stream ord rv (map (fixbox box0) traj)) = SStop p s.
Proof. exact cp2k_returns_prefix. Qed.
Print Assumptions C12_cp2k_returns_prefix.

Theorem C12_cp2k_failure_raises : forall fx ord left right rv traj code box0 p0 dead reads,
  code <> 0 ->
  match cp2k_run fx ord left right rv traj code true box0 p0 dead reads with
  | Trunc _ _ => False
  | _ => True
  end.
Proof. exact cp2k_failure_raises_strict. Qed.
Print Assumptions C12_cp2k_failure_raises.

Theorem C12_cp2k_terminated_at_end : forall fx ord left right rv traj code strict box0 p0 dead reads,
  pstate_of (cp2k_run fx ord left right rv traj code strict box0 p0 dead reads) <> Some PRunning.
Proof. exact cp2k_terminated_at_end. Qed.
Print Assumptions C12_cp2k_terminated_at_end.

Example C12_cp2k_example :
  let traj := [mkC 0 1 7; mkC 1 2 7; mkC 2 3 7; mkC 3 4 7] in
  let reads := [(1%nat, 0%nat, true); (3%nat, 1%nat, true); (3%nat, 4%nat, true); (4%nat, 4%nat, false)] in
  reads_ok traj reads /\
  cp2k_run true (fun p v b => 10 * p + v + b) (-5) 25 true traj 0 true 7 (empty_path 9 0) false reads
  = Ret (mkP [mkF 6 0 true 0; mkF 15 1 true 1; mkF 24 2 true 2; mkF 33 3 true 3] 9 0) true (PExited 0).
Proof. cbn zeta. split; [repeat constructor|]. vm_compute. reflexivity. Qed.

(* ---------------------------------------------------------------- GROMACS *)
(* the TRR polling state machine, for ANY sequence of observed file sizes: whatever it returns
   is the stop rule over the frames in file order, each consumed exactly once (gres_ok);
   runs that wait forever for the data block of a dead program (Hang) are outside the statement *)
Theorem C12_gromacs_any_schedule : forall fx ord left right rv traj code strict fixL3 fixL14 hsz dsz head0 final_size p0 dead eps,
  gres_ok fx ord left right rv code strict fixL3 p0 0 traj
    (gromacs_run fx ord left right rv traj code strict fixL3 fixL14 hsz dsz head0 final_size p0 dead eps).
Proof. exact gromacs_any_schedule. Qed.
Print Assumptions C12_gromacs_any_schedule.

(* own data: repaired double negation (fixL3), or forward direction, or a velocity-direction
   independent order parameter *)
Theorem C12_gromacs_returns_prefix : forall fx ord left right rv traj code strict fixL3 fixL14 hsz dsz head0 final_size p0 dead eps p s ps,
  gmx_own_cond ord rv fixL3 ->
  gromacs_run fx ord left right rv traj code strict fixL3 fixL14 hsz dsz head0 final_size p0 dead eps = Ret p s ps ->
  run_frames fx left right p0 (own_stream ord rv traj) = SStop p s.
Proof. exact gromacs_returns_prefix. Qed.
Print Assumptions C12_gromacs_returns_prefix.

Theorem C12_gromacs_failure_raises : forall fx ord left right rv traj code fixL3 fixL14 hsz dsz head0 final_size p0 dead eps,
  code <> 0 ->
  match gromacs_run fx ord left right rv traj code true fixL3 fixL14 hsz dsz head0 final_size p0 dead eps with
  | Trunc _ _ => False
  | _ => True
  end.
Proof. exact gromacs_failure_raises_strict. Qed.
Print Assumptions C12_gromacs_failure_raises.

(* lead L3: reverse = True with a velocity-dependent order parameter, code as it is *)
Theorem C12_gromacs_double_negation_refuted :
  exists ord left right traj eps p s ps,
    gromacs_run true ord left right true traj 0 true false false 10 20 10 60 (empty_path 2 0) false eps = Ret p s ps /\
    run_frames true left right (empty_path 2 0) (own_stream ord true traj) <> SStop p s /\
    gromacs_run true ord left right true traj 0 true true false 10 20 10 60 (empty_path 2 0) false eps <> Ret p s ps.
Proof. exact gromacs_double_negation_refuted. Qed.
Print Assumptions C12_gromacs_double_negation_refuted.

(* lead L14: the program dies after writing a frame header but not its data (the header was
   read while it was still running): the loop as it is waits forever (outcome Hang, outside
   the statements above); with the repaired wait loop the failure raises *)
Theorem C12_gromacs_midframe_crash_refuted :
  exists ord left right traj eps p,
    gromacs_run true ord left right false traj 1 true true false 10 20 10 45 (empty_path 5 0) false eps = Hang p /\
    gromacs_run true ord left right false traj 1 true true true 10 20 10 45 (empty_path 5 0) false eps = Raise p (PExited 1).
Proof. exact gromacs_midframe_crash_refuted. Qed.
Print Assumptions C12_gromacs_midframe_crash_refuted.

Example C12_gromacs_example :
  gromacs_run true (fun p v b => p + v + b) (-5) 30 false
    [mkC 0 1 10; mkC 1 2 20; mkC 2 3 30; mkC 3 4 40] 0 true false false 10 20 25 120 (empty_path 9 0) false
    [0; 12; 30; 40; 95]%nat
  = Ret (mkP [mkF 11 0 false 0; mkF 23 1 false 1; mkF 35 2 false 2] 9 0) true PKilled.
Proof. vm_compute. reflexivity. Qed.

(* ---------------------------------------------------------------- engine failure: the return code
   "an engine failure raises instead of returning a silently truncated path", for EVERY way the
   external program can fail.  The return code is signed: subprocess reports -N for a program
   killed by signal N (SIGKILL -9 from the OOM killer or a batch system, SIGSEGV -11, a SIGTERM
   -15 the engine did not send).  The failure test of /repo, `return_code != 0` / `poll != 0`,
   is [exit_failed true]: *)
Theorem C12_failure_test_is_nonzero : forall code, exit_failed true code = true <-> code <> 0.
Proof. exact exit_failed_strict. Qed.
Print Assumptions C12_failure_test_is_nonzero.

(* a death by signal IS a failure for the test as it is, and is NOT one for the variant `> 0`;
   on the exit statuses of a program that exited (>= 0) the two tests agree - which is why the
   variant survives every scenario with positive exit codes only *)
Theorem C12_signal_death_is_failure : forall code, code < 0 ->
  exit_failed true code = true /\ exit_failed false code = false.
Proof. exact exit_failed_signal. Qed.
Print Assumptions C12_signal_death_is_failure.

Theorem C12_failure_tests_agree_on_exit_statuses : forall code, 0 <= code ->
  exit_failed false code = exit_failed true code.
Proof. exact exit_failed_nonneg. Qed.
Print Assumptions C12_failure_tests_agree_on_exit_statuses.

(* death by signal => never a normal return without a stop: LAMMPS (both pairings), CP2K,
   GROMACS (all variants of L3 / L14), any trajectory, any arrival schedule, died before any
   output or later *)
Theorem C12_signal_death_raises : forall fx ord left right rv traj code, code < 0 ->
  (forall fixL2 p0 dead reads,
     match lammps_run fx ord left right rv traj code true fixL2 p0 dead reads with Trunc _ _ => False | _ => True end) /\
  (forall box0 p0 dead reads,
     match cp2k_run fx ord left right rv traj code true box0 p0 dead reads with Trunc _ _ => False | _ => True end) /\
  (forall fixL3 fixL14 hsz dsz head0 final_size p0 dead eps,
     match gromacs_run fx ord left right rv traj code true fixL3 fixL14 hsz dsz head0 final_size p0 dead eps with
     | Trunc _ _ => False | _ => True end).
Proof. exact signal_death_raises. Qed.
Print Assumptions C12_signal_death_raises.

(* the variant `> 0` refuted, engine by engine: killed by SIGKILL (-9) after frames among which
   the stop rule never fires (run_frames ... = SMore p), the variant returns normally with that
   truncated path, the test as it is raises *)
Theorem C12_gromacs_signal_death_gt0_refuted :
  exists ord left right traj eps p,
    run_frames true left right (empty_path 9 0) (own_stream ord false traj) = SMore p /\
    gromacs_run true ord left right false traj (-9) false true true 10 20 10 90 (empty_path 9 0) false eps
      = Trunc p (PExited (-9)) /\
    gromacs_run true ord left right false traj (-9) true true true 10 20 10 90 (empty_path 9 0) false eps
      = Raise p (PExited (-9)).
Proof. exact gromacs_signal_death_gt0_refuted. Qed.
Print Assumptions C12_gromacs_signal_death_gt0_refuted.

Theorem C12_lammps_signal_death_gt0_refuted :
  exists ord left right traj reads p,
    run_frames true left right (empty_path 9 0) (own_stream ord false traj) = SMore p /\
    lammps_run true ord left right false traj (-9) false true (empty_path 9 0) false reads = Trunc p (PExited (-9)) /\
    lammps_run true ord left right false traj (-9) true true (empty_path 9 0) false reads = Raise p (PExited (-9)).
Proof. exact lammps_signal_death_gt0_refuted. Qed.
Print Assumptions C12_lammps_signal_death_gt0_refuted.

Theorem C12_cp2k_signal_death_gt0_refuted :
  exists ord left right traj reads p,
    run_frames true left right (empty_path 9 0) (own_stream ord false (map (fixbox 7) traj)) = SMore p /\
    cp2k_run true ord left right false traj (-9) false 7 (empty_path 9 0) false reads = Trunc p (PExited (-9)) /\
    cp2k_run true ord left right false traj (-9) true 7 (empty_path 9 0) false reads = Raise p (PExited (-9)).
Proof. exact cp2k_signal_death_gt0_refuted. Qed.
Print Assumptions C12_cp2k_signal_death_gt0_refuted.

Example C12_signal_death_example :
  gromacs_run true (fun p v b => p) (-5) 50 false [mkC 0 1 0; mkC 1 1 0; mkC 2 1 0] (-11) true true true
    10 20 10 75 (empty_path 9 0) false [30; 75]%nat
  = Raise (mkP [mkF 0 0 false 0; mkF 1 1 false 1] 9 0) (PExited (-11)).
Proof. vm_compute. reflexivity. Qed.

(* ---------------------------------------------------------------- in-process engines *)
(* ASE / TurtleMD / plug-in: the subcycle loop is the stop rule over every s-th state *)
Theorem C12_inproc_prefix_until_stop : forall fx ord left right rv s fine i p step,
  inproc_loop fx ord left right rv s fine i p step =
  match run_frames fx left right p (own_stream_from ord rv step (every_from s i fine)) with
  | SStop p1 b => Ret p1 b PNone
  | SMore p1 => Trunc p1 PNone
  | SErr => IdxError
  end.
Proof. exact inproc_loop_spec. Qed.
Print Assumptions C12_inproc_prefix_until_stop.

Theorem C12_inproc_stops : forall fx ord left right rv s fine M t0,
  (0 < M)%nat -> (M <= length (every_from s 0 fine))%nat ->
  exists p b, inproc_loop fx ord left right rv s fine 0 (empty_path M t0) 0 = Ret p b PNone.
Proof. exact inproc_stops. Qed.
Print Assumptions C12_inproc_stops.

Example C12_inproc_example :
  inproc_loop true (fun p v b => p) 0 100 false 2
    [mkC 1 1 0; mkC 2 1 0; mkC 3 1 0; mkC 4 1 0; mkC 5 1 0; mkC 6 1 0] 0 (empty_path 3 0) 0
  = Ret (mkP [mkF 1 0 false 0; mkF 3 1 false 1; mkF 5 2 false 2] 3 0) false PNone.
Proof. vm_compute. reflexivity. Qed.

(* ---------------------------------------------------------------- time reversal *)
(* for time-reversible dynamics T (T . reverse . T = reverse) the program started from the
   velocity-reversed frame j retraces frames j, j-1, ..., 0, and the order parameters the
   backward propagation stores are those of the forward frames (velocity direction included) *)
Theorem C12_backward_retraces_configs : forall T : conf -> conf,
  (forall c, T (crev (T c)) = crev c) ->
  forall j c0, orbit T (S j) (crev (iter j T c0)) = map crev (rev (orbit T (S j) c0)).
Proof. exact orbit_reversed. Qed.
Print Assumptions C12_backward_retraces_configs.

Theorem C12_backward_retraces_orders : forall (T : conf -> conf) ord j c0,
  (forall c, T (crev (T c)) = crev c) ->
  map ford (own_stream ord true (orbit T (S j) (crev (iter j T c0)))) =
  rev (map ford (own_stream ord false (orbit T (S j) c0))).
Proof. exact backward_retraces. Qed.
Print Assumptions C12_backward_retraces_orders.

(* free flight is such a T *)
Example C12_retrace_example :
  let T := fun c => mkC (cpos c + cvel c) (cvel c) (cbox c) in
  (forall c, T (crev (T c)) = crev c) /\
  orbit T 3 (crev (iter 2 T (mkC 5 2 0))) = [mkC 9 (-2) 0; mkC 7 (-2) 0; mkC 5 (-2) 0].
Proof.
  cbn zeta. split; [|vm_compute; reflexivity].
  intros [p v b]. unfold crev. cbn. f_equal. lia.
Qed.

(* ---------------------------------------------------------------- process groups *)
(* "the external program is stopped when propagation ends" when the configured command is a
   launcher: the PKilled outcome of the polling models is SIGTERM to the process GROUP of the
   engine's direct child.  After killpg(g) no process of group g is alive — in particular the
   program a launcher leading the group has started —, other groups are untouched, and
   signalling the leader alone leaves the launched program running (the kernel behaviour
   itself is observed by the check, not proved). *)
Theorem C12_killpg_stops_group : forall g tb, any_alive (in_group g (sig_group g tb)) = false.
Proof. exact killpg_stops_group. Qed.
Print Assumptions C12_killpg_stops_group.

Theorem C12_killpg_other_groups : forall g h tb, h <> g -> in_group h (sig_group g tb) = in_group h tb.
Proof. exact killpg_other_groups. Qed.
Print Assumptions C12_killpg_other_groups.

Theorem C12_killpg_reaches_launched_program : forall L c tb l,
  find (fun p => pr_pid p =? L) tb = Some l -> pr_pgid l = L ->
  In (mkProc c L false) (sig_group L (spawn L c tb)) /\
  any_alive (in_group L (sig_group L (spawn L c tb))) = false.
Proof. exact killpg_reaches_launched. Qed.
Print Assumptions C12_killpg_reaches_launched_program.

Theorem C12_signal_leader_only_refuted :
  exists L c tb, any_alive (in_group L (sig_pid L (spawn L c tb))) = true /\
                 any_alive (in_group L (sig_group L (spawn L c tb))) = false.
Proof. exact signal_leader_only_refuted. Qed.
Print Assumptions C12_signal_leader_only_refuted.

Example C12_process_group_example :
  let tb := spawn 11 12 (spawn 10 11 [mkProc 10 10 true; mkProc 7 7 true]) in
  sig_group 10 tb = [mkProc 10 10 false; mkProc 7 7 true; mkProc 11 10 false; mkProc 12 10 false] /\
  sig_pid 10 tb = [mkProc 10 10 false; mkProc 7 7 true; mkProc 11 10 true; mkProc 12 10 true].
Proof. cbn zeta. split; vm_compute; reflexivity. Qed.

(* ---------------------------------------------------------------- calculate_order: overrides or the file *)
(* EngineBase.calculate_order uses the three overrides only when ALL of them are given ... *)
Theorem C12_calculate_order_overrides : forall ord rv x v b file sysbox,
  calculate_order_args ord rv (Some x) (Some v) (Some b) file sysbox = calc_order ord rv x v b.
Proof. exact calculate_order_args_given. Qed.
Print Assumptions C12_calculate_order_overrides.

(* ... one missing override makes it use the configuration file the System points to for all
   three (the file's box where it has one, else the box the System already carries) *)
Theorem C12_calculate_order_falls_back_to_file : forall ord rv xyz vel box file sysbox,
  xyz = None \/ vel = None \/ box = None ->
  calculate_order_args ord rv xyz vel box file sysbox
  = calc_order ord rv (fc_pos file) (fc_vel file) (match fc_box file with Some b => b | None => sysbox end).
Proof. exact calculate_order_args_fallback. Qed.
Print Assumptions C12_calculate_order_falls_back_to_file.

(* the in-process loops hand over the current state with a box that is never None (TurtleMD:
   tmd_system.box.length, ASE: atoms.cell.diagonal()): the loop with its call site spelled out is
   the loop of C12_inproc_prefix_until_stop, for EVERY initial configuration file -- with or
   without a box entry / velocities -- so frame k stores the order parameter of its own state *)
Theorem C12_inproc_call_site_own_state : forall fx ord left right rv s boxarg init sysbox,
  (forall c, boxarg c = Some (cbox c)) ->
  forall fine i p step,
  inproc_loop_args fx ord left right rv s boxarg init sysbox fine i p step
  = inproc_loop fx ord left right rv s fine i p step.
Proof. exact inproc_loop_args_own_box. Qed.
Print Assumptions C12_inproc_call_site_own_state.

(* the hypothesis is needed: a box override read from the initial file is None for a file
   without box entry; every frame then stores the order parameter of the INITIAL configuration,
   the crossing is not seen and the run continues to the length limit *)
Theorem C12_inproc_box_from_initial_file_refuted :
  exists ord left right fine init M,
    fc_box init = None /\
    inproc_loop true ord left right false 1 fine 0 (empty_path M 0) 0
    = Ret (mkP [mkF 1 0 false 0; mkF 3 1 false 1; mkF 5 2 false 2] M 0) true PNone /\
    inproc_loop_args true ord left right false 1 (fun _ => fc_box init) init 0 fine 0 (empty_path M 0) 0
    = Ret (mkP [mkF 1 0 false 0; mkF 1 1 false 1; mkF 1 2 false 2; mkF 1 3 false 3] M 0) false PNone.
Proof.
  exists (fun p v b : Z => p), 0, 4, [mkC 1 1 0; mkC 3 1 0; mkC 5 1 0; mkC 7 1 0], (mkFC 1 1 None), 4%nat.
  split; [reflexivity|]. exact inproc_loop_args_file_box_refuted.
Qed.
Print Assumptions C12_inproc_box_from_initial_file_refuted.

Example C12_calculate_order_example :
  let ord := fun p v b : Z => p + 10 * v + 100 * b in
  calculate_order_args ord true (Some 1) (Some 2) (Some 3) (mkFC 4 5 None) 6 = 281 /\
  calculate_order_args ord true (Some 1) (Some 2) None (mkFC 4 5 None) 6 = 554 /\
  calculate_order_args ord false (Some 1) None (Some 3) (mkFC 4 5 (Some 7)) 6 = 754.
Proof. repeat split; vm_compute; reflexivity. Qed.
