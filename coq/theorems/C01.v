(* Property C01 — sampling is unbiased: exact crossing probabilities are reproduced.
   Statements only; proofs in proofs/LatticeP.v.  What is proved here is the EXACT ORACLE the
   statistical check compares the running program with, and the acceptance identities the moves
   rely on; convergence of the running program itself is measured, not proved (see DESIGN.md). *)
From Coq Require Import QArith Qminmax ZArith Lia List.
From Inf Require Import model.LatticeM proofs.LatticeP.
Open Scope Q_scope.

(* any function harmonic for the +-1 walk on 0..K with h 0 = 0, h K = 1 is x/K (uniqueness of
   the hitting probability): for every K and x *)
Theorem C01_ruin_unique : forall (h : nat -> Q) (K : nat),
  (0 < K)%nat -> h 0%nat == 0 -> h K == 1 ->
  (forall x, (0 < x < K)%nat -> h x == (h (x - 1)%nat + h (x + 1)%nat) / 2) ->
  forall x, (x <= K)%nat -> h x == inject_Z (Z.of_nat x) / inject_Z (Z.of_nat K).
Proof. exact ruin_unique. Qed.
Print Assumptions C01_ruin_unique.

(* hence P(reach interface k+1 | reached k) = (k+1)/(k+2) for every k *)
Theorem C01_cross_exact : forall (h : nat -> Q) (k : nat),
  h 0%nat == 0 -> h (k + 2)%nat == 1 ->
  (forall x, (0 < x < k + 2)%nat -> h x == (h (x - 1)%nat + h (x + 1)%nat) / 2) ->
  h (k + 1)%nat == cross_exact k.
Proof. exact cross_exact_is_ruin. Qed.
Print Assumptions C01_cross_exact.

(* the Metropolis-Hastings acceptance min(1, b/a) satisfies detailed balance for any positive
   flows (used by shooting with the n_old/n_new rule, by the high-acceptance swap and by the
   QuanTIS swap; that shooting realises exactly min(1, n_old/n_new) is C09_accept_rule) *)
Theorem C01_mh_detailed_balance : forall a b : Q, 0 < a -> 0 < b -> a * mh_acc a b == b * mh_acc b a.
Proof. exact mh_detailed_balance. Qed.
Print Assumptions C01_mh_detailed_balance.

(* the estimator applied to the data file returns the exact value on exact weights *)
Theorem C01_estimator_exact : forall rows p,
  ~ est_den rows == 0 -> est_num rows == p * est_den rows -> estimator rows == p.
Proof. exact estimator_exact. Qed.
Print Assumptions C01_estimator_exact.

Example C01_example_values : cross_exact 0 == 1 # 2 /\ cross_exact 1 == 2 # 3 /\ cross_exact 2 == 3 # 4.
Proof. repeat split; reflexivity. Qed.

Example C01_example_harmonic : let h := fun x : nat => inject_Z (Z.of_nat x) / 3 in
  h 0%nat == 0 /\ h 3%nat == 1 /\ h 1%nat == (h 0%nat + h 2%nat) / 2 /\ h 2%nat == (h 1%nat + h 3%nat) / 2.
Proof. cbn. repeat split; reflexivity. Qed.
