(* Property C01 — sampling is unbiased: exact crossing probabilities are reproduced.
   Statements only; proofs in proofs/LatticeP.v.  What is proved here is the EXACT ORACLE the
   statistical check compares the running program with, and the acceptance identities the moves
   rely on; convergence of the running program itself is measured, not proved (see DESIGN.md). *)
From Coq Require Import QArith Qminmax ZArith Lia List.
From Inf Require Import model.LatticeM proofs.LatticeP proofs.LatticeShootP proofs.PermMarginalP.
From Inf Require spec.PermS.
Open Scope Q_scope.

(* any function harmonic for the +-1 walk on 0..K with h 0 = 0, h K = 1 is x/K (uniqueness of
   the hitting probability): for every K and x *)
Theorem C01_ruin_unique : forall (h : nat -> Q) (K : nat),
  (0 < K)%nat -> h 0%nat == 0 -> h K == 1 ->
  (forall x, (0 < x < K)%nat -> h x == (h (x - 1)%nat + h (x + 1)%nat) / 2) ->
  forall x, (x <= K)%nat -> h x == inject_Z (Z.of_nat x) / inject_Z (Z.of_nat K).
Proof. exact ruin_unique. Qed.
Print Assumptions C01_ruin_unique.

(* hence P(reach interface k+1 | reached k) = (k+1)/(k+2) for every k *)
Theorem C01_cross_exact : forall (h : nat -> Q) (k : nat),
  h 0%nat == 0 -> h (k + 2)%nat == 1 ->
  (forall x, (0 < x < k + 2)%nat -> h x == (h (x - 1)%nat + h (x + 1)%nat) / 2) ->
  h (k + 1)%nat == cross_exact k.
Proof. exact cross_exact_is_ruin. Qed.
Print Assumptions C01_cross_exact.

(* the Metropolis-Hastings acceptance min(1, b/a) satisfies detailed balance for any positive
   flows (used by shooting with the n_old/n_new rule, by the high-acceptance swap and by the
   QuanTIS swap; that shooting realises exactly min(1, n_old/n_new) is C09_accept_rule) *)
Theorem C01_mh_detailed_balance : forall a b : Q, 0 < a -> 0 < b -> a * mh_acc a b == b * mh_acc b a.
Proof. exact mh_detailed_balance. Qed.
Print Assumptions C01_mh_detailed_balance.

(* the estimator applied to the data file returns the exact value on exact weights *)
Theorem C01_estimator_exact : forall rows p,
  ~ est_den rows == 0 -> est_num rows == p * est_den rows -> estimator rows == p.
Proof. exact estimator_exact. Qed.
Print Assumptions C01_estimator_exact.

(* ------------------------------------------------------------------ the shooting move on the lattice walk
   (proofs/LatticeShootP.v).  A path is a list of lattice positions; [valid_pathb N k Lmax]: a path
   of ensemble [k+] with last interface N and length limit Lmax; pi p = (1/2)^(len p - 1) its weight
   as a trajectory of the walk; a trial from old at interior index i with backward steps bs and
   forward steps fs has generation probability gen_prob = 1/(L_old - 2) * (1/2)^(L_new - 1); the
   accepted values of the drawn number xi form exactly the interval (0, acc_prob]
   ([C01_accepted_iff_interval], from the maxlen rule int((L_old-2)/xi)+2 of C09). *)
Theorem C01_accepted_iff_interval : forall N k Lmax old new xi,
  (3 <= length old)%nat -> 0 < xi -> xi <= 1 ->
  (accepted N k Lmax old new xi <-> xi <= acc_prob N k Lmax old new).
Proof. exact accepted_iff_interval. Qed.
Print Assumptions C01_accepted_iff_interval.

(* super-detailed balance: for valid paths old, new of the same ensemble sharing a shooting point,
   each is the trial generated from the other at that point, and the probability flows agree *)
Theorem C01_shooting_super_detailed_balance : forall N k Lmax old new i j,
  valid_pathb N k Lmax old = true -> valid_pathb N k Lmax new = true ->
  (1 <= i <= length old - 2)%nat -> (1 <= j <= length new - 2)%nat -> nth i old 0%Z = nth j new 0%Z ->
  trial (nth i old 0%Z) (back_steps new j) (fwd_steps new j) = new /\
  trial (nth j new 0%Z) (back_steps old i) (fwd_steps old i) = old /\
  pi old * gen_prob old (back_steps new j) (fwd_steps new j) * acc_prob N k Lmax old new ==
  pi new * gen_prob new (back_steps old i) (fwd_steps old i) * acc_prob N k Lmax new old.
Proof. exact shooting_super_detailed_balance. Qed.
Print Assumptions C01_shooting_super_detailed_balance.

(* hence detailed balance of the move (summed over shooting points) and stationarity of pi on the
   finite set of valid paths of the ensemble *)
Theorem C01_shooting_detailed_balance : forall N k Lmax old new,
  valid_pathb N k Lmax old = true -> valid_pathb N k Lmax new = true ->
  pi old * move_density N k Lmax old new == pi new * move_density N k Lmax new old.
Proof. exact shooting_detailed_balance. Qed.
Print Assumptions C01_shooting_detailed_balance.

Theorem C01_shooting_stationary : forall N k Lmax new,
  valid_pathb N k Lmax new = true ->
  sumq (fun old => pi old * chain (list Z) path_eqb (move_density N k Lmax) (all_valid N k Lmax) old new)
       (all_valid N k Lmax) == pi new.
Proof. exact shooting_stationary_full. Qed.
Print Assumptions C01_shooting_stationary.

(* the rule before repair d6ed295 (accept iff xi <= (L_old-2)/(L_new-2+1)), a rule with L instead of
   L-2, a move without the length rule ('ld' paths / allowmaxlength) and an index over all frames do
   NOT balance *)
Theorem C01_rule_before_repair_refuted :
  ~ balance_with sel_code (fun Lo Ln => Qmin 1 (nq (Lo - 2) / nq (Ln - 2 + 1))) ex_old ex_new 2 2.
Proof. exact rule_before_repair_breaks_balance. Qed.
Print Assumptions C01_rule_before_repair_refuted.

(* ------------------------------------------------------------------ the swap probabilities are the marginals
   of the equilibrium distribution over path-ensemble assignments (proofs/PermMarginalP.v): an
   assignment is a permutation s, its weight the product of W i (s i); the permanent is the sum of
   the weights, assign_prob = weight / permanent is a probability distribution for non-negative W,
   and Pspec n W i j (what property C02 proves the code computes) is the probability that path i
   sits in ensemble j *)
Theorem C01_perm_is_sum_over_assignments : forall n W,
  PermS.perm n W == lsum (pweight n W) (perms_of n).
Proof. exact perm_is_sum_over_permutations. Qed.
Print Assumptions C01_perm_is_sum_over_assignments.

Theorem C01_assignment_distribution : forall n W, ~ PermS.perm n W == 0 ->
  lsum (assign_prob n W) (perms_of n) == 1.
Proof. exact assign_prob_sum_one. Qed.
Print Assumptions C01_assignment_distribution.

Theorem C01_swap_probability_is_marginal : forall n W i j, (i < n)%nat -> (j < n)%nat ->
  PermS.Pspec n W i j ==
  lsum (assign_prob n W) (filter (fun s => Nat.eqb (nth i s 0%nat) j) (perms_of n)).
Proof. exact Pspec_is_marginal_of_assign_prob. Qed.
Print Assumptions C01_swap_probability_is_marginal.

Example C01_example_values : cross_exact 0 == 1 # 2 /\ cross_exact 1 == 2 # 3 /\ cross_exact 2 == 3 # 4.
Proof. repeat split; reflexivity. Qed.

Example C01_example_harmonic : let h := fun x : nat => inject_Z (Z.of_nat x) / 3 in
  h 0%nat == 0 /\ h 3%nat == 1 /\ h 1%nat == (h 0%nat + h 2%nat) / 2 /\ h 2%nat == (h 1%nat + h 3%nat) / 2.
Proof. cbn. repeat split; reflexivity. Qed.
