(* Property C20 — order parameters respect the symmetries of what they measure.
   This file only restates results proved in proofs/GeomP.v about model/GeomM.v, so that
   the statements cannot be weakened silently; each is followed by Print Assumptions.

   Reading guide.  Coordinates, velocities and box lengths are integers (floats are dyadic
   rationals: a configuration of floats is an integer configuration over a common power of
   two; C20_scale_* show that such a common positive factor commutes with everything).
   Each calculate function returns the exact ARGUMENTS handed to sqrt / arctan2:
     Distance     dist2              result sqrt(dist2)
     Distancevel  (num, den2)        result num / sqrt(den2)
     Dihedral     (a, b, c, bb, t)   result arctan2(t / sqrt(bb), a - b c / bb)
     Puckering    (zeta[0..5], nn)   z[i] = zeta[i] / (6 sqrt(nn)), result a function of z
   so equal arguments mean equal results.  All theorems are unbounded: every coordinate,
   velocity, box, index choice, image shift, translation and (rational) rotation. *)
From Coq Require Import ZArith List Bool Lia.
Import ListNotations.
From Inf Require Import model.GeomM proofs.GeomP.
Open Scope Z_scope.

(* ------------------------------------------------------------------ translation *)

Theorem C20_translation_distance : forall t i0 i1 per s,
  distance_calc i0 i1 per (translate t s) = distance_calc i0 i1 per s.
Proof. exact distance_translate. Qed.
Print Assumptions C20_translation_distance.

Theorem C20_translation_distancevel : forall fx t i0 i1 per s,
  distancevel_calc fx i0 i1 per (translate t s) = distancevel_calc fx i0 i1 per s.
Proof. exact distancevel_translate. Qed.
Print Assumptions C20_translation_distancevel.

Theorem C20_translation_dihedral : forall t i0 i1 i2 i3 per s,
  dihedral_calc i0 i1 i2 i3 per (translate t s) = dihedral_calc i0 i1 i2 i3 per s.
Proof. exact dihedral_translate. Qed.
Print Assumptions C20_translation_dihedral.

Theorem C20_translation_puckering : forall t idx per s,
  puckering_calc idx per (translate t s) = puckering_calc idx per s.
Proof. exact puckering_translate. Qed.
Print Assumptions C20_translation_puckering.

(* ------------------------------------------------------------------ image shifts
   shift_images L ks s moves atom i by the lattice vector (ks[i].x Lx, ks[i].y Ly, ks[i].z Lz);
   box_of L rest = Lx :: Ly :: Lz :: rest covers the 3- and the 9-component form. *)

(* the distance needs no guard at all *)
Theorem C20_image_shift_distance : forall L rest ks i0 i1 s,
  boxpos L -> sbox s = Some (box_of L rest) ->
  distance_calc i0 i1 true (shift_images L ks s) = distance_calc i0 i1 true s.
Proof. exact distance_image_shift. Qed.
Print Assumptions C20_image_shift_distance.

(* the others: provided no separation component is exactly a half-integer multiple of the
   box length (sep_tie / puck_tie = false); Distancevel is the repaired one (fixed_L7) *)
Theorem C20_image_shift_distancevel : forall L rest ks i0 i1 s,
  boxpos L -> sbox s = Some (box_of L rest) -> sep_tie s i1 i0 L = false ->
  distancevel_calc true i0 i1 true (shift_images L ks s) = distancevel_calc true i0 i1 true s.
Proof. exact distancevel_image_shift. Qed.
Print Assumptions C20_image_shift_distancevel.

Theorem C20_image_shift_dihedral : forall L rest ks i0 i1 i2 i3 s,
  boxpos L -> sbox s = Some (box_of L rest) ->
  sep_tie s i0 i1 L = false -> sep_tie s i1 i2 L = false -> sep_tie s i3 i2 L = false ->
  dihedral_calc i0 i1 i2 i3 true (shift_images L ks s) = dihedral_calc i0 i1 i2 i3 true s.
Proof. exact dihedral_image_shift. Qed.
Print Assumptions C20_image_shift_dihedral.

Theorem C20_image_shift_puckering : forall L rest ks idx s,
  boxpos L -> sbox s = Some (box_of L rest) -> puck_tie s idx L = false ->
  puckering_calc idx true (shift_images L ks s) = puckering_calc idx true s.
Proof. exact puckering_image_shift. Qed.
Print Assumptions C20_image_shift_puckering.

(* what the guard means *)
Theorem C20_tie_meaning : forall d L,
  0 < L -> (tieb d L = true <-> exists m, 2 * d = (2 * m + 1) * L).
Proof. exact tieb_spec. Qed.
Print Assumptions C20_tie_meaning.

(* the guard is necessary: at a half-box separation the rate of change of the distance
   flips its sign with the image (witnesses, by computation) *)
Theorem C20_image_shift_unguarded_refuted :
  exists L rest ks s,
    boxpos L /\ sbox s = Some (box_of L rest) /\ sep_tie s 1 0 L = true /\
    distancevel_calc true 0 1 true s = Some (1, 1) /\
    distancevel_calc true 0 1 true (shift_images L ks s) = Some (-1, 1).
Proof. exact image_shift_guard_necessary. Qed.
Print Assumptions C20_image_shift_unguarded_refuted.

Theorem C20_image_shift_unguarded_dihedral_refuted :
  exists L rest ks s,
    boxpos L /\ sbox s = Some (box_of L rest) /\ sep_tie s 0 1 L = true /\
    dihedral_calc 0 1 2 3 true (shift_images L ks s) <> dihedral_calc 0 1 2 3 true s.
Proof. exact image_shift_guard_necessary_dihedral. Qed.
Print Assumptions C20_image_shift_unguarded_dihedral_refuted.

(* ------------------------------------------------------------------ minimum image *)

(* the `if abs(d) > L/2` branch of pbc_dist_coordinate is only an optimisation *)
Theorem C20_pbc_is_nearest_image : forall d L,
  0 < L -> pbc1 d L = d - rint_div d L * L /\ 2 * Z.abs (d - rint_div d L * L) <= L.
Proof. intros d L H. split; [apply pbc1_canonical | apply rint_div_nearest]; exact H. Qed.
Print Assumptions C20_pbc_is_nearest_image.

Theorem C20_min_image_bound : forall L rest d w,
  boxpos L -> wrap true (Some (box_of L rest)) d = Some w ->
  2 * Z.abs (vx w) <= vx L /\ 2 * Z.abs (vy w) <= vy L /\ 2 * Z.abs (vz w) <= vz L.
Proof. exact wrap_min_image. Qed.
Print Assumptions C20_min_image_bound.

Theorem C20_min_image_is_image : forall L rest d w,
  boxpos L -> wrap true (Some (box_of L rest)) d = Some w -> exists k, w = vadd d (vmul k L).
Proof. exact wrap_is_image. Qed.
Print Assumptions C20_min_image_is_image.

Theorem C20_min_image_distance : forall L rest i0 i1 s r,
  boxpos L -> sbox s = Some (box_of L rest) ->
  distance_calc i0 i1 true s = Some r -> 4 * r <= dot L L.
Proof. exact distance_min_image. Qed.
Print Assumptions C20_min_image_distance.

(* ------------------------------------------------------------------ rotation
   M / c with M^T M = c^2 I (orthogonal m c) is an orthogonal rational matrix; rotate m s
   is the transformed system at the integer scale c, scale_sys c s the original at that
   scale.  Non-periodic variants (a periodic box is not rotation symmetric). *)

Theorem C20_rotation_distance : forall m c i0 i1 s,
  0 < c -> orthogonal m c ->
  distance_calc i0 i1 false (rotate m s) = distance_calc i0 i1 false (scale_sys c s).
Proof. exact distance_rotation. Qed.
Print Assumptions C20_rotation_distance.

Theorem C20_rotation_distancevel : forall m c fx i0 i1 s,
  0 < c -> orthogonal m c ->
  distancevel_calc fx i0 i1 false (rotate m s) = distancevel_calc fx i0 i1 false (scale_sys c s).
Proof. exact distancevel_rotation. Qed.
Print Assumptions C20_rotation_distancevel.

Theorem C20_rotation_dihedral : forall m c i0 i1 i2 i3 s,
  0 < c -> orthogonal m c -> det m = c * c * c ->
  dihedral_calc i0 i1 i2 i3 false (rotate m s) = dihedral_calc i0 i1 i2 i3 false (scale_sys c s).
Proof. exact dihedral_rotation. Qed.
Print Assumptions C20_rotation_dihedral.

(* a mirror image has the opposite dihedral angle: only the numerator t changes sign *)
Theorem C20_improper_rotation_dihedral : forall m c i0 i1 i2 i3 s,
  0 < c -> orthogonal m c -> det m = - (c * c * c) ->
  dihedral_calc i0 i1 i2 i3 false (rotate m s) =
  option_map dih_mirror (dihedral_calc i0 i1 i2 i3 false (scale_sys c s)).
Proof. exact dihedral_improper. Qed.
Print Assumptions C20_improper_rotation_dihedral.

Theorem C20_rotation_puckering : forall m c idx s,
  0 < c -> orthogonal m c -> det m = c * c * c ->
  puckering_calc idx false (rotate m s) = puckering_calc idx false (scale_sys c s).
Proof. exact puckering_rotation. Qed.
Print Assumptions C20_rotation_puckering.

(* ------------------------------------------------------------------ scaling
   a common positive factor c multiplies lengths by c: dist2 by c^2, (num, den2) by c^2
   each (so num / sqrt(den2) by c), the dihedral arguments so that t / sqrt(bb) and
   a - b c / bb both get c^2 (same angle), zeta by c^3 and nn by c^4 (z by c).  Periodic
   variants included. *)

Theorem C20_scale_pbc : forall c d L, 0 < c -> pbc1 (c * d) (c * L) = c * pbc1 d L.
Proof. exact pbc1_scale. Qed.
Print Assumptions C20_scale_pbc.

Theorem C20_scale_distance : forall c i0 i1 per s,
  0 < c ->
  distance_calc i0 i1 per (scale_sys c s) = option_map (Z.mul (c * c)) (distance_calc i0 i1 per s).
Proof. exact distance_scale. Qed.
Print Assumptions C20_scale_distance.

Theorem C20_scale_distancevel : forall c fx i0 i1 per s,
  0 < c ->
  distancevel_calc fx i0 i1 per (scale_sys c s) =
  option_map (dv_scale (c * c) (c * c)) (distancevel_calc fx i0 i1 per s).
Proof. exact distancevel_scale. Qed.
Print Assumptions C20_scale_distancevel.

Theorem C20_scale_dihedral : forall c i0 i1 i2 i3 per s,
  0 < c ->
  dihedral_calc i0 i1 i2 i3 per (scale_sys c s) =
  option_map (dih_scale c (c * c * c)) (dihedral_calc i0 i1 i2 i3 per s).
Proof. exact dihedral_scale. Qed.
Print Assumptions C20_scale_dihedral.

Theorem C20_scale_puckering : forall c idx per s,
  0 < c ->
  puckering_calc idx per (scale_sys c s) =
  option_map (puck_scale (c * c * c) (c * c * c * c)) (puckering_calc idx per s).
Proof. exact puckering_scale. Qed.
Print Assumptions C20_scale_puckering.

Theorem C20_scale_position_velocity : forall c i dim s,
  position_calc i dim (scale_sys c s) = option_map (Z.mul c) (position_calc i dim s) /\
  velocity_calc i dim (scale_sys c s) = option_map (Z.mul c) (velocity_calc i dim s).
Proof. intros. split; [apply position_scale | apply velocity_scale]. Qed.
Print Assumptions C20_scale_position_velocity.

(* ------------------------------------------------------------------ velocity reversal *)

Theorem C20_velocity_sign_distancevel : forall fx i0 i1 per s,
  distancevel_calc fx i0 i1 per (reverse_vel s) =
  option_map (dv_scale (-1) 1) (distancevel_calc fx i0 i1 per s).
Proof. exact distancevel_reverse. Qed.
Print Assumptions C20_velocity_sign_distancevel.

Theorem C20_velocity_sign_velocity : forall i dim s,
  velocity_calc i dim (reverse_vel s) = option_map Z.opp (velocity_calc i dim s).
Proof. exact velocity_reverse. Qed.
Print Assumptions C20_velocity_sign_velocity.

Theorem C20_velocity_sign_position_type : forall s,
  (forall i dim, position_calc i dim (reverse_vel s) = position_calc i dim s) /\
  (forall i0 i1 per, distance_calc i0 i1 per (reverse_vel s) = distance_calc i0 i1 per s) /\
  (forall i0 i1 i2 i3 per, dihedral_calc i0 i1 i2 i3 per (reverse_vel s) = dihedral_calc i0 i1 i2 i3 per s) /\
  (forall idx per, puckering_calc idx per (reverse_vel s) = puckering_calc idx per s).
Proof. exact position_type_reverse. Qed.
Print Assumptions C20_velocity_sign_position_type.

(* the engines reverse through the vel_rev flag of calculate_order *)
Theorem C20_calculate_order_flag : forall (A : Type) (calc : system -> option A) xyz vel box,
  calculate_order calc true xyz vel box = calc (reverse_vel (Sys xyz vel box)) /\
  calculate_order calc false xyz vel box = calc (Sys xyz vel box).
Proof. exact @calculate_order_flag. Qed.
Print Assumptions C20_calculate_order_flag.

(* calculate_order obtains the phase point either from the arrays handed in (all of xyz,
   vel, box given) or, as soon as one of them is missing, from the configuration file the
   system references ([conf] = what the engine's _read_configuration returns, [box0] = what
   system.box held and keeps when the file has no box).  On BOTH routes the vel_rev flag is
   applied; the routes agree on the same phase point *)
Theorem C20_calculate_order_file_route :
  forall (A : Type) (calc : system -> option A) r conf box0 xyz vel box,
  any_missing xyz vel box = true ->
  calculate_order_args calc r conf box0 xyz vel box =
  calculate_order calc r (spos conf) (svel conf) (file_box conf box0).
Proof. exact @calculate_order_file_route. Qed.
Print Assumptions C20_calculate_order_file_route.

Theorem C20_calculate_order_routes_agree :
  forall (A : Type) (calc : system -> option A) r x v b box0 xyz vel box,
  any_missing xyz vel box = true ->
  calculate_order_args calc r (Sys x v (Some b)) box0 xyz vel box =
  calculate_order_args calc r (Sys x v (Some b)) box0 (Some x) (Some v) (Some b).
Proof. exact @calculate_order_routes_agree. Qed.
Print Assumptions C20_calculate_order_routes_agree.

Theorem C20_calculate_order_file_flag :
  forall (A : Type) (calc : system -> option A) conf box0 xyz vel box,
  any_missing xyz vel box = true ->
  calculate_order_args calc true conf box0 xyz vel box =
    calc (reverse_vel (Sys (spos conf) (svel conf) (file_box conf box0))) /\
  calculate_order_args calc false conf box0 xyz vel box =
    calc (Sys (spos conf) (svel conf) (file_box conf box0)).
Proof. exact @calculate_order_file_flag. Qed.
Print Assumptions C20_calculate_order_file_flag.

(* whichever route: the flag flips the sign of Velocity and Distancevel ... *)
Theorem C20_velocity_sign_calculate_order_velocity : forall i dim conf box0 xyz vel box,
  calculate_order_args (velocity_calc i dim) true conf box0 xyz vel box =
  option_map Z.opp (calculate_order_args (velocity_calc i dim) false conf box0 xyz vel box).
Proof. exact calculate_order_args_velocity. Qed.
Print Assumptions C20_velocity_sign_calculate_order_velocity.

Theorem C20_velocity_sign_calculate_order_distancevel : forall fx i0 i1 per conf box0 xyz vel box,
  calculate_order_args (distancevel_calc fx i0 i1 per) true conf box0 xyz vel box =
  option_map (dv_scale (-1) 1) (calculate_order_args (distancevel_calc fx i0 i1 per) false conf box0 xyz vel box).
Proof. exact calculate_order_args_distancevel. Qed.
Print Assumptions C20_velocity_sign_calculate_order_distancevel.

(* ... and leaves the position-type parameters alone *)
Theorem C20_velocity_sign_calculate_order_position_type : forall conf box0 xyz vel box,
  (forall i dim, calculate_order_args (position_calc i dim) true conf box0 xyz vel box =
                 calculate_order_args (position_calc i dim) false conf box0 xyz vel box) /\
  (forall i0 i1 per, calculate_order_args (distance_calc i0 i1 per) true conf box0 xyz vel box =
                     calculate_order_args (distance_calc i0 i1 per) false conf box0 xyz vel box) /\
  (forall i0 i1 i2 i3 per, calculate_order_args (dihedral_calc i0 i1 i2 i3 per) true conf box0 xyz vel box =
                           calculate_order_args (dihedral_calc i0 i1 i2 i3 per) false conf box0 xyz vel box) /\
  (forall idx per, calculate_order_args (puckering_calc idx per) true conf box0 xyz vel box =
                   calculate_order_args (puckering_calc idx per) false conf box0 xyz vel box).
Proof. exact calculate_order_args_position_type. Qed.
Print Assumptions C20_velocity_sign_calculate_order_position_type.

(* non-vacuity: a phase point read from its file (no override, and positions + velocities
   handed in without a box, which also goes to the file), with a non-zero velocity-type value *)
Example C20_example_calculate_order_routes :
  let conf := Sys [V3 4 1 0; V3 0 0 0] [V3 1 0 0; V3 0 2 0] (Some [16; 16; 16]) in
  any_missing None None None = true /\ any_missing (Some []) (Some []) None = true /\
  calculate_order_args (velocity_calc 1 1) false conf None None None None = Some 2 /\
  calculate_order_args (velocity_calc 1 1) true conf None None None None = Some (-2) /\
  calculate_order_args (velocity_calc 1 1) true conf None (Some []) (Some []) None = Some (-2) /\
  calculate_order_args (velocity_calc 1 1) true conf None (Some (spos conf)) (Some (svel conf)) (sbox conf) = Some (-2) /\
  calculate_order_args (distancevel_calc true 0 1 true) false conf None None None None = Some (2, 17) /\
  calculate_order_args (distancevel_calc true 0 1 true) true conf None None None None = Some (-2, 17) /\
  calculate_order_args (distance_calc 0 1 true) true conf None None None None = Some 17.
Proof. vm_compute. repeat split. Qed.

(* ------------------------------------------------------------------ propagate: the direction flag
   where the package applies the reversal: EngineBase.propagate sets system.vel_rev = reverse
   BEFORE the engine runs, so every frame of a run in direction r has its order computed
   under flag r (model: propagate_flag / propagate_frame), whatever flag the shooting point
   came in with *)
Theorem C20_propagate_frame_flag :
  forall (A : Type) (calc : system -> option A) f r xyz vel box,
  propagate_frame calc f r xyz vel box = (calc (Sys xyz (if r then map vneg vel else vel) box), r).
Proof. exact @propagate_frame_flag. Qed.
Print Assumptions C20_propagate_frame_flag.

(* recomputing the order of a stored frame from the frame's raw content under the frame's
   own stored flag gives the stored order *)
Theorem C20_propagate_frame_recompute :
  forall (A : Type) (calc : system -> option A) f r xyz vel box,
  fst (propagate_frame calc f r xyz vel box) =
  calculate_order calc (snd (propagate_frame calc f r xyz vel box)) xyz vel box.
Proof. exact @propagate_frame_recompute. Qed.
Print Assumptions C20_propagate_frame_recompute.

(* frame 0 of a run in either direction, from a shooting point with either flag, carries
   the shooting point's order *)
Theorem C20_propagate_frame0_shooting_point :
  forall (A : Type) (calc : system -> option A) f r xyz vel box,
  fst (propagate_frame0 calc f r xyz vel box) = calculate_order calc f xyz vel box /\
  snd (propagate_frame0 calc f r xyz vel box) = r.
Proof. exact @propagate_frame0_shooting_point. Qed.
Print Assumptions C20_propagate_frame0_shooting_point.

(* the backward run and the forward run from the reversed point start the engine with the
   same raw velocities (reversed point = same file with the flag toggled, or a file holding
   the negated physical velocities under flag false) ... *)
Theorem C20_propagate_reversed_point_same_run : forall (f r : bool) (vel : list v3),
  propagate_start (negb f) (negb r) vel = propagate_start f r vel /\
  propagate_start false false (if f then vel else map vneg vel) = propagate_start f true vel.
Proof. intros. split; [apply propagate_start_toggled | apply propagate_start_reversed_file]. Qed.
Print Assumptions C20_propagate_reversed_point_same_run.

(* ... and on the same raw frame the backward run stores the sign-reversed order for the
   velocity-type parameters and the same order for the position-type ones *)
Theorem C20_propagate_backward_velocity : forall i dim f f' xyz vel box,
  fst (propagate_frame (velocity_calc i dim) f true xyz vel box) =
  option_map Z.opp (fst (propagate_frame (velocity_calc i dim) f' false xyz vel box)).
Proof. exact propagate_backward_velocity. Qed.
Print Assumptions C20_propagate_backward_velocity.

Theorem C20_propagate_backward_distancevel : forall fx i0 i1 per f f' xyz vel box,
  fst (propagate_frame (distancevel_calc fx i0 i1 per) f true xyz vel box) =
  option_map (dv_scale (-1) 1) (fst (propagate_frame (distancevel_calc fx i0 i1 per) f' false xyz vel box)).
Proof. exact propagate_backward_distancevel. Qed.
Print Assumptions C20_propagate_backward_distancevel.

Theorem C20_propagate_backward_position_type : forall f f' xyz vel box,
  (forall i dim, fst (propagate_frame (position_calc i dim) f true xyz vel box) =
                 fst (propagate_frame (position_calc i dim) f' false xyz vel box)) /\
  (forall i0 i1 per, fst (propagate_frame (distance_calc i0 i1 per) f true xyz vel box) =
                     fst (propagate_frame (distance_calc i0 i1 per) f' false xyz vel box)) /\
  (forall i0 i1 i2 i3 per, fst (propagate_frame (dihedral_calc i0 i1 i2 i3 per) f true xyz vel box) =
                           fst (propagate_frame (dihedral_calc i0 i1 i2 i3 per) f' false xyz vel box)) /\
  (forall idx per, fst (propagate_frame (puckering_calc idx per) f true xyz vel box) =
                   fst (propagate_frame (puckering_calc idx per) f' false xyz vel box)).
Proof. exact propagate_backward_position_type. Qed.
Print Assumptions C20_propagate_backward_position_type.

(* non-vacuity: a shooting point with a non-zero velocity-type value; frame 0 of all four
   (incoming flag, direction) combinations; the last two lines show that the rule matters:
   computing frame 0 of a backward run from a forward-flagged point under the INCOMING flag
   (system.vel_rev assigned only after the run) gives the opposite sign *)
Example C20_example_propagate :
  let x := [V3 4 1 0; V3 0 0 0] in let v := [V3 1 0 0; V3 0 2 0] in let b := Some [16; 16; 16] in
  propagate_frame0 (velocity_calc 1 1) false false x v b = (Some 2, false) /\
  propagate_frame0 (velocity_calc 1 1) false true x v b = (Some 2, true) /\
  propagate_frame0 (velocity_calc 1 1) true false x v b = (Some (-2), false) /\
  propagate_frame0 (velocity_calc 1 1) true true x v b = (Some (-2), true) /\
  propagate_frame0 (distancevel_calc true 0 1 true) false true x v b = (Some (2, 17), true) /\
  propagate_frame0 (distance_calc 0 1 true) true false x v b = (Some 17, false) /\
  calculate_order (velocity_calc 1 1) false x v b = Some 2 /\
  calculate_order (velocity_calc 1 1) false x (propagate_start false true v) b = Some (-2).
Proof. vm_compute. repeat split. Qed.

(* ------------------------------------------------------------------ box forms
   any box list gives what its first three entries give: the 9-component form
   (lengths, then off-diagonal elements) equals the 3-component form *)

Theorem C20_box_form_distance : forall i0 i1 per pos vel b,
  distance_calc i0 i1 per (Sys pos vel (Some b)) = distance_calc i0 i1 per (Sys pos vel (Some (firstn 3 b))).
Proof. exact box_form_distance. Qed.
Print Assumptions C20_box_form_distance.

(* the repaired Distancevel (proposed_fixes/C20_distancevel_box.diff) *)
Theorem C20_box_form_distancevel : forall i0 i1 per pos vel b,
  distancevel_calc true i0 i1 per (Sys pos vel (Some b)) =
  distancevel_calc true i0 i1 per (Sys pos vel (Some (firstn 3 b))).
Proof. exact box_form_distancevel. Qed.
Print Assumptions C20_box_form_distancevel.

Theorem C20_box_form_dihedral : forall i0 i1 i2 i3 per pos vel b,
  dihedral_calc i0 i1 i2 i3 per (Sys pos vel (Some b)) =
  dihedral_calc i0 i1 i2 i3 per (Sys pos vel (Some (firstn 3 b))).
Proof. exact box_form_dihedral. Qed.
Print Assumptions C20_box_form_dihedral.

Theorem C20_box_form_puckering : forall idx per pos vel b,
  puckering_calc idx per (Sys pos vel (Some b)) = puckering_calc idx per (Sys pos vel (Some (firstn 3 b))).
Proof. exact box_form_puckering. Qed.
Print Assumptions C20_box_form_puckering.

(* lead L7: Distancevel as it is in /repo (fixed_L7 = false) fails on EVERY box with more
   than three components, so the two forms disagree *)
Theorem C20_box_form_distancevel_unrepaired_fails : forall i0 i1 pos vel a b c e rest,
  distancevel_calc false i0 i1 true (Sys pos vel (Some (a :: b :: c :: e :: rest))) = None.
Proof. exact distancevel_unrepaired_long_box. Qed.
Print Assumptions C20_box_form_distancevel_unrepaired_fails.

Theorem C20_box_form_distancevel_refuted :
  exists pos vel b,
    length b = 9%nat /\
    distancevel_calc false 0 1 true (Sys pos vel (Some (firstn 3 b))) = Some (1, 1) /\
    distancevel_calc false 0 1 true (Sys pos vel (Some b)) = None.
Proof. exact box_form_distancevel_refuted. Qed.
Print Assumptions C20_box_form_distancevel_refuted.

(* ------------------------------------------------------------------ Path.reverse *)

(* velocity-independent order parameters: orders kept, flags toggled, frames reversed
   (correct, because of C20_velocity_sign_position_type) *)
Theorem C20_path_reverse_velocity_independent :
  forall (A : Type) (calc : system -> option A) veldep rev_v fs,
  veldep && rev_v = false ->
  path_reverse calc veldep rev_v fs = Some (map (toggle rev_v) (rev fs)).
Proof. exact @path_reverse_keeps. Qed.
Print Assumptions C20_path_reverse_velocity_independent.

(* velocity-dependent ones are re-evaluated on the stored arrays, without applying the
   toggled flag to the velocities ... *)
Theorem C20_path_reverse_recomputes_from_stored :
  forall (A : Type) (calc : system -> option A) fs r,
  path_reverse calc true true fs = Some r ->
  Forall2 (fun f g => exists s, pf_sys f = Some s /\ calc s = Some (pf_order g) /\
                                pf_rev g = negb (pf_rev f) /\ pf_sys g = pf_sys f) (rev fs) r.
Proof. exact @path_reverse_recomputes. Qed.
Print Assumptions C20_path_reverse_recomputes_from_stored.

(* ... so the sign is not flipped (lead L12, second half) ... *)
Theorem C20_path_reverse_sign_refuted :
  exists s o,
    velocity_calc 0 0 s = Some o /\ velocity_calc 0 0 (reverse_vel s) = Some (- o) /\ - o <> o /\
    path_reverse (velocity_calc 0 0) true true [PF o false (Some s)] = Some [PF o true (Some s)].
Proof. exact path_reverse_sign_refuted. Qed.
Print Assumptions C20_path_reverse_sign_refuted.

(* ... and a frame without stored arrays (all frames made by snapshot_to_system) makes the
   whole reversal fail (lead L12, first half) *)
Theorem C20_path_reverse_unevaluable :
  forall (A : Type) (calc : system -> option A) fs f,
  In f fs -> pf_sys f = None -> path_reverse calc true true fs = None.
Proof. exact @path_reverse_unevaluable. Qed.
Print Assumptions C20_path_reverse_unevaluable.

(* ------------------------------------------------------------------ non-vacuity *)

(* a proper rational rotation (c = 3), a 9-component box, a non-planar four-atom chain:
   hypotheses are met and the values are non-trivial *)
Example C20_example :
  let m := M3 (V3 2 (-1) 2) (V3 2 2 (-1)) (V3 (-1) 2 2) in
  let s := Sys [V3 4 1 0; V3 0 0 0; V3 0 0 2; V3 1 3 3] [V3 1 0 0; V3 0 2 0; V3 0 0 0; V3 1 1 1]
               (Some [16; 16; 16; 0; 0; 0; 0; 0; 0]) in
  let L := V3 16 16 16 in
  orthogonal m 3 /\ det m = 27 /\ boxpos L /\ sbox s = Some (box_of L [0; 0; 0; 0; 0; 0]) /\
  sep_tie s 0 1 L = false /\ sep_tie s 1 2 L = false /\ sep_tie s 3 2 L = false /\
  dihedral_calc 0 1 2 3 true s = Some (Dih 7 0 (-2) 4 22) /\
  dihedral_calc 0 1 2 3 true (shift_images L [V3 1 0 (-2); V3 0 3 0] s) = Some (Dih 7 0 (-2) 4 22) /\
  dihedral_calc 0 1 2 3 false (rotate m s) = Some (Dih 63 0 (-18) 36 594) /\
  distancevel_calc true 0 1 true s = Some (2, 17) /\
  distancevel_calc true 0 1 true (reverse_vel s) = Some (-2, 17).
Proof. vm_compute. repeat split; try lia; discriminate. Qed.

Example C20_example_puckering :
  let chair := [V3 4 0 1; V3 2 3 (-1); V3 (-2) 3 1; V3 (-4) 0 (-1); V3 (-2) (-3) 1; V3 2 (-3) (-1)] in
  let s := Sys chair [] (Some [32; 32; 32]) in
  let L := V3 32 32 32 in
  puck_tie s [0; 1; 2; 3; 4; 5]%nat L = false /\
  (exists z n, puckering_calc [0; 1; 2; 3; 4; 5]%nat true s = Some (Puck z n) /\ 0 < n /\ hd 0 z <> 0) /\
  puckering_calc [0; 1; 2; 3; 4; 5]%nat true (shift_images L [V3 1 1 0; V3 0 0 0; V3 0 (-1) 2] s) =
  puckering_calc [0; 1; 2; 3; 4; 5]%nat true s.
Proof.
  vm_compute. split; [reflexivity|]. split; [|reflexivity].
  eexists. eexists. split; [reflexivity|]. split; [reflexivity | discriminate].
Qed.
