(* Property C13 — on-the-fly trajectory readers never return a torn frame.
   This file only restates results proved in proofs/ReadersP.v about the executable models
   of model/ReadersM.v (xyz_reader, lammpstrj_reader and ReadAndProcessOnTheFly of
   engineparts.py as repaired by the fix of lead L1; the TRR polling loop of
   GromacsRunner.get_gromacs_frames / read_remaining_trr), so that the statements cannot be
   weakened silently.  Each theorem is followed by Print Assumptions.

   Vocabulary.  A file is [render (concat frames)]: every frame is a list of lines, every
   line is written followed by its newline.  [firstn c file] is what is on disk when the
   writer has got c bytes out (EVERY byte cut c, not only line or frame boundaries).
   [nfit sizes c] is the number of leading frames whose bytes all lie inside the cut.
   [fok] stands for float(): any decidable set of accepted number tokens; a returned value
   IS the token it was converted from, so equality of values is equality of the written
   text.  All statements are unbounded (any number of frames, any atom count, any line
   content allowed by the well-formedness predicate, any cut, any sequence of polls). *)
From Coq Require Import String.
From Coq Require Import ZArith List Bool Ascii Lia.
Import ListNotations.
From Inf Require Import gen.ParamsC13 model.ReadersM proofs.ReadersP proofs.ReadersTrrP.
Open Scope string_scope.
Open Scope Z_scope.

(* ---------------------------------------------------------------- CP2K xyz *)

(* For every list of well-formed frames and every byte cut the repaired xyz_reader raises
   nothing, returns exactly the frames wholly inside the cut — the three number tokens of
   every atom line, unchanged, in order — and advances current_position by exactly their
   bytes. *)
Theorem C13_xyz_no_torn : forall (fok : token -> bool) (N : nat) frames c,
  Forall (xyz_wf fok N) frames ->
  xyz_read fok true (firstn c (render (concat frames))) =
  (None,
   map xyz_value (firstn (nfit (map fsize frames) c) frames),
   Z.of_nat (bytes_of (firstn (nfit (map fsize frames) c) frames))).
Proof. exact xyz_cut. Qed.
Print Assumptions C13_xyz_no_torn.

(* Polling the growing file with one reader object at any non-decreasing sequence of cuts:
   poll number i returns exactly the frames completed since poll i-1 and leaves the position
   after the last complete frame ([expected]); no poll raises; the concatenation of all polls
   is the list of frames complete at the last poll — each once, in order. *)
Theorem C13_xyz_incremental : forall (fok : token -> bool) (N : nat) frames cuts,
  Forall (xyz_wf fok N) frames -> nondecr 0 cuts ->
  let rs := polls (xyz_read fok true) (render (concat frames)) 0 cuts in
  rs = expected _ xyz_value frames 0 cuts /\
  Forall (fun r => res_err _ r = None) rs /\
  concat (map (res_frames _) rs) = map xyz_value (firstn (upto (map fsize frames) 0 cuts) frames).
Proof. exact xyz_incremental. Qed.
Print Assumptions C13_xyz_incremental.

(* ... and once a poll sees the whole file, every frame has been handed out exactly once *)
Theorem C13_xyz_complete_after_writer : forall (fok : token -> bool) (N : nat) frames cuts,
  Forall (xyz_wf fok N) frames -> nondecr 0 cuts -> cuts <> [] ->
  (bytes_of frames <= last cuts 0)%nat ->
  concat (map (res_frames _) (polls (xyz_read fok true) (render (concat frames)) 0 cuts)) =
  map xyz_value frames.
Proof. exact xyz_complete_after_writer. Qed.
Print Assumptions C13_xyz_complete_after_writer.

(* ---------------------------------------------------------------- LAMMPS dump *)

Theorem C13_lammps_no_torn : forall (fok : token -> bool) (N : nat), (1 <= N)%nat ->
  forall frames c, Forall (lmp_wf fok N) frames ->
  lmp_read fok true (firstn c (render (concat frames))) =
  (None,
   map (lmp_value N) (firstn (nfit (map fsize frames) c) frames),
   Z.of_nat (bytes_of (firstn (nfit (map fsize frames) c) frames))).
Proof. exact lmp_cut. Qed.
Print Assumptions C13_lammps_no_torn.

Theorem C13_lammps_incremental : forall (fok : token -> bool) (N : nat) frames cuts,
  (1 <= N)%nat -> Forall (lmp_wf fok N) frames -> nondecr 0 cuts ->
  let rs := polls (lmp_read fok true) (render (concat frames)) 0 cuts in
  rs = expected _ (lmp_value N) frames 0 cuts /\
  Forall (fun r => res_err _ r = None) rs /\
  concat (map (res_frames _) rs) = map (lmp_value N) (firstn (upto (map fsize frames) 0 cuts) frames).
Proof. exact lmp_incremental. Qed.
Print Assumptions C13_lammps_incremental.

Theorem C13_lammps_complete_after_writer : forall (fok : token -> bool) (N : nat) frames cuts,
  (1 <= N)%nat -> Forall (lmp_wf fok N) frames -> nondecr 0 cuts -> cuts <> [] ->
  (bytes_of frames <= last cuts 0)%nat ->
  concat (map (res_frames _) (polls (lmp_read fok true) (render (concat frames)) 0 cuts)) =
  map (lmp_value N) frames.
Proof. exact lmp_complete_after_writer. Qed.
Print Assumptions C13_lammps_complete_after_writer.

(* What [lmp_value] is, independently of the reader's bookkeeping: the box rows are the
   tokens of lines 5..7, the coordinate table has N rows, and the row of every atom line
   (tokens 3..8: x y z vx vy vz) sits at index id-1 — for atom ids that are pairwise
   different (LAMMPS' contract: a permutation of 1..N) this determines the whole table. *)
Theorem C13_lammps_value_is_what_was_written : forall (fok : token -> bool) (N : nat) f,
  lmp_wf fok N f -> NoDup (map lmp_id (skipn 9 f)) ->
  fst (lmp_value N f) = map split (firstn 3 (skipn 5 f)) /\
  length (snd (lmp_value N f)) = N /\
  forall a, In a (skipn 9 f) ->
    nth_error (snd (lmp_value N f)) (Z.to_nat (lmp_id a - 1)) = Some (Some (lmp_row a)).
Proof. exact lmp_value_spec. Qed.
Print Assumptions C13_lammps_value_is_what_was_written.

(* The decidable checkers evaluated by the correspondence harness on every generated file
   imply the well-formedness hypotheses above. *)
Theorem C13_xyz_wf_decidable : forall fok N f, xyz_wfb fok N f = true -> xyz_wf fok N f.
Proof. exact xyz_wfb_sound. Qed.
Print Assumptions C13_xyz_wf_decidable.

Theorem C13_lammps_wf_decidable : forall fok N f, lmp_wfb fok N f = true -> lmp_wf fok N f.
Proof. exact lmp_wfb_sound. Qed.
Print Assumptions C13_lammps_wf_decidable.

(* ---------------------------------------------------------------- GROMACS TRR *)

(* The polling loop, on sizes: the file will consist of frames (header of h bytes, data of
   d_j >= 0 bytes), 0 < h <= TRR_HEAD_SIZE = head.  For every sequence of values
   os.path.getsize may report while GROMACS is running (each at most the final size): every
   header / data read starts at a frame / data boundary, has exactly that block's length and
   ends inside the bytes that were on disk when it was issued ([ev_safe]); no read ever goes
   wrong; the frames handed out are 0,1,..,k-1 — each once, in order. *)
Theorem C13_trr_never_reads_past_size : forall (head h : Z) (lay : layout),
  0 < h -> h <= head -> lay_ok h lay ->
  forall sizes, Forall (fun s => s <= layout_size lay) sizes ->
  t_bad (fst (trr_run head lay trr_init sizes)) = false /\
  Forall (ev_safe h lay) (snd (trr_run head lay trr_init sizes)) /\
  exists k, (k <= length lay)%nat /\ yields (snd (trr_run head lay trr_init sizes)) = seq 0 k.
Proof. exact trr_never_reads_past_size. Qed.
Print Assumptions C13_trr_never_reads_past_size.

(* After GROMACS has exited (the loop looks at poll() only between frames), reading the rest
   hands out every remaining frame: all frames 0..n-1 once, in order; all bytes consumed. *)
Theorem C13_trr_quiescent_complete : forall (head h : Z) (lay : layout),
  0 < h -> h <= head -> lay_ok h lay ->
  forall sizes, Forall (fun s => s <= layout_size lay) sizes ->
  let st := fst (trr_run head lay trr_init sizes) in
  t_pend st = None ->
  fst (trr_finish lay st (layout_size lay)) = layout_size lay /\
  Forall (ev_safe h lay) (snd (trr_finish lay st (layout_size lay))) /\
  yields (snd (trr_run head lay trr_init sizes) ++ snd (trr_finish lay st (layout_size lay))) =
  seq 0 (length lay).
Proof. exact trr_quiescent_complete. Qed.
Print Assumptions C13_trr_quiescent_complete.

(* The same for the constants of gromacs.py (gen/ParamsC13.v is regenerated from the source on
   every run): TRR_HEAD_SIZE and the size of the header read_trr_header consumes, in single or
   double precision. *)
Theorem C13_trr_gromacs_constants : forall h lay,
  h = trr_header_bytes_single \/ h = trr_header_bytes_double -> lay_ok h lay ->
  forall sizes, Forall (fun s => s <= layout_size lay) sizes ->
  t_bad (fst (trr_run trr_head_size lay trr_init sizes)) = false /\
  Forall (ev_safe h lay) (snd (trr_run trr_head_size lay trr_init sizes)) /\
  (exists k, (k <= length lay)%nat /\ yields (snd (trr_run trr_head_size lay trr_init sizes)) = seq 0 k) /\
  (let st := fst (trr_run trr_head_size lay trr_init sizes) in
   t_pend st = None ->
   fst (trr_finish lay st (layout_size lay)) = layout_size lay /\
   Forall (ev_safe h lay) (snd (trr_finish lay st (layout_size lay))) /\
   yields (snd (trr_run trr_head_size lay trr_init sizes) ++ snd (trr_finish lay st (layout_size lay))) =
   seq 0 (length lay)).
Proof. exact trr_gromacs_constants. Qed.
Print Assumptions C13_trr_gromacs_constants.

(* ---------------------------------------------------------------- GROMACS TRR: every interleaving

   The writer against every observation point of the loop.  get_gromacs_frames learns about
   the world only through check_poll() and os.path.getsize(); [trr_sched true head lay sizes fin]
   runs the loop (model/ReadersM.v: trr_step, one transition per observation, program points
   PcPoll .. PcDone) against the schedule "the k-th observation made while GROMACS is still
   running sees sizes[k] bytes on disk; the observation number |sizes| and all later ones see
   GROMACS ended with code 0 and [fin] bytes on disk".  |sizes| is arbitrary, so GROMACS is
   first seen ended at ANY observation of ANY program point, in particular between the getsize
   that says "data of this frame not ready" and the check_poll() that follows it.

   For every such schedule (no observation larger than the final size), with [kf] the number
   of frames completely inside the final [fin] bytes: the generator returns; the frames handed
   out are 0 .. kf-1, each once, in order - no complete frame is lost, none is invented; every
   read lies inside the bytes on disk when it is issued, at a block boundary, with the block's
   length - except that read_remaining_trr, when GROMACS ended with code 0 INSIDE a frame,
   goes on to read that partial frame (TGarbage; the real function then raises struct.error:
   outside the property, which is about partial writes of an output that gets completed). *)
Theorem C13_trr_every_interleaving : forall (head h : Z) (lay : layout),
  0 < h -> h <= head -> lay_ok h lay ->
  forall (fin : Z) (kf : nat),
  fin <= layout_size lay -> (kf <= length lay)%nat -> off lay kf <= fin ->
  ((kf < length lay)%nat -> fin < off lay (S kf)) ->
  forall sizes, Forall (fun s => s <= fin) sizes ->
  m_pc (fst (trr_sched true head lay sizes fin)) = PcDone /\
  t_bad (m_st (fst (trr_sched true head lay sizes fin))) = false /\
  Forall (ev_ok h lay fin kf) (snd (trr_sched true head lay sizes fin)) /\
  yields (snd (trr_sched true head lay sizes fin)) = seq 0 kf.
Proof. exact trr_every_interleaving. Qed.
Print Assumptions C13_trr_every_interleaving.

(* such a kf exists for every final size (the theorem above is not vacuous) *)
Theorem C13_trr_complete_frames_exist : forall (h : Z) (lay : layout) (fin : Z),
  0 <= fin -> fin <= layout_size lay ->
  exists kf, (kf <= length lay)%nat /\ off lay kf <= fin /\
             ((kf < length lay)%nat -> fin < off lay (S kf)).
Proof. intros h lay. exact (complete_frames_exist lay). Qed.
Print Assumptions C13_trr_complete_frames_exist.

(* GROMACS wrote everything and exited with code 0, with the constants of gromacs.py: for
   EVERY interleaving the generator returns, all reads are safe and ALL frames are handed out
   once, in order *)
Theorem C13_trr_no_complete_frame_lost : forall h lay,
  h = trr_header_bytes_single \/ h = trr_header_bytes_double -> lay_ok h lay ->
  forall sizes, Forall (fun s => s <= layout_size lay) sizes ->
  m_pc (fst (trr_sched true trr_head_size lay sizes (layout_size lay))) = PcDone /\
  Forall (ev_safe h lay) (snd (trr_sched true trr_head_size lay sizes (layout_size lay))) /\
  yields (snd (trr_sched true trr_head_size lay sizes (layout_size lay))) = seq 0 (length lay).
Proof. exact trr_gromacs_no_complete_frame_lost. Qed.
Print Assumptions C13_trr_no_complete_frame_lost.

(* the loop that decides "GROMACS has ended and the frame is incomplete" with the size it
   read BEFORE check_poll() (no second getsize) is refuted: it returns with both complete
   frames of the witness lost, where the loop as it is hands out both *)
Theorem C13_trr_stale_size_refuted :
  exists lay sizes, lay_ok trr_header_bytes_single lay /\
    Forall (fun s => s <= layout_size lay) sizes /\
    m_pc (fst (trr_sched false trr_head_size lay sizes (layout_size lay))) = PcDone /\
    yields (snd (trr_sched false trr_head_size lay sizes (layout_size lay))) = [] /\
    yields (snd (trr_sched true trr_head_size lay sizes (layout_size lay))) = [0%nat; 1%nat].
Proof. exact trr_stale_size_refuted. Qed.
Print Assumptions C13_trr_stale_size_refuted.

(* ---------------------------------------------------------------- GROMACS TRR: frames of different sizes

   The frames of one TRR file need not have the same data size (velocities / forces written
   every nstvout / nstfout steps, positions every nstxout steps).  A [layout] is a LIST of
   (header size, data size): in C13_trr_every_interleaving, C13_trr_no_complete_frame_lost,
   C13_trr_never_reads_past_size ... the data size is universally quantified PER FRAME
   ([lay_ok h lay] fixes the header size and says 0 <= data size, nothing else), because the
   model's pending frame carries the size announced by its own header - as the code does:
   `self.data_size = sum(header[key] for key in TRR_DATA_ITEMS)` for every header it reads.
   [trr_sched_g dg] is the loop with the two data-size guards (`size >= bytes_read + data_size`,
   `getsize < bytes_read + data_size`) using [dg lay idx d] instead; with the frame's own size
   it is the loop of the theorems above: *)
Theorem C13_trr_guard_uses_own_frame_size : forall head lay sizes fin,
  trr_sched_g own_size head lay sizes fin = trr_sched true head lay sizes fin.
Proof. exact trr_sched_g_own. Qed.
Print Assumptions C13_trr_guard_uses_own_frame_size.

(* the data size computed ONCE (while data_size == 0, "like the header size") is refuted:
   (a) a positions-only frame followed by a larger frame: the stale size lets get_data run on a
   frame that is only partly on disk (TGarbage at the data offset 1168 of frame 1: the real
   reader raises struct.error or returns garbage on a PARTIAL frame); the loop as it is waits
   and hands out both frames *)
Theorem C13_trr_cached_data_size_torn_refuted :
  exists lay sizes, lay_ok trr_header_bytes_single lay /\
    Forall (fun s => s <= layout_size lay) sizes /\
    t_bad (m_st (fst (trr_sched_g cached_size trr_head_size lay sizes (layout_size lay)))) = true /\
    yields (snd (trr_sched_g cached_size trr_head_size lay sizes (layout_size lay))) = [0%nat] /\
    In (TGarbage 1168) (snd (trr_sched_g cached_size trr_head_size lay sizes (layout_size lay))) /\
    t_bad (m_st (fst (trr_sched true trr_head_size lay sizes (layout_size lay)))) = false /\
    yields (snd (trr_sched true trr_head_size lay sizes (layout_size lay))) = [0%nat; 1%nat].
Proof. exact trr_cached_size_torn_refuted. Qed.
Print Assumptions C13_trr_cached_data_size_torn_refuted.

(* (b) a large frame first (forces with frame 0 only): the loop waits for bytes that are never
   written and, when GROMACS has ended, returns without the last frame although it is
   completely on disk (no cut at all) *)
Theorem C13_trr_cached_data_size_lost_refuted :
  exists lay sizes, lay_ok trr_header_bytes_single lay /\
    Forall (fun s => s <= layout_size lay) sizes /\
    m_pc (fst (trr_sched_g cached_size trr_head_size lay sizes (layout_size lay))) = PcDone /\
    t_bad (m_st (fst (trr_sched_g cached_size trr_head_size lay sizes (layout_size lay)))) = false /\
    yields (snd (trr_sched_g cached_size trr_head_size lay sizes (layout_size lay))) = [0%nat] /\
    yields (snd (trr_sched true trr_head_size lay sizes (layout_size lay))) = [0%nat; 1%nat].
Proof. exact trr_cached_size_lost_refuted. Qed.
Print Assumptions C13_trr_cached_data_size_lost_refuted.

(* ---------------------------------------------------------------- the readers before the repair (lead L1) *)

(* xyz_reader as it was: a cut inside the last number of a frame returns that frame with a
   truncated value (3.25 read as 3.2) ... *)
Theorem C13_xyz_old_reader_refuted :
  exists frames c, Forall (xyz_wf py_float_ok 1) frames /\
    xyz_read py_float_ok false (firstn c (render (concat frames))) <>
    (None, map xyz_value (firstn (nfit (map fsize frames) c) frames),
     Z.of_nat (bytes_of (firstn (nfit (map fsize frames) c) frames))).
Proof. exact xyz_old_refuted. Qed.
Print Assumptions C13_xyz_old_reader_refuted.

(* ... and a cut inside the blanks in front of the atom count divides by zero *)
Theorem C13_xyz_old_reader_raises :
  exists frames c, Forall (xyz_wf py_float_ok 1) frames /\
    fst (fst (xyz_read py_float_ok false (firstn c (render (concat frames))))) = Some EZeroDiv.
Proof. exact xyz_old_raises. Qed.
Print Assumptions C13_xyz_old_reader_raises.

(* lammpstrj_reader as it was: an atom line lacking only its newline was accepted, so the
   next poll began on the lone newline and returned nothing although a complete frame
   followed it *)
Theorem C13_lammps_old_reader_refuted :
  exists frames cuts, Forall (lmp_wf py_float_ok 1) frames /\ nondecr 0 cuts /\
    polls (lmp_read py_float_ok false) (render (concat frames)) 0 cuts <>
    expected _ (lmp_value 1) frames 0 cuts.
Proof. exact lmp_old_refuted. Qed.
Print Assumptions C13_lammps_old_reader_refuted.

(* ---------------------------------------------------------------- the hypotheses are satisfiable *)

Example C13_example_xyz :
  let f1 := [str "     2"; str " i = 1, time = 0.5"; str "  O  0.5 -1.25 3"; str "  H  1e-3 +2.5 .5"] in
  let f2 := [str "     2"; str ""; str "  O  1 2 3"; str "  H  4 5 6"] in
  Forall (xyz_wf py_float_ok 2) [f1; f2] /\
  xyz_read py_float_ok true (firstn 70 (render (concat [f1; f2]))) =
  (None, [[[str "0.5"; str "-1.25"; str "3"]; [str "1e-3"; str "+2.5"; str ".5"]]], 61).
Proof.
  cbn zeta. split; [|vm_compute; reflexivity].
  repeat constructor; apply xyz_wfb_sound; vm_compute; reflexivity.
Qed.

Example C13_example_lammps :
  let f := [str "ITEM: TIMESTEP"; str "10"; str "ITEM: NUMBER OF ATOMS"; str "2";
            str "ITEM: BOX BOUNDS xy xz yz pp pp pp"; str "0 10 0"; str "0 10 0"; str "0 10 0";
            str "ITEM: ATOMS id type x y z vx vy vz id";
            str "2 1 0.5 1.5 2.5 -1 -2 -3 2"; str "1 1 4 5 6 7 8 9 1"] in
  Forall (lmp_wf py_float_ok 2) [f; f] /\ NoDup (map lmp_id (skipn 9 f)) /\
  snd (lmp_value 2 f) =
    [Some [str "4"; str "5"; str "6"; str "7"; str "8"; str "9"];
     Some [str "0.5"; str "1.5"; str "2.5"; str "-1"; str "-2"; str "-3"]].
Proof.
  cbn zeta. split; [|split; [|vm_compute; reflexivity]].
  - repeat constructor; apply lmp_wfb_sound; vm_compute; reflexivity.
  - vm_compute. repeat constructor; cbn; intuition discriminate.
Qed.

Example C13_example_trr :
  let lay := [(84, 600); (84, 600); (84, 48)] in
  lay_ok 84 lay /\
  yields (snd (trr_run 1000 lay trr_init [84; 684; 999; 1000; 1000; 1000; 1367; 1368])) = [0%nat; 1%nat] /\
  yields (snd (trr_finish lay (fst (trr_run 1000 lay trr_init [84; 684; 999; 1000; 1000; 1000; 1367; 1368]))
                          (layout_size lay))) = [2%nat].
Proof.
  cbn zeta. split; [|split; vm_compute; reflexivity].
  repeat constructor; cbn; lia.
Qed.

(* header of frame 1 read, its data not complete at the getsize; GROMACS writes the rest and
   exits before the check_poll() of the guard: all three frames are handed out; if it exits
   inside frame 1 instead (1300 bytes), the loop returns with frame 0 only *)
Example C13_example_trr_interleaving :
  let lay := [(84, 600); (84, 600); (84, 48)] in
  lay_ok 84 lay /\ layout_size lay = 1500 /\
  yields (snd (trr_sched true 1000 lay [0; 1000; 1000; 1000; 1000; 1000] 1500)) = [0%nat; 1%nat; 2%nat] /\
  trr_sched_pcs true 1000 lay [0; 1000; 1000; 1000; 1000; 1000] 1500 =
    [PcPoll; PcHdrSize; PcDataSize; PcPoll; PcHdrSize; PcDataSize;
     PcGuardPoll; PcGuardSize; PcDataSize; PcPoll; PcFinSize; PcRemSize; PcDone; PcDone] /\
  yields (snd (trr_sched true 1000 lay [0; 1000; 1000; 1000; 1000; 1000] 1300)) = [0%nat] /\
  m_pc (fst (trr_sched true 1000 lay [0; 1000; 1000; 1000; 1000; 1000] 1300)) = PcDone.
Proof.
  cbn zeta. split; [|repeat split; vm_compute; reflexivity].
  repeat constructor; cbn; lia.
Qed.

(* frames of different sizes (30 atoms, single precision: box + x / box + x + v / box + x /
   box + x + v + f): the hypotheses of C13_trr_every_interleaving hold, and with the header of
   the larger frame 1 read while only part of its data is on disk all four frames are handed
   out; on such a file the cached-size loop goes wrong *)
Example C13_example_trr_frames_of_different_sizes :
  let lay := [(84, 396); (84, 756); (84, 396); (84, 1116)] in
  let sizes := [0; 1000; 1000; 1000; 1200; 1200; 1200; 1200] in
  lay_ok 84 lay /\ layout_size lay = 3000 /\ Forall (fun s => s <= 3000) sizes /\
  yields (snd (trr_sched true 1000 lay sizes 3000)) = [0%nat; 1%nat; 2%nat; 3%nat] /\
  t_bad (m_st (fst (trr_sched_g cached_size 1000 lay sizes 3000))) = true.
Proof.
  cbn zeta. split; [repeat constructor; cbn; lia|].
  split; [reflexivity|]. split; [repeat constructor; cbn; lia|].
  split; vm_compute; reflexivity.
Qed.
