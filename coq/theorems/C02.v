(* Property C02 - swap probabilities equal the exact permanent ratios.

   Specification (spec/PermS.v, independent of the model): perm by first-row expansion,
   Pspec n W i j = W_ij * perm(W without row i, column j) / perm W.
   Model (model/PermM.v): REPEX_state.inf_retis, quick_prob, find_blocks, permanent_prob,
   fast_glynn_perm over exact rationals, tied to /repo by py/checks/c02.py on every run.

   This file only restates results proved in proofs/Perm*P.v, so that the statements cannot be
   weakened silently; each is followed by Print Assumptions.  Theorems whose name ends in
   _bounded are proved by exhaustive computation (vm_compute) over a finite family whose bound
   is part of the statement; all others hold for every size. *)
From Coq Require Import ZArith QArith List Bool Arith Lia.
Import ListNotations.
From Inf Require Import proofs.PermGlynnGenP proofs.PermGlynnGrayP proofs.PermQuickSpecP.
From Inf Require Import proofs.PermPermanentP proofs.PermPermuteP proofs.PermBlockP proofs.PermBlockLoopP proofs.PermFastFamilyP proofs.PermFamilyP.
From Coq Require Import Permutation.
From Inf Require Import model.PermM spec.PermS proofs.PermSpecP proofs.PermP proofs.PermQuickP
  proofs.PermGlynnP proofs.PermGlynn7P proofs.PermIdleP proofs.PermTieP proofs.PermBoundAP proofs.PermBoundBP proofs.PermBoundCP.
Open Scope Q_scope.

(* ================================================================== *)
(* 1. The specification: structural laws of Pspec, every size           *)

(* zero weight -> zero probability *)
Theorem C02_Pspec_zero_weight : forall n W i j, W i j == 0 -> Pspec n W i j == 0.
Proof. exact Pspec_zero_weight. Qed.
Print Assumptions C02_Pspec_zero_weight.

(* Laplace expansion of the permanent along an arbitrary row and an arbitrary column,
   and invariance under transposition *)
Theorem C02_perm_expand_row : forall n W i, (i < n)%nat ->
  perm n W == qsum n (fun j => W i j * perm (pred n) (minor i j W)).
Proof. exact perm_expand_row. Qed.
Print Assumptions C02_perm_expand_row.

Theorem C02_perm_expand_col : forall n W j, (j < n)%nat ->
  perm n W == qsum n (fun i => W i j * perm (pred n) (minor i j W)).
Proof. exact perm_expand_col. Qed.
Print Assumptions C02_perm_expand_col.

Theorem C02_perm_transpose : forall n W, perm n (transpose W) == perm n W.
Proof. exact perm_transpose. Qed.
Print Assumptions C02_perm_transpose.

(* doubly stochastic: every row and every column of Pspec sums to one *)
Theorem C02_Pspec_row_sum : forall n W i, (i < n)%nat -> ~ perm n W == 0 ->
  qsum n (fun j => Pspec n W i j) == 1.
Proof. exact Pspec_row_sum. Qed.
Print Assumptions C02_Pspec_row_sum.

Theorem C02_Pspec_col_sum : forall n W j, (j < n)%nat -> ~ perm n W == 0 ->
  qsum n (fun i => Pspec n W i j) == 1.
Proof. exact Pspec_col_sum. Qed.
Print Assumptions C02_Pspec_col_sum.

(* multilinearity: rescaling one path's weights rescales the permanent and leaves Pspec unchanged
   (this is also what justifies the row rescaling inside permanent_prob) *)
Theorem C02_perm_scale_row : forall n W k c, (k < n)%nat ->
  perm n (scale_row k c W) == c * perm n W.
Proof. exact perm_scale_row. Qed.
Print Assumptions C02_perm_scale_row.

Theorem C02_Pspec_scale_invariant : forall n W k c i j,
  ~ c == 0 -> (k < n)%nat -> (i < n)%nat -> (j < n)%nat ->
  Pspec n (scale_row k c W) i j == Pspec n W i j.
Proof. exact Pspec_scale_invariant. Qed.
Print Assumptions C02_Pspec_scale_invariant.

(* probabilities are non-negative for non-negative weights *)
Theorem C02_Pspec_nonneg : forall n W i j,
  (forall a b, (a < n)%nat -> (b < n)%nat -> 0 <= W a b) ->
  0 < perm n W -> (i < n)%nat -> (j < n)%nat -> 0 <= Pspec n W i j.
Proof. exact Pspec_nonneg. Qed.
Print Assumptions C02_Pspec_nonneg.

(* the hypotheses are satisfiable: a weighted staircase with perm = 61 *)
Example C02_spec_example :
  let W := of_lists [[3; 2; 0]; [5; 4; 1]; [4; 3; 2]] in
  ~ perm 3 W == 0 /\ Pspec 3 W 0 0 == 33 # 61 /\ Pspec 3 W 0 2 == 0.
Proof. cbv zeta. repeat split; vm_compute; discriminate || reflexivity. Qed.

(* ================================================================== *)
(* 2. The model of inf_retis / quick_prob / fast_glynn_perm, every size *)

(* busy rows and busy columns of the result of inf_retis are zero - for every weight matrix,
   lock vector, offset and whatever np.argsort answers (mi, pi) *)
Theorem C02_inf_retis_locked_zero : forall rp mi pi off W locks P i j,
  inf_retis_with rp mi pi off W locks = Some P ->
  nth i locks false = true \/ nth j locks false = true ->
  mget P i j = 0.
Proof. exact inf_retis_with_locked_zero. Qed.
Print Assumptions C02_inf_retis_locked_zero.

(* the idle block of the result is the result of inf_retis on the idle sub-matrix alone *)
Theorem C02_inf_retis_idle_block : forall rp mi pi off W locks,
  length W = length locks ->
  inf_retis_with rp mi pi off W locks =
  option_map (reinsert locks (length (unlocked W locks)))
    (inf_retis_with rp mi pi (off - count_true (firstn off locks)) (unlocked W locks)
                    (repeat false (length (unlocked W locks)))).
Proof. exact inf_retis_with_idle_block. Qed.
Print Assumptions C02_inf_retis_idle_block.

(* quick_prob (the fast path) is doubly stochastic, non-negative and zero where the weight is
   zero, for every n x n matrix whose column c has at most c zero entries ... *)
Theorem C02_quick_prob_doubly_stochastic : forall n (arr : matrix),
  length arr = n -> Forall (fun r => length r = n) arr ->
  (forall c, (c < n)%nat -> (nzeros (col c arr) <= c)%nat) ->
  let P := quick_prob arr in
  (forall i, (i < n)%nat -> qsuml (rownth P i) == 1) /\
  (forall j, (j < n)%nat -> qsuml (col j P) == 1) /\
  (forall i j, 0 <= mget P i j) /\
  (forall i j, (i < n)%nat -> (j < n)%nat -> mget arr i j == 0 -> mget P i j == 0).
Proof. exact quick_prob_doubly_stochastic. Qed.
Print Assumptions C02_quick_prob_doubly_stochastic.

(* ... in particular for every staircase of any size with arbitrary non-zero weights whose r-th
   row (in the sorted order) reaches beyond the diagonal (Hall's condition, i.e. perm <> 0) *)
Theorem C02_quick_prob_doubly_stochastic_staircase : forall n rows,
  length rows = n ->
  Forall (Forall (fun w => ~ w == 0)) rows ->
  (forall r, (r < n)%nat -> (r < length (nth r rows []) <= n)%nat) ->
  let P := quick_prob (staircase n rows) in
  (forall i, (i < n)%nat -> qsuml (rownth P i) == 1) /\
  (forall j, (j < n)%nat -> qsuml (col j P) == 1) /\
  (forall i j, 0 <= mget P i j) /\
  (forall i j, (i < n)%nat -> (j < n)%nat -> mget (staircase n rows) i j == 0 -> mget P i j == 0).
Proof. exact quick_prob_doubly_stochastic_staircase. Qed.
Print Assumptions C02_quick_prob_doubly_stochastic_staircase.

Example C02_quick_prob_example :
  let rows := [[1; 1]; [1; 1; 1]; [1; 1; 1]] in
  length rows = 3%nat /\ (forall r, (r < 3)%nat -> (r < length (nth r rows []) <= 3)%nat) /\
  quick_prob (staircase 3 rows) = [[1 # 2; 1 # 2; 0]; [1 # 4; 1 # 4; 1 # 2]; [1 # 4; 1 # 4; 1 # 2]].
Proof.
  cbv zeta. split; [reflexivity|]. split; [|vm_compute; reflexivity].
  intros r Hr. destruct r as [|[|[|r]]]; cbn; lia.
Qed.

(* the Qred normalisation the executable model applies inside the Glynn loop does not change
   its value (so statements about the loop in plain arithmetic transfer to the model) *)
Theorem C02_fast_glynn_Qred_immaterial : forall M,
  oq_eq (fast_glynn_perm M) (fast_glynn_perm_with (fun x => x) M).
Proof. exact fast_glynn_perm_Qred_immaterial. Qed.
Print Assumptions C02_fast_glynn_Qred_immaterial.

(* ================================================================== *)
(* 3. Refinement inf_retis = Pspec, bounded by computation              *)

(* [refines_Pspec rp W locks]: if some ensemble is idle and the idle block has a non-zero
   permanent, inf_retis returns a matrix equal to Pspec on the idle block and zero on every busy
   row and column.  rp = random_prob, arbitrary (never reached below 13 paths). *)

(* ALL 0/1 staircase states with 1..5 plus-ensembles (n = m + 2 with [0-] and the ghost), every
   support sequence (= every order of the live paths), every set of busy ensembles *)
Theorem C02_inf_retis_eq_Pspec_staircase01_5_bounded : forall rp m ks lk,
  (1 <= m <= 5)%nat ->
  length ks = m -> (forall k, In k ks -> (1 <= k <= m)%nat) ->
  length lk = S m ->
  refines_Pspec rp (stair_matrix ks) (lk ++ [true]).
Proof. exact inf_retis_eq_Pspec_staircase01_5. Qed.
Print Assumptions C02_inf_retis_eq_Pspec_staircase01_5_bounded.

(* 6 plus-ensembles: every support multiset (paths stored in non-decreasing order of support),
   every set of busy ensembles *)
Theorem C02_inf_retis_eq_Pspec_staircase01_sorted_6_bounded : forall rp ks lk,
  length ks = 6%nat -> nondecr 1 ks -> (forall k, In k ks -> (k <= 6)%nat) ->
  length lk = 7%nat ->
  refines_Pspec rp (stair_matrix ks) (lk ++ [true]).
Proof. exact inf_retis_eq_Pspec_staircase01_sorted_6. Qed.
Print Assumptions C02_inf_retis_eq_Pspec_staircase01_sorted_6_bounded.

(* weighted staircases (block-wise path: find_blocks, permanent_prob with row rescaling, Glynn):
   1..3 plus-ensembles, every support sequence, weights in {1,2}, every set of busy ensembles *)
Theorem C02_inf_retis_eq_Pspec_weighted12_3_bounded : forall rp m rows lk,
  (1 <= m <= 3)%nat ->
  length rows = m ->
  (forall row, In row rows -> (1 <= length row <= m)%nat /\ (forall w, In w row -> In w [1; 2])) ->
  length lk = S m ->
  refines_Pspec rp (wstair_matrix rows) (lk ++ [true]).
Proof. exact inf_retis_eq_Pspec_weighted12_3. Qed.
Print Assumptions C02_inf_retis_eq_Pspec_weighted12_3_bounded.

(* the same with weights in {1,2,3}, nothing busy *)
Theorem C02_inf_retis_eq_Pspec_weighted123_3_bounded : forall rp m rows,
  (1 <= m <= 3)%nat ->
  length rows = m ->
  (forall row, In row rows -> (1 <= length row <= m)%nat /\ (forall w, In w row -> In w [1; 2; 3])) ->
  refines_Pspec rp (wstair_matrix rows) (repeat false (S m) ++ [true]).
Proof. exact inf_retis_eq_Pspec_weighted123_3_idle. Qed.
Print Assumptions C02_inf_retis_eq_Pspec_weighted123_3_bounded.

(* np.argsort's order among equal keys is machine dependent: for all 0/1 staircase states with up
   to 4 plus-ensembles and all busy sets, EVERY valid pair of argsort answers (a sorting
   permutation of the keys, indices in range) gives the result of the stable order the model uses *)
Theorem C02_inf_retis_tie_order_independent_4_bounded : forall rp m ks lk mi pi,
  (1 <= m <= 4)%nat ->
  length ks = m -> (forall k, In k ks -> (1 <= k <= m)%nat) ->
  length lk = S m ->
  let W := stair_matrix ks in
  let locks := lk ++ [true] in
  is_argsort (minus_keys 1 W locks) mi = true -> (forall i, In i mi -> (i < length mi)%nat) ->
  is_argsort (pos_keys 1 W locks) pi = true -> (forall i, In i pi -> (i < length pi)%nat) ->
  omat_eqb (inf_retis_with rp mi pi 1 W locks) (inf_retis rp 1 W locks) = true.
Proof. exact inf_retis_tie_order_independent_4. Qed.
Print Assumptions C02_inf_retis_tie_order_independent_4_bounded.

(* the same on the block-wise path: weights in {1,2}, up to 3 plus-ensembles *)
Theorem C02_inf_retis_tie_order_independent_weighted12_3_bounded : forall rp m rows lk mi pi,
  (1 <= m <= 3)%nat ->
  length rows = m ->
  (forall row, In row rows -> (1 <= length row <= m)%nat /\ (forall w, In w row -> In w [1; 2])) ->
  length lk = S m ->
  let W := wstair_matrix rows in
  let locks := lk ++ [true] in
  is_argsort (minus_keys 1 W locks) mi = true -> (forall i, In i mi -> (i < length mi)%nat) ->
  is_argsort (pos_keys 1 W locks) pi = true -> (forall i, In i pi -> (i < length pi)%nat) ->
  omat_eqb (inf_retis_with rp mi pi 1 W locks) (inf_retis rp 1 W locks) = true.
Proof. exact inf_retis_tie_order_independent_weighted12_3. Qed.
Print Assumptions C02_inf_retis_tie_order_independent_weighted12_3_bounded.

(* the hypotheses are satisfiable: three plus-ensembles, supports (3,1,3), ensemble 2 busy *)
Example C02_refinement_example :
  let ks := [3; 1; 3]%nat in
  let lk := [false; false; true; false] in
  let W := stair_matrix ks in
  let locks := lk ++ [true] in
  idle_idx locks <> [] /\
  ~ perm (length (idle_idx locks)) (of_lists (idle_block W locks)) == 0 /\
  inf_retis (fun M => M) 1 W locks =
    Some [[1; 0; 0; 0; 0]; [0; 1 # 2; 0; 1 # 2; 0]; [0; 0; 0; 0; 0]; [0; 1 # 2; 0; 1 # 2; 0]; [0; 0; 0; 0; 0]].
Proof. cbv zeta. repeat split; vm_compute; discriminate || reflexivity. Qed.

(* ================================================================== *)
(* 3b. The staircase shortcut equals the specification, EVERY size        *)

(* permanent of a 0/1 staircase matrix (row i has ones in its first k_i columns, rows in any
   order): the product over the columns of D_c = (number of rows with a one in column c) - (n-1-c) *)
Theorem C02_perm_staircase_product : forall n k, perm n (sW k) == qprod n (Dq n k).
Proof. exact perm_staircase_product. Qed.
Print Assumptions C02_perm_staircase_product.

(* it is non-zero exactly under the column condition that quick_prob's theorems assume *)
Theorem C02_perm_staircase_nonzero_iff : forall n ks, length ks = n -> (forall k, In k ks -> (k <= n)%nat) ->
  (~ perm n (of_lists (stair01 n ks)) == 0 <->
   forall c, (c < n)%nat -> (nzeros (col c (stair01 n ks)) <= c)%nat).
Proof. exact perm_stair01_nonzero_iff. Qed.
Print Assumptions C02_perm_staircase_nonzero_iff.

(* quick_prob (the closed-form loop of REPEX_state.quick_prob) returns exactly the permanent
   ratios W_ij perm(W minus i,j)/perm(W) on every 0/1 staircase block with non-zero permanent:
   every size, rows in any order *)
Theorem C02_quick_prob_eq_Pspec_staircase : forall n ks,
  length ks = n -> (forall k, In k ks -> (k <= n)%nat) ->
  ~ perm n (of_lists (stair01 n ks)) == 0 ->
  forall i j, (i < n)%nat -> (j < n)%nat ->
  mget (quick_prob (stair01 n ks)) i j == Pspec n (of_lists (stair01 n ks)) i j.
Proof. exact quick_prob_eq_Pspec_staircase01. Qed.
Print Assumptions C02_quick_prob_eq_Pspec_staircase.

(* ... and on every block whose rows are constant on their support (one arbitrary non-zero weight
   per path: the blocks inf_retis hands to quick_prob after its equal-or-zero test) *)
Theorem C02_quick_prob_eq_Pspec_uniform_rows : forall n k (w : nat -> Q) arr,
  stair_support n k arr ->
  (forall i c, (i < n)%nat -> (c < n)%nat -> (c < k i)%nat -> mget arr i c == w i) ->
  (forall c, (c < n)%nat -> (nzeros (col c arr) <= c)%nat) ->
  forall i j, (i < n)%nat -> (j < n)%nat ->
  mget (quick_prob arr) i j == Pspec n (of_lists arr) i j.
Proof. exact quick_prob_eq_Pspec_uniform_rows. Qed.
Print Assumptions C02_quick_prob_eq_Pspec_uniform_rows.

(* ================================================================== *)
(* 3c. inf_retis = Pspec for EVERY size                                   *)

(* the permanent path: permanent_prob (row rescaling, Glynn on every minor, normalisation by the
   largest row sum) returns the permanent ratios of every n x n matrix, n >= 2, with no all-zero
   row and a non-zero permanent *)
Theorem C02_permanent_prob_eq_Pspec : forall n arr,
  (2 <= n)%nat -> square n arr ->
  Forall (fun row => ~ qmaxl row == 0) arr ->
  ~ perm n (of_lists arr) == 0 ->
  exists P, permanent_prob arr = Some P /\ square n P /\
            forall i j, (i < n)%nat -> (j < n)%nat -> mget P i j == Pspec n (of_lists arr) i j.
Proof. exact permanent_prob_eq_Pspec. Qed.
Print Assumptions C02_permanent_prob_eq_Pspec.

(* sorting / un-sorting: Pspec is equivariant under every permutation of rows and of columns *)
Theorem C02_Pspec_permute_rows : forall n idx W i j, Permutation idx (seq 0 n) ->
  (i < n)%nat -> (j < n)%nat ->
  Pspec n (rows_of idx W) i j == Pspec n W (nth i idx O) j.
Proof. exact Pspec_permute_rows. Qed.
Print Assumptions C02_Pspec_permute_rows.

Theorem C02_Pspec_permute_cols : forall n idx W i j, Permutation idx (seq 0 n) ->
  (i < n)%nat -> (j < n)%nat ->
  Pspec n (cols_of idx W) i j == Pspec n W i (nth j idx O).
Proof. exact Pspec_permute_cols. Qed.
Print Assumptions C02_Pspec_permute_cols.

(* the block-wise path: for a block lower-triangular matrix (any list of block sizes) the permanent
   is the product of the permanents of the diagonal blocks, and Pspec is the Pspec of the diagonal
   block inside a block and 0 outside (also where W itself is not 0) *)
Theorem C02_perm_blocks : forall bs W, blt bs 0 W -> perm (total bs) W == blockperm bs 0 W.
Proof. exact perm_blocks. Qed.
Print Assumptions C02_perm_blocks.

Theorem C02_Pspec_blocks : forall bs W i j, blt bs 0 W -> blocks_nz bs 0 W ->
  (i < total bs)%nat -> (j < total bs)%nat ->
  Pspec (total bs) W i j == Pblocks bs 0 W i j.
Proof. exact Pspec_blocks. Qed.
Print Assumptions C02_Pspec_blocks.

(* the whole of inf_retis (drop busy rows/columns, sort, equal test, quick_prob or find_blocks +
   block loop, un-sort, the two allclose assertions, re-insert) on the reachable family, EVERY
   number of ensembles, every busy set, rows in any order: *)
(* - 0/1 staircases (the bounded theorem 3/5 without its bound) *)
Theorem C02_inf_retis_eq_Pspec_staircase01 : forall rp ks lk,
  (forall k, In k ks -> (1 <= k <= length ks)%nat) ->
  length lk = S (length ks) ->
  refines_Pspec rp (stair_matrix ks) (lk ++ [true]).
Proof. exact stair01_refines. Qed.
Print Assumptions C02_inf_retis_eq_Pspec_staircase01.

(* - one arbitrary non-zero weight per path (the all-equal fast path) *)
Theorem C02_inf_retis_eq_Pspec_uniform_weights : forall rp rows lk,
  (forall row, In row rows ->
     (1 <= length row <= length rows)%nat /\ exists w, ~ w == 0 /\ row = repeat w (length row)) ->
  length lk = S (length rows) ->
  refines_Pspec rp (wstair_matrix rows) (lk ++ [true]).
Proof. exact wstair_uniform_refines. Qed.
Print Assumptions C02_inf_retis_eq_Pspec_uniform_weights.

(* - arbitrary positive weights (wire fencing): exact whenever every non-uniform block that
     find_blocks returns has at most 12 paths (larger ones go to the Monte-Carlo random_prob,
     which is outside the exactness claim) *)
Theorem C02_inf_retis_eq_Pspec_positive_weights : forall rp rows (b0 : bool) lk',
  (forall row, In row rows -> (1 <= length row <= length rows)%nat /\ forall w, In w row -> 0 < w) ->
  length lk' = length rows ->
  (forall blocks st en d,
     find_blocks (sorted_unlocked rows b0 lk') (if b0 then 0 else 1)%nat = FBlist blocks ->
     In (st, en, d) blocks ->
     rows_equal_or_zero (subarr_of (sorted_unlocked rows b0 lk') st (en - st)) 0 = false ->
     (en - st <= 12)%nat) ->
  refines_Pspec rp (wstair_matrix rows) (b0 :: lk' ++ [true]).
Proof. exact wstair_positive_refines. Qed.
Print Assumptions C02_inf_retis_eq_Pspec_positive_weights.

(* - in particular with at most 12 idle plus ensembles *)
Theorem C02_inf_retis_eq_Pspec_positive_weights_le12 : forall rp rows (b0 : bool) lk',
  (forall row, In row rows -> (1 <= length row <= length rows)%nat /\ forall w, In w row -> 0 < w) ->
  length lk' = length rows ->
  (length (idle_idx (lk' ++ [true])) <= 12)%nat ->
  refines_Pspec rp (wstair_matrix rows) (b0 :: lk' ++ [true]).
Proof. exact wstair_positive_refines_le12. Qed.
Print Assumptions C02_inf_retis_eq_Pspec_positive_weights_le12.

(* the hypotheses are satisfiable: four plus ensembles with wire-fencing weights, one busy *)
Definition C02_ex_rows : list (list Q) := [[2; 3]; [1]; [1; 1; 5 # 2; 4]; [3; 3; 7]].
Example C02_inf_retis_positive_example :
  (forall row, In row C02_ex_rows -> (1 <= length row <= length C02_ex_rows)%nat /\ forall w, In w row -> 0 < w) /\
  idle_idx (false :: [false; true; false; false] ++ [true]) <> [] /\
  ~ perm (length (idle_idx (false :: [false; true; false; false] ++ [true])))
         (of_lists (idle_block (wstair_matrix C02_ex_rows) (false :: [false; true; false; false] ++ [true]))) == 0 /\
  exists P, inf_retis (fun M => M) 1 (wstair_matrix C02_ex_rows) (false :: [false; true; false; false] ++ [true]) = Some P /\
            is_Pspec_on_idle (wstair_matrix C02_ex_rows) (false :: [false; true; false; false] ++ [true]) (mget P).
Proof.
  assert (H : forall row, In row C02_ex_rows ->
                (1 <= length row <= length C02_ex_rows)%nat /\ forall w, In w row -> 0 < w).
  { intros row Hr. cbn in Hr.
    repeat (destruct Hr as [<-|Hr]; [split; [cbn; lia | intros w Hw; cbn in Hw;
      repeat (destruct Hw as [<-|Hw]; [reflexivity|]); contradiction]|]). contradiction. }
  split; [exact H|].
  assert (Hi : idle_idx (false :: [false; true; false; false] ++ [true]) <> []) by (vm_compute; discriminate).
  assert (Hp : ~ perm (length (idle_idx (false :: [false; true; false; false] ++ [true])))
         (of_lists (idle_block (wstair_matrix C02_ex_rows) (false :: [false; true; false; false] ++ [true]))) == 0)
    by (vm_compute; discriminate).
  split; [exact Hi|]. split; [exact Hp|].
  apply (C02_inf_retis_eq_Pspec_positive_weights_le12 (fun M => M) C02_ex_rows false [false; true; false; false] H);
    [reflexivity | vm_compute; lia | exact Hi | exact Hp].
Qed.

(* ================================================================== *)
(* 4. Glynn's formula = permanent                                        *)

(* the Gray-code loop of fast_glynn_perm returns the permanent of EVERY rational n x n matrix,
   every n >= 1 (proofs/PermGlynnGrayP.v: consecutive Gray codes differ in one bit, the loop
   invariant, every sign vector is visited once) *)
Theorem C02_fast_glynn_eq_perm : forall n M, (1 <= n)%nat -> square n M ->
  exists p, fast_glynn_perm M = Some p /\ p == perm n (of_lists M).
Proof. exact fast_glynn_eq_perm. Qed.
Print Assumptions C02_fast_glynn_eq_perm.

(* 4'. the earlier bounded versions (symbolic entries, field)              *)

(* the Gray-code loop of fast_glynn_perm returns the permanent of EVERY rational n x n matrix,
   n <= 7 (proved on symbolic entries by field) *)
Theorem C02_fast_glynn_eq_perm_le7_bounded : forall n M, (1 <= n <= 7)%nat -> square n M ->
  exists p, fast_glynn_perm M = Some p /\ p == perm n (of_lists M).
Proof. exact fast_glynn_eq_perm_le7. Qed.
Print Assumptions C02_fast_glynn_eq_perm_le7_bounded.

(* Glynn's formula as the plain sum over sign vectors equals the permanent for EVERY size
   (proofs/PermGlynnGenP.v: induction on the number of sign variables over products of affine
   forms, telescoping the difference of the two products obtained for delta_0 = +1/-1) *)
Theorem C02_glynn_plain_eq_perm : forall n M, glynn_plain n M == perm n M.
Proof. exact glynn_plain_eq_perm. Qed.
Print Assumptions C02_glynn_plain_eq_perm.

(* (the earlier bounded version, by field on symbolic entries, n <= 5) *)
Theorem C02_glynn_plain_eq_perm_le5_bounded : forall n M, (n <= 5)%nat -> glynn_plain n M == perm n M.
Proof. exact glynn_plain_eq_perm_le5. Qed.
Print Assumptions C02_glynn_plain_eq_perm_le5_bounded.

Example C02_glynn_example :
  square 3 [[3; 2; 1]; [5; 4; 1]; [4; 3; 2]] /\ fast_glynn_perm [[3; 2; 1]; [5; 4; 1]; [4; 3; 2]] = Some 92.
Proof. split; [split; [reflexivity | repeat constructor] | vm_compute; reflexivity]. Qed.

(* ================================================================== *)
(* 5. Positive probability = lying on a perfect matching (all sizes)      *)
From Inf Require Import proofs.PermMatchP.

(* for non-negative weights the permanent is positive exactly when a perfect matching exists *)
Theorem C02_perm_pos_iff_matching : forall n M,
  nonneg n M -> (0 < perm n M <-> exists sg, fmatching n M sg).
Proof. exact perm_pos_iff_matching. Qed.
Print Assumptions C02_perm_pos_iff_matching.

(* hence a (path, ensemble) pair has positive swap probability exactly when it lies on a perfect
   matching of the weight matrix - the meaning of the certificates that property C05's model checks *)
Theorem C02_Pspec_pos_iff_on_matching : forall n M i j,
  nonneg (S n) M -> 0 < perm (S n) M -> (i <= n)%nat -> (j <= n)%nat ->
  (0 < Pspec (S n) M i j <-> 0 < M i j /\ exists sg, fmatching n (minor i j M) sg).
Proof. exact Pspec_pos_iff_on_matching. Qed.
Print Assumptions C02_Pspec_pos_iff_on_matching.

Example C02_matching_example :
  fmatching 3 (of_lists [[1; 0; 0]; [0; 2; 3]; [0; 5; 0]]) (fun i => match i with 0 => 0 | 1 => 2 | _ => 1 end)%nat
  /\ 0 < perm 3 (of_lists [[1; 0; 0]; [0; 2; 3]; [0; 5; 0]]).
Proof.
  split.
  - split.
    + intros [|[|[|i]]] Hi; try lia; split; try lia; reflexivity.
    + intros [|[|[|i]]] [|[|[|i']]] Hi Hi' E; try lia; try discriminate; reflexivity.
  - reflexivity.
Qed.
