(* Property C02 — swap probabilities equal the exact permanent ratios (work in progress) *)
From Coq Require Import QArith List Arith.
From Inf Require Import spec.PermS proofs.PermSpecP.
Open Scope Q_scope.

Theorem C02_Pspec_zero_weight : forall n W i j, W i j == 0 -> Pspec n W i j == 0.
Proof. exact Pspec_zero_weight. Qed.
Print Assumptions C02_Pspec_zero_weight.
