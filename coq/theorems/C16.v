(* Property C16 -- velocity regeneration changes only velocities, at the right temperature.
   This file only restates results proved in proofs/VelP.v (model: model/VelM.v, constants:
   gen/ParamsC16.v regenerated from /repo), so that the statements cannot be weakened
   silently; each is followed by Print Assumptions.  All statements are over Q (exact
   rationals) and hold for every input (unbounded), except the unit lemmas, which are closed
   numeric facts about the constants found in the sources. *)
From Coq Require Import ZArith QArith Qabs List Bool.
Import ListNotations.
From Inf Require Import gen.ParamsC16 model.VelM proofs.VelP.
Open Scope Q_scope.

(* ---------------------------------------------------------------- variance kT/m of the draw *)
(* one component: v = loc + sigma z with sigma^2 m beta = 1 gives m v^2 = kT z^2 *)
Theorem C16_draw_variance : forall s m beta kT z,
  s * s * m * beta == 1 -> beta * kT == 1 ->
  m * ((draw_loc + s * z) * (draw_loc + s * z)) == kT * (z * z).
Proof. exact draw_variance_comp. Qed.
Print Assumptions C16_draw_variance.

(* a whole component column (all atoms, their own masses and sigmas) *)
Theorem C16_draw_variance_all_atoms : forall beta kT sig mass,
  Forall2 (fun s m => s * s * m * beta == 1) sig mass -> beta * kT == 1 ->
  forall z, length z = length sig ->
  Forall2 Qeq (map2 (fun m v => m * (v * v)) mass (draw_col sig z))
              (map (fun x => kT * (x * x)) z).
Proof. exact draw_variance_col. Qed.
Print Assumptions C16_draw_variance_all_atoms.

(* over any number of draws: sample mean of v is sigma * (sample mean of z) -- zero mean is
   inherited -- and the sample average of m v^2 is kT * (sample average of z^2), i.e.
   <m v^2> = kT per degree of freedom for unit-variance z *)
Theorem C16_draw_mean : forall s zs,
  sumQ (map (fun z => draw_loc + s * z) zs) == s * sumQ zs.
Proof. exact draw_first_moment. Qed.
Print Assumptions C16_draw_mean.

Theorem C16_draw_mv2 : forall s m beta kT zs,
  s * s * m * beta == 1 -> beta * kT == 1 ->
  sumQ (map (fun z => m * ((draw_loc + s * z) * (draw_loc + s * z))) zs)
  == kT * sumQ (map (fun z => z * z) zs).
Proof. exact draw_second_moment. Qed.
Print Assumptions C16_draw_mv2.

(* with the engine's own beta = 1/(T kb): kT is kb_engine * T, for every engine *)
Theorem C16_engine_variance : forall e kb_user temp s m z,
  ~ temp * kb_engine e kb_user == 0 ->
  s * s * m * beta_of (kb_engine e kb_user) temp == 1 ->
  m * ((draw_loc + s * z) * (draw_loc + s * z)) == kb_engine e kb_user * temp * (z * z).
Proof. exact engine_variance. Qed.
Print Assumptions C16_engine_variance.

(* LAMMPS divides by `scale`: in (g/mol)(A/fs)^2 converted to kcal/mol the written
   component again carries kT z^2, within 1e-6 relative *)
Theorem C16_lammps_temperature : forall s m beta kT z,
  s * s * m * beta == 1 -> beta * kT == 1 -> 0 <= kT ->
  let v := (draw_loc + s * z) / scale_lammps in
  within tol6 (m * (v * v) * (lmp_mass * (lmp_vel * lmp_vel) / lmp_energy)) (kT * (z * z)).
Proof. exact lammps_temperature. Qed.
Print Assumptions C16_lammps_temperature.

(* ASE draws momenta z * sqrt(m kT) and stores velocity = momentum / m *)
Theorem C16_ase_variance : forall sp m kT z,
  ~ m == 0 -> sp * sp == m * kT ->
  m * ((z * sp / m) * (z * sp / m)) == kT * (z * z).
Proof. exact ase_variance_comp. Qed.
Print Assumptions C16_ase_variance.

Example C16_variance_hypotheses_met :
  (1 # 2) * (1 # 2) * 4 * (1 # 3) * 3 == 1 /\ (1 # 3) * 3 == 1.
Proof. split; reflexivity. Qed.

(* ---------------------------------------------------------------- the whole operation *)
(* modify_velocities of CP2K / GROMACS / LAMMPS / TurtleMD without momentum reset: EVERY
   component of EVERY atom of the velocities written to genvel.* satisfies
   m v^2 * vunit2 = kb_engine T z^2 with the engine's own constants (vunit2 = scale^2 for
   LAMMPS, 1 otherwise), z being the stream value that component was drawn from *)
Theorem C16_modify_variance : forall e kb_user temp mass src ek zm sig z,
  use_zm e zm = false -> ~ temp * kb_engine e kb_user == 0 ->
  Forall2 (fun s m => s * s * m * beta_of (kb_engine e kb_user) temp == 1) sig mass ->
  Forall (fun zc => length zc = length sig) z ->
  Forall2 (fun vc zc =>
             Forall2 Qeq (map2 (fun m v => m * (v * v) * vunit2 e) mass vc)
                         (map (fun x => kb_engine e kb_user * temp * (x * x)) zc))
          (f_vel (r_frame (modify_std e mass src ek zm sig z))) z.
Proof. exact modify_std_variance. Qed.
Print Assumptions C16_modify_variance.

(* ASE (either statement order), sigp^2 = m kT *)
Theorem C16_modify_variance_ase : forall fx kT mass src zm sigp z,
  use_zm Ase zm = false ->
  Forall2 (fun sp m => sp * sp == m * kT /\ ~ m == 0) sigp mass ->
  Forall (fun zc => length zc = length sigp) z ->
  Forall2 (fun vc zc =>
             Forall2 Qeq (map2 (fun m v => m * (v * v)) mass vc) (map (fun x => kT * (x * x)) zc))
          (f_vel (r_frame (modify_ase fx mass src zm sigp z))) z.
Proof. exact modify_ase_variance. Qed.
Print Assumptions C16_modify_variance_ase.

(* the kinetic energy the operation REPORTS is (1/2) kT * (sum of all z^2): equipartition,
   <kin_new> = (npart*dim/2) kT for a unit-variance stream *)
Theorem C16_modify_equipartition : forall e kb_user temp mass src ek zm sig z,
  use_zm e zm = false -> ~ temp * kb_engine e kb_user == 0 ->
  Forall2 (fun s m => s * s * m * beta_of (kb_engine e kb_user) temp == 1) sig mass ->
  Forall (fun zc => length zc = length sig) z ->
  r_kin_new (modify_std e mass src ek zm sig z) * vunit2 e
  == kin_half * (kb_engine e kb_user * temp) * sum_sq z.
Proof. exact modify_std_equipartition. Qed.
Print Assumptions C16_modify_equipartition.

Theorem C16_modify_equipartition_ase : forall kT mass src zm sigp z,
  use_zm Ase zm = false ->
  Forall2 (fun sp m => sp * sp == m * kT /\ ~ m == 0) sigp mass ->
  Forall (fun zc => length zc = length sigp) z ->
  r_kin_new (modify_ase true mass src zm sigp z) == (1 # 2) * kT * sum_sq z.
Proof. exact modify_ase_equipartition. Qed.
Print Assumptions C16_modify_equipartition_ase.

Example C16_modify_variance_hypotheses_met :
  let mass := [4; 1] in let sig := [1 # 2; 1] in let z := [[2; -3]; [0; 1]; [1; 1]] in
  use_zm Turtle None = false /\ ~ 3 * kb_engine Turtle (1 # 3) == 0 /\
  Forall2 (fun s m => s * s * m * beta_of (kb_engine Turtle (1 # 3)) 3 == 1) sig mass /\
  Forall (fun zc => length zc = length sig) z /\
  r_kin_new (modify_std Turtle mass (mkFrame [] [] [] []) None None sig z) == (1 # 2) * 1 * 16.
Proof.
  cbv zeta. split; [reflexivity|]. split.
  { intros H. apply Qeq_bool_iff in H. vm_compute in H. discriminate. }
  split. { repeat constructor. }
  split. { repeat constructor. }
  apply Qeq_bool_iff. vm_compute. reflexivity.
Qed.

(* ---------------------------------------------------------------- unit constants *)
(* each engine's kb is the SI Boltzmann constant in the engine's energy unit, and
   energy unit = mass unit * velocity unit^2 for the numbers written to the file *)
Theorem C16_units_gromacs :
  within tol6 (kb_gromacs * gmx_energy) si_k /\ gmx_mass * (gmx_vel * gmx_vel) == gmx_energy.
Proof. exact (conj units_gromacs_kb units_gromacs_mv2). Qed.
Print Assumptions C16_units_gromacs.

Theorem C16_units_lammps :
  within tol6 (kb_lammps * lmp_energy) si_k /\
  within tol6 (lmp_mass * ((lmp_vel / scale_lammps) * (lmp_vel / scale_lammps))) lmp_energy.
Proof. exact (conj units_lammps_kb units_lammps_mv2). Qed.
Print Assumptions C16_units_lammps.

(* CP2K: Hartree atomic units (E_h = m_e * (a0/t_au)^2 by definition); the constants in the
   source are kb in E_h/K -- the literal is 1.2e-6 away from the 2019 SI value, so the bound
   shown is tol_cp2k = 2e-6 -- and the electron masses per g/mol *)
Theorem C16_units_cp2k :
  within tol_cp2k (kb_cp2k * si_Eh) si_k /\ within tol6 (massfac_cp2k * si_me) si_mu.
Proof. exact (conj units_cp2k_kb units_cp2k_mass). Qed.
Print Assumptions C16_units_cp2k.

(* ASE: eV, amu, and ASE's derived time unit (eV = amu * (A/t)^2 by definition); both the
   engine's kb (used for beta) and the library's kB (used for the draw) are k/e *)
Theorem C16_units_ase :
  within tol6 (kb_ase * si_e) si_k /\ within tol6 (ase_lib_kB * si_e) si_k /\
  within tol6 kb_ase ase_lib_kB.
Proof. exact (conj units_ase_kb (conj units_ase_lib_kb units_ase_kb_agree)). Qed.
Print Assumptions C16_units_ase.

(* ---------------------------------------------------------------- the temperature, in SI units *)
(* A kinetic term A = kb T z^2 in an energy unit of Eunit joule, with kb * Eunit = k_B(SI)
   within tol, is k_B T z^2 joule within tol *)
Theorem C16_si_temperature : forall kb Eunit tol A T z,
  A == kb * T * (z * z) -> within tol (kb * Eunit) si_k -> 0 <= T ->
  within tol (A * Eunit) (si_k * T * (z * z)).
Proof. exact si_temperature. Qed.
Print Assumptions C16_si_temperature.

(* per engine, with the constants found in the sources: mass in kg times (velocity in m/s)^2
   of a written component is k_B(SI) * T * z^2 joule.  The hypothesis of each is the conclusion
   of C16_modify_variance / C16_modify_variance_ase for that engine. *)
Theorem C16_temperature_si_gromacs : forall m v T z,
  m * (v * v) == kb_gromacs * T * (z * z) -> 0 <= T ->
  within tol6 ((m * gmx_mass) * ((v * gmx_vel) * (v * gmx_vel))) (si_k * T * (z * z)).
Proof. exact temperature_si_gromacs. Qed.
Print Assumptions C16_temperature_si_gromacs.

Theorem C16_temperature_si_lammps : forall m v T z,
  m * (v * v) * (scale_lammps * scale_lammps) == kb_lammps * T * (z * z) -> 0 <= T ->
  within tol6 ((m * lmp_mass) * ((v * lmp_vel) * (v * lmp_vel))) (si_k * T * (z * z)).
Proof. exact temperature_si_lammps. Qed.
Print Assumptions C16_temperature_si_lammps.

Theorem C16_temperature_si_cp2k : forall m v T z,
  m * (v * v) == kb_cp2k * T * (z * z) -> 0 <= T ->
  within tol_cp2k ((m * cp2k_mass) * (v * v * cp2k_vel2)) (si_k * T * (z * z)).
Proof. exact temperature_si_cp2k. Qed.
Print Assumptions C16_temperature_si_cp2k.

Theorem C16_temperature_si_ase : forall m v T z,
  m * (v * v) == ase_lib_kB * T * (z * z) -> 0 <= T ->
  within tol6 ((m * ase_mass) * (v * v * ase_vel2)) (si_k * T * (z * z)).
Proof. exact temperature_si_ase. Qed.
Print Assumptions C16_temperature_si_ase.

Example C16_si_hypotheses_met :
  (1 # 2) * (2 * 2) == kb_gromacs * (2 / kb_gromacs) * (1 * 1) /\ 0 <= 2 / kb_gromacs.
Proof.
  split; [apply Qeq_bool_iff; vm_compute; reflexivity|apply Qle_bool_iff; vm_compute; reflexivity].
Qed.

(* ---------------------------------------------------------------- zero total momentum *)
Theorem C16_momentum_zero : forall m c,
  length c = length m -> ~ sumQ m == 0 -> mom_col m (reset_col m c) == 0.
Proof. exact momentum_zero_col. Qed.
Print Assumptions C16_momentum_zero.

Theorem C16_momentum_shift_uniform : forall m c,
  reset_col m c = map (fun v => v - mom_col m c / sumQ m) c.
Proof. exact reset_shift_uniform. Qed.
Print Assumptions C16_momentum_shift_uniform.

(* the whole operation, CP2K / GROMACS / LAMMPS / TurtleMD: every component of the written
   velocities has zero total momentum when zero_momentum is in force *)
Theorem C16_modify_momentum_zero : forall e mass src ek zm sig z,
  use_zm e zm = true -> ~ sumQ mass == 0 ->
  length sig = length mass -> Forall (fun zc => length zc = length mass) z ->
  Forall (fun c => mom_col mass c == 0) (f_vel (r_frame (modify_std e mass src ek zm sig z))).
Proof. exact modify_std_momentum_zero. Qed.
Print Assumptions C16_modify_momentum_zero.

(* ASE (either statement order) *)
Theorem C16_modify_momentum_zero_ase : forall fx mass src zm sigp z,
  use_zm Ase zm = true -> ~ sumQ mass == 0 -> Forall (fun x => ~ x == 0) mass ->
  length sigp = length mass -> Forall (fun zc => length zc = length mass) z ->
  Forall (fun c => mom_col mass c == 0) (f_vel (r_frame (modify_ase fx mass src zm sigp z))).
Proof. exact modify_ase_momentum_zero. Qed.
Print Assumptions C16_modify_momentum_zero_ase.

Theorem C16_stationary_shift_uniform : forall v0 p m,
  length p = length m -> Forall (fun x => ~ x == 0) m ->
  Forall2 Qeq (map2 Qdiv (map2 (fun pi mi => pi - v0 * mi) p m) m)
              (map (fun v => v - v0) (map2 Qdiv p m)).
Proof. exact stationary_shift_uniform. Qed.
Print Assumptions C16_stationary_shift_uniform.

(* removing the centre-of-mass motion costs exactly P^2 / 2M of kinetic energy *)
Theorem C16_reset_kinetic : forall m c,
  length c = length m -> ~ sumQ m == 0 ->
  kin_col m (reset_col m c) == kin_col m c - kin_half * (mom_col m c * mom_col m c / sumQ m).
Proof. exact kin_reset. Qed.
Print Assumptions C16_reset_kinetic.

Example C16_momentum_hypotheses_met :
  let m := [1; 3] in let c := [2; -1] in
  length c = length m /\ ~ sumQ m == 0 /\ ~ mom_col m c == 0 /\ mom_col m (reset_col m c) == 0.
Proof.
  cbv zeta. split; [reflexivity|]. split; [|split].
  - intros H. apply Qeq_bool_iff in H. vm_compute in H. discriminate.
  - intros H. apply Qeq_bool_iff in H. vm_compute in H. discriminate.
  - apply Qeq_bool_iff. vm_compute. reflexivity.
Qed.

(* ---------------------------------------------------------------- dek and kin_new *)
(* kin_new is the kinetic energy of the velocities written; dek = kin_new - kin_old with
   kin_old the kinetic energy of the dumped frame (GROMACS: the stored system.ekin);
   dek is infinite only when kin_old is missing or zero *)
Theorem C16_dek_consistent : forall e mass src ek zm sig z,
  let r := modify_std e mass src ek zm sig z in
  r_kin_new r = kinetic mass (f_vel (r_frame r)) /\
  r_kin_old r = (match e with Gromacs => ek | _ => Some (kinetic mass (f_vel src)) end) /\
  (forall d, r_dek r = Some d -> exists k, r_kin_old r = Some k /\ d = r_kin_new r - k) /\
  (r_dek r = None ->
   r_kin_old r = None \/ (e <> Gromacs /\ exists k, r_kin_old r = Some k /\ k == 0)).
Proof. exact dek_consistent_std. Qed.
Print Assumptions C16_dek_consistent.

(* ASE with kin_new read after Stationary (the repaired order) *)
Theorem C16_dek_consistent_ase : forall mass src zm sigp z,
  Forall (fun x => ~ x == 0) mass ->
  length sigp = length mass -> Forall (fun zc => length zc = length mass) z ->
  let r := modify_ase true mass src zm sigp z in
  r_kin_new r == kinetic mass (f_vel (r_frame r)) /\
  (forall d, r_dek r = Some d -> exists k, r_kin_old r = Some k /\ d = r_kin_new r - k) /\
  (r_dek r = None -> exists k, r_kin_old r = Some k /\ k == 0).
Proof. exact dek_consistent_ase. Qed.
Print Assumptions C16_dek_consistent_ase.

(* lead L6: with kin_new read before Stationary the reported value is not the kinetic
   energy of what is written (witness: two unit masses, both drawn +1 along x) *)
Theorem C16_ase_kin_before_stationary_refuted :
  exists mass src zm sigp z,
    let r := modify_ase false mass src zm sigp z in
    ~ r_kin_new r == kinetic mass (f_vel (r_frame r)).
Proof.
  exists l6_mass, l6_src, (Some true), [1; 1], l6_z. exact ase_L6_refuted.
Qed.
Print Assumptions C16_ase_kin_before_stationary_refuted.

(* ---------------------------------------------------------------- only velocities change *)
Theorem C16_positions_untouched : forall e mass src ek zm sig z,
  let f := r_frame (modify_std e mass src ek zm sig z) in
  f_pos f = f_pos src /\ f_box f = f_box src /\ f_ids f = f_ids src.
Proof. exact positions_untouched_std. Qed.
Print Assumptions C16_positions_untouched.

Theorem C16_positions_untouched_ase : forall fx mass src zm sigp z,
  let f := r_frame (modify_ase fx mass src zm sigp z) in
  f_pos f = f_pos src /\ f_box f = f_box src /\ f_ids f = f_ids src.
Proof. exact positions_untouched_ase. Qed.
Print Assumptions C16_positions_untouched_ase.

(* files: only conf.<ext> and genvel.<ext> of the exe_dir are written; the System handed in
   is re-pointed to genvel with ekin = kin_new *)
Theorem C16_files_untouched : forall run w s w' s' r,
  modify_world run w s = Some (w', s', r) ->
  (forall f, f <> FConf -> f <> FGenvel -> w' f = w f) /\
  (exists fr, w (s_file s) = Some fr /\ r = run fr (s_ekin s) /\
              (FConf <> FGenvel -> w' FConf = Some fr)) /\
  w' FGenvel = Some (r_frame r) /\
  s' = mkSys FGenvel (Some (r_kin_new r)).
Proof. exact modify_world_spec. Qed.
Print Assumptions C16_files_untouched.

(* prepare_shooting_point works on a copy: the path and every source file are as before *)
Theorem C16_source_frame_untouched : forall run w path idx w' path' cp dek,
  prepare run w path idx = Some (w', path', cp, dek) ->
  path' = path /\
  (forall n, w' (FSrc n) = w (FSrc n)) /\
  (exists sp fr, nth_error path idx = Some sp /\ w (s_file sp) = Some fr /\
     let r := run fr (s_ekin sp) in
     dek = r_dek r /\ cp = mkSys FGenvel (Some (r_kin_new r)) /\ w' FGenvel = Some (r_frame r)).
Proof. exact prepare_spec. Qed.
Print Assumptions C16_source_frame_untouched.

(* ---------------------------------------------------------------- several calls in one exe_dir *)
(* Velocities are regenerated several times between two clean-ups of a worker directory (once per
   jump of a wire-fencing move); conf.<ext> / genvel.<ext> of the earlier calls are still there.
   Files are trajectories, shooting points are (file, index).  The rule: extraction overwrites. *)
Theorem C16_extract_overwrites : forall w fr, twrite (negb true) w FConf fr FConf = [fr].
Proof. exact extract_overwrites. Qed.
Print Assumptions C16_extract_overwrites.

(* With that rule every call of a sequence yields exactly what it yields alone (call_alone: its own
   operation -- engine, masses, setting, ITS draws -- on ITS shooting point as found in the
   source files): nothing leaks from earlier calls; the source files are as before. *)
Theorem C16_sequence_independent : forall calls w w' rs,
  Forall from_source calls ->
  modify_seq true w calls = Some (w', rs) ->
  Forall2 (fun c r => call_alone w c = Some r) calls rs /\
  (forall n, w' (FSrc n) = w (FSrc n)).
Proof. exact modify_seq_independent. Qed.
Print Assumptions C16_sequence_independent.

Theorem C16_sequence_history_irrelevant : forall before1 before2 c w w1 rs1 w2 rs2,
  Forall from_source (before1 ++ [c]) -> Forall from_source (before2 ++ [c]) ->
  modify_seq true w (before1 ++ [c]) = Some (w1, rs1) ->
  modify_seq true w (before2 ++ [c]) = Some (w2, rs2) ->
  exists r, call_alone w c = Some r /\ last rs1 r = r /\ last rs2 r = r /\
            rs1 = removelast rs1 ++ [r] /\ rs2 = removelast rs2 ++ [r].
Proof. exact modify_seq_history_irrelevant. Qed.
Print Assumptions C16_sequence_history_irrelevant.

(* hence, call by call: positions, box and identities of the regenerated frame are those of THAT
   call's shooting point, kin_old is the kinetic energy of THAT frame's velocities, and the result
   is modify_std of that frame (so every theorem about modify_std applies to each call) *)
Theorem C16_sequence_positions : forall e mass zm sig cs files rs,
  seq_results true files (map (std_call e mass zm sig) cs) = Some rs ->
  Forall2 (fun c r => let '(fno, idx, ek, s) := c in
             exists fr, nth_error (world_of_files files (FSrc fno)) idx = Some fr /\
               r = modify_std e mass fr ek zm sig (cols_of_stream (f_npart fr) (f_dim fr) s) /\
               f_pos (r_frame r) = f_pos fr /\ f_box (r_frame r) = f_box fr /\ f_ids (r_frame r) = f_ids fr /\
               (e <> Gromacs -> r_kin_old r = Some (kinetic mass (f_vel fr))))
          cs rs.
Proof. exact modify_seq_std_positions. Qed.
Print Assumptions C16_sequence_positions.

(* an extraction that appends (write_xyz_trajectory without append=False) breaks it: the second
   call of a sequence reads the first call's snapshot -- its regenerated frame carries the
   positions of the previous shooting point and kin_old is that frame's (refutation witness:
   one atom, frames 1 and 2 of a three-frame file, CP2K statement sequence) *)
Definition seq_frame (x v : Q) : frame := mkFrame [[x]; [0]; [0]] [[v]; [0]; [0]] [30; 30; 30] [1%Z].
Definition seq_files : list (list frame) := [[seq_frame 1 1; seq_frame 2 3; seq_frame 5 7]].
Definition seq_call (idx : nat) : vcall := std_call Cp2k [2] (Some false) [1] (0%Z, idx, None, [1; 0; 0]).

Theorem C16_sequence_append_refuted : exists files c1 c2 r1 r2 r2',
  from_source c1 /\ from_source c2 /\
  seq_results false files [c1; c2] = Some [r1; r2] /\
  call_alone (world_of_files files) c1 = Some r1 /\
  call_alone (world_of_files files) c2 = Some r2' /\
  f_pos (r_frame r2) = f_pos (r_frame r1) /\
  f_pos (r_frame r2) <> f_pos (r_frame r2') /\
  r_kin_old r2 <> r_kin_old r2' /\ r_dek r2 <> r_dek r2'.
Proof.
  exists seq_files, (seq_call 1), (seq_call 2).
  eexists. eexists. eexists.
  split; [exists 0%Z; reflexivity|]. split; [exists 0%Z; reflexivity|].
  split; [vm_compute; reflexivity|]. split; [vm_compute; reflexivity|]. split; [vm_compute; reflexivity|].
  split; [vm_compute; reflexivity|].
  split; [|split]; vm_compute; intros H; discriminate H.
Qed.
Print Assumptions C16_sequence_append_refuted.

Example C16_sequence_hypotheses_met :
  Forall from_source [seq_call 1; seq_call 2] /\
  seq_results true seq_files [seq_call 1; seq_call 2] =
    Some [mkRes (seq_frame 2 1) 1 (Some (1 - 9)) (Some 9); mkRes (seq_frame 5 1) 1 (Some (1 - 49)) (Some 49)].
Proof.
  split; [repeat constructor; exists 0%Z; reflexivity|].
  vm_compute. reflexivity.
Qed.

(* ---------------------------------------------------------------- reproducible from the stream *)
(* the result depends on the random stream only through its first npart*dim values, taken in
   row-major order, and exactly that many values are consumed *)
Theorem C16_reproducible : forall e mass src ek zm sig s1 s2,
  firstn (f_npart src * f_dim src) s1 = firstn (f_npart src * f_dim src) s2 ->
  fst (modify_std_stream e mass src ek zm sig s1) = fst (modify_std_stream e mass src ek zm sig s2).
Proof. exact reproducible_std. Qed.
Print Assumptions C16_reproducible.

Theorem C16_reproducible_ase : forall fx mass src zm sigp s1 s2,
  firstn (length mass * 3) s1 = firstn (length mass * 3) s2 ->
  fst (modify_ase_stream fx mass src zm sigp s1) = fst (modify_ase_stream fx mass src zm sigp s2).
Proof. exact reproducible_ase. Qed.
Print Assumptions C16_reproducible_ase.

Theorem C16_stream_consumed : forall npart dim s,
  s = firstn (npart * dim) s ++ stream_rest npart dim s /\
  length (stream_rest npart dim s) = (length s - npart * dim)%nat.
Proof. exact stream_consumed. Qed.
Print Assumptions C16_stream_consumed.

Theorem C16_stream_shape : forall npart dim s,
  length (cols_of_stream npart dim s) = dim /\
  Forall (fun c => length c = npart) (cols_of_stream npart dim s).
Proof. exact cols_of_stream_shape. Qed.
Print Assumptions C16_stream_shape.

Example C16_stream_order :
  cols_of_stream 2 3 [1; 2; 3; 4; 5; 6; 7] = [[1; 4]; [2; 5]; [3; 6]] /\
  stream_rest 2 3 [1; 2; 3; 4; 5; 6; 7] = [7].
Proof. split; reflexivity. Qed.

(* ---------------------------------------------------------------- source frames without velocities / box entry *)
(* The velocity entries of a configuration file are optional (no VELOCITY block in a .g96 file, no
   velocity columns in an xyz snapshot: the readers return zeros), and so is the "Box:" entry of
   an xyz comment line.  For EVERY such source file (cfile: velocities and box are options) the
   file-level operation with the GROMACS special case in place writes exactly what modify_std
   produces from the frame as read -- so every theorem above about modify_std (variance kT/m,
   equipartition, zero momentum, dek/kin_new, positions/box/identities, reproducibility) holds for
   the written genvel file of a source without velocities as well. *)
Theorem C16_file_written_is_modify_std : forall e dflt_box mass c ek zm sig z,
  length sig = c_npart c -> Forall (fun zc => length zc = c_npart c) z ->
  (forall v, c_vel c = Some v -> col_len v = c_npart c) ->
  modify_file e true dflt_box mass c ek zm sig z
  = modify_std e mass (read_cfile dflt_box c) ek zm sig z.
Proof. exact modify_file_complete. Qed.
Print Assumptions C16_file_written_is_modify_std.

(* one velocity line per atom is written, the reported kin_new is the kinetic energy of the
   written velocities, positions and identities are those of the source file, the box is the
   file's (or the engine's default where the file has none) *)
Theorem C16_file_kin_new_is_written : forall e dflt_box mass c ek zm sig z,
  length sig = c_npart c -> Forall (fun zc => length zc = c_npart c) z ->
  (forall v, c_vel c = Some v -> col_len v = c_npart c) ->
  let r := modify_file e true dflt_box mass c ek zm sig z in
  r_kin_new r = kinetic mass (f_vel (r_frame r)) /\
  Forall (fun vc => length vc = c_npart c) (f_vel (r_frame r)) /\
  f_pos (r_frame r) = c_pos c /\ f_ids (r_frame r) = c_ids c /\
  f_box (r_frame r) = (match c_box c with Some b => b | None => dflt_box end).
Proof. exact modify_file_kin_written. Qed.
Print Assumptions C16_file_kin_new_is_written.

(* a source without velocities has kin_old = 0 (kinetic energy of the zeros read) and the change
   is reported as infinite, for CP2K / TurtleMD / LAMMPS; GROMACS takes kin_old from the stored
   system.ekin (C16_dek_consistent) *)
Theorem C16_file_no_velocities_kin_old : forall e special dflt_box mass c ek zm sig z,
  c_vel c = None -> e <> Gromacs ->
  let r := modify_file e special dflt_box mass c ek zm sig z in
  (exists k, r_kin_old r = Some k /\ k == 0) /\ r_dek r = None.
Proof. exact modify_file_novel_kin_old. Qed.
Print Assumptions C16_file_no_velocities_kin_old.

(* the special case `if not txt["VELOCITY"]: txt["VELOCITY"] = txt["POSITION"]` of
   GromacsEngine.modify_velocities is necessary: if its test never fires, a frame without VELOCITY
   block gets an empty velocity block although a non-zero kinetic energy is reported *)
Theorem C16_gromacs_no_velocity_block_special_case_needed :
  exists mass c ek zm sig z,
    c_vel c = None /\
    let r := modify_file Gromacs false [] mass c ek zm sig z in
    f_vel (r_frame r) = [[]; []; []] /\ ~ r_kin_new r == kinetic mass (f_vel (r_frame r)).
Proof.
  exists nv_mass, nv_file, (Some 1), (Some false), nv_sig, nv_z.
  exact gromacs_novel_test_never_fires_refuted.
Qed.
Print Assumptions C16_gromacs_no_velocity_block_special_case_needed.

Example C16_file_hypotheses_met :
  c_vel nv_file = None /\ length nv_sig = c_npart nv_file /\
  Forall (fun zc => length zc = c_npart nv_file) nv_z /\
  (forall v, c_vel nv_file = Some v -> col_len v = c_npart nv_file) /\
  let r := modify_file Gromacs true [] nv_mass nv_file (Some 1) (Some false) nv_sig nv_z in
  Forall2 (Forall2 Qeq) (f_vel (r_frame r)) [[1; 1]; [0; 0]; [0; 0]] /\ r_kin_new r == 5 # 2 /\
  r_dek r = Some (r_kin_new r - 1).
Proof.
  split; [reflexivity|]. split; [reflexivity|]. split; [repeat constructor|].
  split; [discriminate|]. exact gromacs_novel_witness_special.
Qed.

(* ---------------------------------------------------------------- call sites: the moves of tis.py *)
(* "wherever the package regenerates velocities": shoot hands the ensemble's tis_set to
   modify_velocities; wire_fencing hands its sub-moves the same dictionary with allowmaxlength
   switched on.  For every move, every regeneration it makes and every key other than
   allowmaxlength the engine is handed the ensemble's value (nothing is dropped) *)
Theorem C16_call_site_settings : forall ka km vt mv s hs h k,
  handed ka km vt mv s = Some hs -> In h hs -> k <> ka -> sget k h = sget k s.
Proof. exact call_site_settings. Qed.
Print Assumptions C16_call_site_settings.

Theorem C16_call_site_count : forall ka km vt mv s hs, handed ka km vt mv s = Some hs ->
  length hs = match mv with MShoot => 1%nat | MWireFencing true n => n | MWireFencing false _ => 0%nat end.
Proof. exact call_site_count. Qed.
Print Assumptions C16_call_site_count.

(* zero_momentum = true in the ensemble's settings => zero total momentum of the velocities
   written by every regeneration of every move (CP2K / GROMACS / LAMMPS / TurtleMD) *)
Theorem C16_call_site_momentum_zero : forall ka km vt kz mv s hs h e mass src ek sig z,
  handed ka km vt mv s = Some hs -> In h hs -> kz <> ka -> sget kz s = Some vt ->
  ~ sumQ mass == 0 -> length sig = length mass -> Forall (fun zc => length zc = length mass) z ->
  Forall (fun c => mom_col mass c == 0)
         (f_vel (r_frame (modify_std e mass src ek (zm_of vt (sget kz h)) sig z))).
Proof. exact call_site_momentum_zero. Qed.
Print Assumptions C16_call_site_momentum_zero.

(* a wire-fencing move that builds a fresh dictionary for its sub-moves loses the request *)
Theorem C16_call_site_rebuilt_settings_refuted : exists ka km vt kz s hs h,
  kz <> ka /\ sget kz s = Some vt /\
  handed_with (wf_sub_settings_rebuilt ka km vt) (MWireFencing true 1) s = Some hs /\ In h hs /\
  sget kz h = None /\ use_zm Turtle (zm_of vt (sget kz h)) = false.
Proof. exact call_site_rebuilt_refuted. Qed.
Print Assumptions C16_call_site_rebuilt_settings_refuted.

(* settings {maxlength: 7, allowmaxlength: False, zero_momentum: True, aimless: True}, keys
   interned 1, 0, 2, 3, True = 1: a wire-fencing move with three jumps *)
Example C16_call_site_hypotheses_met :
  handed 0 1 1 (MWireFencing true 3) [(1, 7); (0, 0); (2, 1); (3, 1)]%Z
  = Some (repeat [(1, 7); (0, 1); (2, 1); (3, 1)]%Z 3).
Proof. reflexivity. Qed.
