(* Property C10 — wire-fencing weights are exact, symmetric and drive segment choice.
   This file only restates the results proved in proofs/WeightP.v about the literal model
   model/WeightM.v, against the independent specification spec/WeightS.v; each statement is
   followed by Print Assumptions.  All theorems are unbounded: they hold for every order
   sequence, every (left, right) pair (also left = right and left > right), every move
   assignment and every random number. *)
From Coq Require Import ZArith QArith List Bool Lia Permutation.
Import ListNotations.
From Inf Require Import model.PathM model.WeightM spec.WeightS proofs.WeightP.
Open Scope nat_scope.

(* ---- the scan returns exactly the valid sub-paths *)

(* same list, same order, as the structurally recursive specification *)
Theorem C10_scan_eq_spec : forall left right ords,
  wf_segments left right ords = wf_spec left right ords.
Proof. exact wf_scan_eq_spec. Qed.
Print Assumptions C10_scan_eq_spec.

(* the specification function computes the declarative notion *)
Theorem C10_spec_is_declarative : forall rs s e n,
  In (s, e, n) (spec_segments rs) <-> validR rs s e n.
Proof. exact spec_segments_valid. Qed.
Print Assumptions C10_spec_is_declarative.

(* (s, e, n) is reported iff frames s and e lie outside [left, right), the n >= 1 frames
   strictly between them lie inside, and the sub-path is not right -> right; values equal
   to an interface and jumps over the region are covered by the comparisons of valid_seg *)
Theorem C10_segments_are_the_valid_subpaths : forall left right ords s e n,
  In (s, e, n) (wf_segments left right ords) <-> valid_seg left right ords s e n.
Proof. exact wf_segments_valid. Qed.
Print Assumptions C10_segments_are_the_valid_subpaths.

Theorem C10_segments_distinct_and_ordered : forall left right ords,
  NoDup (wf_segments left right ords) /\
  forall k1 k2 a b, k1 < k2 -> nth_error (wf_segments left right ords) k1 = Some a ->
    nth_error (wf_segments left right ords) k2 = Some b -> fst (fst a) < fst (fst b).
Proof.
  intros left right ords. split; [exact (wf_segments_NoDup left right ords)|exact (wf_segments_sorted left right ords)].
Qed.
Print Assumptions C10_segments_distinct_and_ordered.

(* ---- the weight *)

(* weight = number of frames lying strictly inside some valid sub-path *)
Theorem C10_weight_counts_frames : forall left right ords,
  exists js, NoDup js /\ (forall j, In j js <-> on_valid left right ords j) /\
             wf_nframes left right ords = length js.
Proof. exact wf_weight_count. Qed.
Print Assumptions C10_weight_counts_frames.

Theorem C10_weight_eq_spec : forall left right ords,
  wf_nframes left right ords = wf_spec_weight left right ords.
Proof. exact wf_weight_eq_spec. Qed.
Print Assumptions C10_weight_eq_spec.

Theorem C10_weight_positive_iff : forall left right ords,
  0 < wf_nframes left right ords <-> exists j, on_valid left right ords j.
Proof. exact wf_weight_pos_iff. Qed.
Print Assumptions C10_weight_positive_iff.

(* an empty or ill-formed region (right <= left) has no valid sub-path and weight 0 *)
Theorem C10_weight_empty_region : forall left right ords,
  (right <= left)%Z -> wf_segments left right ords = [] /\ wf_nframes left right ords = 0.
Proof. exact wf_weight_empty_region. Qed.
Print Assumptions C10_weight_empty_region.

(* ---- time reversal *)

Theorem C10_weight_time_reversal : forall left right ords,
  wf_nframes left right (rev ords) = wf_nframes left right ords.
Proof. exact wf_weight_reverse. Qed.
Print Assumptions C10_weight_time_reversal.

Theorem C10_segments_time_reversal : forall left right ords,
  Permutation (wf_segments left right (rev ords))
              (map (mirror (length ords)) (wf_segments left right ords)).
Proof. exact wf_segments_rev_perm. Qed.
Print Assumptions C10_segments_time_reversal.

(* ---- compute_weight: factor 2 exactly when the two ends are on different outer sides
   (an end strictly between the outer interfaces counts as different) and the move is
   wf or ss *)
Theorem C10_compute_weight_double : forall ords i0 i1 i2 mv first lastv,
  (i0 <= i2)%Z -> hd_error ords = Some first -> hd_error (rev ords) = Some lastv ->
  (same_side i0 i2 first lastv ->
     compute_weight ords i0 i1 i2 mv = Some (base_weight ords i1 i2 mv)) /\
  (~ same_side i0 i2 first lastv ->
     compute_weight ords i0 i1 i2 mv =
     Some (match mv with Msh => base_weight ords i1 i2 mv | _ => 2 * base_weight ords i1 i2 mv end)%Z).
Proof. exact compute_weight_double. Qed.
Print Assumptions C10_compute_weight_double.

Theorem C10_compute_weight_undefined : forall ords i0 i1 i2 mv,
  compute_weight ords i0 i1 i2 mv = None <-> ((i2 < i0)%Z \/ ords = []).
Proof. exact compute_weight_undefined. Qed.
Print Assumptions C10_compute_weight_undefined.

(* ---- calc_cv_vector *)

Theorem C10_cv_vector_shape : forall ords i0 irest mvs lm1 cap v,
  let intfs := i0 :: irest in
  let capv := match cap with Some c => c | None => last intfs i0 end in
  calc_cv_vector ords intfs mvs lm1 cap false = Some v ->
  length v = length intfs /\
  nth_error v (length intfs - 1) = Some 0%Z /\
  (forall k lk, S k < length intfs -> nth_error intfs k = Some lk ->
     exists mv b, nth_error mvs (S k) = Some mv /\ nth_error v k = Some b /\
                  cv_entry ords i0 capv lk mv b).
Proof. exact cv_vector_shape. Qed.
Print Assumptions C10_cv_vector_shape.

Theorem C10_cv_vector_defined : forall ords i0 irest mvs lm1 cap,
  let intfs := i0 :: irest in
  let capv := match cap with Some c => c | None => last intfs i0 end in
  ords <> [] -> (i0 <= capv)%Z -> length intfs <= length mvs ->
  exists v, calc_cv_vector ords intfs mvs lm1 cap false = Some v.
Proof. exact cv_vector_defined. Qed.
Print Assumptions C10_cv_vector_defined.

(* [0-] path: (1,) iff some frame reaches lambda_minus_one (or interfaces[0] when that is
   not set), else (0,) *)
Theorem C10_cv_vector_minus : forall ords intfs mvs lm1 cap l,
  ords <> [] -> (lm1 = Some l \/ (lm1 = None /\ hd_error intfs = Some l)) ->
  exists b, calc_cv_vector ords intfs mvs lm1 cap true = Some [b] /\ crossing_entry ords l b.
Proof. exact cv_vector_minus. Qed.
Print Assumptions C10_cv_vector_minus.

(* a valid [0-] path — with lambda_minus_one absent (R -> R below lambda_0) or ANY number
   (0 included; ends L->L, L->R, R->L or R->R, interior inside [lambda_-1, lambda_0]) — has the
   weight vector (1,), whether or not it reaches lambda_0 *)
Theorem C10_cv_vector_valid_minus_path : forall ords lam0 irest mvs lm1 cap,
  minus_path lm1 lam0 ords ->
  calc_cv_vector ords (lam0 :: irest) mvs lm1 cap true = Some [1%Z].
Proof. exact cv_vector_minus_valid. Qed.
Print Assumptions C10_cv_vector_valid_minus_path.

(* ---- segment choice *)

Theorem C10_pick_interval : forall left right ords u sg,
  let segs := wf_segments left right ords in
  let n := wf_nframes left right ords in
  wf_pick left right ords u = Some sg <->
  (0 < n /\ exists k, nth_error segs k = Some sg /\
     (k = 0 \/ (cumQ n (cum_counts segs k) < u)%Q) /\
     (u <= cumQ n (cum_counts segs (S k)))%Q).
Proof. exact wf_pick_interval. Qed.
Print Assumptions C10_pick_interval.

(* interval k has length len_k / n; the intervals start at 0 and end at n / n = 1 *)
Theorem C10_pick_interval_widths : forall left right ords k sg,
  let segs := wf_segments left right ords in
  nth_error segs k = Some sg ->
  cum_counts segs (S k) = cum_counts segs k + seg_count sg /\
  cum_counts segs 0 = 0 /\
  cum_counts segs (length segs) = wf_nframes left right ords.
Proof. exact wf_pick_widths. Qed.
Print Assumptions C10_pick_interval_widths.

Theorem C10_pick_total : forall left right ords u,
  0 < wf_nframes left right ords -> (u <= 1)%Q -> exists sg, wf_pick left right ords u = Some sg.
Proof. exact wf_pick_total. Qed.
Print Assumptions C10_pick_total.

Theorem C10_pick_is_valid_subpath : forall left right ords u s e n,
  wf_pick left right ords u = Some (s, e, n) -> valid_seg left right ords s e n.
Proof. exact wf_pick_valid. Qed.
Print Assumptions C10_pick_is_valid_subpath.

Theorem C10_seed_frames : forall (l : list Z) s e n,
  e = s + n + 1 -> e < length l ->
  length (seg_frames (s, e, n) l) = n + 2 /\
  forall t, t <= n + 1 -> nth_error (seg_frames (s, e, n) l) t = nth_error l (s + t).
Proof. exact (@seg_frames_spec Z). Qed.
Print Assumptions C10_seed_frames.

(* the returned segment: exactly one valid sub-path with its two end points, frame t of
   the segment being frame s + t of the path, for every path that respects its own limit
   (len(path) <= path.maxlen, or path.maxlen None); the model reads no other length limit
   (tis_set.maxlength is not an argument) and the weight does not depend on any *)
Theorem C10_pick_seed_exact : forall (A : Type) left right ords (frames : list A) pmaxlen u sg seed,
  length frames = length ords ->
  (pmaxlen = None \/ exists m, pmaxlen = Some m /\ length ords <= m) ->
  wf_pick_seed left right ords frames pmaxlen u = Some (sg, seed) ->
  let '(s, e, n) := sg in
  valid_seg left right ords s e n /\ wf_pick left right ords u = Some (s, e, n) /\
  length seed = n + 2 /\
  forall t, t <= n + 1 -> nth_error seed t = nth_error frames (s + t).
Proof. exact (@wf_pick_seed_exact). Qed.
Print Assumptions C10_pick_seed_exact.

(* a container limit of at least n + 2 (or none) keeps the whole sub-path ... *)
Theorem C10_seed_whole : forall (A : Type) pmaxlen (l : list A) s e n,
  e = s + n + 1 -> e < length l ->
  (pmaxlen = None \/ exists m, pmaxlen = Some m /\ n + 2 <= m) ->
  wf_seed pmaxlen (s, e, n) l = seg_frames (s, e, n) l.
Proof. exact (@wf_seed_whole). Qed.
Print Assumptions C10_seed_whole.

(* ... any smaller one (e.g. the ensemble's current maxlength in place of path.maxlen) returns
   the first m frames only: not the exit frame, not a valid sub-path *)
Theorem C10_seed_smaller_limit_refuted : forall (A : Type) m (l : list A) s e n,
  e = s + n + 1 -> e < length l -> m < n + 2 ->
  length (wf_seed (Some m) (s, e, n) l) = m /\
  (forall t, t < m -> nth_error (wf_seed (Some m) (s, e, n) l) t = nth_error l (s + t)) /\
  wf_seed (Some m) (s, e, n) l <> seg_frames (s, e, n) l.
Proof. exact (@wf_seed_truncated). Qed.
Print Assumptions C10_seed_smaller_limit_refuted.

(* ---- high-acceptance swap *)

Theorem C10_high_acc_ratio : forall c1o c2o c1n c2n : Z,
  (c1o <> 0%Z -> c2o <> 0%Z ->
   (high_acc_ratio c1o c2o c1n c2n == inject_Z (c1n * c2n) / inject_Z (c1o * c2o))%Q) /\
  (c1o = 0%Z \/ c2o = 0%Z -> high_acc_ratio c1o c2o c1n c2n = 1%Q).
Proof. exact high_acc_ratio_def. Qed.
Print Assumptions C10_high_acc_ratio.

Theorem C10_high_acc_accept : forall rand c1o c2o c1n c2n,
  high_acc_accept rand c1o c2o c1n c2n = true <-> (rand < high_acc_ratio c1o c2o c1n c2n)%Q.
Proof. exact high_acc_accept_iff. Qed.
Print Assumptions C10_high_acc_accept.

(* ---- non-vacuity: a path A B B C B A C B B C C B A (left = 10, right = 20) with values
   on the interfaces, a left->right, a right->left and a right->right sub-path *)
Example C10_example :
  let ords := [5; 10; 15; 20; 12; 9; 25; 19; 10; 20; 30; 11; 3]%Z in
  wf_segments 10 20 ords = [(0, 3, 2); (3, 5, 1); (11 - 1, 12, 1)] /\
  wf_nframes 10 20 ords = 4 /\
  valid_seg 10 20 ords 0 3 2 /\
  wf_nframes 10 20 (rev ords) = 4 /\
  compute_weight ords 0 10 20 Mwf = Some 8%Z /\
  wf_pick 10 20 ords (1 # 2) = Some (0, 3, 2) /\
  wf_pick 10 20 ords (3 # 4) = Some (3, 5, 1) /\
  calc_cv_vector ords [0; 10; 20]%Z [Msh; Msh; Mwf; Msh] None (Some 20%Z) false = Some [1; 8; 0]%Z /\
  calc_cv_vector ords [0; 10; 20]%Z [Msh; Msh; Mwf; Msh] None None true = Some [1]%Z.
Proof.
  cbv zeta. split; [vm_compute; reflexivity|]. split; [vm_compute; reflexivity|].
  split; [apply wf_segments_valid; vm_compute; left; reflexivity|].
  repeat split; vm_compute; reflexivity.
Qed.

(* ---- non-vacuity for the [0-] clause: lambda_minus_one = 0 is a number, not "absent".  An
   L -> L path that never reaches lambda_0 = 5 is a valid [0-] path for lambda_minus_one = 0 and
   has the weight vector (1,); reading 0 as "absent" would give (0,) *)
Example C10_example_lambda_minus_one_zero :
  let ords := [-1; 2; 3; 2; -1]%Z in
  minus_path (Some 0%Z) 5 ords /\
  calc_cv_vector ords [5; 10; 20]%Z [] (Some 0%Z) None true = Some [1%Z] /\
  calc_cv_vector ords [5; 10; 20]%Z [] None None true = Some [0%Z].
Proof.
  cbv zeta. split.
  - exists (-1)%Z, [2; 3; 2]%Z, (-1)%Z. split; [reflexivity|]. split; [discriminate|].
    split; [left; lia|]. split; [left; lia|]. repeat constructor; lia.
  - split; vm_compute; reflexivity.
Qed.

(* ---- non-vacuity for the seed: path A B B B B A with path.maxlen 6: the seed is the whole
   path (6 frames) for every u; a container of 4 frames would drop the exit frame *)
Example C10_example_seed :
  let ords := [5; 12; 13; 14; 15; 6]%Z in
  wf_pick_seed 10 20 ords [0; 1; 2; 3; 4; 5] (Some 6) (1 # 2) = Some ((0, 5, 4), [0; 1; 2; 3; 4; 5]) /\
  wf_pick_seed 10 20 ords [0; 1; 2; 3; 4; 5] None (1 # 2) = Some ((0, 5, 4), [0; 1; 2; 3; 4; 5]) /\
  wf_seed (Some 4) (0, 5, 4) [0; 1; 2; 3; 4; 5] = [0; 1; 2; 3].
Proof. cbv zeta. repeat split; vm_compute; reflexivity. Qed.
