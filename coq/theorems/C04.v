(* Property C04 — fractional weights are conserved and accounted for exactly once.
   Statements only; proofs in proofs/FracP.v.  Model: the [fstate] layer of model/RepexM.v
   ([fracs] = traj_data[*]['frac'], [data] = rows appended to the data file).  The probability
   matrix a step uses is an input; [Pcols]/[Prows] state what is needed of it (column sums over
   idle rows are 1 on idle columns and 0 on busy ones, full-length rows) — established for the
   permanent ratios by property C02 and checked on every recorded step by the tie. *)
From Coq Require Import ZArith QArith List Bool Lia.
Import ListNotations.
From Inf Require Import model.RepexM proofs.RepexP proofs.FracP.
From Inf Require model.PermM.
From Inf Require proofs.PermUnsortP.
From Coq Require Import Permutation.
From Inf Require Import model.MatchM proofs.MatchP proofs.BridgeMatchP proofs.BridgeFracP proofs.BridgeInfRetisP proofs.BridgeRunP.
Open Scope nat_scope.

(* one completed step credits to column c exactly the entries of P in that column over idle
   slots, whatever the accept/reject outcome, and keeps the bookkeeping invariant *)
Theorem C04_step_credit : forall f k acc rows P f' c,
  InvF f -> FInv f -> step f (OpTreat k acc rows P) = Some f' -> Prows (core f') P ->
  (total c f' == total c f + credited (core f') P c 0 (removelast (trajs (core f'))))%Q /\ FInv f'.
Proof. exact treat_conservation. Qed.
Print Assumptions C04_step_credit.

(* ... hence exactly one unit for an idle column and nothing for a busy one *)
Theorem C04_step_unit : forall f k acc rows P f' c,
  InvF f -> FInv f -> step f (OpTreat k acc rows P) = Some f' ->
  Prows (core f') P -> Pcols (core f') P c ->
  (total c f' == total c f + if is_locked (core f') c then 0 else 1)%Q.
Proof. exact treat_conservation_unit. Qed.
Print Assumptions C04_step_unit.

(* over any run (any interleaving, any outcomes): data-file rows plus live records sum, per
   column, to the number of completed steps at which that column was idle *)
Theorem C04_conservation : forall c ops f f' k,
  InvF f -> FInv f -> Pgood c f ops -> idle_steps c f ops = Some (f', k) ->
  (total c f' == total c f + inject_Z (Z.of_nat k))%Q /\ FInv f' /\ InvF f'.
Proof. exact conservation. Qed.
Print Assumptions C04_conservation.

(* with nothing else in flight (one worker) every real ensemble column gets its unit *)
Theorem C04_single_worker : forall f k acc rows P f' c,
  InvF f -> FInv f -> step f (OpTreat k acc rows P) = Some f' ->
  Prows (core f') P -> Pcols (core f') P c -> locked (core f') = [] -> c < size (core f') - 1 ->
  (total c f' == total c f + 1)%Q.
Proof. exact single_worker_unit. Qed.
Print Assumptions C04_single_worker.

(* a path has at most one row in the data file, and once it has one it has no live record *)
Theorem C04_rows_once : forall f,
  FInv f -> NoDup (keys (data f)) /\ forall k, In k (keys (data f)) -> ~ In k (keys (fracs f)).
Proof. exact rows_once. Qed.
Print Assumptions C04_rows_once.

(* picks (with or without zero swap, re-issued after a restart) never touch the records *)
Theorem C04_picks_do_not_credit : forall f o f',
  (match o with OpTreat _ _ _ _ => False | _ => True end) -> FInv f -> step f o = Some f' ->
  FInv f' /\ forall c, total c f' = total c f.
Proof. exact step_pick_FInv. Qed.
Print Assumptions C04_picks_do_not_credit.

(* ------------------------------------------------------------------ without the hypothesis on P
   (proofs/BridgeFracP.v, proofs/BridgeInfRetisP.v).  [ExactP s P]: P has full-length rows, is zero on
   busy rows/columns and equals the permanent ratios of the idle block; [Pexact]: every completed
   step of the run used such a P on a state with non-zero permanent (with C05's invariant the
   permanent is non-zero by itself: [Pexact_m]). *)
Theorem C04_conservation_exact_P : forall ops f, InvF f -> FInv f -> Pexact f ops ->
  forall c f' k, idle_steps c f ops = Some (f', k) ->
  (total c f' == total c f + inject_Z (Z.of_nat k))%Q /\ FInv f' /\ InvF f'.
Proof. exact conservation_exactP. Qed.
Print Assumptions C04_conservation_exact_P.

Theorem C04_conservation_certified : forall ops f fe, InvM f -> FInv f -> run_m f ops = Some fe -> Pexact_m f ops ->
  forall c f' k, idle_steps c f (map fst ops) = Some (f', k) ->
  (total c f' == total c f + inject_Z (Z.of_nat k))%Q /\ FInv f' /\ InvF f'.
Proof. exact conservation_certified. Qed.
Print Assumptions C04_conservation_certified.

(* with the P that the model of the code (inf_retis, property C02) computes on a state of the
   reachable family: one completed step credits exactly one unit to every idle column *)
Theorem C04_step_unit_code_P : forall rp f k acc rws P f' rows b0 lk' c,
  InvM f -> FInv f -> step f (OpTreat k acc rws P) = Some f' ->
  InFamily (core f') rows b0 lk' ->
  PermM.inf_retis rp 1 (WQ (core f')) (locks (core f')) = Some P ->
  (total c f' == total c f + if is_locked (core f') c then 0 else 1)%Q.
Proof. exact treat_unit_infretis_matchable. Qed.
Print Assumptions C04_step_unit_code_P.

(* run level (proofs/BridgeRunP.v): membership of the reachable family [Fam] (staircase rows with
   positive weights; at most 12 plus ensembles, or one weight per path) is an invariant of every
   certified run whose result rows are well shaped ([RowsGood]: a [0-] job returns (1,0,...,0), a
   plus job weights that are positive on a non-empty prefix of the plus ensembles), and with the
   matrix that the model of the code computes at every completed step ([Pcode]: inf_retis of the
   state reached; [Pcode_pre]: of the state before re-sorting, which is where repex.py evaluates
   self.prob) the data rows plus the live records sum, per column, to the number of completed steps
   at which the column was idle *)
Theorem C04_conservation_code_P : forall rp ops f fe,
  InvM f -> FInv f -> Fam (core f) -> run_m f ops = Some fe -> Pcode rp f ops -> RowsGood f ops ->
  forall c f' k, idle_steps c f (map fst ops) = Some (f', k) ->
  (total c f' == total c f + inject_Z (Z.of_nat k))%Q /\ FInv f' /\ InvF f'.
Proof. exact conservation_code_P. Qed.
Print Assumptions C04_conservation_code_P.

Theorem C04_conservation_code_P_presort : forall rp ops f fe,
  InvM f -> FInv f -> Fam (core f) -> run_m f ops = Some fe -> Pcode_pre rp f ops -> RowsGood f ops ->
  forall c f' k, idle_steps c f (map fst ops) = Some (f', k) ->
  (total c f' == total c f + inject_Z (Z.of_nat k))%Q /\ FInv f' /\ InvF f'.
Proof. exact conservation_code_P_presort. Qed.
Print Assumptions C04_conservation_code_P_presort.

(* non-vacuity: a 3-ensemble system, a zero swap and a second job, completions out of order
   with doubly stochastic matrices as P (examples with the exact permanent ratios and with the P
   computed by the model of the code are bridge_ex4_* and bridge_ex3_* in proofs/Bridge*.v) *)
Definition ex4 : fstate :=
  mkFS (mkR [[1;0;0;0]; [0;1;0;0]; [0;1;1;0]; [0;0;0;0]]%Z [0;1;2;0] [false;false;false;true] [] 3)
       [(0, [0;0;0;0]%Q); (1, [0;0;0;0]%Q); (2, [0;0;0;0]%Q)] [] 0.

Definition ex4_ops : list op :=
  [OpPick (mkPick 1 1 (Some 0)) 0; OpPick (mkPick 2 2 None) 1;
   OpTreat 1 true [[0;1;1;0]%Z] [[0;0;0;0]; [0;0;0;0]; [0;0;1;0]; [0;0;0;0]]%Q;
   OpTreat 0 false [[1;0;0;0]; [0;1;0;0]]%Z [[1;0;0;0]; [0;1#2;1#2;0]; [0;1#2;1#2;0]; [0;0;0;0]]%Q].

(* which PATH a row of P is credited to: inf_retis computes P on the row-sorted idle block and
   undoes the sorting with "out[sort_idx] = out.copy()"; for EVERY permutation that assignment is
   the inverse of the row selection "non_locked[sort_idx]" (both directions), so row i of the
   result belongs to the path in row i of the input *)
Theorem C04_unsort_inverts_sort : forall n idx (M : PermM.matrix),
  Permutation idx (seq 0 n) -> length M = n ->
  PermM.unsort idx (PermUnsortP.select_rows idx M) = M /\ PermUnsortP.select_rows idx (PermM.unsort idx M) = M.
Proof. intros n idx M HP L. split; [exact (PermUnsortP.unsort_select n idx M HP L)|exact (PermUnsortP.select_unsort n idx M HP L)]. Qed.
Print Assumptions C04_unsort_inverts_sort.

(* the variant "out = out[sort_idx]" (selection applied twice) is refuted on a 3-cycle: it agrees
   with the code only on involutions, i.e. on sorted states and single swaps *)
Theorem C04_select_twice_refuted :
  exists idx (M : PermM.matrix), Permutation idx (seq 0 3) /\ length M = 3 /\
    PermM.unsort idx (PermUnsortP.select_rows idx M) = M /\ PermUnsortP.select_rows idx (PermUnsortP.select_rows idx M) <> M.
Proof. exact PermUnsortP.select_twice_refuted. Qed.
Print Assumptions C04_select_twice_refuted.

Example C04_example_FInv : FInv ex4.
Proof.
  constructor; cbn.
  - intros k v [E|[E|[E|[]]]]; injection E as <- <-; reflexivity.
  - intros k [<-|[<-|[<-|[]]]]; lia.
  - repeat constructor; cbn; intuition lia.
Qed.

Example C04_example_run :
  exists f', idle_steps 2 ex4 ex4_ops = Some (f', 2) /\ (total 2 f' == 2)%Q /\ (total 1 f' == 1)%Q
             /\ keys (data f') = [2].
Proof. eexists. split; [vm_compute; reflexivity|]. vm_compute. repeat split; reflexivity. Qed.
