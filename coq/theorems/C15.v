(* Property C15 — path algebra: paste, reverse, copy and classification are consistent.
   This file only restates the results proved in proofs/PathP.v, so that the statements
   cannot be weakened silently; each is followed by Print Assumptions. *)
From Coq Require Import ZArith List Bool Lia.
Import ListNotations.
From Inf Require Import model.PathM proofs.PathP model.PathLimM proofs.PathPLim.
Open Scope Z_scope.

(* paste: reversed backward segment, then the forward one minus the shared point,
   truncated at the limit *)
Theorem C15_paste_frames : forall back forw ov m,
  pts (paste back forw ov (Some m)) = firstn m (rev (pts back) ++ forw_part forw ov).
Proof. exact paste_pts. Qed.
Print Assumptions C15_paste_frames.

Theorem C15_paste_length : forall back forw ov m,
  plen (paste back forw ov (Some m)) =
  Nat.min m (plen back + (plen forw - (if ov then 1 else 0)))%nat.
Proof. exact paste_length_explicit. Qed.
Print Assumptions C15_paste_length.

Theorem C15_paste_first_is_last_backward : forall back forw ov m f,
  (0 < m)%nat -> last (pts back) f = f -> pts back <> [] ->
  hd_error (pts (paste back forw ov (Some m))) = Some f.
Proof. exact paste_first. Qed.
Print Assumptions C15_paste_first_is_last_backward.

Theorem C15_paste_time_origin : forall back forw ov m,
  maxlen (paste back forw ov (Some m)) = m /\
  torigin (paste back forw ov (Some m)) = torigin back - Z.of_nat (plen back) + 1.
Proof. exact paste_maxlen_torigin. Qed.
Print Assumptions C15_paste_time_origin.

Theorem C15_paste_shares_objects : forall back forw ov m x,
  In x (pts (paste back forw ov (Some m))) -> In x (pts back) \/ In x (pts forw).
Proof. exact paste_shares. Qed.
Print Assumptions C15_paste_shares_objects.

(* reverse: frame order reversed, every velocity flag flipped (when asked), twice = id *)
Theorem C15_reverse_frames : forall next p rv,
  (plen p <= maxlen p)%nat ->
  map erase (pts (reverse next p rv)) =
  if rv then map eflip (rev (map erase (pts p))) else rev (map erase (pts p)).
Proof. exact reverse_frames. Qed.
Print Assumptions C15_reverse_frames.

Theorem C15_reverse_involutive : forall n1 n2 p rv,
  (plen p <= maxlen p)%nat ->
  map erase (pts (reverse n2 (reverse n1 p rv) rv)) = map erase (pts p).
Proof. exact reverse_involutive. Qed.
Print Assumptions C15_reverse_involutive.

(* copy: same frames, same limit and origin, but every frame object is new *)
Theorem C15_copy_same : forall next p,
  (plen p <= maxlen p)%nat ->
  map erase (pts (copy next p)) = map erase (pts p) /\
  maxlen (copy next p) = maxlen p /\ torigin (copy next p) = torigin p.
Proof. exact copy_frames_same. Qed.
Print Assumptions C15_copy_same.

Theorem C15_copy_fresh : forall next p x y,
  (forall z, In z (pts p) -> (foid z < next)%nat) ->
  In x (pts (copy next p)) -> In y (pts p) -> foid x <> foid y.
Proof. exact copy_disjoint. Qed.
Print Assumptions C15_copy_fresh.

Theorem C15_reverse_fresh : forall next p rv x,
  In x (pts (reverse next p rv)) -> (next <= foid x)%nat.
Proof. exact reverse_fresh. Qed.
Print Assumptions C15_reverse_fresh.

Theorem C15_iadd : forall next p other,
  map erase (pts (iadd next p other)) =
  map erase (pts p) ++ firstn (maxlen p - plen p) (map erase (pts other)).
Proof. exact iadd_pts. Qed.
Print Assumptions C15_iadd.

(* classification agrees with the extreme values, for every order sequence and every
   interface list *)
Theorem C15_extremes_min : forall p v i,
  ordermin p = Some (v, i) ->
  (In v (orders p) /\ forall x, In x (orders p) -> v <= x) /\
  (nth_error (orders p) i = Some v /\ forall k y, (k < i)%nat -> nth_error (orders p) k = Some y -> v < y).
Proof. intros p v i H. split; [exact (ordermin_extreme p v i H) | exact (ordermin_first_index p v i H)]. Qed.
Print Assumptions C15_extremes_min.

Theorem C15_extremes_max : forall p v i,
  ordermax p = Some (v, i) -> In v (orders p) /\ forall x, In x (orders p) -> x <= v.
Proof. exact ordermax_extreme. Qed.
Print Assumptions C15_extremes_max.

Theorem C15_classification : forall p intf r,
  check_interfaces p intf = Some r ->
  exists omin omax first lastv left right,
    In omin (orders p) /\ In omax (orders p) /\
    (forall x, In x (orders p) -> omin <= x <= omax) /\
    hd_error (orders p) = Some first /\ hd_error (rev (orders p)) = Some lastv /\
    In left intf /\ In right intf /\ (forall l, In l intf -> left <= l <= right) /\
    ci_cross r = map (fun l => (omin <? l) && (l <=? omax)) intf /\
    (forall k l, nth_error intf k = Some l ->
        nth_error (ci_cross r) k = Some true <-> omin < l <= omax) /\
    ci_middle r = nth 1 (ci_cross r) false /\
    ci_start r = Some (classify left right first) /\
    ci_end r = Some (classify left right lastv).
Proof. exact check_interfaces_spec. Qed.
Print Assumptions C15_classification.

Theorem C15_letters : forall left right x,
  left <= right ->
  (classify left right x = SL <-> x <= left) /\
  (classify left right x = SR <-> (left < x /\ right <= x)) /\
  (classify left right x = SNone <-> left < x < right).
Proof. exact classify_spec. Qed.
Print Assumptions C15_letters.

(* success(target) holds exactly when some frame's progress coordinate lies strictly above
   the target; it is undefined only for the empty path *)
Theorem C15_success : forall p t b,
  success p t = Some b -> (b = true <-> exists x, In x (orders p) /\ t < x).
Proof. exact success_spec. Qed.
Print Assumptions C15_success.

Theorem C15_success_defined : forall p t, success p t = None <-> pts p = [].
Proof. exact success_defined. Qed.
Print Assumptions C15_success_defined.

(* whole frames.  [ftag] is the opaque payload of a frame: every attribute of the System
   object other than order[0] and vel_rev (the check encodes ALL of vars(frame) into it), so
   each statement below holds for arbitrary contents of those other fields. *)
Theorem C15_system_copy_whole : forall o f,
  (ford (copy_frame o f) = ford f /\ ftag (copy_frame o f) = ftag f /\ frev (copy_frame o f) = frev f) /\
  foid (copy_frame o f) = o.
Proof. exact copy_frame_whole. Qed.
Print Assumptions C15_system_copy_whole.

Theorem C15_reverse_only_flag : forall next p rv,
  (plen p <= maxlen p)%nat ->
  map ford (pts (reverse next p rv)) = rev (map ford (pts p)) /\
  map ftag (pts (reverse next p rv)) = rev (map ftag (pts p)) /\
  map frev (pts (reverse next p rv)) = rev (map (fun f => xorb rv (frev f)) (pts p)).
Proof. exact reverse_only_flag. Qed.
Print Assumptions C15_reverse_only_flag.

Theorem C15_reverse_twice_whole : forall n1 n2 p rv,
  (plen p <= maxlen p)%nat ->
  Forall2 (fun a b => ford a = ford b /\ ftag a = ftag b /\ frev a = frev b)
          (pts (reverse n2 (reverse n1 p rv) rv)) (pts p).
Proof. exact reverse_twice_whole. Qed.
Print Assumptions C15_reverse_twice_whole.

Theorem C15_copy_whole : forall next p,
  (plen p <= maxlen p)%nat ->
  Forall2 (fun a b => ford a = ford b /\ ftag a = ftag b /\ frev a = frev b)
          (pts (copy next p)) (pts p).
Proof. exact copy_whole. Qed.
Print Assumptions C15_copy_whole.

Theorem C15_paste_keeps_frames : forall back forw ov m k x,
  nth_error (pts (paste back forw ov (Some m))) k = Some x ->
  nth_error (rev (pts back) ++ forw_part forw ov) k = Some x.
Proof. exact paste_keeps_frames. Qed.
Print Assumptions C15_paste_keeps_frames.

Theorem C15_iadd_whole : forall next p other,
  exists added,
    pts (iadd next p other) = pts p ++ added /\
    Forall2 (fun a b => ford a = ford b /\ ftag a = ftag b /\ frev a = frev b)
            added (firstn (maxlen p - plen p) (pts other)) /\
    forall x, In x added -> (next <= foid x)%nat.
Proof. exact iadd_whole. Qed.
Print Assumptions C15_iadd_whole.

(* the limit field.  Path.maxlen is a number or None = NO LIMIT (model/PathLimM.v: the same
   operations over paths whose limit is [option nat]; [lift] embeds the paths used above). *)

(* on a path whose limit is a number every operation is the one the theorems above speak
   about, so they all carry over *)
Theorem C15_limit_conservative : forall next back forw p ov req rv m t,
  lpaste (lift back) (lift forw) ov req = Some (lift (paste back forw ov req)) /\
  lreverse next (lift p) rv = lift (reverse next p rv) /\
  lcopy next (lift p) = lift (copy next p) /\
  lempty_path (Some m) t = lift (empty_path m t).
Proof.
  intros. split; [apply lift_paste|]. split; [apply lift_reverse|]. split; [apply lift_copy | apply lift_empty].
Qed.
Print Assumptions C15_limit_conservative.

(* reverse and copy hand the limit of the source to the path they return, None included;
   an empty path gets the limit it is asked for *)
Theorem C15_limit_kept : forall n1 n2 p rv,
  llimit (lreverse n1 p rv) = llimit p /\ llimit (lcopy n2 p) = llimit p.
Proof. exact limit_kept. Qed.
Print Assumptions C15_limit_kept.

Theorem C15_limit_empty : forall l t,
  llimit (lempty_path l t) = l /\ lpts (lempty_path l t) = [] /\ lorigin (lempty_path l t) = t.
Proof. intros. repeat split. Qed.
Print Assumptions C15_limit_empty.

(* paste: the requested limit; when none is requested the common limit of the two segments
   (None stays None) or the larger number; undefined (TypeError in the code) exactly when no
   limit is requested and exactly one segment is unlimited *)
Theorem C15_limit_paste : forall back forw ov req r,
  lpaste back forw ov req = Some r ->
  paste_limit req (llimit back) (llimit forw) = Some (llimit r) /\
  lorigin r = lorigin back - Z.of_nat (lplen back) + 1.
Proof. exact lpaste_limit. Qed.
Print Assumptions C15_limit_paste.

Theorem C15_limit_paste_rule : forall req lb lf,
  (forall m, req = Some m -> paste_limit req lb lf = Some (Some m)) /\
  (req = None -> lb = None -> lf = None -> paste_limit req lb lf = Some None) /\
  (forall x y, req = None -> lb = Some x -> lf = Some y ->
     paste_limit req lb lf = Some (Some (Nat.max x y))) /\
  (paste_limit req lb lf = None <->
     req = None /\ ((lb = None /\ lf <> None) \/ (lb <> None /\ lf = None))).
Proof. exact paste_limit_spec. Qed.
Print Assumptions C15_limit_paste_rule.

(* the frames of a pasted path for ANY limit: cut at a number, everything without a limit *)
Theorem C15_limit_paste_frames : forall back forw ov req r,
  lpaste back forw ov req = Some r ->
  lpts r = cut (llimit r) (rev (lpts back) ++ lforw_part forw ov).
Proof. exact lpaste_frames. Qed.
Print Assumptions C15_limit_paste_frames.

(* paste never truncates when the limit is None: length = len(back) + len(forw) - shared point *)
Theorem C15_unlimited_paste_whole : forall back forw ov req r,
  lpaste back forw ov req = Some r -> llimit r = None ->
  lpts r = rev (lpts back) ++ lforw_part forw ov /\
  lplen r = (lplen back + (lplen forw - (if ov then 1 else 0)))%nat.
Proof. exact lpaste_unlimited. Qed.
Print Assumptions C15_unlimited_paste_whole.

Theorem C15_unlimited_paste_defined : forall back forw ov,
  llimit back = None -> llimit forw = None ->
  exists r, lpaste back forw ov None = Some r /\ llimit r = None /\
            lpts r = rev (lpts back) ++ lforw_part forw ov.
Proof. exact lpaste_both_unlimited. Qed.
Print Assumptions C15_unlimited_paste_defined.

(* reverse / reverse twice / copy for ANY limit the path fits in ([fits None _] is True: an
   unlimited path of any length is reversed and copied in full) *)
Theorem C15_limit_reverse_frames : forall next p rv,
  fits (llimit p) (lplen p) ->
  map erase (lpts (lreverse next p rv)) =
  if rv then map eflip (rev (map erase (lpts p))) else rev (map erase (lpts p)).
Proof. exact lreverse_frames. Qed.
Print Assumptions C15_limit_reverse_frames.

Theorem C15_limit_reverse_twice_whole : forall n1 n2 p rv,
  fits (llimit p) (lplen p) ->
  Forall2 (fun a b => ford a = ford b /\ ftag a = ftag b /\ frev a = frev b)
          (lpts (lreverse n2 (lreverse n1 p rv) rv)) (lpts p).
Proof. exact lreverse_twice. Qed.
Print Assumptions C15_limit_reverse_twice_whole.

Theorem C15_limit_copy_whole : forall next p,
  fits (llimit p) (lplen p) ->
  Forall2 (fun a b => ford a = ford b /\ ftag a = ftag b /\ frev a = frev b)
          (lpts (lcopy next p)) (lpts p) /\
  llimit (lcopy next p) = llimit p /\ lorigin (lcopy next p) = lorigin p.
Proof. exact lcopy_whole. Qed.
Print Assumptions C15_limit_copy_whole.

(* consequence for append: an unlimited path, its reversal, its copy and the paste of two
   unlimited segments accept every further frame; with a number as limit append is refused
   exactly from that length on *)
Theorem C15_unlimited_accepts : forall n1 n2 p rv f,
  llimit p = None ->
  snd (lappend p f) = true /\
  snd (lappend (lreverse n1 p rv) f) = true /\
  snd (lappend (lcopy n2 p) f) = true.
Proof. exact unlimited_accepts. Qed.
Print Assumptions C15_unlimited_accepts.

Theorem C15_unlimited_paste_accepts : forall back forw ov r f,
  llimit back = None -> llimit forw = None ->
  lpaste back forw ov None = Some r -> snd (lappend r f) = true.
Proof. exact pasted_unlimited_accepts. Qed.
Print Assumptions C15_unlimited_paste_accepts.

Theorem C15_limited_refuses : forall p f m,
  llimit p = Some m -> (snd (lappend p f) = true <-> (lplen p < m)%nat).
Proof. exact limited_refuses. Qed.
Print Assumptions C15_limited_refuses.

(* non-vacuity: a concrete path meets the hypotheses and exercises truncation *)
Example C15_example :
  let f o t := mkF o t false 0 in
  let back := mkP [f 3 1; f 2 2; f 1 3] 10 5 in
  let forw := mkP [f 3 1; f 4 4; f 9 5] 10 5 in
  map ford (pts (paste back forw true (Some 4%nat))) = [1; 2; 3; 4] /\
  (plen back <= maxlen back)%nat /\
  check_interfaces (paste back forw true (Some 10%nat)) [2; 4; 8] <> None /\
  success forw 8 = Some true /\ success forw 9 = Some false /\
  map ftag (pts (reverse 7 back true)) = [3; 2; 1] /\ map frev (pts (reverse 7 back true)) = [true; true; true] /\
  map foid (pts (copy 7 back)) = [7; 8; 9]%nat.
Proof. cbn. repeat split; try lia; discriminate. Qed.

(* non-vacuity of the limit theorems: unlimited segments are pasted in full and stay
   unlimited, mixed limits without a requested one are the undefined case, reverse/copy of
   an unlimited path stay unlimited and accept a further frame, a full limited path does not *)
Example C15_limit_example :
  lpaste (mkLP [mkF 3 1 false 0; mkF 2 2 false 1] None 5) (mkLP [mkF 3 1 false 0; mkF 4 4 false 2] None 5) true None
    = Some (mkLP [mkF 2 2 false 1; mkF 3 1 false 0; mkF 4 4 false 2] None 4) /\
  lpaste (mkLP [mkF 3 1 false 0] None 5) (mkLP [mkF 3 1 false 0] (Some 4%nat) 5) true None = None /\
  llimit (lreverse 7 (mkLP [mkF 3 1 false 0; mkF 2 2 false 1] None 5) true) = None /\
  map frev (lpts (lreverse 7 (mkLP [mkF 3 1 false 0; mkF 2 2 false 1] None 5) true)) = [true; true] /\
  fits (llimit (mkLP [mkF 3 1 false 0; mkF 2 2 false 1] None 5)) 2 /\
  snd (lappend (mkLP [mkF 3 1 false 0] (Some 1%nat) 0) (mkF 1 1 false 9)) = false /\
  snd (lappend (lcopy 7 (mkLP [mkF 3 1 false 0] None 0)) (mkF 1 1 false 9)) = true.
Proof. cbn. repeat split. Qed.
