(* Property C08 — a crash at any point leaves a restartable, consistent state.
   Statements only; proofs in proofs/DiskP.v; model model/DiskM.v (abstract disk, the ordered
   file-system effects of one treat_output, crash = prefix of the effects with the last write
   possibly torn, recover = what setup_config reads back). *)
From Coq Require Import List Bool Arith Lia.
Import ListNotations.
From Inf Require Import model.DiskM proofs.DiskP.
Open Scope nat_scope.

(* For every consistent disk, every step (any number of new paths and deletions, accepted or
   rejected), EVERY crash index k and torn flag: the restart reads a record, it is the old or
   the new one, every path it lists loads, and the data rows it keeps are exactly the rows of
   before the step (old record: the step is done again) or those plus one row per replaced path
   (new record) - so after continuing every replaced path has exactly one row. *)
Theorem C08_crash_recovers :
  forall (need : nat -> list nat) (d : disk) (rold : rrec) (st : stepinfo),
  rec d = Some rold -> rec_torn d = false ->
  (forall pn, In pn (r_active rold) -> loadable need d pn = true) ->
  (forall x, In x (rows d) -> snd x = true /\ ~ In (fst x) (r_active rold) /\ ~ In (fst x) (news st)) ->
  (forall pn, In pn (news st) -> ~ In pn (r_active rold)) ->
  (forall pn, In pn (olds st) -> In pn (r_active rold) /\ ~ In pn (r_active (rnew st))) ->
  (forall x, In x (dels st) -> ~ In (fst x) (r_active rold) /\ ~ In (fst x) (r_active (rnew st))) ->
  (forall pn, In pn (r_active (rnew st)) -> In pn (r_active rold) \/ In pn (news st)) ->
  forall k t,
  exists r rs, recover need true (crash k t d (effects need true st)) = Some (r, rs) /\
    ((r = rold /\ rs = rows d) \/ (r = rnew st /\ rs = rows d ++ map (fun pn => (pn, true)) (olds st))).
Proof. exact crash_recovers. Qed.
Print Assumptions C08_crash_recovers.

(* no prefix of the effects touches a file of a path the on-disk record lists: while the old
   record is on disk every live path stays loadable *)
Theorem C08_live_paths_intact :
  forall (need : nat -> list nat) (d : disk) (rold : rrec) (st : stepinfo),
  rec d = Some rold -> rec_torn d = false ->
  (forall pn, In pn (r_active rold) -> loadable need d pn = true) ->
  (forall x, In x (rows d) -> snd x = true /\ ~ In (fst x) (r_active rold) /\ ~ In (fst x) (news st)) ->
  (forall pn, In pn (news st) -> ~ In pn (r_active rold)) ->
  (forall pn, In pn (olds st) -> In pn (r_active rold) /\ ~ In pn (r_active (rnew st))) ->
  (forall x, In x (dels st) -> ~ In (fst x) (r_active rold) /\ ~ In (fst x) (r_active (rnew st))) ->
  forall k t,
  let d' := crash k t d (pre_effects need st) in
  rec d' = Some rold /\ rec_torn d' = false /\
  (forall pn, In pn (r_active rold) -> loadable need d' pn = true) /\
  trim (r_active rold) (rows d') = rows d.
Proof. intros need d rold st H1 H2 H3 H4 H5 H6 H7 k t. exact (pre_crash_safe need d rold st H1 H2 H3 H4 H5 H6 H7 k t). Qed.
Print Assumptions C08_live_paths_intact.

(* the ORIGINAL code (in-place rewrite of restart.toml, no trimming of the data file) is
   refuted at two crash points *)
Theorem C08_original_torn_restart_refuted :
  recover need1 false (crash (length (effects need1 false st0) - 1) true d0 (effects need1 false st0)) = None.
Proof. exact original_torn_restart_refuted. Qed.
Print Assumptions C08_original_torn_restart_refuted.

Theorem C08_original_duplicate_row_refuted :
  exists r rs, recover need1 false (crash (length (effects need1 false st0) - 1) false d0 (effects need1 false st0)) = Some (r, rs)
               /\ r = mkRec 4 [0; 1] [] 2 /\ rs = [(1, true)].
Proof. exact original_duplicate_row_refuted. Qed.
Print Assumptions C08_original_duplicate_row_refuted.

(* non-vacuity: the hypotheses of C08_crash_recovers hold for a concrete disk and step, and a
   crash in the middle of the data-row append recovers the old record with the torn row dropped *)
Example C08_example :
  recover need1 true (crash 4 true d0 (effects need1 true st0)) = Some (mkRec 4 [0; 1] [] 2, [])
  /\ rows (crash 4 true d0 (effects need1 true st0)) = [(1, false)]
  /\ recover need1 true (crash 99 false d0 (effects need1 true st0)) = Some (mkRec 5 [0; 2] [] 3, [(1, true)]).
Proof. repeat split; reflexivity. Qed.
