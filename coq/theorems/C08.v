(* Property C08 — a crash at any point leaves a restartable, consistent state.
   Statements only; proofs in proofs/DiskP.v; model model/DiskM.v (abstract disk, the ordered
   file-system effects of one treat_output, crash = prefix of the effects with the last write
   possibly torn, recover = what setup_config reads back). *)
From Coq Require Import List Bool Arith Lia.
Import ListNotations.
From Inf Require Import model.DiskM proofs.DiskP proofs.DiskRunP.
Open Scope nat_scope.

(* For every consistent disk, every step (any number of new paths and deletions, accepted or
   rejected), EVERY crash index k and torn flag: the restart reads a record, it is the old or
   the new one, every path it lists loads, and the data rows it keeps are exactly the rows of
   before the step (old record: the step is done again) or those plus one row per replaced path
   (new record) - so after continuing every replaced path has exactly one row. *)
Theorem C08_crash_recovers :
  forall (need : nat -> list nat) (d : disk) (rold : rrec) (st : stepinfo),
  rec d = Some rold -> rec_torn d = false ->
  (forall pn, In pn (r_active rold) -> loadable need d pn = true) ->
  (forall x, In x (rows d) -> snd x = true /\ ~ In (fst x) (r_active rold) /\ ~ In (fst x) (news st)) ->
  (forall pn, In pn (news st) -> ~ In pn (r_active rold)) ->
  (forall pn, In pn (olds st) -> In pn (r_active rold) /\ ~ In pn (r_active (rnew st))) ->
  (forall x, In x (dels st) -> ~ In (fst x) (r_active rold) /\ ~ In (fst x) (r_active (rnew st))) ->
  (forall pn, In pn (r_active (rnew st)) -> In pn (r_active rold) \/ In pn (news st)) ->
  forall k t,
  exists r rs, recover need true (crash k t d (effects need true st)) = Some (r, rs) /\
    ((r = rold /\ rs = rows d) \/ (r = rnew st /\ rs = rows d ++ map (fun pn => (pn, true)) (olds st))).
Proof. exact crash_recovers. Qed.
Print Assumptions C08_crash_recovers.

(* no prefix of the effects touches a file of a path the on-disk record lists: while the old
   record is on disk every live path stays loadable *)
Theorem C08_live_paths_intact :
  forall (need : nat -> list nat) (d : disk) (rold : rrec) (st : stepinfo),
  rec d = Some rold -> rec_torn d = false ->
  (forall pn, In pn (r_active rold) -> loadable need d pn = true) ->
  (forall x, In x (rows d) -> snd x = true /\ ~ In (fst x) (r_active rold) /\ ~ In (fst x) (news st)) ->
  (forall pn, In pn (news st) -> ~ In pn (r_active rold)) ->
  (forall pn, In pn (olds st) -> In pn (r_active rold) /\ ~ In pn (r_active (rnew st))) ->
  (forall x, In x (dels st) -> ~ In (fst x) (r_active rold) /\ ~ In (fst x) (r_active (rnew st))) ->
  forall k t,
  let d' := crash k t d (pre_effects need st) in
  rec d' = Some rold /\ rec_torn d' = false /\
  (forall pn, In pn (r_active rold) -> loadable need d' pn = true) /\
  trim (r_active rold) (rows d') = rows d.
Proof. intros need d rold st H1 H2 H3 H4 H5 H6 H7 k t. exact (pre_crash_safe need d rold st H1 H2 H3 H4 H5 H6 H7 k t). Qed.
Print Assumptions C08_live_paths_intact.

(* ------------------------------------------------------------------ arbitrary histories
   (proofs/DiskRunP.v).  [restart]: what the program physically does to the disk when it restarts
   from it (trim_data_file).  [Good need d r]: the disk-side conditions above plus freshness of path
   numbers (every row and every live path is below traj_num, rows are pairwise distinct);
   [StepOK r st]: the step-side conditions (new paths numbered from traj_num up, replaced paths live
   before and not after, deletions touch neither record).  An event is a completed step or a crash at
   any effect index (torn or not) followed by a restart; [HistOK] asks every event's step to be StepOK
   for the record current at that point (after a crash that left the old record the program does
   some step again - not necessarily the same one). *)
Theorem C08_crash_restart_good : forall (need : nat -> list nat) d r st k t,
  Good need d r -> StepOK r st ->
  let es := effects need true st in
  let d'' := restart (crash k t d es) in
  (k < length es /\ Good need d'' r /\ rows d'' = rows d) \/
  (length es <= k /\ Good need d'' (rnew st) /\ rows d'' = rows d ++ map (fun pn => (pn, true)) (olds st)).
Proof. exact crash_restart_good. Qed.
Print Assumptions C08_crash_restart_good.

(* after ANY history of completed steps, crashes and restarts: the restart file is whole and is the
   record of the last step that took effect, every path it lists loads, the data file holds exactly
   one complete row per path replaced by a step that took effect, in order, without duplicates, and
   a further restart changes nothing *)
Theorem C08_history_recovers : forall (need : nat -> list nat) evs d r,
  Good need d r -> HistOK need r evs ->
  let d' := run need d evs in let r' := final_rec need r evs in
  recover need true d' = Some (r', rows d ++ hist_rows need evs) /\
  rec d' = Some r' /\ rec_torn d' = false /\
  (forall pn, In pn (r_active r') -> loadable need d' pn = true) /\
  rows d' = rows d ++ hist_rows need evs /\
  NoDup (map fst (rows d ++ hist_rows need evs)) /\
  restart d' = d'.
Proof. exact history_recovers. Qed.
Print Assumptions C08_history_recovers.

(* ... and a crash at any point of the next step is recovered from, as in C08_crash_recovers *)
Theorem C08_history_crash_recovers : forall (need : nat -> list nat) evs d r st k t,
  Good need d r -> HistOK need r evs -> StepOK (final_rec need r evs) st ->
  let d' := run need d evs in
  exists r' rs, recover need true (crash k t d' (effects need true st)) = Some (r', rs) /\
    ((r' = final_rec need r evs /\ rs = rows d') \/
     (r' = rnew st /\ rs = rows d' ++ map (fun pn => (pn, true)) (olds st))).
Proof. exact history_crash_recovers. Qed.
Print Assumptions C08_history_crash_recovers.

(* the ORIGINAL code (in-place rewrite of restart.toml, no trimming of the data file) is
   refuted at two crash points *)
Theorem C08_original_torn_restart_refuted :
  recover need1 false (crash (length (effects need1 false st0) - 1) true d0 (effects need1 false st0)) = None.
Proof. exact original_torn_restart_refuted. Qed.
Print Assumptions C08_original_torn_restart_refuted.

Theorem C08_original_duplicate_row_refuted :
  exists r rs, recover need1 false (crash (length (effects need1 false st0) - 1) false d0 (effects need1 false st0)) = Some (r, rs)
               /\ r = mkRec 4 [0; 1] [] 2 /\ rs = [(1, true)].
Proof. exact original_duplicate_row_refuted. Qed.
Print Assumptions C08_original_duplicate_row_refuted.

(* non-vacuity: the hypotheses of C08_crash_recovers hold for a concrete disk and step, and a
   crash in the middle of the data-row append recovers the old record with the torn row dropped *)
Example C08_example :
  recover need1 true (crash 4 true d0 (effects need1 true st0)) = Some (mkRec 4 [0; 1] [] 2, [])
  /\ rows (crash 4 true d0 (effects need1 true st0)) = [(1, false)]
  /\ recover need1 true (crash 99 false d0 (effects need1 true st0)) = Some (mkRec 5 [0; 2] [] 3, [(1, true)]).
Proof. repeat split; reflexivity. Qed.
