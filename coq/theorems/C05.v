(* Property C05 — the sampler never stalls: a job can always be drawn, sorting terminates.
   Statements only; proofs in proofs/MatchP.v (and proofs/RepexP.v).
   Picks carry a certificate (model/MatchM.v): a perfect matching of the idle block that
   contains the picked (row, column) — for non-negative weights exactly "the pair has non-zero
   probability under the permanent ratios".  The trace validator computes such a certificate
   for every pick the real program makes. *)
From Coq Require Import ZArith QArith List Bool Lia.
Import ListNotations.
From Inf Require Import model.RepexM model.MatchM proofs.RepexP proofs.MatchP proofs.SortP.
From Inf Require spec.PermS model.PermM.
From Inf Require Import proofs.BridgeMatchP proofs.BridgeFracP proofs.BridgeInfRetisP proofs.BridgeRunP.
Open Scope nat_scope.

(* in every state reachable by certified picks, re-issued jobs and completions in any order
   with any accept/reject outcome, the idle block of the weight matrix admits a perfect
   matching (and the exclusivity invariant of C03 holds) *)
Theorem C05_matching_invariant : forall ops f f',
  InvM f -> run_m f ops = Some f' -> InvM f'.
Proof. exact run_m_InvM. Qed.
Print Assumptions C05_matching_invariant.

(* the boolean certificate check is exactly the matching predicate *)
Theorem C05_certificate_sound : forall s m, matb s m = true <-> mat s m.
Proof. intros s m. split; [apply matb_mat|apply mat_matb]. Qed.
Print Assumptions C05_certificate_sound.

(* a job can always be drawn for any idle ensemble slot: there is a certified pick, it is
   accepted by the model, and it leads to a state satisfying the invariant *)
Theorem C05_can_pick : forall s c pin,
  Inv s -> Matchable s -> is_locked s c = false -> ~ In pin (map jpin (locked s)) ->
  exists m j s' jb, take_cert s m c j = true /\ pick s (mkPick c j None) pin = Some (s', jb) /\ Inv s'.
Proof. exact can_pick. Qed.
Print Assumptions C05_can_pick.

(* after every completed step EVERY slot (idle or busy) holds a path whose weight in that
   ensemble is non-zero — what load_paths asserts when the restart file written at that moment
   is read back *)
Theorem C05_after_step_valid_slots : forall f k acc rows P f',
  InvF f -> step f (OpTreat k acc rows P) = Some f' ->
  forall c, c < size (core f') - 1 -> wij (core f') c c <> 0%Z.
Proof. exact after_treat_diag. Qed.
Print Assumptions C05_after_step_valid_slots.

(* live paths are pairwise distinct and their numbers are below the next path number, which
   never decreases: numbers are never re-used *)
Theorem C05_live_distinct_fresh : forall s a b,
  Inv s -> a < size s - 1 -> b < size s - 1 ->
  (nth a (trajs s) 0 = nth b (trajs s) 0 -> a = b) /\ nth a (trajs s) 0 < traj_num s.
Proof. intros s a b I Ha Hb. split; [apply (inv_live _ I); auto|apply (inv_fresh _ I); auto]. Qed.
Print Assumptions C05_live_distinct_fresh.

(* re-sorting: when the literal loop returns, no slot needs moving any more *)
Theorem C05_sort_result : forall fuel s it s1 n, sort_loop fuel s it = SortOk s1 n -> first_bad s1 = None.
Proof. exact sort_loop_done. Qed.
Print Assumptions C05_sort_result.

(* re-sorting terminates — for ANY number of ensembles: on every state that satisfies the
   exclusivity invariant, whose idle block has a perfect matching and whose weight rows are
   staircases (slot 0 holds a [0-] row; the rows in the plus slots are non-zero on a prefix of the
   plus columns; all rows have full length), the literal loop of sort_trajstate (with the fuel
   the model gives it) ends without error, leaves no slot that needs moving, preserves all of
   these properties, and needs at most mu s <= n*(n+1) + n + 1 swaps.  The measure: the first
   badly placed slot never moves left, and while it stays the row sitting in it gets strictly
   longer (a row arriving from the left keeps its old slot well placed: pigeonhole on the matching). *)
Theorem C05_sort_terminates : forall s,
  Inv s -> Matchable s -> Stair s -> RowsWF s ->
  exists s1 n, sort_trajstate s = SortOk s1 n /\ first_bad s1 = None /\ n <= mu s /\
               mu s <= size s * (size s + 1) + size s + 1 /\
               Inv s1 /\ Matchable s1 /\ Stair s1 /\ RowsWF s1.
Proof.
  intros s I M St Rw.
  destruct (sort_trajstate_terminates s (conj I (conj M (conj St Rw)))) as (s1 & n & R & (I1 & M1 & St1 & Rw1) & B & C).
  exists s1, n. split; [exact R|]. split; [exact B|]. split; [exact C|]. split; [|exact (conj I1 (conj M1 (conj St1 Rw1)))].
  unfold mu. destruct (first_bad s) as [e|]; [|lia].
  assert (H1 : (size s - e) * (size s + 1) <= size s * (size s + 1)) by nia.
  assert (H2 : size s - fz s e <= size s) by lia.
  generalize dependent (fz s e). intros. lia.
Qed.
Print Assumptions C05_sort_terminates.

(* one iteration makes progress *)
Theorem C05_sort_step_progress : forall s e,
  SInv s -> first_bad s = Some e ->
  exists s1, sort_step s e = Some s1 /\ SInv s1 /\ size s1 = size s /\ mu s1 < mu s.
Proof. exact sort_step_progress. Qed.
Print Assumptions C05_sort_step_progress.

(* re-sorting terminates — BOUNDED (kept: no row-length or staircase hypothesis is needed here, the
   states are generated): for every staircase weight matrix with up to 4 plus
   ensembles (5 ensembles and the ghost), every busy set whose busy slots are valid and whose
   idle block has a perfect matching, the literal loop of sort_trajstate ends without error
   within n^2 swaps.  (Proved by exhaustive evaluation; the general statement for any number
   of ensembles is not proved.) *)
Theorem C05_sort_terminates_bounded : forall m, m <= 4 -> sort_sweep m = true.
Proof.
  intros m H. destruct m as [|[|[|[|[|m]]]]]; try lia; vm_compute; reflexivity.
Qed.
Print Assumptions C05_sort_terminates_bounded.

(* non-vacuity *)
Definition ex5 : fstate :=
  mkFS (mkR [[1;0;0;0]; [0;1;1;0]; [0;1;1;0]; [0;0;0;0]]%Z [0;1;2;0] [false;false;false;true] [] 3)
       [(0, [0;0;0;0]%Q); (1, [0;0;0;0]%Q); (2, [0;0;0;0]%Q)] [] 0.

Example C05_example_sort :
  let s := stair_state [2; 3; 1] [false; false; false; false] in
  Stair s /\ RowsWF s /\ matb s [0; 2; 3; 1; 0] = true /\
  exists s1 n, sort_trajstate s = SortOk s1 n /\ n = 2.
Proof.
  cbn zeta. split; [|split; [|split]].
  - split; [cbn; discriminate|]. split.
    + intros c Hc. unfold wij. cbn. destruct c as [|[|[|[|[|c]]]]]; try reflexivity; try lia. destruct c; reflexivity.
    + intros r Hr. cbn in Hr. split.
      * destruct r as [|[|[|[|r]]]]; try lia; reflexivity.
      * intros c c' Hc Hc'. cbn in Hc'.
        destruct r as [|[|[|[|r]]]]; try lia;
          destruct c' as [|[|[|[|c']]]]; try lia;
            destruct c as [|[|[|[|c]]]]; try lia; unfold wij; cbn; intros H; try discriminate; try (exfalso; apply H; reflexivity).
  - intros r Hr. cbn in Hr. destruct r as [|[|[|[|[|r]]]]]; try lia; reflexivity.
  - vm_compute. reflexivity.
  - eexists. eexists. split; vm_compute; reflexivity.
Qed.

(* ------------------------------------------------------------------ link to property C02
   (proofs/BridgeMatchP.v, proofs/BridgeInfRetisP.v): a certificate for the pair (i, j) exists exactly
   when the exact permanent-ratio probability of the pair is positive, and - on the reachable family,
   where C02 proves that the code's inf_retis returns those ratios - exactly when the P computed by the
   model of the code is positive there.  [idleQ s] is the idle block of the integer weights read over Q. *)
Theorem C05_certificate_iff_positive_probability : forall s i j,
  Wnonneg s -> is_locked s i = false -> is_locked s j = false ->
  ((exists m, take_cert s m i j = true) <->
   (0 < PermS.Pspec (nidle s) (idleQ s) (posn i (idle s)) (posn j (idle s)))%Q).
Proof. exact cert_iff_Pspec_pos. Qed.
Print Assumptions C05_certificate_iff_positive_probability.

Theorem C05_matchable_iff_perm_positive : forall s, Wnonneg s ->
  ((exists m, matb s m = true) <-> (0 < PermS.perm (nidle s) (idleQ s))%Q).
Proof. exact matchable_iff_perm_pos. Qed.
Print Assumptions C05_matchable_iff_perm_positive.

Theorem C05_code_P_positive_iff_certificate : forall rp s rows b0 lk' P i j,
  InFamily s rows b0 lk' -> perm_nz s ->
  PermM.inf_retis rp 1 (WQ s) (locks s) = Some P ->
  is_locked s i = false -> is_locked s j = false ->
  ((0 < PermM.mget P i j)%Q <-> exists m, take_cert s m i j = true).
Proof. exact infretis_pos_iff_cert. Qed.
Print Assumptions C05_code_P_positive_iff_certificate.

(* run level (proofs/BridgeRunP.v): the reachable family is an invariant of certified runs with well
   shaped result rows, at every point of such a run the code's own P exists (the sampler can always
   draw), is positive exactly on the certified pairs, every pick the model accepts has positive
   probability under it, and every pair with positive probability is accepted as a pick *)
Theorem C05_family_invariant : forall ops f fe, InvM f -> Fam (core f) -> RowsGood f ops ->
  run_m f ops = Some fe -> InvM fe /\ Fam (core fe).
Proof. exact run_m_Fam. Qed.
Print Assumptions C05_family_invariant.

Theorem C05_code_P_exists_and_matches_certificates : forall rp ops f n f1,
  InvM f -> Fam (core f) -> RowsGood f ops -> run_m f (firstn n ops) = Some f1 ->
  (idle (core f1) <> [] -> exists P, PermM.inf_retis rp 1 (WQ (core f1)) (locks (core f1)) = Some P /\ ExactP (core f1) P) /\
  forall P, PermM.inf_retis rp 1 (WQ (core f1)) (locks (core f1)) = Some P ->
    (forall i j, is_locked (core f1) i = false -> is_locked (core f1) j = false ->
       ((0 < PermM.mget P i j)%Q <-> exists m, take_cert (core f1) m i j = true)) /\
    (forall c pin ws f2, step_m f1 (OpPick c pin) ws = Some f2 -> (0 < PermM.mget P (pk_i c) (pk_j c))%Q).
Proof. exact picks_of_code_P_certified. Qed.
Print Assumptions C05_code_P_exists_and_matches_certificates.

Theorem C05_positive_pair_is_accepted : forall rp f P i j pin,
  InvM f -> Fam (core f) -> PermM.inf_retis rp 1 (WQ (core f)) (locks (core f)) = Some P ->
  is_locked (core f) i = false -> is_locked (core f) j = false -> (0 < PermM.mget P i j)%Q ->
  ~ In pin (map jpin (locked (core f))) -> exists m f2, step_m f (OpPick (mkPick i j None) pin) [m] = Some f2.
Proof. exact code_P_positive_pick_accepted. Qed.
Print Assumptions C05_positive_pair_is_accepted.

Example C05_example_init : matb (core ex5) [0;1;2;0] = true.
Proof. vm_compute. reflexivity. Qed.

Example C05_example_run :
  exists f', run_m ex5 [(OpPick (mkPick 2 1 None) 0, [[0;2;1;0]]);
                        (OpTreat 0 true [[0;1;0;0]%Z] [[1;0;0;0]; [0;1;0;0]; [0;0;1;0]; [0;0;0;0]]%Q, [])] = Some f'
             /\ trajs (core f') = [0;3;1;0] /\ matb (core f') [0;1;2;0] = true.
Proof. eexists. vm_compute. repeat split. Qed.
