(* Property C19 -- configuration, trajectory and input-template codecs are lossless.
   This file only restates results proved in proofs/CodecP.v (model: model/CodecM.v, format
   constants: gen/ParamsC19.v, regenerated from /repo on every run), so that the statements
   cannot be weakened silently; each is followed by Print Assumptions.  All statements are
   unbounded (any width, precision, value, atom count, frame count, byte string, template). *)
From Coq Require Import ZArith QArith Qabs List Bool Lia Permutation Sorted.
Import ListNotations.
From Inf Require Import gen.ParamsC19 model.CodecM proofs.CodecP.
Open Scope Z_scope.

(* ------------------------------------------------------------------ format contract *)

(* The constants below are regenerated from /repo's source on every run.  GROMOS96 (.g96)
   fixes a 24-character label followed by 15.9f fields, and the reader must slice exactly
   what the writer prints; the xyz writer prints 15.9f fields and a 9.4f box; TRR frames
   start with the magic number 1993, the version string and 13 integers. *)
Theorem C19_format_contract :
  (g96_w, g96_d, g96_nf) = (15, 9, 3)%nat /\ (g96_read_len, g96_read_pos) = (g96_w, 24%nat) /\
  (g96_box9_w, g96_box9_d, g96_box9_n) = (15, 9, 9)%nat /\ (g96_box3_w, g96_box3_d, g96_box3_n) = (15, 9, 3)%nat /\
  (xyzv_name_w, xyzv_w, xyzv_d, xyzv_nf) = (5, 15, 9, 6)%nat /\ (xyz_box_w, xyz_box_d) = (9, 4)%nat /\
  trr_magic = 1993 /\ trr_dim = 3 /\ trr_nints = 13%nat /\ (trr_size_float, trr_size_double) = (4, 8) /\
  length trr_version = 12%nat /\
  swap_terms = [(true, 24, 4278190080); (true, 8, 16711680); (false, 8, 65280); (false, 24, 255)].
Proof. repeat split. Qed.
Print Assumptions C19_format_contract.

(* ------------------------------------------------------------------ fixed-point fields *)

(* float("{:w.df}".format(x)) is x rounded (half-even) to d decimals -- for every width, also
   when the value overflows the field *)
Theorem C19_parse_print_fixed : forall w d nz x,
  parse_fixed (print_fixed w d nz x) = Some (round_d d x).
Proof. exact parse_print_fixed. Qed.
Print Assumptions C19_parse_print_fixed.

(* "to the written precision": half a unit of the last written decimal *)
Theorem C19_written_precision : forall d x, (Qabs (round_d d x - x) <= 1 # (2 * pow10p d))%Q.
Proof. exact round_d_error. Qed.
Print Assumptions C19_written_precision.

(* a value that was read from a file is written back unchanged *)
Theorem C19_reprint_fixed : forall w d nz x,
  parse_fixed (print_fixed w d nz (round_d d x)) = Some (round_d d x).
Proof. exact reprint_fixed. Qed.
Print Assumptions C19_reprint_fixed.

(* the field is exactly w characters wide iff the guard holds ... *)
Theorem C19_width_guard_exact : forall w d nz x,
  length (print_fixed w d nz x) = w <-> width_guard w d nz x = true.
Proof. exact width_guard_spec. Qed.
Print Assumptions C19_width_guard_exact.

(* ... and the guard is a bound on the magnitude of the rounded value *)
Theorem C19_width_guard_magnitude : forall w d nz x,
  (0 < d)%nat -> (d + 2 + (if is_neg nz x then 1 else 0) <= w)%nat ->
  (width_guard w d nz x = true <->
   Z.abs (scaled d x) < pow10 (w - 1 - (if is_neg nz x then 1 else 0))).
Proof. exact width_guard_magnitude. Qed.
Print Assumptions C19_width_guard_magnitude.

(* for the g96 format of /repo ({:15.9f}): x < 1e5 and x > -1e4 after rounding *)
Theorem C19_g96_width_values : forall nz x,
  width_guard g96_w g96_d nz x = true <->
  Z.abs (scaled g96_d x) < (if is_neg nz x then 10 ^ 13 else 10 ^ 14).
Proof. exact g96_width_values. Qed.
Print Assumptions C19_g96_width_values.

Example C19_ex_fixed :
  parse_fixed (print_fixed 15 9 false (-(1 # 3))) = Some (-(333333333) # 1000000000)%Q /\
  width_guard g96_w g96_d false (99999 # 1) = true /\ width_guard g96_w g96_d false (100000 # 1) = false /\
  width_guard g96_w g96_d false (- (9999 # 1)) = true /\ width_guard g96_w g96_d false (- (10000 # 1)) = false.
Proof. vm_compute. repeat split. Qed.

(* ------------------------------------------------------------------ g96 *)

Theorem C19_g96_roundtrip : forall label a b c,
  length label = g96_read_pos -> fits g96_w g96_d a -> fits g96_w g96_d b -> fits g96_w g96_d c ->
  g96_read_line (g96_write_line label [a; b; c]) =
  (label, [Some (round_d g96_d (snd a)); Some (round_d g96_d (snd b)); Some (round_d g96_d (snd c))]).
Proof. exact g96_line_roundtrip. Qed.
Print Assumptions C19_g96_roundtrip.

(* the guard cannot be dropped: one field too wide shifts every later slice *)
Theorem C19_g96_width_guard_necessary :
  exists label a b c, length label = g96_read_pos /\ ~ fits g96_w g96_d a /\ fits g96_w g96_d b /\ fits g96_w g96_d c /\
    g96_read_line (g96_write_line label [a; b; c]) <>
    (label, [Some (round_d g96_d (snd a)); Some (round_d g96_d (snd b)); Some (round_d g96_d (snd c))]).
Proof. exact g96_width_guard_necessary. Qed.
Print Assumptions C19_g96_width_guard_necessary.

(* box line (3 or 9 fields, no separator written, read with split()) *)
Theorem C19_g96_box_roundtrip : forall xs, Forall (fits_strict g96_box9_w g96_box9_d) (tl xs) ->
  read_floats (g96_write_box xs) = map (fun v => Some (round_d g96_box9_d (snd v))) xs.
Proof. exact g96_box_roundtrip. Qed.
Print Assumptions C19_g96_box_roundtrip.

Example C19_ex_g96 :
  fits g96_w g96_d (true, 0%Q) /\ fits g96_w g96_d (false, 99999 # 1) /\
  Forall (fits_strict g96_box9_w g96_box9_d) (tl [(false, 3 # 1); (false, 7 # 2); (false, 4 # 1)]).
Proof. split; [reflexivity|]. split; [reflexivity|]. repeat constructor. Qed.

(* ------------------------------------------------------------------ extended xyz *)

(* every magnitude round-trips: the fields are blank separated *)
Theorem C19_xyz_roundtrip : forall name xs, no_space name -> name <> [] -> xs <> [] ->
  xyz_read_line (xyz_write_line name xs) = Some (name, map (fun v => Some (round_d xyzv_d (snd v))) xs).
Proof. exact xyz_line_roundtrip. Qed.
Print Assumptions C19_xyz_roundtrip.

Theorem C19_xyz_box_roundtrip : forall xs,
  read_floats (xyz_write_box xs) = map (fun v => Some (round_d xyz_box_d (snd v))) xs.
Proof. exact xyz_box_roundtrip. Qed.
Print Assumptions C19_xyz_box_roundtrip.

Example C19_ex_xyz : no_space [72; 101] /\ [72; 101] <> [] /\
  xyz_read_line (xyz_write_line [72; 101] [(false, 123456789012 # 1)]) =
  Some ([72; 101], [Some (123456789012000000000 # 1000000000)]).
Proof. split; [reflexivity|]. split; [discriminate|]. vm_compute. reflexivity. Qed.

(* ------------------------------------------------------------------ lammpstrj *)

(* genfromtxt(skip_header = bs*k+5 / bs*k+9, max_rows = 3 / n): the rows of frame k *)
Theorem C19_lammpstrj_frame_k : forall (L : Type) (fs : list (lframe L)) n k f,
  Forall (lf_ok n) fs -> nth_error fs k = Some f ->
  lmp_frame_rows (concat (map lf_block fs)) k n = (lf_box f, lf_atoms f).
Proof. exact @lmp_frame_k. Qed.
Print Assumptions C19_lammpstrj_frame_k.

(* whatever order the atoms were written in, the reader returns them in the one id-sorted
   order (ids distinct); the number tokens themselves are numpy's shortest round-trip
   decimals and are not modelled *)
Theorem C19_lammpstrj_roundtrip_partial : forall (A : Type) (key : A -> Z) l p,
  StronglySorted (fun x y => key x < key y) l -> Permutation p l -> sort_by key p = l.
Proof. exact @sort_by_canonical. Qed.
Print Assumptions C19_lammpstrj_roundtrip_partial.

Example C19_ex_lammpstrj :
  lmp_read_rows (combine [0; 0; 0; 0; 0; 0; 0; 0; 0; 2; 1] (seq 0 11)) 0 2 = ([5; 6; 7], [10; 9])%nat.
Proof. reflexivity. Qed.

(* ------------------------------------------------------------------ reversing velocities *)

Theorem C19_reverse_only_velocities : forall c,
  c_ids (reverse_velocities c) = c_ids c /\ c_pos (reverse_velocities c) = c_pos c /\
  c_box (reverse_velocities c) = c_box c /\ c_vel (reverse_velocities c) = map (map Qopp) (c_vel c).
Proof. exact reverse_only_velocities. Qed.
Print Assumptions C19_reverse_only_velocities.

Theorem C19_reverse_twice : forall c,
  Forall2 (Forall2 Qeq) (c_vel (reverse_velocities (reverse_velocities c))) (c_vel c) /\
  c_ids (reverse_velocities (reverse_velocities c)) = c_ids c /\
  c_pos (reverse_velocities (reverse_velocities c)) = c_pos c /\
  c_box (reverse_velocities (reverse_velocities c)) = c_box c.
Proof. exact reverse_twice. Qed.
Print Assumptions C19_reverse_twice.

(* on the file: printing the negated value and reading it back gives the negated rounded
   value (rounding is symmetric), so a reversed file differs in the velocity signs only *)
Theorem C19_reverse_in_file : forall w d nz x,
  exists q, parse_fixed (print_fixed w d nz (- x)) = Some q /\ (q == - round_d d x)%Q.
Proof. exact print_negated_parses_negated. Qed.
Print Assumptions C19_reverse_in_file.

(* ------------------------------------------------------------------ frame k is frame k *)

Theorem C19_extract_frame_xyz : forall (L : Type) (count_of : L -> option nat) fs k,
  Forall (xf_ok count_of) fs ->
  xyz_extract count_of (concat (map xf_block fs)) k = option_map xf_snap (nth_error fs k).
Proof. exact @xyz_extract_frame_k. Qed.
Print Assumptions C19_extract_frame_xyz.

Theorem C19_extract_frame_trr : forall fs k f, Forall frame_sized fs -> nth_error fs k = Some f ->
  trr_frame_at (S (length fs)) k (concat (map (fun f => encode_frame (fst f) (snd f)) fs)) = Some f.
Proof. exact trr_frame_at_k. Qed.
Print Assumptions C19_extract_frame_trr.

Example C19_ex_frames :
  xyz_frame [[49; 10]; [35; 10]; [72; 32; 49; 32; 50; 32; 51; 10]; [49; 10]; [35; 10]; [79; 32; 52; 32; 53; 32; 54; 10]] 1 =
  Some ([35], [Some ([79], [Some (4 # 1)%Q; Some (5 # 1)%Q; Some (6 # 1)%Q])]).
Proof. vm_compute. reflexivity. Qed.

(* ------------------------------------------------------------------ extraction histories
   dump_config / _extract_frame of every engine as an operation on the worker directory
   (model/CodecM.v section G): the output is opened for writing, so
   extract files src k out = files[out := [frame k of src]]. *)

(* one extraction: the output holds exactly one snapshot, frame k of the source as it was
   before the operation (src = out included); no other file changes *)
Theorem C19_extract_overwrites : forall (F : Type) (d : fx_dir F) src k out d',
  fx_extract d src k out = Some d' ->
  exists f, fx_frame d src k = Some f /\ fx_get d' out = Some [f] /\ fx_read d' out = Some f /\
            forall n, n <> out -> fx_get d' n = fx_get d n.
Proof. exact @fx_extract_spec. Qed.
Print Assumptions C19_extract_overwrites.

(* what the output file held before - nothing, a stale frame, a whole trajectory, junk - has
   no influence on any file after the extraction *)
Theorem C19_extract_old_content_irrelevant : forall (F : Type) (d : fx_dir F) src k out c n, src <> out ->
  option_map (fun d' => fx_get d' n) (fx_extract (fx_set d out c) src k out) =
  option_map (fun d' => fx_get d' n) (fx_extract d src k out).
Proof. exact @fx_old_content_irrelevant. Qed.
Print Assumptions C19_extract_old_content_irrelevant.

(* any history (any number of extractions, any sources - earlier outputs included -, any
   output names, any initial directory): the output of an extraction that no later
   operation overwrote holds exactly the frame that extraction took, and the reader
   (first snapshot) returns it *)
Theorem C19_extract_history : forall (F : Type) pre o post (d d' : fx_dir F),
  fx_run d (pre ++ o :: post) = Some d' -> Forall (fun o' => o_out o' <> o_out o) post ->
  exists d1 f, fx_run d pre = Some d1 /\ fx_frame d1 (o_src o) (o_k o) = Some f /\
               fx_get d' (o_out o) = Some [f] /\ fx_read d' (o_out o) = Some f.
Proof. exact @fx_run_history. Qed.
Print Assumptions C19_extract_history.

(* in particular: after ANY sequence of extractions, reading the output of the last one
   returns the frame of the last one *)
Theorem C19_extract_history_last : forall (F : Type) ops o (d d' : fx_dir F),
  fx_run d (ops ++ [o]) = Some d' ->
  exists d1 f, fx_run d ops = Some d1 /\ fx_frame d1 (o_src o) (o_k o) = Some f /\
               fx_get d' (o_out o) = Some [f] /\ fx_read d' (o_out o) = Some f.
Proof. exact @fx_run_last. Qed.
Print Assumptions C19_extract_history_last.

(* files that no operation writes to (the source trajectories) keep their content *)
Theorem C19_extract_history_untouched : forall (F : Type) ops (d d' : fx_dir F) n,
  fx_run d ops = Some d' -> Forall (fun o => o_out o <> n) ops -> fx_get d' n = fx_get d n.
Proof. exact @fx_run_untouched. Qed.
Print Assumptions C19_extract_history_untouched.

(* the per-operation trace the correspondence runner prints ends in the state of the run *)
Theorem C19_extract_trace_is_run : forall (F : Type) ops (d d' : fx_dir F),
  fx_run d ops = Some d' -> ops <> [] -> last (fx_trace d ops) None = Some d'.
Proof. exact @fx_trace_run. Qed.
Print Assumptions C19_extract_trace_is_run.

(* opening the output for appending (the default of write_xyz_trajectory) is refuted by two
   extractions into one name: the reader returns the frame of the first *)
Theorem C19_extract_append_refuted : exists (d d' : fx_dir nat) o1 o2 f,
  fx_run_append d [o1; o2] = Some d' /\ o_out o1 = o_out o2 /\
  fx_frame d (o_src o2) (o_k o2) = Some f /\ fx_read d' (o_out o2) <> Some f /\
  fx_get d' (o_out o2) <> Some [f].
Proof. exact fx_append_refuted. Qed.
Print Assumptions C19_extract_append_refuted.

(* text level (extended xyz): the file written for frame f reads back as the one snapshot f;
   with a stale frame in front of it the reader returns the stale one *)
Theorem C19_extract_xyz_text : forall (L : Type) (count_of : L -> option nat) (f : xframe),
  xf_ok count_of f ->
  xyz_extract count_of (concat (map xf_block [f])) 0 = Some (xf_snap f) /\
  read_snapshots count_of (concat (map xf_block [f])) = Some [xf_snap f].
Proof. exact @fx_xyz_text. Qed.
Print Assumptions C19_extract_xyz_text.

Theorem C19_extract_xyz_text_appended : forall (L : Type) (count_of : L -> option nat) (stale f : xframe),
  xf_ok count_of stale -> xf_ok count_of f ->
  xyz_extract count_of (concat (map xf_block [stale; f])) 0 = Some (xf_snap stale).
Proof. exact @fx_xyz_text_appended. Qed.
Print Assumptions C19_extract_xyz_text_appended.

(* a history of four extractions: into a file holding a stale trajectory, again into it,
   from it into a new name, and once more into it *)
Example C19_ex_history :
  fx_run [(0, [10; 11; 12]); (2, [98; 99])]%nat [mkOp 0 2 2; mkOp 0 0 2; mkOp 2 0 3; mkOp 0 1 2] =
  Some [(0, [10; 11; 12]); (2, [11]); (3, [10])]%nat /\
  fx_run_append [(0, [10; 11; 12]); (2, [98; 99])]%nat [mkOp 0 2 2; mkOp 0 0 2; mkOp 2 0 3; mkOp 0 1 2] =
  Some [(0, [10; 11; 12]); (2, [98; 99; 12; 10; 11]); (3, [98])]%nat.
Proof. split; reflexivity. Qed.

(* ------------------------------------------------------------------ swap_integer, TRR *)

Theorem C19_swap_integer_bytes : forall x, swap_integer x = u_of_be (rev (be32 x)).
Proof. exact swap_integer_bytes. Qed.
Print Assumptions C19_swap_integer_bytes.

Theorem C19_swap_integer_involutive : forall x, 0 <= x < 2 ^ 32 -> swap_integer (swap_integer x) = x.
Proof. exact swap_integer_involutive. Qed.
Print Assumptions C19_swap_integer_involutive.

Theorem C19_swap_integer_twice : forall x, swap_integer (swap_integer x) = x mod 2 ^ 32.
Proof. exact swap_integer_twice. Qed.
Print Assumptions C19_swap_integer_twice.

(* header and whole frame: decode (encode h d) = (h, d) for either byte order and either
   precision (h_endian, h_double are fields of h and are universally quantified) *)
Theorem C19_trr_header_roundtrip : forall h rest,
  header_ok h -> decode_header (encode_header h ++ rest) = Ok (h, rest).
Proof. exact trr_header_roundtrip. Qed.
Print Assumptions C19_trr_header_roundtrip.

Theorem C19_trr_decode_encode : forall h d rest, frame_ok h d ->
  decode_frame (encode_frame h d ++ rest) = Ok (h, d, rest).
Proof. exact trr_frame_roundtrip. Qed.
Print Assumptions C19_trr_decode_encode.

Theorem C19_trr_endian_independent : forall ints t l dbl rest,
  header_ok (mkH ints t l BE dbl) ->
  exists hb hl, decode_header (encode_header (mkH ints t l BE dbl) ++ rest) = Ok (hb, rest) /\
                decode_header (encode_header (mkH ints t l LE dbl) ++ rest) = Ok (hl, rest) /\
                h_ints hb = h_ints hl /\ h_time hb = h_time hl /\ h_lambda hb = h_lambda hl /\
                h_double hb = h_double hl /\ h_endian hb = BE /\ h_endian hl = LE.
Proof. exact trr_header_endian_independent. Qed.
Print Assumptions C19_trr_endian_independent.

(* precision detection: a writer of 4-byte (8-byte) reals is recognised as single (double) *)
Theorem C19_trr_precision_from_box : forall ints sz, sz = 4 \/ sz = 8 ->
  geti ints trr_i_box_size = trr_dim ^ 2 * sz -> is_double ints = Some (sz =? 8).
Proof. exact is_double_from_box. Qed.
Print Assumptions C19_trr_precision_from_box.

Theorem C19_trr_precision_from_x : forall ints sz n, sz = 4 \/ sz = 8 -> 0 < n ->
  geti ints trr_i_box_size = 0 -> geti ints trr_i_natoms = n -> geti ints trr_i_x_size = n * trr_dim * sz ->
  is_double ints = Some (sz =? 8).
Proof. exact is_double_from_x. Qed.
Print Assumptions C19_trr_precision_from_x.

Example C19_ex_trr :
  let ints := [0; 0; 36; 0; 0; 0; 0; 12; 0; 0; 1; 7; 0] in
  let h e := mkH ints [63; 128; 0; 0] [0; 0; 0; 0] e false in
  let d := [Some (repeat [64; 0; 0; 0] 9); None; None; Some (repeat [63; 0; 0; 0] 3); None; None] in
  header_ok (h LE) /\ frame_ok (h BE) d /\ frame_sized (h LE, d) /\
  decode_frame (encode_frame (h LE) d) = Ok (h LE, d, []).
Proof.
  cbv zeta. split; [|split; [|split]].
  - repeat split; try reflexivity. repeat constructor; unfold i32; lia.
  - split; [repeat split; try reflexivity; repeat constructor; unfold i32; lia|].
    repeat constructor; try discriminate; try reflexivity.
  - split; [split; [repeat split; try reflexivity; repeat constructor; unfold i32; lia|
                    repeat constructor; try discriminate; try reflexivity]|].
    repeat constructor.
  - vm_compute. reflexivity.
Qed.

(* ------------------------------------------------------------------ mdp templates *)

(* line i stays line i: rewritten iff its key is requested (the text before the delimiter
   is kept), byte-identical otherwise; only when keys are appended the last line is
   terminated; the appended lines are exactly the requested keys no line had, once each *)
Theorem C19_mdp_edit_exact : forall s ls, NoDup (map fst s) ->
  (forall i l, nth_error ls i = Some l ->
     nth_error (mdp_edit_lines s ls) i =
     Some (if negb (is_nil (missing mdp_key s ls)) && (S i =? length ls)%nat
           then mdp_fin (mdp_line_after s l) else mdp_line_after s l)) /\
  skipn (length ls) (mdp_edit_lines s ls) = map (fun kv => mdp_newl (fst kv) (snd kv)) (missing mdp_key s ls) /\
  (forall k v, In (k, v) (missing mdp_key s ls) <-> In (k, v) s /\ forall l, In l ls -> mdp_key l <> Some k) /\
  NoDup (map fst (missing mdp_key s ls)).
Proof. exact mdp_edit_exact. Qed.
Print Assumptions C19_mdp_edit_exact.

Theorem C19_mdp_requested_present : forall s ls k v, mdp_settings_ok s -> In (k, v) s ->
  exists l, In l (mdp_edit_lines s ls) /\ mdp_key l = Some k.
Proof. exact mdp_all_present. Qed.
Print Assumptions C19_mdp_requested_present.

(* read back with _read_input_settings: the requested value *)
Theorem C19_mdp_value_replaced : forall l k v, mdp_key l = Some k -> no_char c_eq v ->
  mdp_value (mdp_repl l v) = strip v.
Proof. exact mdp_repl_value. Qed.
Print Assumptions C19_mdp_value_replaced.

Theorem C19_mdp_value_appended : forall k v, mdp_okkv k v -> no_char c_eq v -> mdp_value (mdp_newl k v) = strip v.
Proof. exact mdp_newl_value. Qed.
Print Assumptions C19_mdp_value_appended.

(* on the whole file text *)
Theorem C19_mdp_edit_idempotent : forall s text, mdp_settings_ok s ->
  mdp_edit s (mdp_edit s text) = mdp_edit s text.
Proof. exact mdp_edit_idempotent. Qed.
Print Assumptions C19_mdp_edit_idempotent.

Theorem C19_mdp_edit_nothing : forall text, mdp_edit [] text = text.
Proof. exact mdp_edit_nothing. Qed.
Print Assumptions C19_mdp_edit_nothing.

Example C19_ex_mdp :
  let s := [([100; 116], [50])] in
  mdp_settings_ok s /\ mdp_edit s [97; 61; 49] = [97; 61; 49; 10; 100; 116; 32; 61; 32; 50; 10].
Proof.
  cbv zeta. split; [|vm_compute; reflexivity]. split; [repeat constructor; intros []|].
  repeat constructor; cbn; try reflexivity; intros H; cbn in H; intuition discriminate.
Qed.

(* ------------------------------------------------------------------ CP2K data lines *)

Theorem C19_cp2k_update_exact : forall data ls, NoDup (map fst data) ->
  (forall i l, nth_error ls i = Some l -> nth_error (cp2k_update_data data ls) i = Some (cp2k_line_after data l)) /\
  skipn (length ls) (cp2k_update_data data ls) =
    map (fun kv => cp2k_fmt (fst kv) (snd kv)) (missing first_token data ls) /\
  (forall k v, In (k, v) (missing first_token data ls) <->
               In (k, v) data /\ forall l, In l ls -> first_token l <> Some k) /\
  NoDup (map fst (missing first_token data ls)).
Proof. exact cp2k_update_exact. Qed.
Print Assumptions C19_cp2k_update_exact.

Theorem C19_cp2k_update_idempotent : forall data ls, cp2k_settings_ok data ->
  cp2k_update_data data (cp2k_update_data data ls) = cp2k_update_data data ls.
Proof. exact cp2k_update_idempotent. Qed.
Print Assumptions C19_cp2k_update_idempotent.

(* a section created from a dict is a fixed point of updating with the same dict *)
Theorem C19_cp2k_new_fixed_point : forall data, cp2k_settings_ok data ->
  cp2k_update_data data (cp2k_new_data data) = cp2k_new_data data.
Proof. exact cp2k_new_fixed_point. Qed.
Print Assumptions C19_cp2k_new_fixed_point.

(* the constructor that keeps list(dict) -- the keys only -- is not *)
Theorem C19_cp2k_keys_only_constructor_refuted : exists data, cp2k_settings_ok data /\
  cp2k_update_data data (cp2k_new_data_unrepaired data) <> cp2k_new_data_unrepaired data.
Proof. exact cp2k_unrepaired_new_refuted. Qed.
Print Assumptions C19_cp2k_keys_only_constructor_refuted.

(* ------------------------------------------------------------------ CP2K section trees *)

(* update_node on an existing target (dict data, nothing appended to the settings): in the
   depth-first list of all sections only the target's data changes -- by the data-line edit
   above --, every other section (same-named siblings included), the order and the nesting
   stay as they were, and the path dictionary a second run would build is the same *)
Theorem C19_cp2k_tree_update_exact : forall st u i ss,
  upd_plain u -> lookup (u_target u) (t_refs st) = Some (i, ss) ->
  exists st', cp2k_update1 st u = Some st' /\
    flat_map flat (t_roots st') = map (upd_entry i (data_edit u)) (flat_map flat (t_roots st)) /\
    map shape (t_roots st') = map shape (t_roots st) /\
    t_refs st' = t_refs st /\ cp2k_refs (t_roots st') = cp2k_refs (t_roots st).
Proof. exact cp2k_tree_update_exact. Qed.
Print Assumptions C19_cp2k_tree_update_exact.

Theorem C19_cp2k_tree_update_idempotent : forall st u i ss st',
  upd_plain u -> cp2k_settings_ok (u_data u) ->
  lookup (u_target u) (t_refs st) = Some (i, ss) -> cp2k_update1 st u = Some st' ->
  cp2k_update1 st' u = Some st'.
Proof. exact cp2k_tree_update_idempotent. Qed.
Print Assumptions C19_cp2k_tree_update_idempotent.

Theorem C19_cp2k_tree_replace_idempotent : forall st u i ss st', u_replace u = true ->
  lookup (u_target u) (t_refs st) = Some (i, ss) -> cp2k_update1 st u = Some st' ->
  cp2k_update1 st' u = Some st'.
Proof. exact cp2k_tree_replace_idempotent. Qed.
Print Assumptions C19_cp2k_tree_replace_idempotent.

(* the text written for a forest of sections reads back as the same forest (titles,
   settings, data lines, nesting, order): comparing outputs as trees is comparing outputs *)
Theorem C19_cp2k_read_print : forall roots, Forall wf_node roots ->
  exists nx roots', cp2k_read (cp2k_print roots) = Some (nx, roots') /\ map unid roots' = map unid roots.
Proof. exact cp2k_read_print. Qed.
Print Assumptions C19_cp2k_read_print.

Example C19_ex_cp2k_wf :
  wf_node (Node 7 [77; 68] [[79; 78]] [[83; 84; 69; 80; 83; 32; 53]] [Node 9 [69; 65; 67; 72] [] [[77; 68; 32; 49]] []]).
Proof.
  assert (T : forall t, no_space t -> t <> [] -> tok t) by (intros; split; assumption).
  constructor; try reflexivity.
  - apply T; [reflexivity|discriminate].
  - repeat constructor; discriminate.
  - repeat constructor; discriminate.
  - constructor; [|constructor]. constructor; try reflexivity.
    + apply T; [reflexivity|discriminate].
    + constructor.
    + repeat constructor; discriminate.
    + constructor.
Qed.

(* "&A" / "&B x" / "K 1" / "&END B" / "&B y" / "K 2" / "&END B" / "&END A", target A->B->y, K := 9 *)
Example C19_ex_cp2k_tree :
  let ls := [[38; 65]; [38; 66; 32; 120]; [75; 32; 49]; [38; 69; 78; 68; 32; 66]; [38; 66; 32; 121]; [75; 32; 50];
             [38; 69; 78; 68; 32; 66]; [38; 69; 78; 68; 32; 65]] in
  let u := mkU [65; 45; 62; 66; 45; 62; 121] [] false true [([75], Some [57])] [] in
  upd_plain u /\ cp2k_settings_ok (u_data u) /\
  cp2k_apply ls [u] [] =
  Some [[38; 65]; [32; 32; 38; 66; 32; 120]; [32; 32; 32; 32; 75; 32; 49]; [32; 32; 38; 69; 78; 68; 32; 66];
        [32; 32; 38; 66; 32; 121]; [32; 32; 32; 32; 75; 32; 57]; [32; 32; 38; 69; 78; 68; 32; 66]; [38; 69; 78; 68; 32; 65]].
Proof.
  cbv zeta. split; [split; reflexivity|]. split; [|vm_compute; reflexivity].
  split; [repeat constructor; intros []|]. repeat constructor; discriminate.
Qed.

(* ------------------------------------------------------------------ LAMMPS variables *)

Theorem C19_lammps_subst_exact : forall s l i p, nth_error l i = Some p ->
  nth_error (lmp_subst_line s l) i =
  Some (match (if fst p then lookup (snd p) s else None) with Some v => (true, v) | None => p end).
Proof. exact lmp_subst_exact. Qed.
Print Assumptions C19_lammps_subst_exact.

Theorem C19_lammps_output_free : forall s l t, lmp_settings_ok s ->
  In t (line_tokens (lmp_subst_line s l)) -> lookup t s = None.
Proof. exact lmp_output_free. Qed.
Print Assumptions C19_lammps_output_free.

Theorem C19_lammps_missing : forall s ls k, In k (snd (lmp_write_for_run s ls)) <->
  In k (map fst s) /\ forall l, In l ls -> ~ In k (line_tokens l).
Proof. exact lmp_missing_spec. Qed.
Print Assumptions C19_lammps_missing.

Theorem C19_lammps_second_application : forall s ls, lmp_settings_ok s ->
  lmp_write_for_run s (fst (lmp_write_for_run s ls)) = (fst (lmp_write_for_run s ls), map fst s).
Proof. exact lmp_second_application. Qed.
Print Assumptions C19_lammps_second_application.

Example C19_ex_lammps :
  let s := [([118; 49], [53])] in
  lmp_settings_ok s /\
  lmp_write_for_run s [[(true, [120]); (false, [32]); (true, [118; 49]); (false, [10])]] =
  ([[(true, [120]); (false, [32]); (true, [53]); (false, [10])]], []).
Proof.
  cbv zeta. split; [|reflexivity]. split; [repeat constructor; intros []|].
  intros k v [H|[]]. inversion H; subst. reflexivity.
Qed.

(* ---- the code as written: `if var in line.split(): line = line.replace(var, value)`.
   [lmp_write_for_run] above is the whole-word substitution the property asks for ("exactly
   the requested entries"); [lmp_impl_write_for_run] is what the code does (str.replace on the
   running text of every line one of whose words is the variable, in dictionary order).  Key
   sets with prefix / suffix / substring relations, template words, comments and file names
   that contain variable names, values that contain variable names: *)

(* a line none of whose WORDS is a requested variable is written back unchanged, whatever
   its words contain as substrings *)
Theorem C19_lammps_impl_no_word_untouched : forall s l,
  (forall k, In k (map fst s) -> ~ In k (line_tokens l)) -> lmp_impl_line s l = l.
Proof. exact lmp_impl_no_word_untouched. Qed.
Print Assumptions C19_lammps_impl_no_word_untouched.

(* on a clean line (a variable that is a word of the line occurs, when its turn comes, in no
   other word still standing and in no value written before it on this line) the code IS the
   whole-word substitution, so C19_lammps_subst_exact / _output_free apply to it *)
Theorem C19_lammps_impl_whole_word : forall s l,
  lmp_line_clean s l = true -> lmp_impl_line s l = lmp_subst_line s l.
Proof. exact lmp_impl_whole_word. Qed.
Print Assumptions C19_lammps_impl_whole_word.

Theorem C19_lammps_impl_write_whole_word : forall s ls, forallb (lmp_line_clean s) ls = true ->
  lmp_impl_write_for_run s ls = lmp_write_for_run s ls.
Proof. exact lmp_impl_write_whole_word. Qed.
Print Assumptions C19_lammps_impl_write_whole_word.

(* idempotent: the second application changes nothing and reports every variable missing *)
Theorem C19_lammps_impl_second_application : forall s ls,
  lmp_settings_ok s -> forallb (lmp_line_clean s) ls = true ->
  lmp_impl_write_for_run s (fst (lmp_impl_write_for_run s ls)) = (fst (lmp_impl_write_for_run s ls), map fst s).
Proof. exact lmp_impl_second_application. Qed.
Print Assumptions C19_lammps_impl_second_application.

(* the guard is needed ({n: 3, ns: 5} on the line "n ns" gives "3 3s"): recorded finding *)
Theorem C19_lammps_same_line_refuted : exists s l,
  lmp_settings_ok s /\ lmp_line_clean s l = false /\ lmp_impl_line s l <> lmp_subst_line s l.
Proof. exact lmp_impl_same_line_refuted. Qed.
Print Assumptions C19_lammps_same_line_refuted.

(* matching variables as substrings of the line (`if var in line`) is refuted on a clean line
   that the code as written leaves alone *)
Theorem C19_lammps_substring_match_refuted : exists s l,
  lmp_settings_ok s /\ lmp_line_clean s l = true /\ lmp_impl_line s l = l /\ lmp_substr_line s l <> lmp_subst_line s l.
Proof. exact lmp_substring_match_refuted. Qed.
Print Assumptions C19_lammps_substring_match_refuted.

(* prefix-related keys {n: 3, ns: 5} (in this order), a word and a comment containing them:
   the line "ns xn #n" is clean and only the word ns changes *)
Example C19_ex_lammps_prefix_keys :
  let s := [([110], [51]); ([110; 115], [53])] in
  let l := [(true, [110; 115]); (false, [32]); (true, [120; 110]); (false, [32]); (true, [35; 110])] in
  lmp_settings_ok s /\ lmp_line_clean s l = true /\
  lmp_impl_line s l = [(true, [53]); (false, [32]); (true, [120; 110]); (false, [32]); (true, [35; 110])].
Proof.
  cbv zeta. split; [|split; reflexivity]. split.
  - repeat constructor; cbn; intuition discriminate.
  - intros k v [H|[H|[]]]; inversion H; subst; reflexivity.
Qed.
