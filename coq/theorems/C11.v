(* Property C11 — zero swaps exchange the crossing frames and are reversible.
   This file only restates results proved in proofs/SwapP.v about the model model/SwapM.v
   (retis_swap_zero / quantis_swap_zero over the current stop rule of add_to_path), so that
   the statements cannot be weakened silently; each is followed by Print Assumptions.
   All theorems are unbounded: any paths, interface values, length limits, engine streams,
   draws and energies.  Engines are inputs: [streams] = the frames the k-th propagate call
   yields (first = the engine's frame for the phase point it was started from); the engine
   OBJECT each call is made on is an output of the model ([c_eng]: E0 = engines[-1][0], the
   [0-] engine; E1 = engines[0][0], the [0+] engine).  The reversibility theorems come in two
   forms: one dynamics for both ensembles, and two different dynamics (T0, R0) / (T1, R1).
   The two length limits are separate inputs: e_maxlen e0 = tis_set["maxlength"] of [0-],
   e_maxlen e1 = that of [0+]; both moves size and measure each new path with the limit of that
   path's OWN ensemble.  Validity, limit, rejection-status and reversibility theorems hold for
   EVERY pair of limits.  That is the code after proposed_fixes/C11_zero_swap_own_limits.diff; the
   code before it (SwapM.retis_swap_zero_before_fix / quantis_swap_zero_before_fix = the same
   functions at fixed = false: backward container of retis_swap_zero sized with the [0+] limit,
   quantis_swap_zero reading the [0-] limit for both paths) is refuted by the two
   ..._limit_order_refuted witnesses below and coincides with the code when the limits are equal
   (C11_before_fix_same_on_equal_limits). *)
From Coq Require Import ZArith QArith List Bool Lia.
Import ListNotations.
From Inf Require Import model.PathM model.EngineM model.WeightM model.SwapM proofs.PathP proofs.SwapP.
From Inf Require model.MovesM.
Open Scope Z_scope.

(* ------------------------------------------------------------------ the stop rule the swap is modelled over *)

(* the engine calls of the swap model use the repaired rule of MovesM (= /repo's add_to_path
   with "path.length == path.maxlen and not success"): on a path with room, a frame is added,
   success = the frame is beyond an interface, stop = success or the limit is reached *)
Theorem C11_stop_rule : forall p f l r,
  (plen p < maxlen p)%nat ->
  MovesM.add_to_path_g true p f l r =
  Some (mkP (pts p ++ [f]) (maxlen p) (torigin p),
        crossedb l r f, crossedb l r f || (S (plen p) =? maxlen p)%nat, true).
Proof. exact add_to_path_room. Qed.
Print Assumptions C11_stop_rule.

(* the swap never reads the success flag of propagate, so the model is the same function over
   the rule as it was before the repair of add_to_path (EngineM.propagate) *)
Theorem C11_stop_rule_irrelevant : forall who p streams init rv l r,
  engine_call who p streams init rv l r =
  match streams with
  | [] => Err EExhausted
  | [] :: _ => Err EExhausted
  | (f :: tl) :: rest =>
      match propagate p f tl l r with
      | PR p' _ n => Ok (p', rest, mkCall who init rv l r (maxlen p) n)
      | PRExhausted _ => Err EExhausted
      | PRError => Err ERaise
      end
  end.
Proof. exact engine_call_rule_irrelevant. Qed.
Print Assumptions C11_stop_rule_irrelevant.

(* ------------------------------------------------------------------ junction identity *)

(* Frame identities.  On ACC: old[0+] = f10 :: f11 :: _, old[0-] = _ ++ [f0m2; f0l]; exactly two
   engine calls were made, from copies of f10 (reverse) and of f0l (forward); with g0, g1 the
   engines' own first frames for these phase points, the new [0-] path ends with
   [g0; dumped copy of f11] and the new [0+] path starts with [dumped copy of f0m2; g1]. *)
Theorem C11_swap_junction_frames : forall dumpf e0 e1 old0 old1 streams draws sp0 sp1 st calls nd,
  retis_swap_zero dumpf e0 e1 old0 old1 streams draws = Out true sp0 sp1 st calls nd ->
  exists f10 f11 tl1 pre0 f0m2 f0l g0 r0 g1 r1 rest back forw,
    pts (sp_path old1) = f10 :: f11 :: tl1 /\ pts (sp_path old0) = pre0 ++ [f0m2; f0l] /\
    streams = (g0 :: r0) :: (g1 :: r1) :: rest /\
    pts (sp_path sp0) = back ++ [g0; dump dumpf DSecond f11] /\
    map erase (pts (sp_path sp1)) = erase (dump dumpf DSecondLast f0m2) :: erase g1 :: forw /\
    map c_init calls = [copy_frame 0 f10; copy_frame 0 f0l] /\ map c_rev calls = [true; false].
Proof. exact retis_swap_junction_frames. Qed.
Print Assumptions C11_swap_junction_frames.

(* Order parameters.  If every engine call's first frame carries the order parameter of the
   phase point it was started from (propagate contract, C12), the new [0-] path ends with the
   first two order values of the old [0+] path and the new [0+] path starts with the last two
   order values of the old [0-] path. *)
Theorem C11_swap_junction : forall dumpf e0 e1 old0 old1 streams draws sp0 sp1 st calls nd,
  retis_swap_zero dumpf e0 e1 old0 old1 streams draws = Out true sp0 sp1 st calls nd ->
  first_frame_honest streams calls ->
  lastn 2 (orders (sp_path sp0)) = firstn 2 (orders (sp_path old1)) /\
  firstn 2 (orders (sp_path sp1)) = lastn 2 (orders (sp_path old0)).
Proof. exact retis_swap_junction. Qed.
Print Assumptions C11_swap_junction.

(* Which engine object produced which frames.  An accepted swap made its first propagate call on
   engine0 (the [0-] engine), backward from a copy of old[0+][0], and its second on engine1 (the
   [0+] engine), forward from a copy of old[0-][-1]; every frame of the new [0-] path except the
   last (the shared point old[0+][1]) is a frame of the first call's answer, every frame of the
   new [0+] path except the first (the shared point old[0-][-2]) a frame of the second call's. *)
Theorem C11_swap_engines : forall dumpf e0 e1 old0 old1 streams draws sp0 sp1 st calls nd,
  retis_swap_zero dumpf e0 e1 old0 old1 streams draws = Out true sp0 sp1 st calls nd ->
  exists f10 f11 tl1 pre0 f0m2 f0l s0 s1 rest k0 k1,
    pts (sp_path old1) = f10 :: f11 :: tl1 /\ pts (sp_path old0) = pre0 ++ [f0m2; f0l] /\
    streams = s0 :: s1 :: rest /\
    map c_eng calls = [E0; E1] /\ map c_rev calls = [true; false] /\ map c_used calls = [k0; k1] /\
    map c_init calls = [copy_frame 0 f10; copy_frame 0 f0l] /\
    pts (sp_path sp0) = rev (firstn k0 s0) ++ [dump dumpf DSecond f11] /\
    map erase (pts (sp_path sp1)) = erase (dump dumpf DSecondLast f0m2) :: map erase (firstn k1 s1).
Proof. exact retis_swap_engines. Qed.
Print Assumptions C11_swap_engines.

(* Everything an accepted swap determines (lengths, stop indices, statuses, the two calls). *)
Theorem C11_swap_accepted_shape : forall dumpf e0 e1 old0 old1 streams draws sp0 sp1 st calls nd,
  retis_swap_zero dumpf e0 e1 old0 old1 streams draws = Out true sp0 sp1 st calls nd ->
  st = ACC /\ sp_status sp0 = ACC /\ sp_status sp1 = ACC /\
  retis_acc_shape dumpf e0 e1 (sp_path old0) (sp_path old1) (sp_path sp0) (sp_path sp1) streams calls.
Proof. exact retis_acc_struct. Qed.
Print Assumptions C11_swap_accepted_shape.

(* Conversely these conditions are sufficient (no wire fencing in either ensemble): the old
   [0-] path ends on the right and the early exit does not apply, the backward run stops at its
   k0-th frame and the forward run at its k1-th by crossing an interface, 2 <= k0, k0 + 1 below
   the [0-] limit, 2 <= k1, k1 + 1 below the [0+] limit (nothing else about the two limits), and
   the new [0-] path has no forbidden "L" end.  Then the move is accepted with exactly the
   paths of C11_swap_accepted_shape. *)
Theorem C11_swap_accepted_if : forall dumpf e0 e1 old0 old1 s0 s1 rest draws f10 f11 tl1 pre0 f0m2 f0l k0 k1,
  pts (sp_path old1) = f10 :: f11 :: tl1 ->
  pts (sp_path old0) = pre0 ++ [f0m2; f0l] ->
  end_point (sp_path old0) (e_i0 e0) (e_i2 e0) = Some SR ->
  lm1_early e0 (sp_path old0) = false ->
  stops_at (e_i0 e0) (e_i2 e0) s0 k0 -> (2 <= k0)%nat -> (k0 + 1 < e_maxlen e0)%nat ->
  stops_at (e_i0 e1) (e_i2 e1) s1 k1 -> (2 <= k1)%nat -> (k1 + 1 < e_maxlen e1)%nat ->
  (e_scL e0 = false ->
   has_L_start_end (mkP (rev (firstn k0 s0) ++ [dump dumpf DSecond f11]) (e_maxlen e0) 0) e0 = false) ->
  is_wf (e_move e0) || is_wf (e_move e1) = false ->
  exists path1,
    map erase (pts path1) = erase (dump dumpf DSecondLast f0m2) :: map erase (firstn k1 s1) /\
    maxlen path1 = e_maxlen e1 /\ torigin path1 = 0 /\
    retis_swap_zero dumpf e0 e1 old0 old1 (s0 :: s1 :: rest) draws =
    Out true (mkSP (mkP (rev (firstn k0 s0) ++ [dump dumpf DSecond f11]) (e_maxlen e0) 0) ACC 1)
             (mkSP path1 ACC 1) ACC
        [mkCall E0 (copy_frame 0 f10) true (e_i0 e0) (e_i2 e0) (e_maxlen e0 - 1) k0;
         mkCall E1 (copy_frame 0 f0l) false (e_i0 e1) (e_i2 e1) (e_maxlen e1 - 1) k1] 0.
Proof. exact retis_swap_complete. Qed.
Print Assumptions C11_swap_accepted_if.

(* ------------------------------------------------------------------ validity of both new paths *)

(* For ANY two length limits maxlength([0-]), maxlength([0+]): with ordered [0-]
   interfaces, and old paths whose junction frames lie on the proper side of lambda_0 (second
   frame of old[0+] >= lambda_0, second last of old[0-] <= lambda_0 — true for valid old paths):
   new [0-] = a :: mid ++ [b], at least 3 frames and fewer than the [0-] limit, a strictly outside
   [lambda_-1, lambda_0] (to the right unless "L" is an allowed start), every interior frame
   inside, b >= lambda_0;   new [0+] = a :: mid ++ [b], 3 <= length < the [0+] limit, a <= lambda_0,
   interior inside [lambda_0, lambda_N], b strictly outside. *)
Theorem C11_swap_valid : forall dumpf e0 e1 old0 old1 streams draws sp0 sp1 st calls nd,
  retis_swap_zero dumpf e0 e1 old0 old1 streams draws = Out true sp0 sp1 st calls nd ->
  e_i0 e0 <= e_i1 e0 <= e_i2 e0 ->
  (forall f10 f11 tl, pts (sp_path old1) = f10 :: f11 :: tl -> e_i2 e0 <= ford f11) ->
  (forall pre a b, pts (sp_path old0) = pre ++ [a; b] -> ford a <= e_i0 e1) ->
  (exists a mid b, orders (sp_path sp0) = a :: mid ++ [b] /\ mid <> [] /\
     (3 <= plen (sp_path sp0) < e_maxlen e0)%nat /\
     (a < e_i0 e0 \/ e_i2 e0 < a) /\ (e_scL e0 = false -> e_i2 e0 < a) /\
     (forall o, In o mid -> e_i0 e0 <= o <= e_i2 e0) /\ e_i2 e0 <= b) /\
  (exists a mid b, orders (sp_path sp1) = a :: mid ++ [b] /\ mid <> [] /\
     (3 <= plen (sp_path sp1) < e_maxlen e1)%nat /\
     a <= e_i0 e1 /\ (forall o, In o mid -> e_i0 e1 <= o <= e_i2 e1) /\
     (b < e_i0 e1 \/ e_i2 e1 < b)).
Proof. exact retis_swap_valid_move. Qed.
Print Assumptions C11_swap_valid.

(* ------------------------------------------------------------------ the two length limits *)

(* A swap that cannot complete a new path below that path's OWN limit is rejected with the
   corresponding status (MD allowed, no early exit, any two limits):
   - if none of the first maxlength([0-]) - 1 frames of the backward run lies beyond a [0-]
     interface, the new [0-] path fills its limit and the move is rejected with BTX;
   - if none of the first maxlength([0+]) - 1 frames of the forward run lies beyond a [0+]
     interface, the new [0+] path reaches its limit, gets status FTX and the move is rejected —
     with status FTX unless the [0-] path was already rejected (BTX, BTS, 0-L take precedence). *)
Theorem C11_swap_limit_reject : forall dumpf e0 e1 old0 old1 s0 s1 rest draws acc sp0 sp1 st calls nd,
  retis_swap_zero dumpf e0 e1 old0 old1 (s0 :: s1 :: rest) draws = Out acc sp0 sp1 st calls nd ->
  lm1_early e0 (sp_path old0) = false ->
  end_point (sp_path old0) (e_i0 e0) (e_i2 e0) = Some SR ->
  ((forall f, In f (firstn (e_maxlen e0 - 1) s0) -> crossedb (e_i0 e0) (e_i2 e0) f = false) ->
     acc = false /\ st = BTX /\ sp_status sp0 = BTX /\ plen (sp_path sp0) = e_maxlen e0) /\
  ((forall f, In f (firstn (e_maxlen e1 - 1) s1) -> crossedb (e_i0 e1) (e_i2 e1) f = false) ->
     acc = false /\ sp_status sp1 = FTX /\ (e_maxlen e1 <= plen (sp_path sp1))%nat /\
     (plen (sp_path sp0) = e_maxlen e0 /\ st = BTX \/
      plen (sp_path sp0) <> e_maxlen e0 /\ (st = FTX /\ sp_status sp0 = FTX \/ st = BTS \/ st = ZML))).
Proof. exact retis_swap_limit_reject. Qed.
Print Assumptions C11_swap_limit_reject.

(* The code BEFORE the repair (SwapM.retis_swap_zero_before_fix = retis_swap_zero_g false) sized the
   container of the backward run that builds the new [0-] path with the [0+] limit ("path_tmp =
   path_old1.empty_path(maxlen=maxlen1 - 1)"): with maxlength([0-]) > maxlength([0+]) a backward run cut
   off by the [0+] limit gave a [0-] path of maxlength([0+]) frames that is below ITS limit, got ACC, and
   the swap was accepted with a new [0-] path whose first frame is still inside the interfaces.
   Witness: limits 12 / 5, old paths 3 1 0 4 / 1 3 5 6, backward run 1 0 2 1 0 7: accepted with the
   new [0-] path 1 2 0 1 3 (5 frames); the code (same input) accepts the complete path 7 0 1 2 0 1 3
   and the same new [0+] path. *)
Theorem C11_swap_valid_limit_order_refuted :
  exists dumpf e0 e1 old0 old1 streams sp0 sp1 calls,
    (e_maxlen e1 < e_maxlen e0)%nat /\ e_i0 e0 <= e_i1 e0 <= e_i2 e0 /\
    minus_valid e0 (sp_path old0) /\ plus_valid e1 (sp_path old1) /\
    retis_swap_zero_before_fix dumpf e0 e1 old0 old1 streams [] = Out true sp0 sp1 ACC calls 0 /\
    plen (sp_path sp0) = e_maxlen e1 /\
    (exists a rest, orders (sp_path sp0) = a :: rest /\ e_i0 e0 <= a <= e_i2 e0) /\
    exists sp0' sp1' calls',
      retis_swap_zero dumpf e0 e1 old0 old1 streams [] = Out true sp0' sp1' ACC calls' 0 /\
      orders (sp_path sp0') = [7; 0; 1; 2; 0; 1; 3] /\ sp_path sp1' = sp_path sp1.
Proof. exact swap_valid_limit_order_refuted. Qed.
Print Assumptions C11_swap_valid_limit_order_refuted.

(* the code before the repair IS the code with that one boolean switched (both moves), and with equal
   limits (infretis' own set-up: one shared tis_set) the two coincide *)
Theorem C11_before_fix_same_on_equal_limits : forall dumpf vpot_of expf e0 e1,
  retis_swap_zero_before_fix dumpf = retis_swap_zero_g dumpf false /\ retis_swap_zero dumpf = retis_swap_zero_g dumpf true /\
  quantis_swap_zero_before_fix vpot_of expf = quantis_swap_zero_g vpot_of expf false /\
  quantis_swap_zero vpot_of expf = quantis_swap_zero_g vpot_of expf true /\
  (e_maxlen e0 = e_maxlen e1 ->
   retis_swap_zero_before_fix dumpf e0 e1 = retis_swap_zero dumpf e0 e1 /\
   quantis_swap_zero_before_fix vpot_of expf e0 e1 = quantis_swap_zero vpot_of expf e0 e1).
Proof.
  intros. split; [reflexivity|]. split; [reflexivity|]. split; [reflexivity|]. split; [reflexivity|].
  apply before_fix_same_on_equal_limits.
Qed.
Print Assumptions C11_before_fix_same_on_equal_limits.

(* The variant that sizes the container of the FORWARD run (the new [0+] path) with the [0-] limit
   ("path_tmp = path0.empty_path(maxlen=maxlen0 - 1)", SwapM.retis_swap_zero_fwd_minus_limit) violates
   C11_swap_valid inside its hypotheses: with maxlength([0-]) < maxlength([0+]) a forward run cut off
   by the [0-] limit gives a [0+] path below ITS limit, the swap is accepted, and the last frame of
   the new [0+] path is still inside [lambda_0, lambda_N].
   Witness: limits 6 / 12, old paths 3 1 0 4 / 1 3 5 6, forward run 4 5 3 4 5 3 1: the variant accepts
   0 4 5 3 4 5, the code (same input) accepts the complete path 0 4 5 3 4 5 3 1. *)
Theorem C11_forward_segment_minus_limit_refuted :
  exists dumpf e0 e1 old0 old1 streams sp0 sp1 calls,
    (e_maxlen e0 < e_maxlen e1)%nat /\ e_i0 e0 <= e_i1 e0 <= e_i2 e0 /\
    minus_valid e0 (sp_path old0) /\ plus_valid e1 (sp_path old1) /\
    retis_swap_zero_fwd_minus_limit dumpf e0 e1 old0 old1 streams [] = Out true sp0 sp1 ACC calls 0 /\
    (3 <= plen (sp_path sp1) < e_maxlen e1)%nat /\
    (exists pre b, orders (sp_path sp1) = pre ++ [b] /\ e_i0 e1 <= b <= e_i2 e1) /\
    ~ (exists a mid b, orders (sp_path sp1) = a :: mid ++ [b] /\ (b < e_i0 e1 \/ e_i2 e1 < b)) /\
    exists sp0' sp1' calls',
      retis_swap_zero dumpf e0 e1 old0 old1 streams [] = Out true sp0' sp1' ACC calls' 0 /\
      orders (sp_path sp1') = [0; 4; 5; 3; 4; 5; 3; 1].
Proof. exact forward_segment_minus_limit_refuted. Qed.
Print Assumptions C11_forward_segment_minus_limit_refuted.

(* the variant differs from the code in that one place only: the code's functions are the
   variant definitions at the code's value of the parameter *)
Theorem C11_variant_is_code_at_plus_limit : forall dumpf e0 e1,
  retis_path1 dumpf e0 e1 = retis_path1_seg dumpf (e_maxlen e1 - 1) e0 e1 /\
  retis_swap_zero dumpf = retis_swap_zero_with dumpf (retis_path1 dumpf).
Proof. intros. split; [apply retis_path1_is_seg|apply retis_swap_zero_is_with]. Qed.
Print Assumptions C11_variant_is_code_at_plus_limit.

(* ------------------------------------------------------------------ lambda_-1: early rejection *)

(* the early-exit test is exactly: start_cond = {L, R} and the [0-] path ends at or below lambda_-1 *)
Theorem C11_lambda_m1_test : forall e0 p,
  e_i0 e0 <= e_i1 e0 <= e_i2 e0 ->
  (lm1_early e0 p = true <->
   e_scL e0 = true /\ e_scR e0 = true /\ exists pre o, orders p = pre ++ [o] /\ o <= e_i0 e0).
Proof. exact lm1_early_spec. Qed.
Print Assumptions C11_lambda_m1_test.

(* ... and then, whatever the engines would produce and whatever the draws: rejected with
   status 0-L, the two old path objects returned, no engine call, no draw consumed *)
Theorem C11_lambda_m1_reject : forall dumpf e0 e1 old0 old1,
  e_i0 e0 <= e_i1 e0 <= e_i2 e0 ->
  lm1_early e0 (sp_path old0) = true ->
  forall streams draws,
    retis_swap_zero dumpf e0 e1 old0 old1 streams draws = Out false old0 old1 ZML [] 0.
Proof. exact lm1_reject. Qed.
Print Assumptions C11_lambda_m1_reject.

(* an accepted swap made exactly two engine calls, the early exit was not taken and the old
   [0-] path ended on the right *)
Theorem C11_accepted_two_calls : forall dumpf e0 e1 old0 old1 streams draws sp0 sp1 st calls nd,
  retis_swap_zero dumpf e0 e1 old0 old1 streams draws = Out true sp0 sp1 st calls nd ->
  length calls = 2%nat /\ lm1_early e0 (sp_path old0) = false /\
  end_point (sp_path old0) (e_i0 e0) (e_i2 e0) = Some SR.
Proof. exact retis_acc_two_calls. Qed.
Print Assumptions C11_accepted_two_calls.

(* ------------------------------------------------------------------ QuanTIS *)

(* the exponent handed to exp: beta0*dV0 - beta1*dV1 with dV0 = V0(r0) - V0(r1), dV1 = V1(r0) - V1(r1) *)
Theorem C11_quantis_exponent : forall b0 b1 V0r0 V0r1 V1r1 V1r0,
  (quantis_exponent b0 b1 V0r0 V0r1 V1r1 V1r0 == b0 * (V0r0 - V0r1) - b1 * (V1r0 - V1r1))%Q.
Proof. exact quantis_exponent_signs. Qed.
Print Assumptions C11_quantis_exponent.

(* Whenever the move drew its random number u (i.e. both one-step crossing conditions held):
   V0(r0) is read from old[0-][-2], V1(r1) from old[0+][0], V0(r1) / V1(r0) from the engines'
   own first frames of the two one-step calls (started from copies of old[0+][0] and
   old[0-][-2]); with E the value exp returns for the exponent above, the energy rule passes
   (status other than QEA) iff accept_all or u <= min(1, E), written u <= 1 /\ u <= E; and the
   move is accepted only with status ACC (hence only if the rule passed).  [expf] is the
   function exp is replaced by: arbitrary (exp itself is not modelled). *)
Theorem C11_quantis_accept_iff : forall vpot_of expf e0 e1 b0 b1 old0 old1 streams draws acc p0 p1 st calls,
  quantis_swap_zero vpot_of expf e0 e1 b0 b1 old0 old1 streams draws = Out acc p0 p1 st calls 1 ->
  exists u drest f10 f0m2 g0 r0 g1 r1 srest V0r0 V0r1 V1r1 V1r0 c0 c1 crest,
    draws = u :: drest /\
    first_frame (sp_path old1) = Some f10 /\ last2_frame (sp_path old0) = Some f0m2 /\
    streams = (g0 :: r0) :: (g1 :: r1) :: srest /\
    calls = c0 :: c1 :: crest /\ c_init c0 = copy_frame 0 f10 /\ c_init c1 = copy_frame 0 f0m2 /\
    vpot vpot_of f0m2 = Some V0r0 /\ vpot vpot_of g0 = Some V0r1 /\
    vpot vpot_of f10 = Some V1r1 /\ vpot vpot_of g1 = Some V1r0 /\
    let E := expf (quantis_exponent b0 b1 V0r0 V0r1 V1r1 V1r0) in
    (st <> QEA <-> (e_accept_all e0 = true \/ (u <= 1 /\ u <= E)%Q)) /\
    (acc = true -> st = ACC).
Proof. exact quantis_energy_rule. Qed.
Print Assumptions C11_quantis_accept_iff.

(* The junction of an accepted QuanTIS swap (order parameters, honest first frames): the new
   [0-] path ends with (old[0+][0], its one-step successor computed by engine 0), the new [0+]
   path starts with (old[0-][-2], its one-step successor computed by engine 1); both cross
   lambda_0 in that step; each length in [3, maxlength of its own ensemble); four calls. *)
Theorem C11_quantis_junction : forall vpot_of expf e0 e1 b0 b1 old0 old1 streams draws p0 p1 st calls nd,
  quantis_swap_zero vpot_of expf e0 e1 b0 b1 old0 old1 streams draws = Out true p0 p1 st calls nd ->
  first_frame_honest streams calls ->
  exists f10 f0m2 g0 H0 r0 g1 H1 r1 srest back forw,
    first_frame (sp_path old1) = Some f10 /\ last2_frame (sp_path old0) = Some f0m2 /\
    streams = (g0 :: H0 :: r0) :: (g1 :: H1 :: r1) :: srest /\
    orders (sp_path p0) = back ++ [ford f10; ford H0] /\
    orders (sp_path p1) = ford f0m2 :: ford H1 :: forw /\
    ford f10 < e_i2 e0 < ford H0 /\ ford f0m2 < e_i2 e0 < ford H1 /\
    (3 <= plen (sp_path p0) < e_maxlen e0)%nat /\ (3 <= plen (sp_path p1) < e_maxlen e1)%nat /\
    st = ACC /\ length calls = 4%nat /\ map c_eng calls = [E0; E1; E0; E1].
Proof. exact quantis_junction. Qed.
Print Assumptions C11_quantis_junction.

(* ... in particular both new paths are below their OWN limits, whatever the two limits are *)
Theorem C11_quantis_own_limits : forall vpot_of expf e0 e1 b0 b1 old0 old1 streams draws p0 p1 st calls nd,
  quantis_swap_zero vpot_of expf e0 e1 b0 b1 old0 old1 streams draws = Out true p0 p1 st calls nd ->
  first_frame_honest streams calls ->
  (3 <= plen (sp_path p0) < e_maxlen e0)%nat /\ (3 <= plen (sp_path p1) < e_maxlen e1)%nat.
Proof. exact quantis_own_limits. Qed.
Print Assumptions C11_quantis_own_limits.

(* Validity of the new [0-] path of an accepted QuanTIS swap in ITS OWN ensemble (ordered [0-] interfaces
   lambda_-1 = e_i0 e0 <= e_i2 e0 = lambda_0, the left one finite with lambda_minus_one or -inf; honest first
   frames): the path is a :: mid ++ [b] with a non-empty interior, a strictly outside [lambda_-1, lambda_0],
   every interior frame inside, b strictly right of lambda_0, and — unless "L" is in the start condition of the
   [0-] ensemble itself (e_scL e0 = "L" in ens_set0["start_cond"]; the start condition of [0+] plays no role) —
   a lies to the RIGHT of lambda_0: a new [0-] path that left through lambda_-1 is never accepted by an ensemble
   that only admits paths starting on the right (the move answers "0-L", as shoot and retis_swap_zero do). *)
Theorem C11_quantis_valid_minus : forall vpot_of expf e0 e1 b0 b1 old0 old1 streams draws p0 p1 st calls nd,
  quantis_swap_zero vpot_of expf e0 e1 b0 b1 old0 old1 streams draws = Out true p0 p1 st calls nd ->
  first_frame_honest streams calls ->
  e_i0 e0 <= e_i1 e0 <= e_i2 e0 ->
  exists a mid b, orders (sp_path p0) = a :: mid ++ [b] /\ mid <> [] /\
    (a < e_i0 e0 \/ e_i2 e0 < a) /\ (e_scL e0 = false -> e_i2 e0 < a) /\
    (forall o, In o mid -> e_i0 e0 <= o <= e_i2 e0) /\ e_i2 e0 < b.
Proof. exact quantis_swap_valid_minus. Qed.
Print Assumptions C11_quantis_valid_minus.

(* ... in particular: accepted QuanTIS swap => the new [0-] path starts on a side its own ensemble's start
   condition allows, for the start conditions "R" (e_scL e0 = false: starts right of lambda_0) and ["L", "R"]
   (either side; it always starts strictly outside [lambda_-1, lambda_0]) *)
Theorem C11_quantis_start_cond : forall vpot_of expf e0 e1 b0 b1 old0 old1 streams draws p0 p1 st calls nd,
  quantis_swap_zero vpot_of expf e0 e1 b0 b1 old0 old1 streams draws = Out true p0 p1 st calls nd ->
  first_frame_honest streams calls ->
  e_i0 e0 <= e_i1 e0 <= e_i2 e0 ->
  exists a rest, orders (sp_path p0) = a :: rest /\
    (a < e_i0 e0 /\ e_scL e0 = true \/ e_i2 e0 < a).
Proof. exact quantis_start_cond. Qed.
Print Assumptions C11_quantis_start_cond.

(* The guard of both moves only tests for a FORBIDDEN "L".  With a start condition of [0-] that is "L" ALONE
   (finite lambda_-1; infretis itself only creates "R" and ["L", "R"]) both moves accept a new [0-] path that
   starts on the RIGHT of lambda_0, i.e. on a side that start condition does not allow (shoot rejects such a
   path BWI).  Witness (SwapP.StartL): interfaces (0, 1, 2) / (2, 2, 5), valid old paths -1 1 3 / 0 3 1,
   backward run 0 3: retis_swap_zero and quantis_swap_zero are accepted with the new [0-] path 3 0 3. *)
Theorem C11_start_cond_L_only_refuted :
  e_scL StartL.e0 = true /\ e_scR StartL.e0 = false /\ e_i0 StartL.e0 <= e_i1 StartL.e0 <= e_i2 StartL.e0 /\
  minus_valid StartL.e0 (sp_path StartL.old0) /\ plus_valid StartL.e1 (sp_path StartL.old1) /\
  (exists sp0 sp1 calls,
     retis_swap_zero Limits.dumpf StartL.e0 StartL.e1 StartL.old0 StartL.old1 StartL.streams [] = Out true sp0 sp1 ACC calls 0 /\
     first_frame_honest StartL.streams calls /\
     orders (sp_path sp0) = [3; 0; 3] /\ e_i2 StartL.e0 < 3) /\
  (exists p0 p1 calls,
     quantis_swap_zero Limits.vpot (fun _ => 1%Q) StartL.e0 StartL.e1 1 1 StartL.old0 StartL.old1 StartL.qstreams [(1 # 2)%Q]
       = Out true p0 p1 ACC calls 1 /\
     first_frame_honest StartL.qstreams calls /\
     orders (sp_path p0) = [3; 0; 3] /\ e_i2 StartL.e0 < 3).
Proof. exact start_cond_L_only_refuted. Qed.
Print Assumptions C11_start_cond_L_only_refuted.

(* The code BEFORE the repair (SwapM.quantis_swap_zero_before_fix = quantis_swap_zero_g false) read the
   [0-] limit for both paths ("maxlen1 = ens_set0["tis_set"]["maxlength"]").  With maxlength([0-]) >
   maxlength([0+]) it accepted a new [0+] path that is not below the [0+] limit (witness: limits 8 / 4,
   new [0+] path 0 3 4 1 of 4 frames; the code rejects the same input FTX); with maxlength([0-]) <
   maxlength([0+]) it rejected with FTX a new [0+] path that is below the [0+] limit (witness: limits
   5 / 8, new [0+] path of 5 frames; the code accepts the same input with that path). *)
Theorem C11_quantis_limit_order_refuted :
  (exists vpot_of expf e0 e1 b0 b1 old0 old1 streams draws p0 p1 calls,
     (e_maxlen e1 < e_maxlen e0)%nat /\
     quantis_swap_zero_before_fix vpot_of expf e0 e1 b0 b1 old0 old1 streams draws = Out true p0 p1 ACC calls 1 /\
     first_frame_honest streams calls /\
     (e_maxlen e1 <= plen (sp_path p1))%nat /\
     exists p0' p1' calls',
       quantis_swap_zero vpot_of expf e0 e1 b0 b1 old0 old1 streams draws = Out false p0' p1' FTX calls' 1 /\
       sp_status p1' = FTX) /\
  (exists vpot_of expf e0 e1 b0 b1 old0 old1 streams draws p0 p1 calls,
     (e_maxlen e0 < e_maxlen e1)%nat /\
     quantis_swap_zero_before_fix vpot_of expf e0 e1 b0 b1 old0 old1 streams draws = Out false p0 p1 FTX calls 1 /\
     sp_status p0 = ACC /\ sp_status p1 = FTX /\
     (3 <= plen (sp_path p1) < e_maxlen e1)%nat /\
     (exists pre b, orders (sp_path p1) = pre ++ [b] /\ b < e_i0 e1) /\
     exists p0' p1' calls',
       quantis_swap_zero vpot_of expf e0 e1 b0 b1 old0 old1 streams draws = Out true p0' p1' ACC calls' 1 /\
       orders (sp_path p1') = orders (sp_path p1)).
Proof. exact quantis_limit_order_refuted. Qed.
Print Assumptions C11_quantis_limit_order_refuted.

(* Whatever the outcome, the propagate calls of the QuanTIS swap are made on engine0, engine1,
   engine0, engine1 in this order (a prefix when the move stops early): one step and the backward
   run of [0-] on the [0-] engine, one step and the forward run of [0+] on the [0+] engine. *)
Theorem C11_quantis_engines : forall vpot_of expf e0 e1 b0 b1 old0 old1 streams draws acc p0 p1 st calls nd,
  quantis_swap_zero vpot_of expf e0 e1 b0 b1 old0 old1 streams draws = Out acc p0 p1 st calls nd ->
  exists k, map c_eng calls = firstn k [E0; E1; E0; E1].
Proof. exact quantis_calls_engines. Qed.
Print Assumptions C11_quantis_engines.

(* ------------------------------------------------------------------ reversibility *)

(* For an abstract deterministic time-reversible engine (state space X, step T, velocity
   reversal R with R.R = id and R.T.R.T = id, order parameter invariant under R, configurations
   stored losslessly): if the old [0-]/[0+] paths are trajectories of the dynamics in the shape
   the stop rule leaves them, the swap is accepted and the swap of the results is accepted
   again, the second swap returns the original order-parameter sequences. *)
Theorem C11_swap_twice_id : forall (X : Type) (T R : X -> X) (ord : X -> Z) (enc : X -> Z) (dec : Z -> X),
  (forall x, R (R x) = x) -> (forall x, R (T (R (T x))) = x) ->
  (forall x, ord (R x) = ord x) -> (forall x, dec (enc x) = x) ->
  forall n e0 e1 old0 old1 a0 b0 new0 new1 st calls nd new0' new1' st' calls' nd',
  phys_path X T R ord dec a0 (sp_path old0) -> phys_path X T R ord dec b0 (sp_path old1) ->
  minus_shape e0 (sp_path old0) -> plus_shape e1 (sp_path old1) ->
  det_retis X T R ord enc dec n e0 e1 old0 old1 = Out true new0 new1 st calls nd ->
  det_retis X T R ord enc dec n e0 e1 new0 new1 = Out true new0' new1' st' calls' nd' ->
  orders (sp_path new0') = orders (sp_path old0) /\ orders (sp_path new1') = orders (sp_path old1).
Proof. exact swap_twice_id. Qed.
Print Assumptions C11_swap_twice_id.

(* ... and the swap back IS accepted, hence swapping twice restores the originals: for valid old
   paths (minus_valid / plus_valid: the stop-rule shape, at least 3 frames, the sides the
   ensembles prescribe) shorter than the limits, an engine able to run that long (n), ordered
   [0-] interfaces with lambda_-1 < lambda_0, lambda_0 shared by the two ensembles, no wire
   fencing. *)
Theorem C11_swap_twice_restores : forall (X : Type) (T R : X -> X) (ord : X -> Z) (enc : X -> Z) (dec : Z -> X),
  (forall x, R (R x) = x) -> (forall x, R (T (R (T x))) = x) ->
  (forall x, ord (R x) = ord x) -> (forall x, dec (enc x) = x) ->
  forall n e0 e1 old0 old1 a0 b0 new0 new1 st calls nd,
  phys_path X T R ord dec a0 (sp_path old0) -> phys_path X T R ord dec b0 (sp_path old1) ->
  minus_valid e0 (sp_path old0) -> plus_valid e1 (sp_path old1) ->
  (plen (sp_path old0) < e_maxlen e0)%nat -> (plen (sp_path old1) < e_maxlen e1)%nat ->
  (plen (sp_path old0) - 1 <= n)%nat -> (plen (sp_path old1) - 1 <= n)%nat ->
  e_i0 e0 <= e_i1 e0 <= e_i2 e0 -> e_i0 e0 < e_i2 e0 -> e_i2 e0 = e_i0 e1 ->
  is_wf (e_move e0) || is_wf (e_move e1) = false ->
  det_retis X T R ord enc dec n e0 e1 old0 old1 = Out true new0 new1 st calls nd ->
  exists new0' new1' calls',
    det_retis X T R ord enc dec n e0 e1 new0 new1 = Out true new0' new1' ACC calls' 0 /\
    orders (sp_path new0') = orders (sp_path old0) /\ orders (sp_path new1') = orders (sp_path old1).
Proof. exact swap_twice_restores. Qed.
Print Assumptions C11_swap_twice_restores.

(* ------------------------------------------------------------------ reversibility with two different engines *)

(* [0-] and [0+] driven by DIFFERENT dynamics over one phase space X (simulation.ensemble_engines
   without quantis): engine0 = (T0, R0) for [0-], engine1 = (T1, R1) for [0+]; configurations
   (enc/dec) and the order parameter are shared.  [det_retis2] runs the swap with the backward run
   answered by engine0 and the forward run by engine1.  That this is the attribution the model of
   the move itself makes: the calls of an accepted [det_retis2] are on E0 (backward, from old[0+][0])
   and E1 (forward, from old[0-][-1]), and each stream is the answer of the engine the call is on. *)
Theorem C11_two_engines_calls : forall (X : Type) (T0 R0 T1 R1 : X -> X) (ord enc : X -> Z) (dec : Z -> X)
    n e0 e1 old0 old1 new0 new1 st calls nd,
  det_retis2 X T0 R0 T1 R1 ord enc dec n e0 e1 old0 old1 = Out true new0 new1 st calls nd ->
  exists f10 f0l,
    first_frame (sp_path old1) = Some f10 /\ last_frame (sp_path old0) = Some f0l /\
    map c_eng calls = [E0; E1] /\ map c_rev calls = [true; false] /\
    map c_init calls = [copy_frame 0 f10; copy_frame 0 f0l] /\
    streams_of_engines X T0 R0 T1 R1 ord enc dec n
      [eng_stream X T0 R0 T1 R1 ord enc dec E0 n (copy_frame 0 f10) true;
       eng_stream X T0 R0 T1 R1 ord enc dec E1 n (copy_frame 0 f0l) false] calls.
Proof. exact det_retis2_engines. Qed.
Print Assumptions C11_two_engines_calls.

(* Which dynamics generates which segment.  With f11 = old[0+][1] and f0m2 = old[0-][-2] the shared
   points: the new [0-] path is  (x, T0^-1 x, T0^-2 x, ...) reversed ++ [f11]  with x the state of
   old[0+][0]  (T0^-1 = R0.T0.R0: the [0-] engine run backward), and the new [0+] path is
   f0m2 :: (y, T1 y, T1^2 y, ...)  with y the state of old[0-][-1]  (the [0+] engine run forward);
   k0, k1 = the numbers of frames the two calls used. *)
Theorem C11_two_engines_segments : forall (X : Type) (T0 R0 T1 R1 : X -> X) (ord enc : X -> Z) (dec : Z -> X),
  (forall x, R0 (R0 x) = x) -> (forall x, ord (R0 x) = ord x) -> (forall x, ord (R1 x) = ord x) ->
  (forall x, dec (enc x) = x) ->
  forall n e0 e1 old0 old1 new0 new1 st calls nd,
  det_retis2 X T0 R0 T1 R1 ord enc dec n e0 e1 old0 old1 = Out true new0 new1 st calls nd ->
  exists f10 f11 tl1 pre0 f0m2 f0l k0 k1,
    pts (sp_path old1) = f10 :: f11 :: tl1 /\ pts (sp_path old0) = pre0 ++ [f0m2; f0l] /\
    map c_eng calls = [E0; E1] /\ map c_used calls = [k0; k1] /\
    orders (sp_path new0) = rev (map ord (itraj X T0 R0 k0 (phys X R0 dec f10))) ++ [ford f11] /\
    orders (sp_path new1) = ford f0m2 :: map ord (traj X T1 k1 (phys X R1 dec f0l)).
Proof. exact det_retis2_segments. Qed.
Print Assumptions C11_two_engines_segments.

(* Swapping twice restores both order sequences when the old [0-] path is a trajectory of the [0-]
   dynamics and the old [0+] path a trajectory of the [0+] dynamics.  Only the [0-] engine is ever
   run backward, so only ITS time-reversibility is assumed (R0.R0 = id, R0.T0.R0.T0 = id). *)
Theorem C11_swap_twice_id_two_engines : forall (X : Type) (T0 R0 T1 R1 : X -> X) (ord enc : X -> Z) (dec : Z -> X),
  (forall x, R0 (R0 x) = x) -> (forall x, R0 (T0 (R0 (T0 x))) = x) ->
  (forall x, ord (R0 x) = ord x) -> (forall x, ord (R1 x) = ord x) -> (forall x, dec (enc x) = x) ->
  forall n e0 e1 old0 old1 a0 b0 new0 new1 st calls nd new0' new1' st' calls' nd',
  phys_path X T0 R0 ord dec a0 (sp_path old0) -> phys_path X T1 R1 ord dec b0 (sp_path old1) ->
  minus_shape e0 (sp_path old0) -> plus_shape e1 (sp_path old1) ->
  det_retis2 X T0 R0 T1 R1 ord enc dec n e0 e1 old0 old1 = Out true new0 new1 st calls nd ->
  det_retis2 X T0 R0 T1 R1 ord enc dec n e0 e1 new0 new1 = Out true new0' new1' st' calls' nd' ->
  orders (sp_path new0') = orders (sp_path old0) /\ orders (sp_path new1') = orders (sp_path old1).
Proof. exact swap_twice_id2. Qed.
Print Assumptions C11_swap_twice_id_two_engines.

(* ... and the swap back IS accepted (hypotheses as in C11_swap_twice_restores), its two calls
   again on engine0 and engine1. *)
Theorem C11_swap_twice_restores_two_engines : forall (X : Type) (T0 R0 T1 R1 : X -> X) (ord enc : X -> Z) (dec : Z -> X),
  (forall x, R0 (R0 x) = x) -> (forall x, R0 (T0 (R0 (T0 x))) = x) ->
  (forall x, ord (R0 x) = ord x) -> (forall x, ord (R1 x) = ord x) -> (forall x, dec (enc x) = x) ->
  forall n e0 e1 old0 old1 a0 b0 new0 new1 st calls nd,
  phys_path X T0 R0 ord dec a0 (sp_path old0) -> phys_path X T1 R1 ord dec b0 (sp_path old1) ->
  minus_valid e0 (sp_path old0) -> plus_valid e1 (sp_path old1) ->
  (plen (sp_path old0) < e_maxlen e0)%nat -> (plen (sp_path old1) < e_maxlen e1)%nat ->
  (plen (sp_path old0) - 1 <= n)%nat -> (plen (sp_path old1) - 1 <= n)%nat ->
  e_i0 e0 <= e_i1 e0 <= e_i2 e0 -> e_i0 e0 < e_i2 e0 -> e_i2 e0 = e_i0 e1 ->
  is_wf (e_move e0) || is_wf (e_move e1) = false ->
  det_retis2 X T0 R0 T1 R1 ord enc dec n e0 e1 old0 old1 = Out true new0 new1 st calls nd ->
  exists new0' new1' calls',
    det_retis2 X T0 R0 T1 R1 ord enc dec n e0 e1 new0 new1 = Out true new0' new1' ACC calls' 0 /\
    map c_eng calls' = [E0; E1] /\
    orders (sp_path new0') = orders (sp_path old0) /\ orders (sp_path new1') = orders (sp_path old1).
Proof. exact swap_twice_restores2. Qed.
Print Assumptions C11_swap_twice_restores_two_engines.

(* one engine for both ensembles is the special case T0 = T1, R0 = R1 *)
Theorem C11_one_engine_special_case : forall (X : Type) (T R : X -> X) (ord enc : X -> Z) (dec : Z -> X) n e0 e1 old0 old1,
  det_retis X T R ord enc dec n e0 e1 old0 old1 = det_retis2 X T R T R ord enc dec n e0 e1 old0 old1.
Proof. exact det_retis_is_det_retis2. Qed.
Print Assumptions C11_one_engine_special_case.

(* ------------------------------------------------------------------ examples: the hypotheses are satisfiable *)

Definition ex_dump (lab : dlabel) (t : Z) : Z := match lab with DSecond => 100000 + t | DSecondLast => 200000 + t end.
Definition ex_e0 : ens := mkEns (-100) 2 2 false true Msh 8 None false.
Definition ex_e1 : ens := mkEns 2 2 5 true false Msh 8 None false.
Definition ex_fr (tag o : Z) : frame := mkF o tag false 0.
Definition ex_old0 : spath := mkSP (mkP [ex_fr 100 3; ex_fr 101 1; ex_fr 102 0; ex_fr 103 4] 8 0) ACC 1.
Definition ex_old1 : spath := mkSP (mkP [ex_fr 200 1; ex_fr 201 3; ex_fr 202 5; ex_fr 203 6] 8 0) ACC 1.
Definition ex_streams : list (list frame) :=
  [ [mkF 1 1000 true 0; mkF 0 1001 true 0; mkF 2 1002 true 0; mkF 7 1003 true 0; mkF 1 1004 true 0];
    [mkF 4 2000 false 0; mkF 5 2001 false 0; mkF 1 2002 false 0] ].

(* a concrete accepted swap: [3,1,0,4] / [1,3,5,6]  ->  [7,2,0,1,3] / [0,4,5,1] *)
Example C11_example_accepted :
  exists sp0 sp1 calls,
    retis_swap_zero ex_dump ex_e0 ex_e1 ex_old0 ex_old1 ex_streams [] = Out true sp0 sp1 ACC calls 0 /\
    orders (sp_path sp0) = [7; 2; 0; 1; 3] /\ orders (sp_path sp1) = [0; 4; 5; 1] /\
    first_frame_honest ex_streams calls /\ length calls = 2%nat.
Proof.
  eexists _, _, _. split; [vm_compute; reflexivity|]. split; [reflexivity|]. split; [reflexivity|].
  split; [|reflexivity].
  intros [|[|k]] c s g Hc Hs Hg; cbn in Hc, Hs; try (destruct k; discriminate);
    injection Hc as <-; injection Hs as <-; injection Hg as <-; reflexivity.
Qed.

(* different limits for the two ensembles, maxlength([0-]) = 6 < maxlength([0+]) = 12: the old paths
   3 1 0 4 / 1 3 5 6 are swapped to 7 2 0 1 3 (5 frames, below 6) / 0 4 5 3 4 5 3 1 (8 frames: more
   than the [0-] limit, below the [0+] limit), the two run containers sized 5 and 11; with
   maxlength([0-]) = 5 the same runs are rejected BTX, with maxlength([0+]) = 8 rejected FTX (each path
   is measured against its own limit); and with the limits the other way round, maxlength([0-]) = 12 >
   maxlength([0+]) = 5 (Limits.e0b / e1b, the witness input of C11_swap_valid_limit_order_refuted): the
   backward run 1 0 2 1 0 7 of 6 frames is longer than the [0+] limit and the swap is accepted with the
   complete new [0-] path 7 0 1 2 0 1 3 *)
Example C11_example_unequal_limits :
  (e_maxlen Limits.e0 < e_maxlen Limits.e1)%nat /\
  (exists sp0 sp1 calls,
    retis_swap_zero ex_dump Limits.e0 Limits.e1 Limits.old0 Limits.old1 Limits.streams [] = Out true sp0 sp1 ACC calls 0 /\
    orders (sp_path sp0) = [7; 2; 0; 1; 3] /\ orders (sp_path sp1) = [0; 4; 5; 3; 4; 5; 3; 1] /\
    (plen (sp_path sp0) < e_maxlen Limits.e0 < plen (sp_path sp1))%nat /\ (plen (sp_path sp1) < e_maxlen Limits.e1)%nat /\
    map c_maxlen calls = [5%nat; 11%nat]) /\
  (exists sp0 sp1 calls,
    retis_swap_zero ex_dump (Limits.with_maxlen Limits.e0 5) Limits.e1 Limits.old0 Limits.old1 Limits.streams [] = Out false sp0 sp1 BTX calls 0) /\
  (exists sp0 sp1 calls,
    retis_swap_zero ex_dump Limits.e0 (Limits.with_maxlen Limits.e1 8) Limits.old0 Limits.old1 Limits.streams [] = Out false sp0 sp1 FTX calls 0 /\
    sp_status sp1 = FTX) /\
  (e_maxlen Limits.e1b < e_maxlen Limits.e0b)%nat /\
  (exists sp0 sp1 calls,
    retis_swap_zero ex_dump Limits.e0b Limits.e1b Limits.old0 Limits.old1 Limits.streams_b [] = Out true sp0 sp1 ACC calls 0 /\
    orders (sp_path sp0) = [7; 0; 1; 2; 0; 1; 3] /\ orders (sp_path sp1) = [0; 4; 1] /\
    (e_maxlen Limits.e1b < plen (sp_path sp0) < e_maxlen Limits.e0b)%nat /\ map c_maxlen calls = [11%nat; 4%nat]).
Proof.
  split; [vm_compute; lia|]. split; [|split; [|split; [|split; [vm_compute; lia|]]]].
  - eexists _, _, _. split; [vm_compute; reflexivity|]. split; [reflexivity|]. split; [reflexivity|].
    split; [vm_compute; lia|]. split; [vm_compute; lia|]. reflexivity.
  - eexists _, _, _. vm_compute. reflexivity.
  - eexists _, _, _. split; [vm_compute; reflexivity|]. reflexivity.
  - eexists _, _, _. split; [vm_compute; reflexivity|]. split; [reflexivity|]. split; [reflexivity|].
    split; [vm_compute; lia|]. reflexivity.
Qed.

(* lambda_-1 variant, [0-] path ending on the left: rejected before any engine call *)
Example C11_example_lm1_reject :
  let e0 := mkEns 0 1 2 true true Msh 8 None false in
  let old0 := mkSP (mkP [ex_fr 100 3; ex_fr 101 1; ex_fr 102 (-1)] 8 0) ACC 1 in
  lm1_early e0 (sp_path old0) = true /\
  retis_swap_zero ex_dump e0 ex_e1 old0 ex_old1 ex_streams [] = Out false old0 ex_old1 ZML [] 0.
Proof. split; vm_compute; reflexivity. Qed.

(* QuanTIS: energies V0(r0)=1, V0(r1)=1/2, V1(r1)=0, V1(r0)=1/4, betas 1 and 2: exponent 1/2 - 1/2 = 0;
   with exp replaced by the constant 3/4 the draw 3/4 passes the rule (and the move completes
   to ACC), the draw 4/5 gives QEA *)
Definition ex_vpot (t : Z) : option Q :=
  if t =? 102 then Some 1%Q else if t =? 1000 then Some (1 # 2)%Q else if t =? 200 then Some 0%Q
  else if t =? 2000 then Some (1 # 4)%Q else Some 0%Q.
Definition ex_qstreams : list (list frame) :=
  [ [mkF 1 1000 false 0; mkF 3 1001 false 0]; [mkF 0 2000 false 0; mkF 3 2001 false 0];
    [mkF 1 3000 true 0; mkF 0 3001 true 0; mkF 4 3002 true 0]; [mkF 3 4000 false 0; mkF 4 4001 false 0; mkF 1 4002 false 0] ].
Example C11_example_quantis :
  (quantis_exponent 1 2 1 (1 # 2) 0 (1 # 4) == 0)%Q /\
  (exists p0 p1 calls, quantis_swap_zero ex_vpot (fun _ => (3 # 4)%Q) ex_e0 ex_e1 1 2 ex_old0 ex_old1 ex_qstreams [(3 # 4)%Q]
                       = Out true p0 p1 ACC calls 1 /\
                       orders (sp_path p0) = [4; 0; 1; 3] /\ orders (sp_path p1) = [0; 3; 4; 1]) /\
  (exists p0 p1 calls, quantis_swap_zero ex_vpot (fun _ => (3 # 4)%Q) ex_e0 ex_e1 1 2 ex_old0 ex_old1 ex_qstreams [(4 # 5)%Q]
                       = Out false p0 p1 QEA calls 1).
Proof.
  split; [reflexivity|]. split.
  - eexists _, _, _. split; [vm_compute; reflexivity|]. split; reflexivity.
  - eexists _, _, _. vm_compute; reflexivity.
Qed.

(* QuanTIS with a finite left interface lambda_-1 = 0 of [0-] (interfaces (0, 1, 2)): the backward run 1 0 -1
   from old[0+][0] leaves through lambda_-1, the complete new [0-] path would be -1 0 1 3.  With start
   condition "R" of [0-] the move is rejected "0-L" after three engine calls and the path carries that status;
   with ["L", "R"] the same input is accepted with exactly that path; and a backward run 1 0 4 that ends on the
   right is accepted under "R" with the new [0-] path 4 0 1 3 (hypotheses of C11_quantis_valid_minus hold) *)
Definition ex_e0_lm1 (scL scR : bool) : ens := mkEns 0 1 2 scL scR Msh 8 None false.
Definition ex_qstreams_left : list (list frame) :=
  [ [mkF 1 1000 false 0; mkF 3 1001 false 0]; [mkF 0 2000 false 0; mkF 3 2001 false 0];
    [mkF 1 3000 true 0; mkF 0 3001 true 0; mkF (-1) 3002 true 0]; [mkF 3 4000 false 0; mkF 4 4001 false 0; mkF 1 4002 false 0] ].
Example C11_example_quantis_start_cond :
  (exists p0 p1 calls, quantis_swap_zero ex_vpot (fun _ => 1%Q) (ex_e0_lm1 false true) ex_e1 1 2 ex_old0 ex_old1 ex_qstreams_left [(1 # 2)%Q]
                       = Out false p0 p1 ZML calls 1 /\
                       orders (sp_path p0) = [-1; 0; 1; 3] /\ sp_status p0 = ZML /\ length calls = 3%nat) /\
  (exists p0 p1 calls, quantis_swap_zero ex_vpot (fun _ => 1%Q) (ex_e0_lm1 true true) ex_e1 1 2 ex_old0 ex_old1 ex_qstreams_left [(1 # 2)%Q]
                       = Out true p0 p1 ACC calls 1 /\
                       orders (sp_path p0) = [-1; 0; 1; 3] /\ orders (sp_path p1) = [0; 3; 4; 1]) /\
  (exists p0 p1 calls, quantis_swap_zero ex_vpot (fun _ => 1%Q) (ex_e0_lm1 false true) ex_e1 1 2 ex_old0 ex_old1 ex_qstreams [(1 # 2)%Q]
                       = Out true p0 p1 ACC calls 1 /\
                       orders (sp_path p0) = [4; 0; 1; 3] /\ first_frame_honest ex_qstreams calls /\
                       e_i0 (ex_e0_lm1 false true) <= e_i1 (ex_e0_lm1 false true) <= e_i2 (ex_e0_lm1 false true)).
Proof.
  split; [|split].
  - eexists _, _, _. split; [vm_compute; reflexivity|]. split; [reflexivity|]. split; reflexivity.
  - eexists _, _, _. split; [vm_compute; reflexivity|]. split; reflexivity.
  - eexists _, _, _. split; [vm_compute; reflexivity|]. split; [reflexivity|]. split; [|vm_compute; split; discriminate].
    intros [|[|[|[|k]]]] c s g Hc Hs Hg; cbn in Hc, Hs; try (destruct k; discriminate);
      injection Hc as <-; injection Hs as <-; injection Hg as <-; reflexivity.
Qed.

(* a deterministic reversible dynamics (SwapP.Clock: motion along one fixed trajectory, reversal
   flips the direction of time) satisfies the four laws; its paths [3,1,0,3] / [1,3,3,6] satisfy the
   hypotheses of C11_swap_twice_id, the swap gives [4,0,1,3] / [0,3,4,1] and swapping again
   restores the originals *)
Example C11_example_swap_twice :
  (forall x, Clock.R (Clock.R x) = x) /\ (forall x, Clock.R (Clock.T (Clock.R (Clock.T x))) = x) /\
  (forall x, Clock.ord (Clock.R x) = Clock.ord x) /\ (forall x, Clock.dec (Clock.enc x) = x) /\
  phys_path Clock.X Clock.T Clock.R Clock.ord Clock.dec (-3, false) (sp_path Clock.old0) /\
  phys_path Clock.X Clock.T Clock.R Clock.ord Clock.dec (5, false) (sp_path Clock.old1) /\
  minus_shape Clock.e0 (sp_path Clock.old0) /\ plus_shape Clock.e1 (sp_path Clock.old1) /\
  minus_valid Clock.e0 (sp_path Clock.old0) /\ plus_valid Clock.e1 (sp_path Clock.old1) /\
  exists new0 new1 calls new0' new1' calls',
    det_retis Clock.X Clock.T Clock.R Clock.ord Clock.enc Clock.dec 10 Clock.e0 Clock.e1 Clock.old0 Clock.old1
      = Out true new0 new1 ACC calls 0 /\
    orders (sp_path new0) = [4; 0; 1; 3] /\ orders (sp_path new1) = [0; 3; 4; 1] /\
    det_retis Clock.X Clock.T Clock.R Clock.ord Clock.enc Clock.dec 10 Clock.e0 Clock.e1 new0 new1
      = Out true new0' new1' ACC calls' 0 /\
    orders (sp_path new0') = [3; 1; 0; 3] /\ orders (sp_path new1') = [1; 3; 3; 6].
Proof.
  split; [exact Clock.RR|]. split; [exact Clock.RT|]. split; [exact Clock.ordR|]. split; [exact Clock.decenc|].
  split; [split; reflexivity|]. split; [split; reflexivity|].
  split.
  { eexists _, [_; _], _. split; [reflexivity|]. split; [reflexivity|].
    intros f [<-|[<-|[]]]; reflexivity. }
  split.
  { eexists _, [_; _], _. split; [reflexivity|]. split; [reflexivity|].
    intros f [<-|[<-|[]]]; reflexivity. }
  split.
  { eexists _, [_; _], _. split; [reflexivity|]. split; [discriminate|]. split; [reflexivity|].
    split; [intros _; reflexivity|]. split; [intros f [<-|[<-|[]]]; reflexivity|]. vm_compute. discriminate. }
  split.
  { eexists _, [_; _], _. split; [reflexivity|]. split; [discriminate|]. split; [reflexivity|].
    intros f [<-|[<-|[]]]; reflexivity. }
  eexists _, _, _, _, _, _.
  split; [vm_compute; reflexivity|]. split; [reflexivity|]. split; [reflexivity|].
  split; [vm_compute; reflexivity|]. split; reflexivity.
Qed.

(* two different engines (SwapP.Clock2: engine0 moves one table entry per step, engine1 two; same
   reversal, configurations and order parameter): old [0-] = [3,1,0,3] is a trajectory of engine0,
   old [0+] = [1,3,5,6] one of engine1; the swap gives [4,0,1,3] (engine0 backward) / [0,3,4,1]
   (engine1 forward), calls on E0 then E1, and swapping again restores the originals.  Had the
   forward runs been made by engine0 as well (one dynamics T0 for both: the model of a swap that
   propagates the [0+] part with the [0-] engine), both swaps would still be accepted but the
   [0+] sequence would NOT be restored: the statement tells the two engines apart. *)
Example C11_example_two_engines :
  (forall x, Clock2.R (Clock2.R x) = x) /\ (forall x, Clock2.R (Clock2.T0 (Clock2.R (Clock2.T0 x))) = x) /\
  (forall x, Clock2.R (Clock2.T1 (Clock2.R (Clock2.T1 x))) = x) /\
  (forall x, Clock2.ord (Clock2.R x) = Clock2.ord x) /\ (forall x, Clock2.dec (Clock2.enc x) = x) /\
  Clock2.T0 (0, false) <> Clock2.T1 (0, false) /\
  phys_path Clock2.X Clock2.T0 Clock2.R Clock2.ord Clock2.dec (-3, false) (sp_path Clock2.old0) /\
  phys_path Clock2.X Clock2.T1 Clock2.R Clock2.ord Clock2.dec (10, false) (sp_path Clock2.old1) /\
  minus_valid Clock2.e0 (sp_path Clock2.old0) /\ plus_valid Clock2.e1 (sp_path Clock2.old1) /\
  (exists new0 new1 calls new0' new1' calls',
    det_retis2 Clock2.X Clock2.T0 Clock2.R Clock2.T1 Clock2.R Clock2.ord Clock2.enc Clock2.dec 10
               Clock2.e0 Clock2.e1 Clock2.old0 Clock2.old1 = Out true new0 new1 ACC calls 0 /\
    map c_eng calls = [E0; E1] /\
    orders (sp_path new0) = [4; 0; 1; 3] /\ orders (sp_path new1) = [0; 3; 4; 1] /\
    det_retis2 Clock2.X Clock2.T0 Clock2.R Clock2.T1 Clock2.R Clock2.ord Clock2.enc Clock2.dec 10
               Clock2.e0 Clock2.e1 new0 new1 = Out true new0' new1' ACC calls' 0 /\
    map c_eng calls' = [E0; E1] /\
    orders (sp_path new0') = [3; 1; 0; 3] /\ orders (sp_path new1') = [1; 3; 5; 6]) /\
  (exists m0 m1 calls m0' m1' calls',
    det_retis Clock2.X Clock2.T0 Clock2.R Clock2.ord Clock2.enc Clock2.dec 10
              Clock2.e0 Clock2.e1 Clock2.old0 Clock2.old1 = Out true m0 m1 ACC calls 0 /\
    det_retis Clock2.X Clock2.T0 Clock2.R Clock2.ord Clock2.enc Clock2.dec 10
              Clock2.e0 Clock2.e1 m0 m1 = Out true m0' m1' ACC calls' 0 /\
    orders (sp_path m0') = [3; 1; 0; 3] /\ orders (sp_path m1') = [1; 3; 9] /\
    orders (sp_path m1') <> orders (sp_path Clock2.old1)).
Proof.
  split; [exact Clock2.RR|]. split; [exact Clock2.RT0|]. split; [exact Clock2.RT1|].
  split; [exact Clock2.ordR|]. split; [exact Clock2.decenc|]. split; [exact Clock2.T0_neq_T1|].
  split; [split; reflexivity|]. split; [split; reflexivity|].
  split.
  { eexists _, [_; _], _. split; [reflexivity|]. split; [discriminate|]. split; [reflexivity|].
    split; [intros _; reflexivity|]. split; [intros f [<-|[<-|[]]]; reflexivity|]. vm_compute. discriminate. }
  split.
  { eexists _, [_; _], _. split; [reflexivity|]. split; [discriminate|]. split; [reflexivity|].
    intros f [<-|[<-|[]]]; reflexivity. }
  split.
  - eexists _, _, _, _, _, _.
    split; [vm_compute; reflexivity|]. split; [reflexivity|]. split; [reflexivity|]. split; [reflexivity|].
    split; [vm_compute; reflexivity|]. split; [reflexivity|]. split; reflexivity.
  - eexists _, _, _, _, _, _.
    split; [vm_compute; reflexivity|]. split; [vm_compute; reflexivity|]. split; [reflexivity|].
    split; [reflexivity|]. vm_compute. discriminate.
Qed.
