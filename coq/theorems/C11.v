From Coq Require Import ZArith QArith List Bool Lia.
Import ListNotations.
From Inf Require Import model.PathM model.EngineM model.WeightM model.SwapM proofs.SwapP.
Theorem C11_tmp : forall s, is_acc s = true -> s = ACC.
Proof. exact is_acc_true. Qed.
Print Assumptions C11_tmp.
