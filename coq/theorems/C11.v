From Coq Require Import ZArith QArith List Bool Lia.
Import ListNotations.
From Inf Require Import model.PathM model.EngineM model.WeightM model.SwapM proofs.SwapP.
Theorem C11_placeholder : True. Proof. exact placeholder_true. Qed.
Print Assumptions C11_placeholder.
