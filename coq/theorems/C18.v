(* Property C18 — invalid configurations are rejected up front; accepted ones are valid;
   the defaults filled in by setup_config are a fixed point and are filled in BEFORE the
   validation (which therefore sees the engine "engine0" that quantis substitutes for [0-]); the
   route by which a configuration reaches setup_config (fresh input file / restart file) makes
   no difference.
   This file only restates the results proved in proofs/ConfigP.v (model: model/ConfigM.v,
   the code with proposed_fixes/C18_check_config.diff and C18_short_ensemble_engines.diff
   applied), so that the statements cannot be weakened silently; each is followed by Print
   Assumptions.  The property's list ([valid]) has nine clauses: at least two interfaces, sorted,
   no duplicates, workers <= ensembles - 1, a shooting move per ensemble, the cap clause, an
   ensemble_engines entry per ensemble ([v_englen]: an explicit list may be longer than the
   interfaces but not shorter), every named engine defined, lambda_minus_one below lambda_0.
   The code before the second repair ([check_config_before_fix], the same statements without the
   length test) is kept in the model and refuted at the end.  All statements are
   unbounded: any interface list over Q, any worker count, any move list, any cap,
   lambda_minus_one, quantis flag, engine lists and engine tables. *)
From Coq Require Import ZArith QArith List Bool Sorted SetoidList.
Import ListNotations.
From Inf Require Import model.ConfigM proofs.ConfigP.
Open Scope Q_scope.

(* what is accepted is valid (the property's list, ConfigM.valid) *)
Theorem C18_accept_sound : forall c, check_config c = Ok -> valid c.
Proof. exact accept_sound. Qed.
Print Assumptions C18_accept_sound.

(* what is not valid is rejected with a configuration error — never accepted, never another
   exception — and the error that is raised truthfully names a violated clause *)
Theorem C18_reject_is_config_error : forall c,
  ~ valid c -> exists k, check_config c = ConfigError k /\ err_holds c k.
Proof. exact reject_is_config_error. Qed.
Print Assumptions C18_reject_is_config_error.

(* every configuration error is justified, including the two outside the property's list
   (quantis together with lambda_minus_one; differing gromacs engines sharing an input_path) *)
Theorem C18_config_error_sound : forall c k, check_config c = ConfigError k -> err_holds c k.
Proof. exact config_error_sound. Qed.
Print Assumptions C18_config_error_sound.

(* a valid configuration is only ever turned down for those two reasons *)
Theorem C18_valid_outcome : forall c,
  valid c ->
  check_config c = if quantis_val c && lm1_truthy c then ConfigError EQuantisLm1 else gmx_tail c.
Proof. exact valid_outcome. Qed.
Print Assumptions C18_valid_outcome.

Theorem C18_accept_exact : forall c,
  check_config c = Ok <->
  valid c /\ quantis_val c && lm1_truthy c = false /\ gmx_tail c = Ok.
Proof. exact accept_exact. Qed.
Print Assumptions C18_accept_exact.

(* nothing is indexed out of range, whatever the configuration; and with complete engine
   tables (every used engine has a class and an input_path) there is no exception at all *)
Theorem C18_no_index_error : forall c, check_config c <> Crash IndexError.
Proof. exact no_index_error. Qed.
Print Assumptions C18_no_index_error.

Theorem C18_valid_complete_outcome : forall c,
  valid c -> engines_complete c ->
  check_config c = Ok \/ check_config c = ConfigError EQuantisLm1 \/
  check_config c = ConfigError EGmxDup.
Proof. exact valid_complete_outcome. Qed.
Print Assumptions C18_valid_complete_outcome.

(* the boolean oracle used by the harness decides exactly [valid] *)
Theorem C18_validb_reflects : forall c, validb c = true <-> valid c.
Proof. exact validb_spec. Qed.
Print Assumptions C18_validb_reflects.

(* valid interfaces are strictly increasing, hence without a cap (wire fencing then uses the
   last interface) every ensemble has room: the cap clause is the only way to lose it *)
Theorem C18_default_cap_has_room : forall c,
  valid c -> forall i, (i < length (interfaces c))%nat ->
  ens_interface (interfaces c) i < last (interfaces c) 0.
Proof. exact default_cap_has_room. Qed.
Print Assumptions C18_default_cap_has_room.

(* setup_config's defaults: idempotent, leave the validated fields alone, fill every default *)
Theorem C18_normalise_idempotent : forall c, normalise (normalise c) = normalise c.
Proof. exact normalise_idempotent. Qed.
Print Assumptions C18_normalise_idempotent.

Theorem C18_normalise_keeps : forall c,
  interfaces (normalise c) = interfaces c /\ workers (normalise c) = workers c /\
  moves (normalise c) = moves c /\ cap (normalise c) = cap c /\
  sections (normalise c) = sections c /\ lm1_val (normalise c) = lm1_val c /\
  quantis_val (normalise c) = quantis_val c.
Proof. exact normalise_keeps. Qed.
Print Assumptions C18_normalise_keeps.

Theorem C18_normalise_fills : forall c,
  quantis (normalise c) <> None /\ lm1 (normalise c) <> None /\ accept_all (normalise c) <> None /\
  seed (normalise c) <> None /\ ens_engs (normalise c) <> None.
Proof. exact normalise_fills. Qed.
Print Assumptions C18_normalise_fills.

Theorem C18_normalise_engines : forall c,
  ens_engs (normalise c) = Some (
    if has_ens_engs c then match ens_engs c with Some l => l | None => [] end
    else match interfaces c with
         | [] => []
         | _ :: r => (if quantis_val c then [name_engine0] else [name_engine])
                     :: map (fun _ => [name_engine]) r
         end).
Proof. exact normalise_engines. Qed.
Print Assumptions C18_normalise_engines.

(* the whole of setup_config.  VALIDATION FOLLOWS NORMALISATION: the model composes the six
   default-filling statements of setup_config in program order ([normalise] = step_accept_all o
   step_engine0 o step_lm1 o step_quantis o step_seed o step_engines) and calls check_config last,
   on their result - r = check_config (normalise c), never check_config of the file as read or
   of a half-normalised configuration.  What it returns is normalised (re-reading it changes
   nothing), accepted => valid, invalid => configuration error, never an IndexError; and the
   engine that statement 5 invents is itself validated: under quantis without an engine list of
   its own, an accepted configuration gives ["engine0"] to [0-] and HAS a table [engine0]. *)
Theorem C18_setup_config : forall c,
  let '(c', r) := setup_config c in
  c' = normalise c /\ r = check_config (normalise c) /\ normalise c' = c' /\
  (r = Ok -> valid c') /\ (~ valid c' -> exists k, r = ConfigError k /\ err_holds c' k) /\
  r <> Crash IndexError /\
  (r = Ok -> quantis_val c = true -> has_ens_engs c = false ->
   ens_engs c' = Some ([name_engine0] :: map (fun _ => [name_engine]) (tl (interfaces c))) /\
   In name_engine0 (map fst (sections c))).
Proof. exact setup_config_spec. Qed.
Print Assumptions C18_setup_config.

(* the route by which the configuration arrives - a fresh input file, or a restart file (the one
   the program wrote, edited or not) at any step, finished or not, with or without its paths -
   is no excuse.  [setup_from steps cur c]: cur = None for a file without a [current] table,
   Some k for one with it; the answer None stands for "setup_config returns None".
   Whenever there is an answer it is the normalised configuration, and the verdict is that of
   check_config on the normalised configuration: *)
Theorem C18_setup_any_route : forall steps cur c c' r,
  setup_from steps cur c = Some (c', r) ->
  c' = normalise c /\ r = check_config (normalise c) /\ normalise c' = c' /\
  (r = Ok -> valid c') /\ (~ valid c' -> exists k, r = ConfigError k /\ err_holds c' k) /\
  r <> Crash IndexError /\
  (r = Ok -> quantis_val c = true -> has_ens_engs c = false ->
   ens_engs c' = Some ([name_engine0] :: map (fun _ => [name_engine]) (tl (interfaces c))) /\
   In name_engine0 (map fst (sections c))).
Proof. exact setup_any_route. Qed.
Print Assumptions C18_setup_any_route.

(* an invalid configuration never gets as far as sampling, by any route *)
Theorem C18_invalid_never_starts : forall steps cur c,
  ~ valid (normalise c) -> ~ sampling_starts (setup_from steps cur c).
Proof. exact invalid_never_starts. Qed.
Print Assumptions C18_invalid_never_starts.

(* both values of "is a restart": the invalid configuration is answered with a configuration
   error that names a violated clause - from a fresh file always, from a restart file
   whenever the run would go on (not finished, paths there) *)
Theorem C18_fresh_rejects_invalid : forall steps c,
  ~ valid (normalise c) ->
  exists e, setup_from steps None c = Some (normalise c, ConfigError e) /\
            err_holds (normalise c) e.
Proof. exact fresh_rejects_invalid. Qed.
Print Assumptions C18_fresh_rejects_invalid.

Theorem C18_restart_rejects_invalid : forall steps k c,
  cstep k <> steps -> paths_present k = true -> ~ valid (normalise c) ->
  exists e, setup_from steps (Some k) c = Some (normalise c, ConfigError e) /\
            err_holds (normalise c) e.
Proof. exact restart_rejects_invalid. Qed.
Print Assumptions C18_restart_rejects_invalid.

(* a restart that goes on is treated exactly like a fresh start; no answer is given only for a
   restart file that is finished or lacks a path; sampling starts exactly when there is an
   answer and check_config let the normalised configuration through *)
Theorem C18_route_irrelevant : forall steps k c,
  cstep k <> steps -> paths_present k = true ->
  setup_from steps (Some k) c = setup_from steps None c.
Proof. exact setup_from_route_irrelevant. Qed.
Print Assumptions C18_route_irrelevant.

Theorem C18_setup_none : forall steps cur c,
  setup_from steps cur c = None <->
  exists k, cur = Some k /\ (cstep k = steps \/ paths_present k = false).
Proof. exact setup_from_none. Qed.
Print Assumptions C18_setup_none.

Theorem C18_sampling_starts_iff : forall steps cur c,
  sampling_starts (setup_from steps cur c) <->
  setup_from steps cur c <> None /\ check_config (normalise c) = Ok.
Proof. exact sampling_starts_iff. Qed.
Print Assumptions C18_sampling_starts_iff.

(* ---- the engine list has an entry per ensemble (clause [v_englen]) ---- *)

(* accepted => initialises, as far as the configuration decides it: for each of the n ensembles the
   first picks (REPEX_state.prep_md_items: ens_engs[ens_num + 1], [pick_engines]) find an entry
   in range, and every engine it names has a table *)
Theorem C18_accepted_picks_defined : forall c,
  check_config c = Ok -> forall i, (i < length (interfaces c))%nat ->
  exists l, pick_engines c i = Some l /\ forall e, In e l -> In e (map fst (sections c)).
Proof. exact accepted_picks_defined. Qed.
Print Assumptions C18_accepted_picks_defined.

(* a list shorter than the interfaces is a configuration error that names a violated clause ... *)
Theorem C18_short_engine_list_rejected : forall c ee,
  ens_engs c = Some ee -> (length ee < length (interfaces c))%nat ->
  exists k, check_config c = ConfigError k /\ err_holds c k.
Proof. exact short_engine_list_rejected. Qed.
Print Assumptions C18_short_engine_list_rejected.

(* ... also through setup_config: the defaults keep an explicit (non-empty) list as it is, so the
   file is invalid after the defaults (C18_invalid_never_starts, C18_fresh_rejects_invalid and
   C18_restart_rejects_invalid then apply: configuration error by either route, no sampling);
   the list the defaults build themselves has exactly one entry per interface *)
Theorem C18_setup_short_engine_list_invalid : forall c ee,
  ens_engs c = Some ee -> ee <> [] -> (length ee < length (interfaces c))%nat ->
  ~ valid (normalise c).
Proof. exact setup_short_engine_list_invalid. Qed.
Print Assumptions C18_setup_short_engine_list_invalid.

Theorem C18_default_engine_list_length : forall c,
  has_ens_engs c = false ->
  exists ee, ens_engs (normalise c) = Some ee /\ length ee = length (interfaces c).
Proof. exact default_engine_list_length. Qed.
Print Assumptions C18_default_engine_list_length.

(* the code before proposed_fixes/C18_short_ensemble_engines.diff: it differs from the repaired
   code only on a short engine list; whatever it accepted beyond the repaired code leaves an
   ensemble without an entry (IndexError at its first pick); and it did accept such a file - three
   interfaces, ensemble_engines = [["engine"]] - by either route, while the repaired code
   answers with the configuration error *)
Theorem C18_before_fix_differs_only_on_short_lists : forall c,
  check_config_before_fix c = check_config c \/
  (check_config c = ConfigError EEngineListShort /\
   exists ee, ens_engs c = Some ee /\ (length ee < length (interfaces c))%nat).
Proof. exact before_fix_cases. Qed.
Print Assumptions C18_before_fix_differs_only_on_short_lists.

Theorem C18_before_fix_accepts : forall c,
  check_config_before_fix c = Ok ->
  check_config c = Ok \/
  (check_config c = ConfigError EEngineListShort /\
   exists i, (i < length (interfaces c))%nat /\ pick_engines c i = None).
Proof. exact before_fix_accepts. Qed.
Print Assumptions C18_before_fix_accepts.

Theorem C18_short_engine_list_before_fix_refuted :
  exists c i,
    snd (setup_config_g false c) = Ok /\
    sampling_starts (setup_from_g false 10 None c) /\
    sampling_starts (setup_from_g false 10 (Some (mkCur 4 true)) c) /\
    (i < length (interfaces (normalise c)))%nat /\ pick_engines (normalise c) i = None /\
    snd (setup_config c) = ConfigError EEngineListShort /\ ~ valid (normalise c).
Proof. exact short_engine_list_before_fix_refuted. Qed.
Print Assumptions C18_short_engine_list_before_fix_refuted.

(* non-vacuity.  A wire-fencing configuration with a cap is valid and accepted ... *)
Definition ex_sections : list (name * section) :=
  [(name_engine, mkS (Some OtherClass) (Some 0%Z) 7%Z)].
Definition ex_cfg (intf : list Q) (ms : list move) (cp : option Q) (l : option (option Q)) : config :=
  mkC intf 2%Z ms cp None l None None None ex_sections.

Example C18_example_accept :
  let c := ex_cfg [0; 1; 2; 3] [Sh; Sh; Wf; Wf] (Some (5 # 2)) (Some (Some (-1))) in
  check_config (normalise c) = Ok /\ validb (normalise c) = true /\
  engines_complete (normalise c).
Proof.
  cbn zeta. split; [vm_compute; reflexivity|]. split; [vm_compute; reflexivity|].
  eexists. split; [reflexivity|]. intros e He. cbn in He.
  exists (mkS (Some OtherClass) (Some 0%Z) 7%Z).
  repeat (destruct He as [<-|He]; [repeat split; discriminate|]). contradiction.
Qed.

(* ... and the L8 witnesses (accepted, or an IndexError, in the code before the repair) are
   rejected with a configuration error by the modelled, repaired code *)
Example C18_example_L8 :
  (* a cap of 0.0 below every interface *)
  check_config (normalise (ex_cfg [1; 2; 3] [Sh; Sh; Sh] (Some 0) None)) = ConfigError ECapLow /\
  (* a cap of 0.0 = interface 0 with a wire-fencing ensemble at interface 1 *)
  check_config (normalise (ex_cfg [0; 1; 2] [Sh; Sh; Wf] (Some 0) None)) = ConfigError (ECapWf 2) /\
  (* a cap equal to the interface of the wire-fencing ensemble [2+] *)
  check_config (normalise (ex_cfg [0; 1; 2; 3] [Sh; Sh; Sh; Wf] (Some 2) None)) = ConfigError (ECapWf 3) /\
  (* no interfaces at all, with lambda_minus_one *)
  check_config (normalise (ex_cfg [] [] None (Some (Some (-1))))) = ConfigError EFewIntf /\
  ~ valid (normalise (ex_cfg [0; 1; 2; 3] [Sh; Sh; Sh; Wf] (Some 2) None)).
Proof.
  repeat split; try (vm_compute; reflexivity).
  intro V. apply validb_spec in V. vm_compute in V. discriminate.
Qed.

(* ... and a restart file of a valid run (step 4 of 10) that was edited: more steps only is
   accepted and sampling goes on; more workers than ensembles minus one, swapped interfaces or
   a cap on the interface of the wire-fencing ensemble are configuration errors *)
Example C18_example_restart :
  let k := mkCur 4 true in
  let good := ex_cfg [0; 1; 2; 3] [Sh; Sh; Wf; Wf] (Some (5 # 2)) (Some (Some (-1))) in
  sampling_starts (setup_from 20 (Some k) (normalise good)) /\
  setup_from 4 (Some k) (normalise good) = None /\
  (exists c', setup_from 20 (Some k)
     (mkC [0; 1; 2; 3] 100%Z [Sh; Sh; Wf; Wf] (Some (5 # 2)) None None None None None ex_sections)
     = Some (c', ConfigError EWorkers)) /\
  (exists c', setup_from 20 (Some k) (ex_cfg [0; 2; 1; 3] [Sh; Sh; Wf; Wf] None None)
     = Some (c', ConfigError EUnsorted)) /\
  (exists c', setup_from 20 (Some k) (ex_cfg [0; 1; 2; 3] [Sh; Sh; Sh; Wf] (Some 2) None)
     = Some (c', ConfigError (ECapWf 3))).
Proof.
  cbn zeta. split; [eexists; vm_compute; reflexivity|].
  split; [vm_compute; reflexivity|].
  repeat split; eexists; vm_compute; reflexivity.
Qed.

(* ... and the order of normalisation and validation matters.  quantis = true, no
   ensemble_engines, a table [engine] but none called [engine0]: the normalisation gives [0-] the
   engine "engine0", the configuration is invalid (undefined engine) and setup_config - by either
   route - answers with that configuration error; with a table [engine0] it is accepted; an
   explicit engine list that does not use "engine0" needs no such table.  A setup_config that
   validated BEFORE statements 2-6 (check_config (step_engines c): the engine list still
   [["engine"], ...]) would accept the invalid configuration - this variant is NOT the model, it
   is refuted here. *)
Definition ex_engine0 : name * section := (name_engine0, mkS (Some OtherClass) (Some 1%Z) 7%Z).
Definition ex_quantis (ee : option (list (list name))) (secs : list (name * section)) : config :=
  mkC [0; 1; 2] 1%Z [Sh; Sh; Sh] None (Some true) None None None ee secs.
Definition setup_config_checked_early (c : config) : config * result :=
  (normalise c, check_config (step_engines c)).

Example C18_example_order :
  let bad := ex_quantis None ex_sections in
  setup_config bad = (normalise bad, ConfigError (EEngineUndef name_engine0)) /\
  setup_from 10 None bad = Some (normalise bad, ConfigError (EEngineUndef name_engine0)) /\
  setup_from 10 (Some (mkCur 4 true)) bad
    = Some (normalise bad, ConfigError (EEngineUndef name_engine0)) /\
  ~ valid (normalise bad) /\
  snd (setup_config_checked_early bad) = Ok /\
  snd (setup_config (ex_quantis None (ex_engine0 :: ex_sections))) = Ok /\
  snd (setup_config (ex_quantis (Some [[name_engine]; [name_engine]; [name_engine]]) ex_sections)) = Ok /\
  snd (setup_config (ex_quantis (Some [[name_engine0]; [name_engine]; [name_engine]]) ex_sections))
    = ConfigError (EEngineUndef name_engine0) /\
  (* the empty list counts as "no engine list" *)
  snd (setup_config (ex_quantis (Some []) ex_sections)) = ConfigError (EEngineUndef name_engine0).
Proof.
  cbn zeta. repeat split; try (vm_compute; reflexivity).
  intro V. apply validb_spec in V. vm_compute in V. discriminate.
Qed.

(* ... and the engine list: for three interfaces every length 0 .. 4 of an explicit list of defined
   engines.  The empty list counts as absent (defaults, accepted), one and two entries are the
   configuration error of the length clause - by the fresh and by the restart route -, three and
   four entries are accepted and every ensemble finds its entry.  The length test comes after the
   cap tests and before the undefined-engine test, as in the code. *)
Definition ex_engs (ee : list (list name)) (cp : option Q) : config :=
  mkC [0; 1; 2] 1%Z [Sh; Sh; Sh] cp None None None None (Some ee) ex_sections.

Example C18_example_engine_list :
  let e := [name_engine] in
  snd (setup_config (ex_engs [] None)) = Ok /\
  snd (setup_config (ex_engs [e] None)) = ConfigError EEngineListShort /\
  snd (setup_config (ex_engs [e; e] None)) = ConfigError EEngineListShort /\
  snd (setup_config (ex_engs [e; e; e] None)) = Ok /\
  snd (setup_config (ex_engs [e; e; e; e] None)) = Ok /\
  (exists c', setup_from 20 None (ex_engs [e; e] None) = Some (c', ConfigError EEngineListShort)) /\
  (exists c', setup_from 20 (Some (mkCur 4 true)) (ex_engs [e; e] None)
     = Some (c', ConfigError EEngineListShort)) /\
  validb (normalise (ex_engs [e; e] None)) = false /\
  validb (normalise (ex_engs [e; e; e; e] None)) = true /\
  (forall i, (i < 3)%nat -> pick_engines (normalise (ex_engs [e; e; e; e] None)) i = Some e) /\
  pick_engines (normalise (ex_engs [e; e] None)) 2 = None /\
  (* order of the tests: cap, then length, then undefined engine *)
  snd (setup_config (ex_engs [e] (Some 5))) = ConfigError ECapHigh /\
  snd (setup_config (ex_engs [[77%Z]] None)) = ConfigError EEngineListShort /\
  snd (setup_config (ex_engs [e; e; [77%Z]] None)) = ConfigError (EEngineUndef 77%Z) /\
  (* the code before the repair let the short lists through *)
  snd (setup_config_g false (ex_engs [e] None)) = Ok /\
  snd (setup_config_g false (ex_engs [e; e] None)) = Ok.
Proof.
  cbn zeta. repeat split; try (vm_compute; reflexivity); try (eexists; vm_compute; reflexivity).
  intros i Hi. destruct i as [|[|[|i]]]; try reflexivity.
  exfalso. do 3 apply Nat.succ_lt_mono in Hi. inversion Hi.
Qed.
