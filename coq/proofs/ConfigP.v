(* Proofs about model/ConfigM.v (check_config, normalise) for property C18. *)
From Coq Require Import ZArith QArith List Bool Sorted SetoidList Lia Lqa.
Import ListNotations.
From Inf Require Import model.ConfigM.
Open Scope Q_scope.

(* ------------------------------------------------------------------ comparisons *)
Lemma qle_spec a b : qle a b = true <-> a <= b.
Proof. apply Qle_bool_iff. Qed.

Lemma qle_false a b : qle a b = false <-> b < a.
Proof.
  unfold qle. split.
  - intro H. apply Qnot_le_lt. intro H1. apply Qle_bool_iff in H1. congruence.
  - intro H. destruct (Qle_bool a b) eqn:E; auto. apply Qle_bool_iff in E.
    exfalso. exact (Qlt_not_le _ _ H E).
Qed.

Lemma qlt_spec a b : qlt a b = true <-> a < b.
Proof. unfold qlt. rewrite negb_true_iff. apply (qle_false b a). Qed.

Lemma qlt_false a b : qlt a b = false <-> b <= a.
Proof. unfold qlt. rewrite negb_false_iff. apply (qle_spec b a). Qed.

Lemma qeq_spec a b : qeq a b = true <-> a == b.
Proof. apply Qeq_bool_iff. Qed.

(* ------------------------------------------------------------------ small list facts *)
Lemma last_cons_default (x d : Q) r : last (x :: r) d = last r x.
Proof.
  revert x d. induction r as [|y r IH]; intros x d; [reflexivity|].
  change (last (x :: y :: r) d) with (last (y :: r) d). rewrite IH.
  symmetry. apply IH.
Qed.

Lemma hd_error_hd (l : list Q) : l <> [] -> hd_error l = Some (hd 0 l).
Proof. destruct l; [congruence | reflexivity]. Qed.

Lemma last_error_last (l : list Q) : l <> [] -> last_error l = Some (last l 0).
Proof.
  destruct l as [|x r]; [congruence|]. intros _. unfold last_error.
  now rewrite last_cons_default.
Qed.

Lemma nth_error_firstn_lt {A} n : forall (l : list A) k,
  (k < n)%nat -> nth_error (firstn n l) k = nth_error l k.
Proof.
  induction n as [|n IH]; intros l k H; [lia|].
  destruct l as [|a l]; [reflexivity|]. destruct k as [|k]; [reflexivity|].
  cbn. apply IH. lia.
Qed.

Lemma find_none_iff {A} (f : A -> bool) l :
  find f l = None <-> forall x, In x l -> f x = false.
Proof.
  split; [apply find_none|].
  induction l as [|a l IH]; intros H; [reflexivity|]. cbn.
  rewrite (H a (or_introl eq_refl)). apply IH. intros x Hx. apply H. now right.
Qed.

(* ------------------------------------------------------------------ sorted(l) != l *)
Lemma Forall_insert (P : Q -> Prop) x l : Forall P (insert x l) <-> P x /\ Forall P l.
Proof.
  induction l as [|y r IH]; cbn.
  - split; intro H; [inversion H; auto | destruct H; auto].
  - destruct (qle x y).
    + split; intro H; [inversion H; auto | destruct H; auto].
    + split; intro H.
      * inversion H as [|? ? Hy Hr]; subst. apply IH in Hr. destruct Hr as [Hx Hr]. auto.
      * destruct H as [Hx H]. inversion H as [|? ? Hy Hr]; subst.
        constructor; [assumption|]. apply IH. auto.
Qed.

Lemma insert_sorted x l : StronglySorted Qle l -> StronglySorted Qle (insert x l).
Proof.
  induction l as [|y r IH]; intros H; cbn.
  - repeat constructor.
  - inversion H as [|? ? Hr Hy]; subst.
    destruct (qle x y) eqn:E.
    + apply qle_spec in E. constructor; [assumption|]. constructor; [assumption|].
      eapply Forall_impl; [|exact Hy]. intros a Ha. cbv beta in Ha. lra.
    + apply qle_false in E. constructor; [auto|]. apply Forall_insert. split; [lra | assumption].
Qed.

Lemma py_sorted_sorted l : StronglySorted Qle (py_sorted l).
Proof. induction l as [|x r IH]; cbn; [constructor | now apply insert_sorted]. Qed.

Lemma py_sorted_fix l : StronglySorted Qle l -> py_sorted l = l.
Proof.
  induction l as [|x r IH]; intros H; [reflexivity|].
  inversion H as [|? ? Hr Hx]; subst. cbn. rewrite (IH Hr).
  destruct r as [|y r']; [reflexivity|]. cbn.
  inversion Hx as [|? ? Hxy _]; subst. apply qle_spec in Hxy. now rewrite Hxy.
Qed.

Lemma list_qeqb_spec a : forall b, list_qeqb a b = true <-> Forall2 Qeq a b.
Proof.
  induction a as [|x r IH]; intros [|y s]; cbn.
  - split; [constructor | reflexivity].
  - split; [discriminate | intro H; inversion H].
  - split; [discriminate | intro H; inversion H].
  - rewrite andb_true_iff, qeq_spec, IH. split.
    + intros [H1 H2]. now constructor.
    + intro H. inversion H; subst. auto.
Qed.

Lemma list_qeqb_refl l : list_qeqb l l = true.
Proof. apply list_qeqb_spec. induction l; constructor; [reflexivity | assumption]. Qed.

Lemma Forall_Qle_transport x y r s :
  x == y -> Forall2 Qeq r s -> Forall (Qle x) r -> Forall (Qle y) s.
Proof.
  intros Hxy H2. induction H2 as [|a b r s Hab _ IH]; intros H; [constructor|].
  inversion H as [|? ? Ha Hr]; subst. constructor; [lra | auto].
Qed.

Lemma sorted_transport a b : Forall2 Qeq a b -> StronglySorted Qle a -> StronglySorted Qle b.
Proof.
  induction 1 as [|x y r s Hxy H2 IH]; intros H; [constructor|].
  inversion H as [|? ? Hr Hx]; subst. constructor; [auto|].
  eapply Forall_Qle_transport; eauto.
Qed.

Lemma sorted_check l : list_qeqb (py_sorted l) l = true <-> StronglySorted Qle l.
Proof.
  split.
  - intro H. apply list_qeqb_spec in H. eapply sorted_transport; [exact H|]. apply py_sorted_sorted.
  - intro H. rewrite (py_sorted_fix l H). apply list_qeqb_refl.
Qed.

(* ------------------------------------------------------------------ len(set(l)) != len(l) *)
Lemma existsb_qeq_InA x r : existsb (qeq x) r = true <-> InA Qeq x r.
Proof.
  rewrite existsb_exists, InA_alt. split.
  - intros [y [Hy He]]. exists y. apply qeq_spec in He. auto.
  - intros [y [He Hy]]. exists y. split; [assumption|]. now apply qeq_spec.
Qed.

Lemma py_set_length_le l : (length (py_set l) <= length l)%nat.
Proof.
  induction l as [|x r IH]; cbn; [lia|]. destruct (existsb (qeq x) r); cbn; lia.
Qed.

Lemma nodup_check l : (length (py_set l) =? length l)%nat = true <-> NoDupA Qeq l.
Proof.
  induction l as [|x r IH]; cbn.
  - split; [constructor | reflexivity].
  - destruct (existsb (qeq x) r) eqn:E.
    + pose proof (py_set_length_le r) as Hle. split.
      * intro H. apply Nat.eqb_eq in H. lia.
      * intro H. inversion H as [|? ? Hn _]; subst. apply existsb_qeq_InA in E. contradiction.
    + cbn. change (S (length (py_set r)) =? S (length r))%nat with (length (py_set r) =? length r)%nat.
      rewrite IH. split.
      * intro H. constructor; [|assumption]. intro Hin. apply existsb_qeq_InA in Hin. congruence.
      * intro H. now inversion H.
Qed.

(* ------------------------------------------------------------------ the wire-fencing loop *)
Lemma wf_loop_spec intf q ms : forall i,
  (forall k, (k < length ms)%nat -> (pred (i + k) < length intf)%nat) ->
  (wf_loop intf q i ms = Ok /\
   forall k, nth_error ms k = Some Wf -> nth (pred (i + k)) intf 0 < q)
  \/ (exists j, wf_loop intf q i ms = ConfigError (ECapWf j) /\ (i <= j < i + length ms)%nat /\
                nth_error ms (j - i) = Some Wf /\ q <= nth (pred j) intf 0).
Proof.
  induction ms as [|m r IH]; intros i Hb.
  - left. split; [reflexivity|]. intros [|k] Hk; discriminate.
  - cbn [wf_loop].
    assert (Hi : (pred i < length intf)%nat).
    { specialize (Hb 0%nat). cbn in Hb. replace (i + 0)%nat with i in Hb by lia. apply Hb. lia. }
    destruct (nth_error intf (pred i)) as [li|] eqn:El;
      [|apply nth_error_None in El; lia].
    assert (Hli : li = nth (pred i) intf 0).
    { symmetry. now apply nth_error_nth. }
    destruct (is_wf m && qle q li) eqn:Et.
    + right. exists i. apply andb_true_iff in Et. destruct Et as [Hm Hq].
      split; [reflexivity|]. split; [cbn; lia|]. split.
      * replace (i - i)%nat with 0%nat by lia. cbn. destruct m; [discriminate | reflexivity].
      * apply qle_spec in Hq. now rewrite <- Hli.
    + destruct (IH (S i)) as [[Hok Hall] | [j [Hj [Hr [Hn Hq]]]]].
      * intros k Hk. specialize (Hb (S k)). cbn in Hb.
        replace (i + S k)%nat with (S i + k)%nat in Hb by lia. apply Hb. lia.
      * left. split; [assumption|]. intros [|k] Hk.
        -- cbn in Hk. injection Hk as ->. cbn in Et. apply qle_false in Et.
           replace (i + 0)%nat with i by lia. now rewrite <- Hli.
        -- cbn in Hk. replace (i + S k)%nat with (S i + k)%nat by lia. now apply Hall.
      * right. exists j. split; [assumption|]. split; [cbn; lia|]. split; [|assumption].
        replace (j - i)%nat with (S (j - S i)) by lia. exact Hn.
Qed.

(* ------------------------------------------------------------------ engines *)
Lemma mem_spec k l : mem k l = true <-> In k l.
Proof.
  unfold mem. rewrite existsb_exists. split.
  - intros [y [Hy He]]. apply Z.eqb_eq in He. now subst.
  - intro H. exists k. split; [assumption | apply Z.eqb_refl].
Qed.

Lemma uniq_acc_In e l : forall acc, In e (uniq_acc acc l) <-> In e acc \/ In e l.
Proof.
  induction l as [|x r IH]; intros acc; cbn.
  - tauto.
  - destruct (mem x acc) eqn:E.
    + rewrite IH. apply mem_spec in E. split; [tauto|].
      intros [H|[H|H]]; auto. subst. auto.
    + rewrite IH, in_app_iff. cbn. tauto.
Qed.

Lemma unique_engines_In e ee : In e (unique_engines ee) <-> In e (concat ee).
Proof. unfold unique_engines. rewrite uniq_acc_In. cbn. tauto. Qed.

Lemma lookup_In k secs : (exists s, lookup k secs = Some s) <-> In k (map fst secs).
Proof.
  induction secs as [|[k' v] r IH]; cbn.
  - split; [intros [s H]; discriminate | tauto].
  - destruct (Z.eqb_spec k k') as [->|Hne].
    + split; [auto | intros _; eauto].
    + rewrite IH. split; [auto | intros [H|H]; [congruence | assumption]].
Qed.

Lemma defined_spec secs k : defined secs k = true <-> In k (map fst secs).
Proof.
  rewrite <- lookup_In. unfold defined. destruct (lookup k secs) as [s|].
  - split; eauto.
  - split; [discriminate | intros [s H]; discriminate].
Qed.

(* ------------------------------------------------------------------ what each error means *)
Definition gmx_dup_holds (c : config) : Prop :=
  exists ee k1 k2 s1 s2 p,
    ens_engs c = Some ee /\ In k1 (concat ee) /\ In k2 (concat ee) /\
    lookup k1 (sections c) = Some s1 /\ lookup k2 (sections c) = Some s2 /\
    s_class s1 = Some Gromacs /\ s_input s1 = Some p /\ s_input s2 = Some p /\
    ~ (s_class s2 = Some Gromacs /\ s_rest s1 = s_rest s2).

Definition err_holds (c : config) (k : cfg_err) : Prop :=
  let intf := interfaces c in
  match k with
  | EFewIntf => (length intf < 2)%nat
  | ELm1 => exists v, lm1_val c = Some v /\ hd 0 intf <= v
  | EQuantisLm1 => quantis_val c = true /\ exists v, lm1_val c = Some v /\ ~ v == 0
  | EWorkers => (Z.of_nat (length intf) - 1 < workers c)%Z
  | EUnsorted => ~ StronglySorted Qle intf
  | EDuplicate => ~ NoDupA Qeq intf
  | EMoves => (length (moves c) < length intf)%nat
  | ECapHigh => exists q, cap c = Some q /\ last intf 0 < q
  | ECapLow => exists q, cap c = Some q /\ q < hd 0 intf
  | ECapWf i => exists q, cap c = Some q /\ (i < length intf)%nat /\
                          nth_error (moves c) i = Some Wf /\ q <= ens_interface intf i
  | EEngineListShort => exists ee, ens_engs c = Some ee /\ (length ee < length intf)%nat
  | EEngineUndef e => exists ee, ens_engs c = Some ee /\ In e (concat ee) /\
                                 ~ In e (map fst (sections c))
  | EGmxDup => gmx_dup_holds c
  end.

(* every error except the two that are not in the property's list contradicts validity *)
Lemma err_not_valid c k :
  k <> EGmxDup -> k <> EQuantisLm1 -> err_holds c k -> ~ valid c.
Proof.
  intros Hg Hq He V. destruct V as [V2 Vs Vn Vw Vm Vc Vel Ve Vl].
  destruct k as [| | | | | | | | |i| |e|]; cbn in He.
  - (* EFewIntf *) lia.
  - (* ELm1 *) destruct He as [v [H1 H2]]. specialize (Vl v H1). lra.
  - (* EQuantisLm1 *) now apply Hq.
  - (* EWorkers *) lia.
  - (* EUnsorted *) now apply He.
  - (* EDuplicate *) now apply He.
  - (* EMoves *) lia.
  - (* ECapHigh *) destruct He as [q [H1 H2]]. destruct (Vc q H1) as [_ [H3 _]]. lra.
  - (* ECapLow *) destruct He as [q [H1 H2]]. destruct (Vc q H1) as [H3 _]. lra.
  - (* ECapWf *) destruct He as [q [H1 [H2 [H3 H4]]]]. destruct (Vc q H1) as [_ [_ H5]].
    specialize (H5 i H2 H3). lra.
  - (* EEngineListShort *) destruct He as [ee [H1 H2]]. specialize (Vel ee H1). lia.
  - (* EEngineUndef *) destruct He as [ee [H1 [H2 H3]]]. apply H3. eapply Ve; eauto.
  - (* EGmxDup *) now apply Hg.
Qed.

(* ------------------------------------------------------------------ the cap stage *)
Definition cap_clause (c : config) : Prop :=
  forall q, cap c = Some q ->
    hd 0 (interfaces c) <= q /\ q <= last (interfaces c) 0 /\
    forall i, (i < length (interfaces c))%nat -> nth_error (moves c) i = Some Wf ->
              ens_interface (interfaces c) i < q.

Lemma check_cap_cases c rest :
  (2 <= length (interfaces c))%nat -> (length (interfaces c) <= length (moves c))%nat ->
  (exists k, check_cap c rest = ConfigError k /\ err_holds c k /\ k <> EGmxDup /\ k <> EQuantisLm1)
  \/ (check_cap c rest = rest /\ cap_clause c).
Proof.
  intros H2 Hm. unfold check_cap, cap_clause.
  destruct (cap c) as [q|] eqn:Ec; [|right; split; [reflexivity | intros q' Hq'; discriminate]].
  assert (Hne : interfaces c <> []) by (intro E; rewrite E in H2; cbn in H2; lia).
  rewrite (last_error_last _ Hne), (hd_error_hd _ Hne).
  destruct (qlt (last (interfaces c) 0) q) eqn:E1.
  { left. exists ECapHigh. apply qlt_spec in E1. repeat split; try discriminate.
    cbn. rewrite Ec. eauto. }
  apply qlt_false in E1.
  destruct (qlt q (hd 0 (interfaces c))) eqn:E2.
  { left. exists ECapLow. apply qlt_spec in E2. repeat split; try discriminate.
    cbn. rewrite Ec. eauto. }
  apply qlt_false in E2.
  assert (Hlen : length (firstn (length (interfaces c)) (moves c)) = length (interfaces c)).
  { rewrite firstn_length. lia. }
  destruct (wf_loop_spec (interfaces c) q (firstn (length (interfaces c)) (moves c)) 0)
    as [[Hok Hall] | [j [Hj [Hr [Hn Hq]]]]].
  - intros k Hk. rewrite Hlen in Hk. cbn. lia.
  - right. rewrite Hok. split; [reflexivity|]. intros q' Hq'. injection Hq' as <-.
    split; [assumption|]. split; [assumption|]. intros i Hi Hw.
    unfold ens_interface. apply (Hall i). rewrite nth_error_firstn_lt; assumption.
  - left. exists (ECapWf j). rewrite Hj. rewrite Hlen in Hr.
    replace (j - 0)%nat with j in Hn by lia.
    rewrite nth_error_firstn_lt in Hn by lia.
    repeat split; try discriminate. cbn. rewrite Ec. exists q.
    repeat split; try assumption; lia.
Qed.

(* ------------------------------------------------------------------ the engine stage *)
Definition eng_clause (c : config) : Prop :=
  (forall ee, ens_engs c = Some ee -> (length (interfaces c) <= length ee)%nat) /\
  forall ee e, ens_engs c = Some ee -> In e (concat ee) -> In e (map fst (sections c)).

Lemma check_engines_cases c :
  (exists k, check_engines c = ConfigError k /\ err_holds c k /\ k <> EGmxDup /\ k <> EQuantisLm1)
  \/ (check_engines c = gmx_tail c /\ eng_clause c).
Proof.
  unfold check_engines, check_engines_g, eng_clause, gmx_tail.
  destruct (ens_engs c) as [ee|] eqn:Ee;
    [|right; split; [reflexivity | split; [intros ? H | intros ? ? H]; discriminate]].
  cbn [andb].
  destruct (Nat.ltb_spec (length ee) (length (interfaces c))) as [Hlen|Hlen].
  { left. exists EEngineListShort. repeat split; try discriminate. cbn. exists ee. auto. }
  destruct (find (fun k => negb (defined (sections c) k)) (unique_engines ee)) as [k|] eqn:Ef.
  - left. exists (EEngineUndef k). apply find_some in Ef. destruct Ef as [Hin Hd].
    repeat split; try discriminate. cbn. exists ee. split; [assumption|].
    split; [now apply unique_engines_In|].
    intro H. apply defined_spec in H. rewrite H in Hd. discriminate.
  - right. split; [reflexivity|]. split; [intros ee' Hee; injection Hee as <-; exact Hlen|].
    intros ee' e Hee Hin. injection Hee as <-.
    rewrite find_none_iff in Ef. specialize (Ef e (proj2 (unique_engines_In e ee) Hin)).
    apply negb_false_iff in Ef. now apply defined_spec.
Qed.

(* ------------------------------------------------------------------ the gromacs tail *)
Lemma gmx_inner_res r1 p1 keys secs :
  gmx_inner r1 p1 keys secs = Ok \/ gmx_inner r1 p1 keys secs = Crash KeyError \/
  (gmx_inner r1 p1 keys secs = ConfigError EGmxDup /\
   exists k2 s2, In k2 keys /\ lookup k2 secs = Some s2 /\ s_input s2 = Some p1 /\
                 ~ (s_class s2 = Some Gromacs /\ r1 = s_rest s2)).
Proof.
  induction keys as [|k2 r IH]; cbn; [auto|].
  destruct (lookup k2 secs) as [s2|] eqn:El; [|auto].
  destruct (s_input s2) as [p2|] eqn:Ei; [|auto].
  match goal with |- context [if ?b then _ else _] => destruct b eqn:Et end.
  - right. right. split; [reflexivity|]. exists k2, s2.
    apply andb_true_iff in Et. destruct Et as [Hs Hp]. apply Z.eqb_eq in Hp. subst p2.
    repeat split; auto. intros [Hc Hr]. rewrite Hc in Hs. apply negb_true_iff in Hs.
    apply Z.eqb_neq in Hs. contradiction.
  - destruct IH as [H|[H|[H [k [s [Hin Hrest]]]]]]; auto.
    right. right. split; [assumption|]. exists k, s. split; [now right | assumption].
Qed.

Lemma gmx_outer_res todo all secs :
  gmx_outer todo all secs = Ok \/ gmx_outer todo all secs = Crash KeyError \/
  (gmx_outer todo all secs = ConfigError EGmxDup /\
   exists k1 k2 s1 s2 p, In k1 todo /\ In k2 all /\ lookup k1 secs = Some s1 /\
     lookup k2 secs = Some s2 /\ s_class s1 = Some Gromacs /\ s_input s1 = Some p /\
     s_input s2 = Some p /\ ~ (s_class s2 = Some Gromacs /\ s_rest s1 = s_rest s2)).
Proof.
  induction todo as [|k1 r IH]; cbn; [auto|].
  assert (IH' : gmx_outer r all secs = Ok \/ gmx_outer r all secs = Crash KeyError \/
   (gmx_outer r all secs = ConfigError EGmxDup /\
    exists k0 k2 s1 s2 p, (k1 = k0 \/ In k0 r) /\ In k2 all /\ lookup k0 secs = Some s1 /\
     lookup k2 secs = Some s2 /\ s_class s1 = Some Gromacs /\ s_input s1 = Some p /\
     s_input s2 = Some p /\ ~ (s_class s2 = Some Gromacs /\ s_rest s1 = s_rest s2))).
  { destruct IH as [H|[H|[H [k0 [k2 [s1 [s2 [p [Hin Hrest]]]]]]]]]; auto.
    right. right. split; [assumption|]. exists k0, k2, s1, s2, p. split; [now right | assumption]. }
  destruct (lookup k1 secs) as [s1|] eqn:El; [|auto].
  destruct (s_class s1) as [[|]|] eqn:Ecl; [| exact IH' | auto].
  destruct (s_input s1) as [p1|] eqn:Ei; [|auto].
  destruct (gmx_inner_res (s_rest s1) p1 all secs) as [H|[H|[H [k2 [s2 [Hin [Hl [Hi Hn]]]]]]]];
    rewrite H; auto.
  right. right. split; [reflexivity|]. exists k1, k2, s1, s2, p1.
  repeat split; auto.
Qed.

Lemma gmx_tail_res c :
  gmx_tail c = Ok \/ gmx_tail c = Crash KeyError \/
  (gmx_tail c = ConfigError EGmxDup /\ gmx_dup_holds c).
Proof.
  unfold gmx_tail, gmx_dup_holds. destruct (ens_engs c) as [ee|] eqn:Ee; [|auto].
  destruct (gmx_outer_res (unique_engines ee) (unique_engines ee) (sections c))
    as [H|[H|[H [k1 [k2 [s1 [s2 [p [H1 [H2 Hrest]]]]]]]]]]; auto.
  right. right. split; [assumption|]. exists ee, k1, k2, s1, s2, p.
  apply unique_engines_In in H1. apply unique_engines_In in H2. repeat split; tauto.
Qed.

(* with complete engine tables the gromacs check cannot hit a KeyError *)
Definition engines_complete (c : config) : Prop :=
  exists ee, ens_engs c = Some ee /\
    forall e, In e (concat ee) ->
      exists s, lookup e (sections c) = Some s /\ s_class s <> None /\ s_input s <> None.

Lemma gmx_inner_total r1 p1 keys secs :
  (forall e, In e keys -> exists s, lookup e secs = Some s /\ s_class s <> None /\ s_input s <> None) ->
  gmx_inner r1 p1 keys secs <> Crash KeyError.
Proof.
  induction keys as [|k2 r IH]; intros H; cbn; [discriminate|].
  destruct (H k2 (or_introl eq_refl)) as [s [Hl [Hc Hi]]]. rewrite Hl.
  destruct (s_input s) as [p2|]; [|congruence].
  match goal with |- context [if ?b then _ else _] => destruct b end; [discriminate|].
  apply IH. intros e He. apply H. now right.
Qed.

Lemma gmx_outer_total todo all secs :
  (forall e, In e todo -> exists s, lookup e secs = Some s /\ s_class s <> None /\ s_input s <> None) ->
  (forall e, In e all -> exists s, lookup e secs = Some s /\ s_class s <> None /\ s_input s <> None) ->
  gmx_outer todo all secs <> Crash KeyError.
Proof.
  induction todo as [|k1 r IH]; intros H Ha; cbn; [discriminate|].
  assert (IH' : gmx_outer r all secs <> Crash KeyError).
  { apply IH; [|assumption]. intros e He. apply H. now right. }
  destruct (H k1 (or_introl eq_refl)) as [s [Hl [Hc Hi]]]. rewrite Hl.
  destruct (s_class s) as [[|]|]; [| assumption | congruence].
  destruct (s_input s) as [p1|]; [|congruence].
  pose proof (gmx_inner_total (s_rest s) p1 all secs Ha) as Hin.
  destruct (gmx_inner (s_rest s) p1 all secs) as [|k|e] eqn:E; [assumption | discriminate |].
  destruct (gmx_inner_res (s_rest s) p1 all secs) as [H1|[H1|[H1 _]]]; congruence.
Qed.

Lemma gmx_tail_total c : engines_complete c -> gmx_tail c <> Crash KeyError.
Proof.
  intros [ee [Hee H]]. unfold gmx_tail. rewrite Hee.
  apply gmx_outer_total; intros e He; apply H; now apply unique_engines_In.
Qed.

(* ------------------------------------------------------------------ the master lemma *)
Lemma lm1_truthy_spec c :
  lm1_truthy c = true <-> exists v, lm1_val c = Some v /\ ~ v == 0.
Proof.
  unfold lm1_truthy. destruct (lm1_val c) as [v|].
  - rewrite negb_true_iff. split.
    + intro H. exists v. split; [reflexivity|]. intro He. apply qeq_spec in He. congruence.
    + intros [v' [Hv Hn]]. injection Hv as <-. destruct (qeq v 0) eqn:E; [|reflexivity].
      apply qeq_spec in E. contradiction.
  - split; [discriminate | intros [v [H _]]; discriminate].
Qed.

Lemma stage2_cases c :
  (2 <= length (interfaces c))%nat ->
  (forall v, lm1_val c = Some v -> v < hd 0 (interfaces c)) ->
  (exists k, stage2 c = ConfigError k /\ err_holds c k /\ k <> EGmxDup)
  \/ (valid c /\ stage2 c = gmx_tail c /\ quantis_val c && lm1_truthy c = false).
Proof.
  intros H2 Hl. unfold stage2, stage2_g. fold (check_engines c).
  destruct (quantis_val c && lm1_truthy c) eqn:Eq.
  { left. exists EQuantisLm1. apply andb_true_iff in Eq. destruct Eq as [Hq Ht].
    repeat split; try discriminate; [assumption|]. now apply lm1_truthy_spec. }
  destruct (Z.ltb_spec (Z.of_nat (length (interfaces c)) - 1) (workers c)) as [Hw|Hw].
  { left. exists EWorkers. repeat split; try discriminate. exact Hw. }
  destruct (list_qeqb (py_sorted (interfaces c)) (interfaces c)) eqn:Es; cbn [negb].
  2:{ left. exists EUnsorted. repeat split; try discriminate. cbn. intro H.
      apply sorted_check in H. congruence. }
  apply sorted_check in Es.
  destruct (length (py_set (interfaces c)) =? length (interfaces c))%nat eqn:Ed; cbn [negb].
  2:{ left. exists EDuplicate. repeat split; try discriminate. cbn. intro H.
      apply nodup_check in H. congruence. }
  apply nodup_check in Ed.
  destruct (Nat.ltb_spec (length (moves c)) (length (interfaces c))) as [Hm|Hm].
  { left. exists EMoves. repeat split; try discriminate. exact Hm. }
  destruct (check_cap_cases c (check_engines c) H2 Hm) as [[k [Hk [He [Hg _]]]] | [Hc Hcap]].
  { left. exists k. auto. }
  rewrite Hc.
  destruct (check_engines_cases c) as [[k [Hk [He [Hg _]]]] | [Hc' [Hlen Heng]]].
  { left. exists k. auto. }
  right. split; [|split; [assumption | reflexivity]].
  constructor; assumption.
Qed.

Lemma check_config_master c :
  (exists k, check_config c = ConfigError k /\ err_holds c k /\ k <> EGmxDup)
  \/ (valid c /\ check_config c = gmx_tail c /\ quantis_val c && lm1_truthy c = false).
Proof.
  unfold check_config, check_config_g. fold (stage2 c).
  destruct (Nat.ltb_spec (length (interfaces c)) 2) as [H2|H2].
  { left. exists EFewIntf. repeat split; try discriminate. exact H2. }
  assert (Hne : interfaces c <> []) by (intro E; rewrite E in H2; cbn in H2; lia).
  unfold check_lm1. destruct (lm1_val c) as [v|] eqn:El.
  - rewrite (hd_error_hd _ Hne). destruct (qle (hd 0 (interfaces c)) v) eqn:Eq.
    + left. exists ELm1. apply qle_spec in Eq. repeat split; try discriminate.
      cbn. rewrite El. eauto.
    + apply qle_false in Eq. apply stage2_cases; [assumption|].
      intros v' Hv'. rewrite El in Hv'. injection Hv' as <-. assumption.
  - apply stage2_cases; [assumption|]. intros v' Hv'. rewrite El in Hv'. discriminate.
Qed.

(* ------------------------------------------------------------------ consequences *)
Lemma accept_sound c : check_config c = Ok -> valid c.
Proof.
  intro H. destruct (check_config_master c) as [[k [Hk _]] | [V _]]; [congruence | assumption].
Qed.

Lemma reject_is_config_error c :
  ~ valid c -> exists k, check_config c = ConfigError k /\ err_holds c k.
Proof.
  intro H. destruct (check_config_master c) as [[k [Hk [He _]]] | [V _]]; [eauto | contradiction].
Qed.

Lemma config_error_sound c k : check_config c = ConfigError k -> err_holds c k.
Proof.
  intro H. destruct (check_config_master c) as [[k' [Hk [He _]]] | [V [Ht _]]].
  - rewrite H in Hk. injection Hk as <-. assumption.
  - rewrite Ht in H. destruct (gmx_tail_res c) as [H1|[H1|[H1 Hd]]]; try congruence.
    rewrite H1 in H. injection H as <-. exact Hd.
Qed.

Lemma cfg_err_eq_quantis k : k = EQuantisLm1 \/ k <> EQuantisLm1.
Proof. destruct k; auto; right; discriminate. Qed.

Definition after_valid (c : config) : result :=
  if quantis_val c && lm1_truthy c then ConfigError EQuantisLm1 else gmx_tail c.

Lemma valid_outcome c : valid c -> check_config c = after_valid c.
Proof.
  intro V. unfold after_valid.
  destruct (check_config_master c) as [[k [Hk [He Hg]]] | [_ [Ht Hq]]].
  - destruct (cfg_err_eq_quantis k) as [->|Hnq].
    + cbn in He. destruct He as [Hq Hl]. apply lm1_truthy_spec in Hl. rewrite Hq, Hl. exact Hk.
    + exfalso. exact (err_not_valid c k Hg Hnq He V).
  - now rewrite Hq.
Qed.

Lemma no_index_error c : check_config c <> Crash IndexError.
Proof.
  destruct (check_config_master c) as [[k [Hk _]] | [_ [Ht _]]]; [congruence|].
  rewrite Ht. destruct (gmx_tail_res c) as [H|[H|[H _]]]; congruence.
Qed.

Lemma accept_exact c :
  check_config c = Ok <-> valid c /\ quantis_val c && lm1_truthy c = false /\ gmx_tail c = Ok.
Proof.
  split.
  - intro H. destruct (check_config_master c) as [[k [Hk _]] | [V [Ht Hq]]]; [congruence|].
    split; [assumption|]. split; [assumption|]. now rewrite <- Ht.
  - intros [V [Hq Hg]]. rewrite (valid_outcome c V). unfold after_valid. now rewrite Hq.
Qed.

Lemma valid_complete_outcome c :
  valid c -> engines_complete c ->
  check_config c = Ok \/ check_config c = ConfigError EQuantisLm1 \/
  check_config c = ConfigError EGmxDup.
Proof.
  intros V Hc. rewrite (valid_outcome c V). unfold after_valid.
  destruct (quantis_val c && lm1_truthy c); [auto|].
  pose proof (gmx_tail_total c Hc) as Hn.
  destruct (gmx_tail_res c) as [H|[H|[H _]]]; auto. contradiction.
Qed.

(* ------------------------------------------------------------------ validb reflects valid *)
Lemma strictly_inc_spec l :
  strictly_inc l = true <-> StronglySorted Qle l /\ NoDupA Qeq l.
Proof.
  induction l as [|x r IH].
  - cbn. split; [intros _; split; constructor | reflexivity].
  - destruct r as [|y r'].
    + cbn. split; [|reflexivity]. intros _. split.
      * repeat constructor.
      * constructor; [intro H; inversion H | constructor].
    + change (strictly_inc (x :: y :: r')) with (qlt x y && strictly_inc (y :: r')).
      rewrite andb_true_iff, qlt_spec, IH. split.
      * intros [Hxy [Hs Hn]]. inversion Hs as [|? ? Hs' Hy]; subst. split.
        -- constructor; [assumption|]. constructor; [lra|].
           eapply Forall_impl; [|exact Hy]. intros a Ha. cbv beta in Ha. lra.
        -- constructor; [|assumption]. intro Hin. apply InA_alt in Hin.
           destruct Hin as [z [Hz Hin]]. destruct Hin as [<-|Hin]; [lra|].
           rewrite Forall_forall in Hy. specialize (Hy z Hin). cbv beta in Hy. lra.
      * intros [Hs Hn]. inversion Hs as [|? ? Hs' Hx]; subst.
        inversion Hn as [|? ? Hnx Hn']; subst. inversion Hx as [|? ? Hxy _]; subst.
        split; [|split; assumption].
        destruct (Qlt_le_dec x y) as [Hlt|Hge]; [assumption|]. exfalso. apply Hnx.
        constructor. lra.
Qed.

Lemma forallb_seq_spec (f : nat -> bool) n :
  forallb f (seq 0 n) = true <-> forall i, (i < n)%nat -> f i = true.
Proof.
  rewrite forallb_forall. split.
  - intros H i Hi. apply H. apply in_seq. lia.
  - intros H i Hi. apply in_seq in Hi. apply H. lia.
Qed.

Lemma validb_spec c : validb c = true <-> valid c.
Proof.
  unfold validb. repeat rewrite andb_true_iff.
  rewrite Nat.leb_le, strictly_inc_spec, Z.leb_le, Nat.leb_le. split.
  - intros [[[[[[H2 [Hs Hn]] Hw] Hm] Hc] He] Hl]. constructor; try assumption.
    + intros q Hq. rewrite Hq in Hc. repeat rewrite andb_true_iff in Hc.
      destruct Hc as [[H1 H3] H4]. apply qle_spec in H1. apply qle_spec in H3.
      split; [assumption|]. split; [assumption|]. intros i Hi Hw'.
      rewrite forallb_seq_spec in H4. specialize (H4 i Hi). cbv beta in H4.
      rewrite Hw' in H4. now apply qlt_spec.
    + intros ee Hee. rewrite Hee in He. apply andb_true_iff in He. destruct He as [He _].
      now apply Nat.leb_le in He.
    + intros ee e Hee Hin. rewrite Hee in He. apply andb_true_iff in He. destruct He as [_ He].
      rewrite forallb_forall in He. apply mem_spec. now apply He.
    + intros v Hv. rewrite Hv in Hl. now apply qlt_spec.
  - intros [V2 Vs Vn Vw Vm Vc Vel Ve Vl]. repeat split; try assumption.
    + destruct (cap c) as [q|]; [|reflexivity]. destruct (Vc q eq_refl) as [H1 [H3 H4]].
      repeat rewrite andb_true_iff. repeat split; try (now apply qle_spec).
      apply forallb_seq_spec. intros i Hi.
      destruct (nth_error (moves c) i) as [[|]|] eqn:Em; try reflexivity.
      apply qlt_spec. now apply H4.
    + destruct (ens_engs c) as [ee|] eqn:Ee; [|reflexivity]. apply andb_true_iff. split.
      * apply Nat.leb_le. now apply Vel.
      * apply forallb_forall. intros e He. apply mem_spec. eapply Ve; eauto.
    + destruct (lm1_val c) as [v|] eqn:El; [|reflexivity]. apply qlt_spec. now apply Vl.
Qed.

(* a valid configuration has strictly increasing interfaces, so without a cap (the moves
   then use the last interface) every ensemble has room *)
Lemma sorted_nodup_lt l :
  StronglySorted Qle l -> NoDupA Qeq l ->
  forall i j, (i < j < length l)%nat -> nth i l 0 < nth j l 0.
Proof.
  induction l as [|x r IH]; intros Hs Hn i j Hij; [cbn in Hij; lia|].
  inversion Hs as [|? ? Hs' Hx]; subst. inversion Hn as [|? ? Hnx Hn']; subst.
  destruct j as [|j]; [lia|]. cbn in Hij. destruct i as [|i].
  - cbn. assert (Hin : In (nth j r 0) r) by (apply nth_In; lia).
    rewrite Forall_forall in Hx. specialize (Hx _ Hin). cbv beta in Hx.
    destruct (Qlt_le_dec x (nth j r 0)) as [Hlt|Hge]; [assumption|]. exfalso. apply Hnx.
    apply InA_alt. exists (nth j r 0). split; [lra | assumption].
  - cbn. apply IH; try assumption. lia.
Qed.

Lemma last_nth (l : list Q) : last l 0 = nth (pred (length l)) l 0.
Proof.
  induction l as [|x r IH]; [reflexivity|]. destruct r as [|y r']; [reflexivity|].
  change (last (x :: y :: r') 0) with (last (y :: r') 0). rewrite IH. reflexivity.
Qed.

Lemma default_cap_has_room c :
  valid c -> forall i, (i < length (interfaces c))%nat ->
  ens_interface (interfaces c) i < last (interfaces c) 0.
Proof.
  intros V i Hi. destruct V as [V2 Vs Vn _ _ _ _ _ _]. unfold ens_interface.
  rewrite last_nth. apply sorted_nodup_lt; try assumption. lia.
Qed.

(* ------------------------------------------------------------------ normalise *)

(* the six statements of setup_config, composed in program order, amount to this *)
Lemma normalise_closed c :
  normalise c =
  let has := has_ens_engs c in
  let q := quantis_val c in
  let ee0 := if has then match ens_engs c with Some l => l | None => [] end
             else map (fun _ => [name_engine]) (interfaces c) in
  let ee1 := if q && negb has
             then match ee0 with [] => [] | _ :: r => [name_engine0] :: r end
             else ee0 in
  mkC (interfaces c) (workers c) (moves c) (cap c)
      (Some q)
      (Some (lm1_val c))
      (Some (match accept_all c with Some b => b | None => false end))
      (Some (match seed c with Some s => s | None => 0%Z end))
      (Some ee1)
      (sections c).
Proof.
  destruct c as [intf w ms cp q l aa sd ee secs].
  destruct ee as [[|e ee]|], q as [[|]|], intf as [|i r]; reflexivity.
Qed.

Lemma normalise_idempotent c : normalise (normalise c) = normalise c.
Proof.
  destruct c as [intf w ms cp q l aa sd ee secs].
  destruct ee as [[|e ee]|], q as [[|]|], intf as [|i r], l as [[v|]|], aa as [b|], sd as [s|];
    reflexivity.
Qed.

Lemma normalise_keeps c :
  interfaces (normalise c) = interfaces c /\ workers (normalise c) = workers c /\
  moves (normalise c) = moves c /\ cap (normalise c) = cap c /\
  sections (normalise c) = sections c /\ lm1_val (normalise c) = lm1_val c /\
  quantis_val (normalise c) = quantis_val c.
Proof.
  rewrite normalise_closed. cbn zeta.
  repeat split. unfold lm1_val at 1. cbn. now destruct (lm1_val c).
Qed.

Lemma normalise_fills c :
  quantis (normalise c) <> None /\ lm1 (normalise c) <> None /\ accept_all (normalise c) <> None /\
  seed (normalise c) <> None /\ ens_engs (normalise c) <> None.
Proof. rewrite normalise_closed. cbn. repeat split; discriminate. Qed.

(* an explicitly given, non-empty engine list is kept; otherwise one ["engine"] per interface
   with ["engine0"] first under quantis *)
Lemma normalise_engines c :
  ens_engs (normalise c) = Some (
    if has_ens_engs c then match ens_engs c with Some l => l | None => [] end
    else match interfaces c with
         | [] => []
         | _ :: r => (if quantis_val c then [name_engine0] else [name_engine])
                     :: map (fun _ => [name_engine]) r
         end).
Proof.
  rewrite normalise_closed.
  cbn. f_equal. destruct (has_ens_engs c); [now rewrite andb_false_r|].
  rewrite andb_true_r. destruct (interfaces c); cbn; destruct (quantis_val c); reflexivity.
Qed.

(* validation follows normalisation: whatever statement 5 of setup_config puts in place is
   seen by check_config.  Under quantis without an engine list of its own, an accepted
   configuration has ["engine0"] for [0-] and a table of that name. *)
Lemma quantis_engine0_checked c :
  check_config (normalise c) = Ok -> quantis_val c = true -> has_ens_engs c = false ->
  ens_engs (normalise c)
    = Some ([name_engine0] :: map (fun _ => [name_engine]) (tl (interfaces c))) /\
  In name_engine0 (map fst (sections c)).
Proof.
  intros A Q H. apply accept_sound in A.
  pose proof (normalise_engines c) as E. rewrite H, Q in E.
  destruct (normalise_keeps c) as [KI [_ [_ [_ [KS _]]]]].
  pose proof (v_two _ A) as V2. rewrite KI in V2.
  destruct (interfaces c) as [|i r] eqn:I; [cbn in V2; lia|].
  split; [exact E|]. rewrite <- KS.
  apply (v_engines _ A _ name_engine0 E). cbn. now left.
Qed.

Lemma setup_config_eq c : setup_config c = (normalise c, check_config (normalise c)).
Proof. reflexivity. Qed.

Lemma setup_config_spec c :
  let '(c', r) := setup_config c in
  c' = normalise c /\ r = check_config (normalise c) /\ normalise c' = c' /\
  (r = Ok -> valid c') /\ (~ valid c' -> exists k, r = ConfigError k /\ err_holds c' k) /\
  r <> Crash IndexError /\
  (r = Ok -> quantis_val c = true -> has_ens_engs c = false ->
   ens_engs c' = Some ([name_engine0] :: map (fun _ => [name_engine]) (tl (interfaces c))) /\
   In name_engine0 (map fst (sections c))).
Proof.
  rewrite setup_config_eq.
  split; [reflexivity|]. split; [reflexivity|]. split; [apply normalise_idempotent|].
  split; [apply accept_sound|]. split; [apply reject_is_config_error|].
  split; [apply no_index_error | apply quantis_engine0_checked].
Qed.

(* ------------------------------------------------------------------ the route (fresh / restart) *)

(* setup_config gives no answer only on a restart file that is finished or lacks a path *)
Lemma setup_from_none steps cur c :
  setup_from steps cur c = None <->
  exists k, cur = Some k /\ (cstep k = steps \/ paths_present k = false).
Proof.
  unfold setup_from, setup_from_g. destruct cur as [k|].
  - destruct (Z.eqb_spec (cstep k) steps) as [E|E].
    + split; [intros _; exists k; auto | reflexivity].
    + destruct (paths_present k) eqn:P; cbn.
      * split; [discriminate|]. intros [k' [K [H|H]]]; inversion K; subst k'; congruence.
      * split; [intros _; exists k; auto | reflexivity].
  - split; [discriminate | intros [k [K _]]; discriminate].
Qed.

(* by any route: an answer is the answer of the one setup_config *)
Lemma setup_from_some steps cur c o :
  setup_from steps cur c = Some o -> o = setup_config c.
Proof.
  unfold setup_from, setup_from_g. destruct cur as [k|]; [|intros H; now inversion H].
  destruct (cstep k =? steps)%Z; [discriminate|].
  destruct (negb (paths_present k)); [discriminate|]. intros H; now inversion H.
Qed.

Lemma setup_from_continues steps k c :
  cstep k <> steps -> paths_present k = true ->
  setup_from steps (Some k) c = Some (setup_config c).
Proof.
  intros E P. unfold setup_from, setup_from_g. destruct (Z.eqb_spec (cstep k) steps) as [E'|_]; [contradiction|].
  now rewrite P.
Qed.

Lemma setup_from_route_irrelevant steps k c :
  cstep k <> steps -> paths_present k = true ->
  setup_from steps (Some k) c = setup_from steps None c.
Proof. intros E P. now rewrite setup_from_continues. Qed.

Lemma setup_any_route steps cur c c' r :
  setup_from steps cur c = Some (c', r) ->
  c' = normalise c /\ r = check_config (normalise c) /\ normalise c' = c' /\
  (r = Ok -> valid c') /\ (~ valid c' -> exists k, r = ConfigError k /\ err_holds c' k) /\
  r <> Crash IndexError /\
  (r = Ok -> quantis_val c = true -> has_ens_engs c = false ->
   ens_engs c' = Some ([name_engine0] :: map (fun _ => [name_engine]) (tl (interfaces c))) /\
   In name_engine0 (map fst (sections c))).
Proof.
  intros H. apply setup_from_some in H. pose proof (setup_config_spec c) as S.
  rewrite <- H in S. exact S.
Qed.

Lemma invalid_never_starts steps cur c :
  ~ valid (normalise c) -> ~ sampling_starts (setup_from steps cur c).
Proof.
  intros NV [c' H]. destruct (setup_any_route _ _ _ _ _ H) as [E [_ [_ [A _]]]].
  subst c'. exact (NV (A eq_refl)).
Qed.

Lemma fresh_rejects_invalid steps c :
  ~ valid (normalise c) ->
  exists e, setup_from steps None c = Some (normalise c, ConfigError e) /\
            err_holds (normalise c) e.
Proof.
  intros NV. destruct (reject_is_config_error _ NV) as [e [E H]].
  exists e. split; [|exact H]. change (setup_from steps None c) with (Some (setup_config c)).
  now rewrite setup_config_eq, E.
Qed.

Lemma restart_rejects_invalid steps k c :
  cstep k <> steps -> paths_present k = true -> ~ valid (normalise c) ->
  exists e, setup_from steps (Some k) c = Some (normalise c, ConfigError e) /\
            err_holds (normalise c) e.
Proof.
  intros E P NV. rewrite (setup_from_route_irrelevant _ _ _ E P).
  now apply fresh_rejects_invalid.
Qed.

(* sampling starts exactly for the configurations check_config lets through, by any route
   that gives an answer *)
Lemma sampling_starts_iff steps cur c :
  sampling_starts (setup_from steps cur c) <->
  setup_from steps cur c <> None /\ check_config (normalise c) = Ok.
Proof.
  split.
  - intros [c' H]. split; [congruence|]. apply setup_from_some in H.
    rewrite setup_config_eq in H. now inversion H.
  - intros [NN E]. destruct (setup_from steps cur c) as [o|] eqn:H; [|contradiction].
    apply setup_from_some in H. subst o. exists (normalise c). now rewrite setup_config_eq, E.
Qed.

(* ------------------------------------------------------------------ the engine list and the first picks *)

(* what is accepted has an engine list (check_config reads it) ... *)
Lemma accepted_has_engine_list c : check_config c = Ok -> exists ee, ens_engs c = Some ee.
Proof.
  intro H. apply accept_exact in H. destruct H as [_ [_ Hg]]. unfold gmx_tail in Hg.
  destruct (ens_engs c) as [ee|]; [eauto | discriminate].
Qed.

(* ... and every ensemble finds its entry there: prep_md_items' ens_engs[ens_num + 1] is in range
   for each of the n ensembles, and every engine named by the entry has a table *)
Lemma valid_picks_defined c ee :
  valid c -> ens_engs c = Some ee -> forall i, (i < length (interfaces c))%nat ->
  exists l, pick_engines c i = Some l /\ forall e, In e l -> In e (map fst (sections c)).
Proof.
  intros V Hee i Hi. unfold pick_engines. rewrite Hee.
  pose proof (v_englen _ V _ Hee) as Hl.
  destruct (nth_error ee i) as [l|] eqn:En; [|apply nth_error_None in En; lia].
  exists l. split; [reflexivity|]. intros e He.
  apply (v_engines _ V ee e Hee). apply in_concat. exists l. split; [|assumption].
  eapply nth_error_In; eauto.
Qed.

Lemma accepted_picks_defined c :
  check_config c = Ok -> forall i, (i < length (interfaces c))%nat ->
  exists l, pick_engines c i = Some l /\ forall e, In e l -> In e (map fst (sections c)).
Proof.
  intros A. destruct (accepted_has_engine_list c A) as [ee Hee].
  exact (valid_picks_defined c ee (accept_sound c A) Hee).
Qed.

(* a list with fewer entries than interfaces is invalid, hence a configuration error *)
Lemma short_engine_list_invalid c ee :
  ens_engs c = Some ee -> (length ee < length (interfaces c))%nat -> ~ valid c.
Proof. intros Hee Hl V. pose proof (v_englen _ V _ Hee). lia. Qed.

Lemma short_engine_list_rejected c ee :
  ens_engs c = Some ee -> (length ee < length (interfaces c))%nat ->
  exists k, check_config c = ConfigError k /\ err_holds c k.
Proof. intros Hee Hl. apply reject_is_config_error. eapply short_engine_list_invalid; eauto. Qed.

(* through setup_config: an explicit (non-empty) list is kept by the defaults, so a short one is
   still short when check_config sees it; the default list has one entry per interface *)
Lemma explicit_engine_list_kept c ee :
  ens_engs c = Some ee -> ee <> [] ->
  ens_engs (normalise c) = Some ee /\ interfaces (normalise c) = interfaces c.
Proof.
  intros Hee Hne. split; [|apply normalise_keeps].
  rewrite normalise_engines. unfold has_ens_engs. rewrite Hee.
  destruct ee; [congruence | reflexivity].
Qed.

Lemma setup_short_engine_list_invalid c ee :
  ens_engs c = Some ee -> ee <> [] -> (length ee < length (interfaces c))%nat ->
  ~ valid (normalise c).
Proof.
  intros Hee Hne Hl. destruct (explicit_engine_list_kept c ee Hee Hne) as [E I].
  apply (short_engine_list_invalid _ ee E). now rewrite I.
Qed.

Lemma default_engine_list_length c :
  has_ens_engs c = false ->
  exists ee, ens_engs (normalise c) = Some ee /\ length ee = length (interfaces c).
Proof.
  intros H. rewrite normalise_engines, H. eexists. split; [reflexivity|].
  destruct (interfaces c); cbn; [reflexivity|]. now rewrite map_length.
Qed.

(* ------------------------------------------------------------------ the code before the repair *)

(* check_cap either falls through to what follows or does not look at it *)
Lemma check_cap_rest c r1 r2 :
  (check_cap c r1 = r1 /\ check_cap c r2 = r2) \/ check_cap c r1 = check_cap c r2.
Proof.
  unfold check_cap. destruct (cap c) as [q|]; [|left; auto].
  destruct (last_error (interfaces c)) as [il|]; [|right; reflexivity].
  destruct (qlt il q); [right; reflexivity|].
  destruct (hd_error (interfaces c)) as [i0|]; [|right; reflexivity].
  destruct (qlt q i0); [right; reflexivity|].
  destruct (wf_loop (interfaces c) q 0 (firstn (length (interfaces c)) (moves c)));
    [left; auto | right; reflexivity | right; reflexivity].
Qed.

Definition engine_list_short (c : config) : Prop :=
  exists ee, ens_engs c = Some ee /\ (length ee < length (interfaces c))%nat.

Lemma check_engines_g_cases c :
  check_engines_g false c = check_engines_g true c \/
  (check_engines_g true c = ConfigError EEngineListShort /\ engine_list_short c).
Proof.
  unfold check_engines_g, engine_list_short. destruct (ens_engs c) as [ee|]; [|left; reflexivity].
  cbn [andb]. destruct (Nat.ltb_spec (length ee) (length (interfaces c))) as [H|H].
  - right. split; [reflexivity|]. exists ee. auto.
  - left. reflexivity.
Qed.

Lemma stage2_g_cases c :
  stage2_g false c = stage2_g true c \/
  (stage2_g true c = ConfigError EEngineListShort /\ engine_list_short c).
Proof.
  unfold stage2_g.
  destruct (quantis_val c && lm1_truthy c); [left; reflexivity|].
  destruct (Z.of_nat (length (interfaces c)) - 1 <? workers c)%Z; [left; reflexivity|].
  destruct (negb (list_qeqb (py_sorted (interfaces c)) (interfaces c))); [left; reflexivity|].
  destruct (negb (length (py_set (interfaces c)) =? length (interfaces c))%nat); [left; reflexivity|].
  destruct (length (moves c) <? length (interfaces c))%nat; [left; reflexivity|].
  destruct (check_cap_rest c (check_engines_g false c) (check_engines_g true c)) as [[H1 H2]|H].
  - rewrite H1, H2. apply check_engines_g_cases.
  - left. exact H.
Qed.

(* the two variants differ only on a short engine list, which the repaired code turns down *)
Lemma before_fix_cases c :
  check_config_before_fix c = check_config c \/
  (check_config c = ConfigError EEngineListShort /\ engine_list_short c).
Proof.
  unfold check_config_before_fix, check_config, check_config_g.
  destruct (length (interfaces c) <? 2)%nat; [left; reflexivity|].
  unfold check_lm1. destruct (lm1_val c) as [v|]; [|apply stage2_g_cases].
  destruct (hd_error (interfaces c)) as [i0|]; [|left; reflexivity].
  destruct (qle i0 v); [left; reflexivity | apply stage2_g_cases].
Qed.

Lemma before_fix_agrees c :
  (forall ee, ens_engs c = Some ee -> (length (interfaces c) <= length ee)%nat) ->
  check_config_before_fix c = check_config c.
Proof.
  intros H. destruct (before_fix_cases c) as [E | [_ [ee [Hee Hl]]]]; [exact E|].
  specialize (H ee Hee). lia.
Qed.

(* whatever the code before the repair accepted beyond the repaired code has a short list, and one
   of its ensembles then finds no entry: the first pick of that ensemble raises IndexError *)
Lemma before_fix_accepts c :
  check_config_before_fix c = Ok ->
  check_config c = Ok \/
  (check_config c = ConfigError EEngineListShort /\
   exists i, (i < length (interfaces c))%nat /\ pick_engines c i = None).
Proof.
  intros A. destruct (before_fix_cases c) as [E | [E [ee [Hee Hl]]]].
  - left. now rewrite <- E.
  - right. split; [exact E|]. exists (length ee). split; [exact Hl|].
    unfold pick_engines. rewrite Hee. apply nth_error_None. lia.
Qed.

(* the witness: three interfaces, ensemble_engines = [["engine"]], a table [engine].  The code
   before the repair lets it through setup_config (any route) and sampling starts; ensembles
   [0+] and [1+] have no entry; the repaired code answers with the configuration error. *)
Definition short_list_witness : config :=
  mkC [0; 1; 2] 1%Z [Sh; Sh; Sh] None None None None None (Some [[name_engine]])
      [(name_engine, mkS (Some OtherClass) (Some 0%Z) 7%Z)].

Lemma short_engine_list_before_fix_refuted :
  exists c i,
    snd (setup_config_g false c) = Ok /\
    sampling_starts (setup_from_g false 10 None c) /\
    sampling_starts (setup_from_g false 10 (Some (mkCur 4 true)) c) /\
    (i < length (interfaces (normalise c)))%nat /\ pick_engines (normalise c) i = None /\
    snd (setup_config c) = ConfigError EEngineListShort /\ ~ valid (normalise c).
Proof.
  exists short_list_witness, 1%nat.
  split; [vm_compute; reflexivity|].
  split; [eexists; vm_compute; reflexivity|].
  split; [eexists; vm_compute; reflexivity|].
  split; [vm_compute; lia|]. split; [vm_compute; reflexivity|].
  split; [vm_compute; reflexivity|].
  intro V. apply validb_spec in V. vm_compute in V. discriminate.
Qed.
