(* Property C01 (sampling is unbiased), infinite-swapping part: the probabilities P[i][j] that
   replica exchange uses (property C02: P = Pspec W, Pspec n W i j = W_ij perm(W \ i,j) / perm W)
   ARE the marginals of the equilibrium distribution over assignments.

   An assignment of the n live paths to the n ensembles is a permutation sigma of [0,n), written
   as the list [sigma 0; ...; sigma (n-1)]; its statistical weight is
       w(sigma) = prod_{i<n} W i (sigma i)
   (path i has weight W i j in ensemble j; the joint weight of independent ensembles is the
   product).  The equilibrium probability of sigma is w(sigma) / sum_tau w(tau), and the
   probability that path i sits in ensemble j is the marginal
       sum_{sigma : sigma i = j} w(sigma) / sum_sigma w(sigma).

   Proved here, for every n and every matrix W over Q (no bound, no sign condition unless stated):
     perms_of_spec / NoDup_perms_of   perms_of n lists every permutation of [0,n) exactly once
     perm_is_sum_over_permutations    perm n W == sum_{sigma in perms_of n} w(sigma)
     marginal_numerator               sum_{sigma, sigma i = j} w(sigma) == W i j * perm (n-1) (W \ i,j)
     Pspec_is_marginal                Pspec n W i j == marginal (i, j)
     assign_prob_nonneg / _sum_one    w(sigma)/perm W is a probability distribution (W >= 0, perm W <> 0)
     Pspec_is_marginal_of_assign_prob Pspec n W i j == sum_{sigma, sigma i = j} assign_prob sigma
   Pure specification level: only spec/PermS.v and lemmas about it are used; nothing here
   mentions the model of the code (that the code computes Pspec is property C02). *)
From Coq Require Import QArith List Arith Lia Setoid Morphisms Permutation FinFun.
From Inf Require Import spec.PermS proofs.PermSpecP proofs.PermQuickSpecP proofs.PermMatchP.
Import ListNotations.
Open Scope Q_scope.

(* ------------------------------------------------------------------ sums over lists *)

Fixpoint lsum {A : Type} (f : A -> Q) (l : list A) : Q :=
  match l with
  | [] => 0
  | x :: r => f x + lsum f r
  end.

Lemma lsum_app : forall {A} (f : A -> Q) l1 l2, lsum f (l1 ++ l2) == lsum f l1 + lsum f l2.
Proof.
  intros A f l1 l2. induction l1 as [|x r IH]; cbn [lsum app].
  - ring.
  - rewrite IH. ring.
Qed.

Lemma lsum_ext : forall {A} (f g : A -> Q) l,
  (forall x, In x l -> f x == g x) -> lsum f l == lsum g l.
Proof.
  intros A f g l. induction l as [|x r IH]; intros H; cbn [lsum].
  - reflexivity.
  - rewrite (H x (or_introl eq_refl)). rewrite IH; [reflexivity|].
    intros y Hy. apply H. right. exact Hy.
Qed.

Lemma lsum_map : forall {A B} (h : A -> B) (f : B -> Q) l,
  lsum f (map h l) == lsum (fun x => f (h x)) l.
Proof.
  intros A B h f l. induction l as [|x r IH]; cbn [lsum map]; [reflexivity|].
  rewrite IH. reflexivity.
Qed.

Lemma lsum_scale : forall {A} (c : Q) (f : A -> Q) l,
  lsum (fun x => c * f x) l == c * lsum f l.
Proof.
  intros A c f l. induction l as [|x r IH]; cbn [lsum]; [ring|]. rewrite IH. ring.
Qed.

Lemma lsum_nonneg : forall {A} (f : A -> Q) l,
  (forall x, In x l -> 0 <= f x) -> 0 <= lsum f l.
Proof.
  intros A f l. induction l as [|x r IH]; intros H; cbn [lsum]; [discriminate|].
  setoid_replace 0 with (0 + 0) by ring. apply Qplus_le_compat.
  - apply H. left. reflexivity.
  - apply IH. intros y Hy. apply H. right. exact Hy.
Qed.

Lemma lsum_filter : forall {A} (p : A -> bool) (f : A -> Q) l,
  lsum f (filter p l) == lsum (fun x => if p x then f x else 0) l.
Proof.
  intros A p f l. induction l as [|x r IH]; cbn [lsum filter]; [reflexivity|].
  destruct (p x); cbn [lsum]; rewrite IH; ring.
Qed.

(* a sum over a list organised in n blocks is the qsum of the block sums *)
Lemma lsum_flat_map_seq : forall {A} (f : A -> Q) (g : nat -> list A) n,
  lsum f (flat_map g (seq 0 n)) == qsum n (fun j => lsum f (g j)).
Proof.
  intros A f g n. induction n as [|n IH]; [reflexivity|].
  rewrite seq_S, flat_map_app, lsum_app, IH, qsum_S. cbn [flat_map plus].
  rewrite app_nil_r. reflexivity.
Qed.

(* a qsum with a single non-zero term *)
Lemma qsum_only : forall n j f, (j < n)%nat ->
  (forall b, (b < n)%nat -> b <> j -> f b == 0) -> qsum n f == f j.
Proof.
  induction n as [|n IH]; intros j f Hj H0; [lia|].
  rewrite qsum_S. destruct (Nat.eq_dec j n) as [E|NE].
  - subst j. rewrite (qsum_ext n f (fun _ => 0)).
    + rewrite qsum_zero. ring.
    + intros k Hk. apply H0; lia.
  - rewrite (IH j f) by (try lia; intros b Hb Hbj; apply H0; lia).
    rewrite (H0 n) by lia. ring.
Qed.

Lemma qprod_shift0 : forall n f, qprod (S n) f == f O * qprod n (fun k => f (S k)).
Proof.
  induction n as [|n IH]; intros f.
  - cbn. ring.
  - rewrite qprod_S, IH, (qprod_S n). ring.
Qed.

(* ------------------------------------------------------------------ list facts *)

Lemma NoDup_app_disjoint : forall {A} (l1 l2 : list A),
  NoDup l1 -> NoDup l2 -> (forall x, In x l1 -> ~ In x l2) -> NoDup (l1 ++ l2).
Proof.
  intros A l1 l2 H1 H2 HD. induction H1 as [|x l1 Hx H1 IH]; cbn [app]; [exact H2|].
  constructor.
  - rewrite in_app_iff. intros [Hin|Hin]; [exact (Hx Hin)|].
    exact (HD x (or_introl eq_refl) Hin).
  - apply IH. intros y Hy. apply HD. right. exact Hy.
Qed.

Lemma NoDup_flat_map_disjoint : forall {A B} (f : A -> list B) l,
  NoDup l -> (forall x, In x l -> NoDup (f x)) ->
  (forall x y b, In x l -> In y l -> In b (f x) -> In b (f y) -> x = y) ->
  NoDup (flat_map f l).
Proof.
  intros A B f l HN. induction HN as [|x l Hx HN IH]; intros HB HD; cbn [flat_map]; [constructor|].
  apply NoDup_app_disjoint.
  - apply HB. left. reflexivity.
  - apply IH.
    + intros y Hy. apply HB. right. exact Hy.
    + intros y z b Hy Hz. apply HD; right; assumption.
  - intros b Hb Hb'. apply in_flat_map in Hb'. destruct Hb' as (y & Hy & Hby).
    assert (E : x = y) by (apply (HD x y b); [left; reflexivity|right; exact Hy|exact Hb|exact Hby]).
    subst y. exact (Hx Hy).
Qed.

Lemma NoDup_map_inj_in : forall {A B} (f : A -> B) l,
  NoDup l -> (forall x y, In x l -> In y l -> f x = f y -> x = y) -> NoDup (map f l).
Proof.
  intros A B f l HN. induction HN as [|x l Hx HN IH]; intros Hinj; cbn [map]; constructor.
  - intros Hin. apply in_map_iff in Hin. destruct Hin as (y & Hy & Hyl).
    assert (E : y = x) by (apply Hinj; [right; exact Hyl|left; reflexivity|exact Hy]).
    subst y. exact (Hx Hyl).
  - apply IH. intros y z Hy Hz. apply Hinj; right; assumption.
Qed.

Lemma map_inj : forall {A B} (f : A -> B), (forall a b, f a = f b -> a = b) ->
  forall l l', map f l = map f l' -> l = l'.
Proof.
  intros A B f Hinj. induction l as [|x r IH]; intros [|y r'] E; cbn [map] in E;
    try discriminate; [reflexivity|].
  injection E as E1 E2. f_equal; [apply Hinj; exact E1|apply IH; exact E2].
Qed.

Lemma skip_inj : forall j a b, skip j a = skip j b -> a = b.
Proof. intros j a b. unfold skip. dtests; lia. Qed.

(* ------------------------------------------------------------------ all permutations of [0,n) *)

(* The recursion of the Laplace expansion along row 0: choose the image j of 0, then a
   permutation t of the remaining n-1 columns, renumbered by [skip j]. *)
Fixpoint perms_of (n : nat) : list (list nat) :=
  match n with
  | O => [[]]
  | S k => flat_map (fun j => map (fun t => j :: map (skip j) t) (perms_of k)) (seq 0 (S k))
  end.

(* sigma, as a list, is a bijection of [0,n): n distinct values below n *)
Definition perm_list (n : nat) (s : list nat) : Prop :=
  NoDup s /\ length s = n /\ (forall x, In x s -> (x < n)%nat).

Lemma perm_list_iff_Permutation : forall n s, perm_list n s <-> Permutation s (seq 0 n).
Proof.
  intros n s. split.
  - intros (HN & HL & HB). apply NoDup_Permutation_bis.
    + exact HN.
    + rewrite seq_length. lia.
    + intros x Hx. apply in_seq. specialize (HB x Hx). lia.
  - intros HP. split; [|split].
    + apply (Permutation_NoDup (Permutation_sym HP)). apply seq_NoDup.
    + rewrite (Permutation_length HP). apply seq_length.
    + intros x Hx. pose proof (Permutation_in x HP Hx) as Hin. apply in_seq in Hin. lia.
Qed.

Lemma in_perms_of_S : forall k s,
  In s (perms_of (S k)) <->
  exists j t, (j < S k)%nat /\ In t (perms_of k) /\ s = j :: map (skip j) t.
Proof.
  intros k s. cbn [perms_of]. rewrite in_flat_map. split.
  - intros (j & Hj & Hs). apply in_map_iff in Hs. destruct Hs as (t & Ht & Hin).
    exists j, t. apply in_seq in Hj. repeat split; [lia|exact Hin|symmetry; exact Ht].
  - intros (j & t & Hj & Ht & Hs). exists j. split; [apply in_seq; lia|].
    apply in_map_iff. exists t. split; [symmetry; exact Hs|exact Ht].
Qed.

Lemma in_perms_of : forall n s, In s (perms_of n) <-> perm_list n s.
Proof.
  induction n as [|k IH]; intros s.
  - cbn [perms_of In]. split.
    + intros [E|[]]. subst s. repeat split; [constructor|intros x []].
    + intros (_ & HL & _). left. destruct s; [reflexivity|discriminate].
  - rewrite in_perms_of_S. split.
    + intros (j & t & Hj & Ht & Hs). apply IH in Ht. destruct Ht as (HN & HL & HB). subst s.
      split; [|split].
      * constructor.
        -- intros Hin. apply in_map_iff in Hin. destruct Hin as (a & Ha & _).
           exact (skip_neq j a Ha).
        -- apply Injective_map_NoDup; [|exact HN]. intros a b. apply skip_inj.
      * cbn [length]. rewrite map_length, HL. reflexivity.
      * intros x [E|Hin]; [lia|]. apply in_map_iff in Hin. destruct Hin as (a & Ha & Hat).
        subst x. apply skip_lt_S. apply HB. exact Hat.
    + intros (HN & HL & HB). destruct s as [|j t']; [discriminate|].
      inversion HN as [|? ? Hj HN']; subst.
      assert (Hne : forall b, In b t' -> b <> j) by (intros b Hb E; subst b; exact (Hj Hb)).
      exists j, (map (unskip j) t').
      assert (Hjk : (j < S k)%nat) by (apply HB; left; reflexivity).
      split; [exact Hjk|]. split.
      * apply IH. split; [|split].
        -- apply NoDup_map_inj_in; [exact HN'|].
           intros x y Hx Hy. apply unskip_inj; apply Hne; assumption.
        -- rewrite map_length. cbn [length] in HL. lia.
        -- intros x Hx. apply in_map_iff in Hx. destruct Hx as (b & Hb & Hbt). subst x.
           apply unskip_lt; [lia| |apply Hne; exact Hbt]. apply HB. right. exact Hbt.
      * f_equal. rewrite map_map. rewrite <- (map_id t') at 1.
        apply map_ext_in. intros b Hb. symmetry. apply skip_unskip. apply Hne. exact Hb.
Qed.

(* perms_of n enumerates exactly the permutations of [0,n) ... *)
Theorem perms_of_spec : forall n s, In s (perms_of n) <-> Permutation s (seq 0 n).
Proof. intros n s. rewrite in_perms_of. apply perm_list_iff_Permutation. Qed.

(* ... each one once *)
Theorem NoDup_perms_of : forall n, NoDup (perms_of n).
Proof.
  induction n as [|k IH]; [repeat constructor; intros []|].
  cbn [perms_of]. apply NoDup_flat_map_disjoint.
  - apply seq_NoDup.
  - intros j _. apply Injective_map_NoDup; [|exact IH].
    intros t t' E. injection E as E. apply (map_inj (skip j)); [apply skip_inj|exact E].
  - intros j j' b _ _ Hb Hb'. apply in_map_iff in Hb. apply in_map_iff in Hb'.
    destruct Hb as (t & Ht & _). destruct Hb' as (t' & Ht' & _). subst b.
    injection Ht' as E _. symmetry. exact E.
Qed.

Lemma perms_of_length : forall n s, In s (perms_of n) -> length s = n.
Proof. intros n s H. apply in_perms_of in H. apply H. Qed.

Lemma perms_of_lt : forall n s i, In s (perms_of n) -> (i < n)%nat -> (nth i s O < n)%nat.
Proof.
  intros n s i H Hi. apply in_perms_of in H. destruct H as (_ & HL & HB).
  apply HB. apply nth_In. lia.
Qed.

(* the number of assignments is n! *)
Lemma perms_of_count : forall n, length (perms_of n) = fact n.
Proof.
  induction n as [|k IH]; [reflexivity|].
  cbn [perms_of].
  assert (G : forall m, length (flat_map (fun j => map (fun t => j :: map (skip j) t) (perms_of k)) (seq 0 m))
                        = (m * fact k)%nat).
  { induction m as [|m IHm]; [reflexivity|].
    rewrite seq_S, flat_map_app, app_length, IHm. cbn [flat_map plus].
    rewrite app_nil_r, map_length, IH. lia. }
  rewrite G. reflexivity.
Qed.

(* ------------------------------------------------------------------ the weight of an assignment *)

Definition pweight (n : nat) (W : mat) (s : list nat) : Q := qprod n (fun i => W i (nth i s O)).

Lemma pweight_cons : forall k W j t, length t = k ->
  pweight (S k) W (j :: map (skip j) t) == W O j * pweight k (minor 0 j W) t.
Proof.
  intros k W j t HL. unfold pweight. rewrite qprod_shift0. cbn [nth].
  apply Qmult_comp; [reflexivity|]. apply qprod_ext. intros a Ha.
  unfold minor. change (skip 0 a) with (S a).
  rewrite (nth_indep (map (skip j) t) O (skip j O)) by (rewrite map_length; lia).
  rewrite map_nth. reflexivity.
Qed.

(* perm (Laplace expansion along row 0) is the sum over all assignments of their weights *)
Theorem perm_is_sum_over_permutations : forall n W,
  perm n W == lsum (pweight n W) (perms_of n).
Proof.
  induction n as [|k IH]; intros W.
  - cbn. ring.
  - rewrite perm_S. cbn [perms_of]. rewrite lsum_flat_map_seq.
    apply qsum_ext. intros j Hj. rewrite lsum_map, IH.
    rewrite <- (lsum_scale (W O j) (pweight k (minor 0 j W)) (perms_of k)).
    apply lsum_ext. intros t Ht. symmetry. apply pweight_cons.
    apply perms_of_length. exact Ht.
Qed.

(* ------------------------------------------------------------------ the marginal *)

(* W with row i replaced by W_ij times the j-th unit vector *)
Definition pin (i j : nat) (W : mat) : mat :=
  fun a b => if (a =? i)%nat then (if (b =? j)%nat then W a b else 0) else W a b.

Lemma pweight_pin : forall n W i j s, (i < n)%nat ->
  pweight n (pin i j W) s == if (nth i s O =? j)%nat then pweight n W s else 0.
Proof.
  intros n W i j s Hi. unfold pweight. destruct (Nat.eqb_spec (nth i s O) j) as [E|NE].
  - apply qprod_ext. intros a Ha. unfold pin. destruct (Nat.eqb_spec a i) as [Eai|_]; [|reflexivity].
    subst a. rewrite E, Nat.eqb_refl. reflexivity.
  - apply (qprod_zero n _ i Hi). unfold pin. rewrite Nat.eqb_refl.
    destruct (Nat.eqb_spec (nth i s O) j); [contradiction|reflexivity].
Qed.

Lemma perm_pin : forall n W i j, (i < n)%nat -> (j < n)%nat ->
  perm n (pin i j W) == W i j * perm (pred n) (minor i j W).
Proof.
  intros n W i j Hi Hj. rewrite (perm_expand_row n (pin i j W) i Hi).
  rewrite (qsum_only n j (fun b => pin i j W i b * perm (pred n) (minor i b (pin i j W))) Hj).
  2: { intros b Hb Hbj. unfold pin at 1. rewrite Nat.eqb_refl.
       destruct (Nat.eqb_spec b j); [contradiction|ring]. }
  unfold pin at 1. rewrite !Nat.eqb_refl. apply Qmult_comp; [reflexivity|].
  apply perm_ext. intros a b Ha Hb. unfold minor, pin.
  destruct (Nat.eqb_spec (skip i a) i) as [E|_]; [exfalso; exact (skip_neq i a E)|reflexivity].
Qed.

(* the total weight of the assignments that put path i into ensemble j *)
Theorem marginal_numerator : forall n W i j, (i < n)%nat -> (j < n)%nat ->
  lsum (pweight n W) (filter (fun s => (nth i s O =? j)%nat) (perms_of n))
  == W i j * perm (pred n) (minor i j W).
Proof.
  intros n W i j Hi Hj. rewrite lsum_filter, <- (perm_pin n W i j Hi Hj).
  rewrite perm_is_sum_over_permutations. apply lsum_ext. intros s _.
  symmetry. apply pweight_pin. exact Hi.
Qed.

(* Pspec is the (i, j) marginal of the distribution over assignments.  The equation holds
   even for perm n W == 0 (both sides are then x / 0 == 0 in Q) ... *)
Theorem Pspec_is_marginal_gen : forall n W i j, (i < n)%nat -> (j < n)%nat ->
  Pspec n W i j ==
  lsum (pweight n W) (filter (fun s => (nth i s O =? j)%nat) (perms_of n))
  / lsum (pweight n W) (perms_of n).
Proof.
  intros n W i j Hi Hj. unfold Pspec.
  rewrite (marginal_numerator n W i j Hi Hj), <- perm_is_sum_over_permutations. reflexivity.
Qed.

(* ... and this is the statement in the form that is meaningful: a quotient of total weights *)
Theorem Pspec_is_marginal : forall n W i j,
  ~ perm n W == 0 -> (i < n)%nat -> (j < n)%nat ->
  Pspec n W i j ==
  lsum (pweight n W) (filter (fun s => (nth i s O =? j)%nat) (perms_of n))
  / lsum (pweight n W) (perms_of n).
Proof. intros n W i j _. apply Pspec_is_marginal_gen. Qed.

(* the normalisation is the one the hypothesis speaks about *)
Lemma total_weight_nonzero : forall n W,
  ~ perm n W == 0 <-> ~ lsum (pweight n W) (perms_of n) == 0.
Proof. intros n W. rewrite perm_is_sum_over_permutations. reflexivity. Qed.

(* ------------------------------------------------------------------ the distribution over assignments *)

Definition assign_prob (n : nat) (W : mat) (s : list nat) : Q := pweight n W s / perm n W.

Lemma pweight_nonneg : forall n W s, nonneg n W -> In s (perms_of n) -> 0 <= pweight n W s.
Proof.
  intros n W s HW Hs. unfold pweight. apply qprod_nonneg. intros i Hi.
  apply HW; [exact Hi|]. apply perms_of_lt; assumption.
Qed.

Theorem assign_prob_nonneg : forall n W s,
  nonneg n W -> In s (perms_of n) -> 0 <= assign_prob n W s.
Proof.
  intros n W s HW Hs. unfold assign_prob, Qdiv. apply Qmult_le_0_compat.
  - apply pweight_nonneg; assumption.
  - apply Qinv_le_0_compat. apply perm_nonneg. exact HW.
Qed.

Theorem assign_prob_sum_one : forall n W,
  ~ perm n W == 0 -> lsum (assign_prob n W) (perms_of n) == 1.
Proof.
  intros n W Hnz.
  transitivity (/ perm n W * lsum (pweight n W) (perms_of n)).
  - rewrite <- lsum_scale. apply lsum_ext. intros s _. unfold assign_prob, Qdiv. ring.
  - rewrite <- perm_is_sum_over_permutations. field. exact Hnz.
Qed.

Theorem Pspec_is_marginal_of_assign_prob : forall n W i j, (i < n)%nat -> (j < n)%nat ->
  Pspec n W i j == lsum (assign_prob n W) (filter (fun s => (nth i s O =? j)%nat) (perms_of n)).
Proof.
  intros n W i j Hi Hj.
  transitivity (/ perm n W * lsum (pweight n W) (filter (fun s => (nth i s O =? j)%nat) (perms_of n))).
  - rewrite (marginal_numerator n W i j Hi Hj). unfold Pspec, Qdiv. ring.
  - rewrite <- lsum_scale. apply lsum_ext. intros s _. unfold assign_prob, Qdiv. ring.
Qed.

(* everything together, for the matrices the program has (non-negative weights, at least one
   assignment of non-zero weight) *)
Corollary Pspec_marginal_of_equilibrium : forall n W,
  nonneg n W -> ~ perm n W == 0 ->
  (forall s, In s (perms_of n) -> 0 <= assign_prob n W s) /\
  lsum (assign_prob n W) (perms_of n) == 1 /\
  (forall i j, (i < n)%nat -> (j < n)%nat ->
     Pspec n W i j == lsum (assign_prob n W) (filter (fun s => (nth i s O =? j)%nat) (perms_of n))).
Proof.
  intros n W HW Hnz. split; [|split].
  - intros s Hs. apply assign_prob_nonneg; assumption.
  - apply assign_prob_sum_one. exact Hnz.
  - intros i j Hi Hj. apply Pspec_is_marginal_of_assign_prob; assumption.
Qed.

(* an assignment has positive weight iff it is a perfect matching of the support of W (the
   certificates of property C05 name such assignments) *)
Lemma pweight_pos_iff_matching : forall n W s, nonneg n W -> In s (perms_of n) ->
  (0 < pweight n W s <-> fmatching n W (fun i => nth i s O)).
Proof.
  intros n W s HW Hs. pose proof Hs as Hpl. apply in_perms_of in Hpl. destruct Hpl as (HN & HL & HB).
  split.
  - intros Hpos. split.
    + intros i Hi. split; [apply perms_of_lt; assumption|].
      assert (Hnn : 0 <= W i (nth i s O)) by (apply HW; [exact Hi|apply perms_of_lt; assumption]).
      destruct (Qlt_le_dec 0 (W i (nth i s O))) as [Hlt|Hle]; [exact Hlt|].
      assert (E : W i (nth i s O) == 0) by (apply Qle_antisym; assumption).
      unfold pweight in Hpos. rewrite (qprod_zero n _ i Hi E) in Hpos. discriminate.
    + intros i i' Hi Hi' E. apply (proj1 (NoDup_nth s O) HN); [lia|lia|exact E].
  - intros (Hm & _). unfold pweight. apply qprod_pos. intros i Hi. apply Hm. exact Hi.
Qed.

(* ------------------------------------------------------------------ example *)

(* three paths, three ensembles; path 0 has no weight in ensemble 2, path 2 none in ensemble 0 *)
Definition exW : mat := of_lists [[1; 2; 0]; [3; 1; 1]; [0; 1; 2]].

Example ex_perms_of_3 :
  perms_of 3 = [[0; 1; 2]; [0; 2; 1]; [1; 0; 2]; [1; 2; 0]; [2; 0; 1]; [2; 1; 0]]%nat.
Proof. reflexivity. Qed.

Example ex_weights : map (pweight 3 exW) (perms_of 3) = [2; 1; 12; 0; 0; 0].
Proof. vm_compute. reflexivity. Qed.

Example ex_marginal :
  perm 3 exW == 15 /\
  lsum (pweight 3 exW) (perms_of 3) == 15 /\
  lsum (pweight 3 exW) (filter (fun s => (nth 0 s O =? 1)%nat) (perms_of 3)) == 12 /\
  Pspec 3 exW 0 1 == 4 # 5 /\
  Pspec 3 exW 0 1 == lsum (assign_prob 3 exW) (filter (fun s => (nth 0 s O =? 1)%nat) (perms_of 3)).
Proof.
  split; [vm_compute; reflexivity|]. split; [vm_compute; reflexivity|].
  split; [vm_compute; reflexivity|]. split; [vm_compute; reflexivity|].
  apply Pspec_is_marginal_of_assign_prob; lia.
Qed.

Print Assumptions perms_of_spec.
Print Assumptions NoDup_perms_of.
Print Assumptions perm_is_sum_over_permutations.
Print Assumptions Pspec_is_marginal.
Print Assumptions Pspec_marginal_of_equilibrium.
Print Assumptions pweight_pos_iff_matching.
