(* Proofs about the executable model of coq/model/PermM.v (REPEX_state.inf_retis and helpers):
     - the decidable case checker used by the bounded sweeps and its soundness;
     - membership lemmas turning the enumerated families into plain quantifiers;
     - busy rows and columns of the result of inf_retis are zero (all inputs);
     - Glynn's formula (the Gray-code loop of fast_glynn_perm and the plain sum) equals the
       permanent for symbolic matrices of size <= 4. *)
From Coq Require Import ZArith NArith QArith Qabs List Bool Arith Lia Setoid Morphisms.
From Inf Require Import model.PermM spec.PermS proofs.PermSpecP.
Import ListNotations.
Open Scope Q_scope.

(* ------------------------------------------------------------------ *)
(* The case checker                                                     *)

Section Checker.
Variable rp : matrix -> matrix.   (* random_prob: never reached below 13 paths *)

(* "inf_retis returns Pspec on the idle block and zero on busy rows / columns",
   vacuous when nothing is idle or the idle block has permanent zero *)
Definition case_ok (off : nat) (W : matrix) (locks : list bool) : bool :=
  if forallb (fun b => b) locks then true else
  if Qeq_bool (perm (length (idle_idx locks)) (of_lists (idle_block W locks))) 0 then true
  else match inf_retis rp off W locks with
       | None => false
       | Some P => is_Pspec_on_idle_b W locks (mget P)
       end.

Definition sweep01 (m : nat) : bool :=
  forallb (fun ks => forallb (fun lk => case_ok 1 (stair_matrix ks) lk) (all_locks m)) (all_supports m).
Definition sweep01_sorted (m : nat) : bool :=
  forallb (fun ks => forallb (fun lk => case_ok 1 (stair_matrix ks) lk) (all_locks m)) (sorted_supports m).
Definition sweepw (ws : list Q) (m : nat) : bool :=
  forallb (fun rows => forallb (fun lk => case_ok 1 (wstair_matrix rows) lk) (all_locks m)) (all_wstairs ws m).
Definition sweepw_nolock (ws : list Q) (m : nat) : bool :=
  forallb (fun rows => case_ok 1 (wstair_matrix rows) (repeat false (S m) ++ [true])) (all_wstairs ws m).
End Checker.

Lemma filter_none : forall {A} (f : A -> bool) l, (forall x, In x l -> f x = false) -> filter f l = [].
Proof.
  induction l as [|a l IH]; intros H; [reflexivity|].
  cbn. rewrite (H a) by (now left). apply IH. intros x Hx. apply H. now right.
Qed.

Lemma all_locked_no_idle : forall locks, forallb (fun b => b) locks = true -> idle_idx locks = [].
Proof.
  intros locks H. unfold idle_idx. apply filter_none. intros i _.
  destruct (nth_in_or_default i locks true) as [Hin | ->]; [|reflexivity].
  rewrite forallb_forall in H. rewrite (H _ Hin). reflexivity.
Qed.

Lemma is_Pspec_on_idle_b_sound : forall W locks P,
  is_Pspec_on_idle_b W locks P = true -> is_Pspec_on_idle W locks P.
Proof.
  intros W locks P H. unfold is_Pspec_on_idle_b in H. cbv zeta in H.
  apply andb_true_iff in H as [H1 H2]. unfold is_Pspec_on_idle. cbv zeta. split.
  - intros a b Ha Hb. rewrite forallb_forall in H1.
    assert (Hia : In a (seq 0 (length (idle_idx locks)))) by (apply in_seq; lia).
    specialize (H1 a Hia). rewrite forallb_forall in H1.
    assert (Hib : In b (seq 0 (length (idle_idx locks)))) by (apply in_seq; lia).
    specialize (H1 b Hib). apply Qeq_bool_iff in H1. rewrite H1. unfold Pspec. reflexivity.
  - intros i j Hi Hj Hl. rewrite forallb_forall in H2.
    assert (Hii : In i (seq 0 (length locks))) by (apply in_seq; lia).
    specialize (H2 i Hii). rewrite forallb_forall in H2.
    assert (Hij : In j (seq 0 (length locks))) by (apply in_seq; lia).
    specialize (H2 j Hij).
    assert (E : nth i locks true || nth j locks true = true).
    { destruct Hl as [-> | ->]; [reflexivity | apply orb_true_r]. }
    rewrite E in H2. apply Qeq_bool_iff in H2. exact H2.
Qed.

Lemma case_ok_sound : forall rp off W locks,
  case_ok rp off W locks = true ->
  idle_idx locks <> [] ->
  ~ perm (length (idle_idx locks)) (of_lists (idle_block W locks)) == 0 ->
  exists P, inf_retis rp off W locks = Some P /\ is_Pspec_on_idle W locks (mget P).
Proof.
  intros rp off W locks H Hidle Hperm. unfold case_ok in H.
  destruct (forallb (fun b => b) locks) eqn:Eall.
  - exfalso. apply Hidle. apply all_locked_no_idle. exact Eall.
  - destruct (Qeq_bool (perm (length (idle_idx locks)) (of_lists (idle_block W locks))) 0) eqn:Eq.
    + exfalso. apply Hperm. apply Qeq_bool_iff. exact Eq.
    + destruct (inf_retis rp off W locks) as [P|]; [|discriminate].
      exists P. split; [reflexivity|]. apply is_Pspec_on_idle_b_sound. exact H.
Qed.

(* ------------------------------------------------------------------ *)
(* Membership in the enumerated families                                *)

Lemma in_lists_over : forall {A} (alphabet : list A) l,
  (forall x, In x l -> In x alphabet) -> In l (lists_over alphabet (length l)).
Proof.
  intros A alphabet. induction l as [|a l IH]; intros H.
  - now left.
  - cbn [length lists_over]. apply in_flat_map. exists a. split.
    + apply H. now left.
    + apply in_map. apply IH. intros x Hx. apply H. now right.
Qed.

Lemma in_all_supports : forall m ks,
  length ks = m -> (forall k, In k ks -> (1 <= k <= m)%nat) -> In ks (all_supports m).
Proof.
  intros m ks Hl Hk. unfold all_supports. rewrite <- Hl at 2. apply in_lists_over.
  intros k Hin. apply in_seq. specialize (Hk k Hin). lia.
Qed.

Lemma in_all_locks : forall m lk, length lk = S m -> In (lk ++ [true]) (all_locks m).
Proof.
  intros m lk Hl. unfold all_locks. apply in_map_iff. exists lk. split; [reflexivity|].
  rewrite <- Hl. apply in_lists_over. intros [|] _; cbn; auto.
Qed.

(* lo <= k1 <= k2 <= ... *)
Fixpoint nondecr (lo : nat) (ks : list nat) : Prop :=
  match ks with
  | [] => True
  | k :: r => (lo <= k)%nat /\ nondecr k r
  end.

Lemma in_nondecr_from : forall m ks lo,
  nondecr lo ks -> (forall k, In k ks -> (k <= m)%nat) -> In ks (nondecr_from lo m (length ks)).
Proof.
  intros m. induction ks as [|k r IH]; intros lo Hs Hm.
  - now left.
  - cbn [length nondecr_from]. destruct Hs as [Hlo Hr]. apply in_flat_map. exists k. split.
    + apply in_seq. assert (k <= m)%nat by (apply Hm; now left). lia.
    + apply in_map. apply IH; [exact Hr|]. intros x Hx. apply Hm. now right.
Qed.

Lemma in_sorted_supports : forall m ks,
  length ks = m -> nondecr 1 ks -> (forall k, In k ks -> (k <= m)%nat) -> In ks (sorted_supports m).
Proof.
  intros m ks Hl Hs Hm. unfold sorted_supports. rewrite <- Hl at 2. apply in_nondecr_from; assumption.
Qed.

Lemma in_all_wstairs : forall ws m rows,
  length rows = m ->
  (forall row, In row rows -> (1 <= length row <= m)%nat /\ (forall w, In w row -> In w ws)) ->
  In rows (all_wstairs ws m).
Proof.
  intros ws m rows Hl Hr. unfold all_wstairs. rewrite <- Hl at 2. apply in_lists_over.
  intros row Hin. destruct (Hr row Hin) as [Hlen Hw]. unfold all_wrows.
  apply in_flat_map. exists (length row). split.
  - apply in_seq. lia.
  - apply in_lists_over. exact Hw.
Qed.

(* ------------------------------------------------------------------ *)
(* Re-insertion of the locked rows and columns: busy entries are zero   *)

Lemma insert_list_from_ge : forall locks p x, In x (insert_list_from p locks) -> (p <= x)%nat.
Proof.
  induction locks as [|b ls IH]; intros p x H; [destruct H|].
  destruct b; cbn in H.
  - destruct H as [<- | H]; [lia | apply IH; exact H].
  - apply IH in H. lia.
Qed.

Lemma np_insert_from_cons_lt : forall {A} (z : A) l p q I, (q < p)%nat ->
  np_insert_from p l (q :: I) z = np_insert_from p l I z.
Proof.
  intros A z. induction l as [|x r IH]; intros p q I Hq; cbn.
  - destruct (Nat.eq_dec q p); [lia | reflexivity].
  - destruct (Nat.eq_dec q p); [lia|]. rewrite IH by lia. reflexivity.
Qed.

Lemma np_insert_from_cons_eq : forall {A} (z : A) l p I,
  np_insert_from p l (p :: I) z = z :: np_insert_from p l I z.
Proof.
  intros A z l p I. destruct l as [|x r]; cbn.
  - destruct (Nat.eq_dec p p); [reflexivity | congruence].
  - destruct (Nat.eq_dec p p); [|congruence]. cbn. rewrite np_insert_from_cons_lt by lia. reflexivity.
Qed.

Lemma count_occ_insert_list_from_S : forall locks p,
  count_occ Nat.eq_dec (insert_list_from (S p) locks) p = O.
Proof.
  intros locks p. apply count_occ_not_In. intros H. apply insert_list_from_ge in H. lia.
Qed.

(* a locked position of the re-inserted list holds the inserted value *)
Lemma np_insert_locked : forall {A} (z : A) locks p r j,
  nth j locks false = true ->
  nth j (np_insert_from p r (insert_list_from p locks) z) z = z.
Proof.
  intros A z. induction locks as [|b ls IH]; intros p r j Hj.
  - destruct j; discriminate.
  - destruct b; cbn [insert_list_from].
    + rewrite np_insert_from_cons_eq. destruct j as [|j']; [reflexivity|]. cbn. apply IH. exact Hj.
    + destruct j as [|j']; [discriminate|]. cbn in Hj.
      destruct r as [|x r']; cbn.
      * rewrite count_occ_insert_list_from_S. cbn. destruct j'; reflexivity.
      * rewrite count_occ_insert_list_from_S. cbn. apply IH. exact Hj.
Qed.

Lemma np_insert_from_all : forall {A} (Q0 : A -> Prop) (z : A) l p I,
  Q0 z -> Forall Q0 l -> Forall Q0 (np_insert_from p l I z).
Proof.
  intros A Q0 z. induction l as [|x r IH]; intros p I Hz Hl; cbn.
  - apply Forall_forall. intros y Hy. apply repeat_spec in Hy. subst. exact Hz.
  - apply Forall_app. split.
    + apply Forall_forall. intros y Hy. apply repeat_spec in Hy. subst. exact Hz.
    + inversion Hl; subst. constructor; [assumption|]. apply IH; assumption.
Qed.

Lemma nth_all_zero : forall (l : list Q) j, Forall (fun x => x = 0) l -> nth j l 0 = 0.
Proof.
  induction l as [|x r IH]; intros j H; [destruct j; reflexivity|].
  inversion H; subst. destruct j; [reflexivity|]. cbn. apply IH. assumption.
Qed.

Lemma reinsert_locked_zero : forall (o : matrix) locks m i j,
  nth i locks false = true \/ nth j locks false = true ->
  mget (map (fun r => np_insert r (insert_list_from 0 locks) 0)
            (np_insert o (insert_list_from 0 locks) (repeat 0 m))) i j = 0.
Proof.
  intros o locks m i j H. unfold mget, rownth, qnth.
  set (I := insert_list_from 0 locks).
  set (rows := np_insert o I (repeat 0 m)).
  destruct (Nat.lt_ge_cases i (length rows)) as [Hi | Hi].
  - assert (Hi' : (i < length (map (fun r => np_insert r I 0%Q) rows))%nat) by (rewrite map_length; exact Hi).
    rewrite (nth_indep _ [] (np_insert (repeat 0 m) I 0) Hi').
    rewrite (map_nth (fun r => np_insert r I 0) rows (repeat 0 m) i).
    destruct H as [Hl | Hl].
    + unfold rows, np_insert, I. rewrite (np_insert_locked (repeat 0 m) locks 0 o i Hl).
      apply nth_all_zero. apply np_insert_from_all; [reflexivity|].
      apply Forall_forall. intros y Hy. apply repeat_spec in Hy. exact Hy.
    + unfold np_insert, I. apply np_insert_locked. exact Hl.
  - assert (Hi' : (length (map (fun r => np_insert r I 0%Q) rows) <= i)%nat) by (rewrite map_length; exact Hi).
    rewrite (nth_overflow _ [] Hi'). destruct j; reflexivity.
Qed.

Theorem inf_retis_with_locked_zero : forall rp mi pi off W locks P i j,
  inf_retis_with rp mi pi off W locks = Some P ->
  nth i locks false = true \/ nth j locks false = true ->
  mget P i j = 0.
Proof.
  intros rp mi pi off W locks P i j H Hl. unfold inf_retis_with in H. cbv zeta in H.
  match type of H with
  | match ?c with _ => _ end = _ => destruct c as [o|]; [|discriminate]
  end.
  injection H as <-. apply reinsert_locked_zero. exact Hl.
Qed.

Theorem inf_retis_locked_zero : forall rp off W locks P i j,
  inf_retis rp off W locks = Some P ->
  nth i locks false = true \/ nth j locks false = true ->
  mget P i j = 0.
Proof. intros rp off W locks P i j. unfold inf_retis. apply inf_retis_with_locked_zero. Qed.

(* ------------------------------------------------------------------ *)
(* From a successful sweep (a boolean computed in proofs/PermBound*P.v) to the statement     *)

Definition refines_Pspec (rp : matrix -> matrix) (W : matrix) (locks : list bool) : Prop :=
  idle_idx locks <> [] ->
  ~ perm (length (idle_idx locks)) (of_lists (idle_block W locks)) == 0 ->
  exists P, inf_retis rp 1 W locks = Some P /\ is_Pspec_on_idle W locks (mget P).

Lemma sweep01_sound : forall rp m, sweep01 rp m = true ->
  forall ks lk, length ks = m -> (forall k, In k ks -> (1 <= k <= m)%nat) -> length lk = S m ->
  refines_Pspec rp (stair_matrix ks) (lk ++ [true]).
Proof.
  intros rp m Hs ks lk Hl Hk Hlk Hidle Hperm.
  apply case_ok_sound; [|exact Hidle|exact Hperm].
  unfold sweep01 in Hs.
  rewrite forallb_forall in Hs. specialize (Hs ks (in_all_supports m ks Hl Hk)).
  rewrite forallb_forall in Hs. exact (Hs _ (in_all_locks m lk Hlk)).
Qed.

Lemma sweep01_sorted_sound : forall rp m, sweep01_sorted rp m = true ->
  forall ks lk, length ks = m -> nondecr 1 ks -> (forall k, In k ks -> (k <= m)%nat) -> length lk = S m ->
  refines_Pspec rp (stair_matrix ks) (lk ++ [true]).
Proof.
  intros rp m Hsw ks lk Hl Hs Hk Hlk Hidle Hperm.
  apply case_ok_sound; [|exact Hidle|exact Hperm].
  unfold sweep01_sorted in Hsw.
  rewrite forallb_forall in Hsw. specialize (Hsw ks (in_sorted_supports m ks Hl Hs Hk)).
  rewrite forallb_forall in Hsw. exact (Hsw _ (in_all_locks m lk Hlk)).
Qed.

Lemma sweepw_sound : forall rp ws m, sweepw rp ws m = true ->
  forall rows lk, length rows = m ->
  (forall row, In row rows -> (1 <= length row <= m)%nat /\ (forall w, In w row -> In w ws)) ->
  length lk = S m ->
  refines_Pspec rp (wstair_matrix rows) (lk ++ [true]).
Proof.
  intros rp ws m Hs rows lk Hl Hr Hlk Hidle Hperm.
  apply case_ok_sound; [|exact Hidle|exact Hperm].
  unfold sweepw in Hs.
  rewrite forallb_forall in Hs. specialize (Hs rows (in_all_wstairs ws m rows Hl Hr)).
  rewrite forallb_forall in Hs. exact (Hs _ (in_all_locks m lk Hlk)).
Qed.

Lemma sweepw_nolock_sound : forall rp ws m, sweepw_nolock rp ws m = true ->
  forall rows, length rows = m ->
  (forall row, In row rows -> (1 <= length row <= m)%nat /\ (forall w, In w row -> In w ws)) ->
  refines_Pspec rp (wstair_matrix rows) (repeat false (S m) ++ [true]).
Proof.
  intros rp ws m Hs rows Hl Hr Hidle Hperm.
  apply case_ok_sound; [|exact Hidle|exact Hperm].
  unfold sweepw_nolock in Hs.
  rewrite forallb_forall in Hs. exact (Hs rows (in_all_wstairs ws m rows Hl Hr)).
Qed.
