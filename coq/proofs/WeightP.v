(* Proofs for property C10: the literal scan of model/WeightM.v computes exactly the
   declaratively valid sub-paths of spec/WeightS.v, and the consequences (counting,
   positivity, time-reversal symmetry, doubling, weight-vector shape, segment choice). *)
From Coq Require Import ZArith QArith List Bool Lia Permutation.
Import ListNotations.
From Inf Require Import model.PathM model.WeightM spec.WeightS.
Open Scope nat_scope.

(* ------------------------------------------------------------------ list helpers *)

Lemma nth_error_rev {A} (l : list A) i :
  i < length l -> nth_error (rev l) i = nth_error l (length l - S i).
Proof.
  intros Hi. destruct l as [|d l']; [cbn in Hi; lia|].
  set (l := d :: l') in *.
  rewrite (nth_error_nth' (rev l) d) by (rewrite rev_length; exact Hi).
  rewrite (nth_error_nth' l d) by lia.
  now rewrite rev_nth.
Qed.

Lemma nth_error_skipn' {A} (l : list A) a t : nth_error (skipn a l) t = nth_error l (a + t).
Proof.
  revert l; induction a as [|a IH]; intros l; cbn; [reflexivity|].
  destruct l as [|x l]; [now destruct t|apply IH].
Qed.

Lemma nth_error_firstn' {A} (l : list A) m t : t < m -> nth_error (firstn m l) t = nth_error l t.
Proof.
  revert l t; induction m as [|m IH]; intros l t Ht; [lia|].
  destruct l as [|x l]; [reflexivity|]. destruct t as [|t]; cbn; [reflexivity|apply IH; lia].
Qed.

(* ------------------------------------------------------------------ spanB *)

Lemma spanB_all rs j : j < spanB rs -> nth_error rs j = Some RB.
Proof.
  revert j; induction rs as [|x r IH]; intros j Hj; cbn in Hj; [lia|].
  destruct x; try lia. destruct j as [|j]; cbn; [reflexivity|apply IH; lia].
Qed.

Lemma spanB_stop rs : nth_error rs (spanB rs) <> Some RB.
Proof.
  induction rs as [|x r IH]; cbn; [discriminate|].
  destruct x; cbn; try discriminate. exact IH.
Qed.

Lemma spanB_unique rs n :
  (forall j, j < n -> nth_error rs j = Some RB) -> nth_error rs n <> Some RB -> spanB rs = n.
Proof.
  intros Hall Hstop.
  destruct (Nat.lt_trichotomy (spanB rs) n) as [H|[H|H]]; [|exact H|].
  - exfalso. apply (spanB_stop rs). now apply Hall.
  - exfalso. apply Hstop. now apply spanB_all.
Qed.

(* ------------------------------------------------------------------ spec_from <-> validR *)

Definition shift (i : nat) (sg : nat * nat * nat) : nat * nat * nat :=
  let '(s, e, n) := sg in (i + s, i + e, n).

Lemma shift_shift i k sg : shift i (shift k sg) = shift (i + k) sg.
Proof. destruct sg as [[s e] n]; cbn. repeat (f_equal; try lia). Qed.

Lemma spec_from_shift rs : forall i, spec_from i rs = map (shift i) (spec_from 0 rs).
Proof.
  induction rs as [|x r IH]; intros i; [reflexivity|].
  cbn [spec_from]. rewrite (IH (S i)), (IH 1).
  assert (Hm : map (shift i) (map (shift 1) (spec_from 0 r)) = map (shift (S i)) (spec_from 0 r)).
  { rewrite map_map. apply map_ext. intros sg. rewrite shift_shift. f_equal; lia. }
  destruct (isB x); [now rewrite Hm|].
  destruct (nth_error r (spanB r)) as [y|]; [|now rewrite Hm].
  destruct ((0 <? spanB r) && negb (isC x && isC y)); [|now rewrite Hm].
  cbn [map shift]. rewrite Hm. repeat (f_equal; try lia).
Qed.

Lemma validR_cons_S x r s e n : validR (x :: r) (S s) (S e) n <-> validR r s e n.
Proof.
  unfold validR; cbn [nth_error]. split.
  - intros (He & Hn & Hxy & Hin). repeat split; try lia; [exact Hxy|].
    intros j Hj. specialize (Hin (S j)). cbn in Hin. apply Hin; lia.
  - intros (He & Hn & Hxy & Hin). repeat split; try lia; [exact Hxy|].
    intros j Hj. destruct j as [|j]; [lia|]. cbn. apply Hin; lia.
Qed.

Lemma validR_cons_0 x r e n :
  validR (x :: r) 0 e n <->
  (e = n + 1 /\ x <> RB /\ n = spanB r /\ 0 < n /\
   exists y, nth_error r n = Some y /\ ~ (x = RC /\ y = RC)).
Proof.
  unfold validR. split.
  - intros (He & Hn & (x' & y & Hx & Hy & HxB & HyB & HCC) & Hin).
    cbn in Hx. injection Hx as <-. subst e. replace (0 + n + 1) with (S n) in * by lia.
    cbn in Hy.
    assert (Hsp : spanB r = n).
    { apply spanB_unique.
      - intros j Hj. specialize (Hin (S j)). cbn in Hin. apply Hin; lia.
      - rewrite Hy. intros [= ->]. now apply HyB. }
    repeat split; try lia; auto. exists y. split; auto.
  - intros (He & HxB & Hsp & Hn & y & Hy & HCC). subst e.
    repeat split; try lia.
    + exists x, y. replace (n + 1) with (S n) by lia. cbn [nth_error]. repeat split; auto.
      intros ->. apply (spanB_stop r). now rewrite <- Hsp.
    + intros j Hj. destruct j as [|j]; [lia|]. cbn. apply spanB_all. lia.
Qed.

Lemma validR_entry_lt rs s e n : validR rs s e n -> s < e /\ e < length rs.
Proof.
  intros (He & Hn & (x & y & _ & Hy & _) & _). split; [lia|].
  apply nth_error_Some. now rewrite Hy.
Qed.

Lemma isB_false x : isB x = false <-> x <> RB.
Proof. destruct x; cbn; split; intros; congruence. Qed.

Lemma isCC_false x y : negb (isC x && isC y) = true <-> ~ (x = RC /\ y = RC).
Proof.
  destruct x, y; cbn; split; intros H; try reflexivity; try discriminate;
    try (intros [? ?]; discriminate). exfalso; apply H; auto.
Qed.

Lemma spec_from_0_valid rs : forall s e n, In (s, e, n) (spec_from 0 rs) <-> validR rs s e n.
Proof.
  induction rs as [|x r IH]; intros s e n.
  - cbn. split; [tauto|]. intros (_ & _ & (x & y & Hx & _) & _). destruct s; cbn in Hx; discriminate.
  - (* tail part *)
    assert (Htail : In (s, e, n) (spec_from 1 r) <-> (exists s' e', s = S s' /\ e = S e' /\ validR r s' e' n)).
    { rewrite spec_from_shift, in_map_iff. split.
      - intros ([[s' e'] n'] & Heq & Hin). cbn in Heq. injection Heq as <- <- <-.
        exists s', e'. split; [reflexivity|split; [reflexivity|]]. now apply IH.
      - intros (s' & e' & -> & -> & Hv). exists (s', e', n). split; [reflexivity|]. now apply IH. }
    assert (Htail' : In (s, e, n) (spec_from 1 r) <-> (0 < s /\ validR (x :: r) s e n)).
    { rewrite Htail. split.
      - intros (s' & e' & -> & -> & Hv). split; [lia|]. now apply (proj2 (validR_cons_S x r s' e' n)).
      - intros (Hs & Hv). destruct s as [|s']; [lia|].
        destruct e as [|e']; [destruct Hv as (He & _); lia|].
        exists s', e'. split; [reflexivity|split; [reflexivity|]]. exact (proj1 (validR_cons_S x r s' e' n) Hv). }
    cbn [spec_from].
    assert (Hhead : forall P : Prop, (P <-> validR (x :: r) 0 e n) ->
              ((s = 0 /\ P) \/ In (s, e, n) (spec_from 1 r) <-> validR (x :: r) s e n)).
    { intros P HP. rewrite Htail'. split.
      - intros [[-> H]|[_ H]]; [now apply HP|exact H].
      - intros Hv. destruct s as [|s']; [left; split; [reflexivity|now apply HP]|right; split; [lia|exact Hv]]. }
    destruct (isB x) eqn:HB.
    + rewrite Htail'. split; [tauto|]. intros Hv. split; [|exact Hv].
      destruct s as [|s']; [|lia]. apply validR_cons_0 in Hv. destruct Hv as (_ & HxB & _).
      destruct x; cbn in HB; congruence.
    + apply isB_false in HB.
      destruct (nth_error r (spanB r)) as [y|] eqn:Hy.
      * destruct ((0 <? spanB r) && negb (isC x && isC y)) eqn:Hc.
        -- apply andb_true_iff in Hc. destruct Hc as [Hpos HCC].
           apply Nat.ltb_lt in Hpos. apply isCC_false in HCC.
           cbn [In]. rewrite <- (Hhead (e = spanB r + 1 /\ n = spanB r)).
           ++ split.
              ** intros [Heq|Hin]; [injection Heq as <- <- <-; left; repeat split; lia|now right].
              ** intros [(-> & -> & ->)|Hin]; [left; f_equal; f_equal; lia|now right].
           ++ rewrite validR_cons_0. split.
              ** intros (-> & ->). repeat split; auto. exists y. split; auto.
              ** intros (-> & _ & -> & _). split; reflexivity.
        -- rewrite <- (Hhead False); [tauto|]. split; [tauto|].
           rewrite validR_cons_0. intros (_ & _ & -> & Hn & y' & Hy' & HCC).
           rewrite Hy in Hy'. injection Hy' as <-.
           apply andb_false_iff in Hc. destruct Hc as [Hc|Hc].
           ++ apply Nat.ltb_ge in Hc. lia.
           ++ apply isCC_false in HCC. congruence.
      * rewrite <- (Hhead False); [tauto|]. split; [tauto|].
        rewrite validR_cons_0. intros (_ & _ & -> & _ & y' & Hy' & _). congruence.
Qed.

Theorem spec_segments_valid rs s e n : In (s, e, n) (spec_segments rs) <-> validR rs s e n.
Proof. apply spec_from_0_valid. Qed.

(* ------------------------------------------------------------------ order, NoDup *)

Lemma spec_from_lb i rs s e n : In (s, e, n) (spec_from i rs) -> i <= s.
Proof.
  rewrite spec_from_shift, in_map_iff. intros ([[s' e'] n'] & Heq & _).
  cbn in Heq. injection Heq as <- _ _. lia.
Qed.

Lemma spec_from_NoDup rs : forall i, NoDup (spec_from i rs).
Proof.
  induction rs as [|x r IH]; intros i; [constructor|].
  cbn [spec_from]. destruct (isB x); [apply IH|].
  destruct (nth_error r (spanB r)) as [y|]; [|apply IH].
  destruct ((0 <? spanB r) && negb (isC x && isC y)); [|apply IH].
  constructor; [|apply IH]. intros Hin. apply spec_from_lb in Hin. lia.
Qed.

Lemma spec_segments_NoDup rs : NoDup (spec_segments rs).
Proof. apply spec_from_NoDup. Qed.

(* two valid sub-paths sharing an interior frame are the same sub-path *)
Lemma validR_overlap_eq rs s e n s' e' n' j :
  validR rs s e n -> validR rs s' e' n' -> s < j < e -> s' < j < e' ->
  (s, e, n) = (s', e', n').
Proof.
  intros (He & Hn & (x & y & Hx & Hy & HxB & HyB & _) & Hin)
         (He' & Hn' & (x' & y' & Hx' & Hy' & HxB' & HyB' & _) & Hin') Hj Hj'.
  assert (Hs : s = s').
  { destruct (Nat.lt_trichotomy s s') as [H|[H|H]]; [|exact H|]; exfalso.
    - rewrite (Hin s') in Hx' by lia. congruence.
    - rewrite (Hin' s) in Hx by lia. congruence. }
  subst s'.
  assert (Hee : e = e').
  { destruct (Nat.lt_trichotomy e e') as [H|[H|H]]; [|exact H|]; exfalso.
    - rewrite (Hin' e) in Hy by lia. congruence.
    - rewrite (Hin e') in Hy' by lia. congruence. }
  assert (Hnn : n = n') by lia. subst n'. now rewrite Hee.
Qed.

(* ------------------------------------------------------------------ the scan, by regions *)

Section Scan.
Variables left right : Z.
Notation rg := (region left right).

Definition seg_of (st : wst) (i : nat) : nat * nat * nat := (isave st, S i, i - isave st).

Lemma wf_step_regions st i op1 op2 :
  (left <= right)%Z ->
  wf_step left right st i op1 op2 =
  match rg op1, rg op2 with
  | RA, RB => if kl st then st else mkW true (kr st) i (arr st)
  | RC, RB => if kr st then st else mkW (kl st) true i (arr st)
  | RB, RC => if kr st then mkW false false (isave st) (arr st)
              else if kl st then mkW false false (isave st) (arr st ++ [seg_of st i])
              else st
  | RB, RA => if kl st || kr st then mkW false false (isave st) (arr st ++ [seg_of st i]) else st
  | _, _ => st
  end.
Proof.
  intros Hlr. unfold wf_step, region, seg_of.
  destruct (Z.ltb_spec op1 left), (Z.ltb_spec op2 left),
           (Z.ltb_spec op1 right), (Z.ltb_spec op2 right),
           (Z.leb_spec right op1), (Z.leb_spec right op2),
           (Z.leb_spec left op1), (Z.leb_spec left op2); try lia;
    destruct (kl st), (kr st); cbn; reflexivity.
Qed.

Lemma wf_step_empty_region st i op1 op2 :
  (right < left)%Z -> kl st = false -> kr st = false ->
  wf_step left right st i op1 op2 = st.
Proof.
  intros Hlr Hl Hr. unfold wf_step. rewrite Hl, Hr.
  destruct (Z.ltb_spec op1 left), (Z.ltb_spec op2 left),
           (Z.ltb_spec op1 right), (Z.ltb_spec op2 right),
           (Z.leb_spec right op1), (Z.leb_spec right op2),
           (Z.leb_spec left op1), (Z.leb_spec left op2); try lia; cbn; reflexivity.
Qed.

(* what a pending entry (region x at index s) will contribute when the inside-run at the
   head of rs (frame i) ends *)
Definition closing (x : reg) (s i : nat) (rs : list reg) : list (nat * nat * nat) :=
  match nth_error rs (spanB rs) with
  | Some y => if negb (isC x && isC y) then [(s, i + spanB rs, i + spanB rs - s - 1)] else []
  | None => []
  end.

Lemma closing_B x s i rs : closing x s i (RB :: rs) = closing x s (S i) rs.
Proof.
  unfold closing. cbn [spanB nth_error].
  destruct (nth_error rs (spanB rs)) as [y|]; [|reflexivity].
  destruct (negb (isC x && isC y)); [|reflexivity].
  repeat (f_equal; try lia).
Qed.

Lemma spec_from_entry x i rs :
  x <> RB -> 0 < spanB rs -> spec_from i (x :: rs) = closing x i (S i) rs ++ spec_from (S i) rs.
Proof.
  intros HxB Hpos. cbn [spec_from]. apply isB_false in HxB. rewrite HxB. unfold closing.
  destruct (nth_error rs (spanB rs)) as [y|]; [|reflexivity].
  apply Nat.ltb_lt in Hpos. rewrite Hpos. cbn [andb].
  destruct (negb (isC x && isC y)); [|reflexivity].
  cbn [app]. repeat (f_equal; try lia).
Qed.

Lemma spec_from_skip x y i rs :
  (x = RB \/ y <> RB) -> spec_from i (x :: y :: rs) = spec_from (S i) (y :: rs).
Proof.
  intros H. cbn [spec_from]. destruct x; cbn [isB]; try reflexivity;
    destruct H as [H|H]; try discriminate; destruct y; try congruence; reflexivity.
Qed.

Lemma spec_from_single x i : spec_from i [x] = [].
Proof. cbn. now destruct x. Qed.

Definition pending (st : wst) (x : reg) : Prop :=
  (kl st = true /\ kr st = false /\ x = RA) \/ (kl st = false /\ kr st = true /\ x = RC).

Lemma wf_loop_sim (Hlr : (left <= right)%Z) : forall l st i,
  (kl st = false -> kr st = false ->
   arr (wf_loop left right st i l) = arr st ++ spec_from i (map rg l)) /\
  (forall x o r, l = o :: r -> rg o = RB -> pending st x ->
   arr (wf_loop left right st i l) =
   arr st ++ closing x (isave st) i (map rg l) ++ spec_from i (map rg l)).
Proof.
  induction l as [|o l IH]; intros st i.
  - split; [intros _ _; cbn; now rewrite app_nil_r|intros x o r Heq; discriminate].
  - destruct l as [|o2 l'].
    + (* single frame: no iteration *)
      split.
      * intros _ _. cbn [wf_loop map]. rewrite spec_from_single. now rewrite app_nil_r.
      * intros x o' r Heq Ho _. injection Heq as <- <-. cbn [wf_loop map]. rewrite Ho.
        unfold closing; cbn. now rewrite app_nil_r.
    + assert (Hloop : wf_loop left right st i (o :: o2 :: l') =
                      wf_loop left right (wf_step left right st i o o2) (S i) (o2 :: l')) by reflexivity.
      rewrite Hloop. rewrite (wf_step_regions st i o o2 Hlr).
      destruct (IH (wf_step left right st i o o2) (S i)) as [_ _].
      cbn [map]. split.
      * (* no pending entry *)
        intros Hl Hr. rewrite Hl, Hr. cbn [orb].
        destruct (rg o) eqn:Ho, (rg o2) eqn:Ho2;
          try (destruct (IH st (S i)) as [IH1 _]; rewrite (IH1 Hl Hr); cbn [map]; rewrite Ho2;
               rewrite spec_from_skip; [reflexivity|(now left) || (right; discriminate)]).
        -- (* A -> B: entry from the left *)
           destruct (IH (mkW true false i (arr st)) (S i)) as [_ IH2].
           rewrite (IH2 RA o2 l' eq_refl Ho2) by (left; cbn; auto).
           cbn [arr isave map]. rewrite Ho2. rewrite (spec_from_entry RA); [reflexivity|discriminate|cbn; lia].
        -- (* C -> B: entry from the right *)
           destruct (IH (mkW false true i (arr st)) (S i)) as [_ IH2].
           rewrite (IH2 RC o2 l' eq_refl Ho2) by (right; cbn; auto).
           cbn [arr isave map]. rewrite Ho2. rewrite (spec_from_entry RC); [reflexivity|discriminate|cbn; lia].
      * (* pending entry, current frame inside *)
        intros x o' r Heq Ho Hp. injection Heq as <- <-. rewrite Ho.
        rewrite closing_B.
        destruct (rg o2) eqn:Ho2.
        -- (* exit to the left: always valid *)
           assert (Hk : kl st || kr st = true) by (destruct Hp as [(-> & -> & _)|(-> & -> & _)]; reflexivity).
           rewrite Hk.
           destruct (IH (mkW false false (isave st) (arr st ++ [seg_of st i])) (S i)) as [IH1 _].
           rewrite (IH1 eq_refl eq_refl). cbn [arr map]. rewrite Ho2.
           rewrite (spec_from_skip RB RA) by now left.
           rewrite <- !app_assoc. f_equal. f_equal.
           unfold closing, seg_of. cbn [spanB nth_error].
           replace (negb (isC x && isC RA)) with true by (destruct x; reflexivity).
           repeat (f_equal; try lia).
        -- (* still inside *)
           destruct (IH st (S i)) as [_ IH2].
           rewrite (IH2 x o2 l' eq_refl Ho2 Hp). cbn [map]. rewrite Ho2.
           rewrite (spec_from_skip RB RB) by now left. reflexivity.
        -- (* exit to the right: valid iff entered from the left *)
           destruct Hp as [(Hl & Hr & ->)|(Hl & Hr & ->)]; rewrite Hl, Hr.
           ++ destruct (IH (mkW false false (isave st) (arr st ++ [seg_of st i])) (S i)) as [IH1 _].
              rewrite (IH1 eq_refl eq_refl). cbn [arr map]. rewrite Ho2.
              rewrite (spec_from_skip RB RC) by now left.
              rewrite <- !app_assoc. f_equal. f_equal.
              unfold closing, seg_of. cbn [spanB nth_error isC andb negb].
              repeat (f_equal; try lia).
           ++ destruct (IH (mkW false false (isave st) (arr st)) (S i)) as [IH1 _].
              rewrite (IH1 eq_refl eq_refl). cbn [arr map]. rewrite Ho2.
              rewrite (spec_from_skip RB RC) by now left.
              unfold closing. cbn [spanB nth_error isC andb negb app]. reflexivity.
Qed.

Lemma wf_loop_empty_region (Hlr : (right < left)%Z) : forall l st i,
  kl st = false -> kr st = false -> wf_loop left right st i l = st.
Proof.
  induction l as [|o l IH]; intros st i Hl Hr; [reflexivity|].
  destruct l as [|o2 l']; [reflexivity|].
  change (wf_loop left right (wf_step left right st i o o2) (S i) (o2 :: l') = st).
  rewrite (wf_step_empty_region st i o o2 Hlr Hl Hr). now apply IH.
Qed.

Lemma region_empty_noB o : (right <= left)%Z -> rg o <> RB.
Proof.
  intros H. unfold region.
  destruct (Z.ltb_spec o left); [discriminate|].
  destruct (Z.ltb_spec o right); [lia|discriminate].
Qed.

Lemma spec_from_noB rs : (forall x, In x rs -> x <> RB) -> forall i, spec_from i rs = [].
Proof.
  induction rs as [|x r IH]; intros Hno i; [reflexivity|].
  cbn [spec_from]. rewrite (IH (fun y Hy => Hno y (or_intror Hy))).
  destruct (isB x); [reflexivity|].
  destruct r as [|y r']; [reflexivity|].
  assert (Hy : y <> RB) by (apply Hno; cbn; auto).
  destruct y; try congruence; reflexivity.
Qed.

(* central theorem: the literal scan returns exactly the spec's segments, same order,
   for every order sequence and every (left, right) *)
Theorem wf_scan_eq_spec ords : wf_segments left right ords = wf_spec left right ords.
Proof.
  unfold wf_segments, wf_spec, spec_segments.
  destruct (Z.le_gt_cases left right) as [Hlr|Hlr].
  - destruct (wf_loop_sim Hlr ords wst0 0) as [H _]. now rewrite (H eq_refl eq_refl).
  - rewrite (wf_loop_empty_region Hlr) by reflexivity. cbn [arr wst0].
    symmetry. apply spec_from_noB. intros x Hin. apply in_map_iff in Hin.
    destruct Hin as (o & <- & _). apply region_empty_noB. lia.
Qed.

End Scan.

(* ------------------------------------------------------------------ validity on the orders *)

Lemma region_B left right o : region left right o = RB <-> (left <= o < right)%Z.
Proof.
  unfold region. destruct (Z.ltb_spec o left), (Z.ltb_spec o right); split; intros Hyp;
    try discriminate; try reflexivity; lia.
Qed.

Lemma region_notB left right o : region left right o <> RB <-> (o < left \/ right <= o)%Z.
Proof. rewrite region_B. lia. Qed.

Lemma region_C left right o : region left right o = RC <-> (left <= o /\ right <= o)%Z.
Proof.
  unfold region. destruct (Z.ltb_spec o left), (Z.ltb_spec o right); split; intros Hyp;
    try discriminate; try reflexivity; lia.
Qed.

Lemma nth_error_map_some {A B} (f : A -> B) l i y :
  nth_error (map f l) i = Some y <-> exists x, nth_error l i = Some x /\ y = f x.
Proof.
  rewrite nth_error_map. destruct (nth_error l i) as [x|]; cbn; split.
  - intros [= <-]. now exists x.
  - intros (x' & [= <-] & ->). reflexivity.
  - discriminate.
  - intros (x' & Hx & _). discriminate.
Qed.

Lemma valid_seg_validR left right ords s e n :
  valid_seg left right ords s e n <-> validR (map (region left right) ords) s e n.
Proof.
  unfold valid_seg, validR. split.
  - intros (He & Hn & (os & oe & Hs & Hee & Hos & Hoe & HCC) & Hin).
    split; [exact He|]. split; [exact Hn|]. split.
    + exists (region left right os), (region left right oe).
      split; [apply nth_error_map_some; eauto|]. split; [apply nth_error_map_some; eauto|].
      split; [now apply region_notB|]. split; [now apply region_notB|].
      rewrite !region_C. lia.
    + intros j Hj. destruct (Hin j Hj) as (oj & Hoj & HB).
      apply nth_error_map_some. exists oj. split; [exact Hoj|]. symmetry. now apply region_B.
  - intros (He & Hn & (x & y & Hx & Hy & HxB & HyB & HCC) & Hin).
    apply nth_error_map_some in Hx. destruct Hx as (os & Hos & ->).
    apply nth_error_map_some in Hy. destruct Hy as (oe & Hoe & ->).
    assert (Hint : forall j, s < j < e -> exists oj, nth_error ords j = Some oj /\ (left <= oj < right)%Z).
    { intros j Hj. specialize (Hin j Hj). apply nth_error_map_some in Hin.
      destruct Hin as (oj & Hoj & HB). exists oj. split; [exact Hoj|]. apply region_B. now symmetry. }
    split; [exact He|]. split; [exact Hn|]. split; [|exact Hint].
    exists os, oe. split; [exact Hos|]. split; [exact Hoe|].
    apply region_notB in HxB. apply region_notB in HyB.
    split; [exact HxB|]. split; [exact HyB|].
    intros [H1 H2]. destruct (Hint (S s)) as (oj & _ & Hoj); [lia|].
    apply HCC. rewrite !region_C. lia.
Qed.

Theorem wf_segments_valid left right ords s e n :
  In (s, e, n) (wf_segments left right ords) <-> valid_seg left right ords s e n.
Proof.
  rewrite wf_scan_eq_spec. unfold wf_spec. rewrite spec_segments_valid.
  symmetry. apply valid_seg_validR.
Qed.

Lemma wf_segments_NoDup left right ords : NoDup (wf_segments left right ords).
Proof. rewrite wf_scan_eq_spec. apply spec_segments_NoDup. Qed.

Lemma valid_seg_bounds left right ords s e n :
  valid_seg left right ords s e n -> s < e /\ e < length ords.
Proof.
  intros (He & Hn & (os & oe & _ & Hoe & _) & _). split; [lia|].
  apply nth_error_Some. now rewrite Hoe.
Qed.

Lemma valid_seg_overlap_eq left right ords s e n s' e' n' j :
  valid_seg left right ords s e n -> valid_seg left right ords s' e' n' ->
  s < j < e -> s' < j < e' -> (s, e, n) = (s', e', n').
Proof.
  rewrite !valid_seg_validR. apply validR_overlap_eq.
Qed.

(* segments come out in increasing order of their entry index *)
Lemma spec_from_sorted rs : forall i, 
  forall k1 k2 a b, k1 < k2 -> nth_error (spec_from i rs) k1 = Some a ->
  nth_error (spec_from i rs) k2 = Some b -> fst (fst a) < fst (fst b).
Proof.
  induction rs as [|x r IH]; intros i k1 k2 a b Hk H1 H2.
  - destruct k1; discriminate.
  - cbn [spec_from] in H1, H2.
    destruct (isB x); [now apply (IH (S i) k1 k2)|].
    destruct (nth_error r (spanB r)) as [y|]; [|now apply (IH (S i) k1 k2)].
    destruct ((0 <? spanB r) && negb (isC x && isC y)); [|now apply (IH (S i) k1 k2)].
    destruct k2 as [|k2]; [lia|]. cbn in H2.
    destruct k1 as [|k1].
    + cbn in H1. injection H1 as <-. cbn. apply nth_error_In in H2.
      destruct b as [[s e] n]. apply spec_from_lb in H2. cbn. lia.
    + cbn in H1. apply (IH (S i) k1 k2); [lia|assumption|assumption].
Qed.

Theorem wf_segments_sorted left right ords k1 k2 a b :
  k1 < k2 -> nth_error (wf_segments left right ords) k1 = Some a ->
  nth_error (wf_segments left right ords) k2 = Some b -> fst (fst a) < fst (fst b).
Proof. rewrite wf_scan_eq_spec. apply spec_from_sorted. Qed.

(* ------------------------------------------------------------------ the weight counts frames *)

Lemma wf_nframes_sum left right ords :
  wf_nframes left right ords = sum_counts (wf_segments left right ords).
Proof. reflexivity. Qed.

Theorem wf_weight_eq_spec left right ords :
  wf_nframes left right ords = wf_spec_weight left right ords.
Proof. unfold wf_spec_weight. rewrite <- wf_scan_eq_spec. reflexivity. Qed.

Definition interior (sg : nat * nat * nat) : list nat := seq (S (fst (fst sg))) (snd sg).

Lemma NoDup_app' {A} (l1 l2 : list A) :
  NoDup l1 -> NoDup l2 -> (forall x, In x l1 -> ~ In x l2) -> NoDup (l1 ++ l2).
Proof.
  induction l1 as [|a l1 IH]; intros H1 H2 Hd; [exact H2|].
  cbn. inversion H1 as [|? ? Hna Hnd]; subst. constructor.
  - rewrite in_app_iff. intros [H|H]; [contradiction|]. apply (Hd a); cbn; auto.
  - apply IH; auto. intros x Hx. apply Hd. cbn; auto.
Qed.

Lemma NoDup_flat_map {A B} (f : A -> list B) l :
  NoDup l -> (forall a, In a l -> NoDup (f a)) ->
  (forall a b x, In a l -> In b l -> In x (f a) -> In x (f b) -> a = b) ->
  NoDup (flat_map f l).
Proof.
  induction l as [|a l IH]; intros Hnd Hf Hdis; [constructor|].
  cbn. inversion Hnd as [|? ? Hna Hnd']; subst. apply NoDup_app'.
  - apply Hf; cbn; auto.
  - apply IH; auto.
    + intros b Hb. apply Hf; cbn; auto.
    + intros b c x Hb Hc. apply Hdis; cbn; auto.
  - intros x Hx Hin. apply in_flat_map in Hin. destruct Hin as (b & Hb & Hxb).
    assert (a = b) by (apply (Hdis a b x); cbn; auto). subst b. contradiction.
Qed.

Lemma length_flat_interior segs : length (flat_map interior segs) = sum_counts segs.
Proof.
  induction segs as [|sg r IH]; [reflexivity|].
  cbn [flat_map sum_counts fold_right]. rewrite app_length. unfold interior at 1.
  rewrite seq_length. unfold sum_counts in IH. now rewrite IH.
Qed.

Lemma in_interior j s e n : e = s + n + 1 -> (In j (interior (s, e, n)) <-> s < j < e).
Proof. intros ->. unfold interior; cbn [fst snd]. rewrite in_seq. lia. Qed.

(* weight = number of frames lying strictly inside a valid sub-path: there is a
   duplicate-free list of exactly those frame indices whose length is the weight *)
Theorem wf_weight_count left right ords :
  exists js, NoDup js /\ (forall j, In j js <-> on_valid left right ords j) /\
             wf_nframes left right ords = length js.
Proof.
  exists (flat_map interior (wf_segments left right ords)).
  split; [|split].
  - apply NoDup_flat_map.
    + apply wf_segments_NoDup.
    + intros a _. apply seq_NoDup.
    + intros [[s e] n] [[s' e'] n'] x Ha Hb Hxa Hxb.
      apply wf_segments_valid in Ha. apply wf_segments_valid in Hb.
      apply in_interior in Hxa; [|apply Ha]. apply in_interior in Hxb; [|apply Hb].
      eapply valid_seg_overlap_eq; eauto.
  - intros j. rewrite in_flat_map. unfold on_valid. split.
    + intros ([[s e] n] & Hin & Hj). apply wf_segments_valid in Hin.
      exists s, e, n. split; [exact Hin|]. apply in_interior in Hj; [exact Hj|apply Hin].
    + intros (s & e & n & Hv & Hj). exists (s, e, n). split; [now apply wf_segments_valid|].
      apply in_interior; [apply Hv|exact Hj].
  - now rewrite length_flat_interior.
Qed.

Theorem wf_weight_pos_iff left right ords :
  0 < wf_nframes left right ords <-> exists j, on_valid left right ords j.
Proof.
  destruct (wf_weight_count left right ords) as (js & _ & Hjs & ->). split.
  - intros Hpos. destruct js as [|j js']; [cbn in Hpos; lia|]. exists j. apply Hjs. cbn; auto.
  - intros (j & Hj). apply Hjs in Hj. destruct js; [contradiction|cbn; lia].
Qed.

Corollary wf_weight_zero_iff left right ords :
  wf_nframes left right ords = 0 <-> forall j, ~ on_valid left right ords j.
Proof.
  pose proof (wf_weight_pos_iff left right ords) as H. split.
  - intros H0 j Hj. assert (0 < wf_nframes left right ords) by (apply H; eauto). lia.
  - intros Hno. destruct (wf_nframes left right ords) eqn:E; [reflexivity|].
    exfalso. destruct (proj1 H) as (j & Hj); [lia|]. exact (Hno j Hj).
Qed.

(* an empty region carries no weight *)
Theorem wf_weight_empty_region left right ords :
  (right <= left)%Z -> wf_segments left right ords = [] /\ wf_nframes left right ords = 0.
Proof.
  intros Hlr.
  assert (H : wf_segments left right ords = []).
  { rewrite wf_scan_eq_spec. unfold wf_spec, spec_segments. apply spec_from_noB.
    intros x Hin. apply in_map_iff in Hin. destruct Hin as (o & <- & _).
    now apply region_empty_noB. }
  split; [exact H|]. unfold wf_nframes. now rewrite H.
Qed.

(* ------------------------------------------------------------------ time reversal *)

Lemma valid_seg_rev1 left right ords s e n :
  valid_seg left right (rev ords) s e n ->
  valid_seg left right ords (length ords - 1 - e) (length ords - 1 - s) n.
Proof.
  intros Hv. pose proof (valid_seg_bounds _ _ _ _ _ _ Hv) as [Hse HeL]. rewrite rev_length in HeL.
  destruct Hv as (He & Hn & (os & oe & Hos & Hoe & Ho1 & Ho2 & HCC) & Hin).
  set (L := length ords) in *.
  rewrite nth_error_rev in Hos by (fold L; lia). rewrite nth_error_rev in Hoe by (fold L; lia).
  fold L in Hos, Hoe.
  split; [lia|]. split; [exact Hn|]. split.
  - exists oe, os. replace (L - 1 - e) with (L - S e) by lia. replace (L - 1 - s) with (L - S s) by lia.
    repeat split; auto. intros [? ?]. apply HCC. auto.
  - intros j Hj. destruct (Hin (L - 1 - j)) as (oj & Hoj & HB); [lia|].
    rewrite nth_error_rev in Hoj by (fold L; lia). fold L in Hoj.
    replace (L - S (L - 1 - j)) with j in Hoj by lia. eauto.
Qed.

(* the valid sub-paths of the reversed path are exactly the mirrored sub-paths *)
Theorem wf_segments_rev_mirror left right ords sg :
  In sg (wf_segments left right (rev ords)) <->
  In sg (map (mirror (length ords)) (wf_segments left right ords)).
Proof.
  rewrite in_map_iff. split.
  - destruct sg as [[s e] n]. intros Hin. apply wf_segments_valid in Hin.
    pose proof (valid_seg_bounds _ _ _ _ _ _ Hin) as [Hse HeL]. rewrite rev_length in HeL.
    exists (length ords - 1 - e, length ords - 1 - s, n). split.
    + cbn. repeat (f_equal; try lia).
    + apply wf_segments_valid. now apply valid_seg_rev1.
  - intros ([[s0 e0] n] & <- & Hin). apply wf_segments_valid in Hin.
    cbn. apply wf_segments_valid. rewrite <- (rev_length ords).
    apply valid_seg_rev1. now rewrite rev_involutive.
Qed.

Lemma NoDup_map_on {A B} (f : A -> B) l :
  NoDup l -> (forall a b, In a l -> In b l -> f a = f b -> a = b) -> NoDup (map f l).
Proof.
  induction l as [|a l IH]; intros Hnd Hinj; [constructor|].
  inversion Hnd as [|? ? Hna Hnd']; subst. cbn. constructor.
  - intros Hin. apply in_map_iff in Hin. destruct Hin as (b & Hfb & Hb).
    assert (b = a) by (apply Hinj; cbn; auto). subst b. contradiction.
  - apply IH; auto. intros b c Hb Hc. apply Hinj; cbn; auto.
Qed.

Lemma sum_counts_perm l l' : Permutation l l' -> sum_counts l = sum_counts l'.
Proof.
  unfold sum_counts. induction 1; cbn; try lia.
Qed.

Lemma sum_counts_mirror L l : sum_counts (map (mirror L) l) = sum_counts l.
Proof.
  unfold sum_counts. induction l as [|[[s e] n] r IH]; cbn; [reflexivity|]. now rewrite IH.
Qed.

Theorem wf_segments_rev_perm left right ords :
  Permutation (wf_segments left right (rev ords))
              (map (mirror (length ords)) (wf_segments left right ords)).
Proof.
  apply NoDup_Permutation.
  - apply wf_segments_NoDup.
  - apply NoDup_map_on; [apply wf_segments_NoDup|].
    intros [[s e] n] [[s' e'] n'] Ha Hb Heq.
    apply wf_segments_valid in Ha. apply wf_segments_valid in Hb.
    apply valid_seg_bounds in Ha. apply valid_seg_bounds in Hb.
    cbn in Heq. injection Heq as H1 H2 H3. repeat (f_equal; try lia).
  - apply wf_segments_rev_mirror.
Qed.

Theorem wf_weight_reverse left right ords :
  wf_nframes left right (rev ords) = wf_nframes left right ords.
Proof.
  rewrite !wf_nframes_sum. rewrite (sum_counts_perm _ _ (wf_segments_rev_perm left right ords)).
  apply sum_counts_mirror.
Qed.

(* ------------------------------------------------------------------ compute_weight *)

Lemma orders_mk ords : orders (mkP (map (fun o => mkF o 0 false 0) ords) 0 0%Z) = ords.
Proof. unfold orders; cbn. rewrite map_map. cbn. apply map_id. Qed.

(* both ends on the same outer side: both at or below i0, or both above i0 and at or
   above i2 *)
Definition same_side (i0 i2 first lastv : Z) : Prop :=
  (first <= i0 /\ lastv <= i0)%Z \/ (i0 < first /\ i2 <= first /\ i0 < lastv /\ i2 <= lastv)%Z.

Definition base_weight (ords : list Z) (i1 i2 : Z) (mv : move) : Z :=
  match mv with Mwf => Z.of_nat (wf_nframes i1 i2 ords) | _ => 1%Z end.

Theorem compute_weight_double ords i0 i1 i2 mv first lastv :
  (i0 <= i2)%Z -> hd_error ords = Some first -> hd_error (rev ords) = Some lastv ->
  (same_side i0 i2 first lastv ->
     compute_weight ords i0 i1 i2 mv = Some (base_weight ords i1 i2 mv)) /\
  (~ same_side i0 i2 first lastv ->
     compute_weight ords i0 i1 i2 mv =
     Some (match mv with Msh => base_weight ords i1 i2 mv | _ => 2 * base_weight ords i1 i2 mv end)%Z).
Proof.
  intros Hle Hf Hl. unfold compute_weight, start_point, end_point, same_side, base_weight.
  rewrite orders_mk.
  destruct (Z.ltb_spec i2 i0) as [Hlt|_]; [lia|].
  destruct ords as [|o r]; [discriminate|]. cbn in Hf. injection Hf as ->.
  destruct (rev (first :: r)) as [|y r']; [discriminate|]. cbn in Hl. injection Hl as ->.
  unfold classify.
  destruct (Z.leb_spec first i0), (Z.leb_spec lastv i0), (Z.leb_spec i2 first), (Z.leb_spec i2 lastv);
    split; intros Hs; try reflexivity; try (exfalso; lia); destruct mv; reflexivity.
Qed.

Theorem compute_weight_undefined ords i0 i1 i2 mv :
  compute_weight ords i0 i1 i2 mv = None <-> ((i2 < i0)%Z \/ ords = []).
Proof.
  unfold compute_weight, start_point, end_point. rewrite orders_mk.
  destruct (Z.ltb_spec i2 i0) as [Hlt|Hge]; [split; auto|].
  destruct ords as [|o r]; [split; auto|].
  destruct (rev (o :: r)) as [|y r'] eqn:Hr.
  - apply (f_equal (@length Z)) in Hr. rewrite rev_length in Hr. discriminate.
  - split; [discriminate|]. intros [H|H]; [lia|discriminate].
Qed.

(* ------------------------------------------------------------------ calc_cv_vector *)

Lemma fold_max_spec r : forall o,
  In (fold_left Z.max r o) (o :: r) /\ forall x, In x (o :: r) -> (x <= fold_left Z.max r o)%Z.
Proof.
  induction r as [|a r IH]; intros o; cbn [fold_left].
  - split; [cbn; auto|]. intros x [->|[]]. lia.
  - destruct (IH (Z.max o a)) as [Hin Hub]. split.
    + destruct Hin as [Hin|Hin]; [|cbn; auto].
      rewrite <- Hin. destruct (Z.max_spec o a) as [[_ ->]|[_ ->]]; cbn; auto.
    + intros x Hx. assert (Hm : (Z.max o a <= fold_left Z.max r (Z.max o a))%Z) by (apply Hub; cbn; auto).
      destruct Hx as [->|[->|Hx]]; [lia|lia|]. apply Hub. cbn; auto.
Qed.

Lemma list_max_spec o r :
  In (list_max o r) (o :: r) /\ forall x, In x (o :: r) -> (x <= list_max o r)%Z.
Proof. apply fold_max_spec. Qed.

(* the 1/0 entry of a shooting column: 1 iff some frame reaches the interface *)
Definition crossing_entry (ords : list Z) (l b : Z) : Prop :=
  (b = 1%Z /\ exists o, In o ords /\ (l <= o)%Z) \/ (b = 0%Z /\ forall o, In o ords -> (o < l)%Z).

Lemma crossing_entry_max o r l :
  crossing_entry (o :: r) l (if (l <=? list_max o r)%Z then 1 else 0)%Z.
Proof.
  destruct (list_max_spec o r) as [Hin Hub]. unfold crossing_entry.
  destruct (Z.leb_spec l (list_max o r)) as [H|H].
  - left. split; [reflexivity|]. eauto.
  - right. split; [reflexivity|]. intros x Hx. specialize (Hub x Hx). lia.
Qed.

Theorem cv_vector_minus ords intfs mvs lm1 cap l :
  ords <> [] -> (lm1 = Some l \/ (lm1 = None /\ hd_error intfs = Some l)) ->
  exists b, calc_cv_vector ords intfs mvs lm1 cap true = Some [b] /\ crossing_entry ords l b.
Proof.
  intros Hne Hl. destruct ords as [|o r]; [congruence|]. unfold calc_cv_vector.
  destruct Hl as [->|[-> Hh]].
  - eexists. split; [reflexivity|]. apply crossing_entry_max.
  - destruct intfs as [|i0 ir]; [discriminate|]. cbn in Hh. injection Hh as ->.
    eexists. split; [reflexivity|]. apply crossing_entry_max.
Qed.

Definition cv_entry (ords : list Z) (i0 capv lk : Z) (mv : move) (b : Z) : Prop :=
  match mv with
  | Mwf => compute_weight ords i0 lk capv Mwf = Some b
  | _ => crossing_entry ords lk b
  end.

Lemma cv_plus_cons2 ords pmax i0 capv li l2 rest mvs :
  cv_plus ords pmax i0 capv (li :: l2 :: rest) mvs =
  match mvs with
  | [] => None
  | mv :: mrest =>
      match match mv with
            | Mwf => compute_weight ords i0 li capv Mwf
            | _ => Some (if (li <=? pmax)%Z then 1%Z else 0%Z)
            end, cv_plus ords pmax i0 capv (l2 :: rest) mrest with
      | Some w, Some ws => Some (w :: ws)
      | _, _ => None
      end
  end.
Proof. reflexivity. Qed.

Lemma cv_plus_shape o r i0 capv : forall intfs mvs v,
  cv_plus (o :: r) (list_max o r) i0 capv intfs mvs = Some v ->
  length v = length intfs /\
  (intfs <> [] -> nth_error v (length intfs - 1) = Some 0%Z) /\
  (forall k lk, S k < length intfs -> nth_error intfs k = Some lk ->
     exists mv b, nth_error mvs k = Some mv /\ nth_error v k = Some b /\
                  cv_entry (o :: r) i0 capv lk mv b).
Proof.
  induction intfs as [|li rest IH]; intros mvs v Hv.
  - cbn in Hv. injection Hv as <-. split; [reflexivity|]. split; [congruence|]. intros k lk Hk; cbn in Hk; lia.
  - destruct rest as [|l2 rest'].
    + cbn in Hv. injection Hv as <-. split; [reflexivity|]. split; [reflexivity|].
      intros k lk Hk; cbn in Hk; lia.
    + rewrite cv_plus_cons2 in Hv. destruct mvs as [|mv mrest]; [discriminate|].
      set (this := match mv with
                   | Mwf => compute_weight (o :: r) i0 li capv Mwf
                   | _ => Some (if (li <=? list_max o r)%Z then 1%Z else 0%Z)
                   end) in Hv.
      destruct this as [w|] eqn:Hthis; [|discriminate].
      destruct (cv_plus (o :: r) (list_max o r) i0 capv (l2 :: rest') mrest) as [ws|] eqn:Hrec; [|discriminate].
      injection Hv as <-. destruct (IH mrest ws Hrec) as (Hlen & Hlast & Hent).
      split; [cbn [length]; now rewrite Hlen|]. split.
      * intros _. cbn [length]. replace (S (S (length rest')) - 1) with (S (length rest')) by lia.
        cbn [nth_error]. specialize (Hlast ltac:(discriminate)). cbn [length] in Hlast.
        now replace (S (length rest') - 1) with (length rest') in Hlast by lia.
      * intros k lk Hk Hlk. destruct k as [|k].
        -- cbn in Hlk. injection Hlk as <-. exists mv, w. split; [reflexivity|]. split; [reflexivity|].
           unfold cv_entry. subst this. destruct mv; try exact Hthis;
             injection Hthis as <-; apply crossing_entry_max.
        -- cbn [nth_error]. apply Hent; [cbn [length] in *; lia|exact Hlk].
Qed.

Lemma nth_error_tl {A} (l : list A) k : nth_error (tl l) k = nth_error l (S k).
Proof. destruct l; [now destruct k|reflexivity]. Qed.

(* shape of the weight vector of a plus path: one entry per interface, last entry 0,
   entry k (k not last) is governed by moves[k+1]: the wire-fencing weight w.r.t.
   (interfaces[0], interfaces[k], cap or last interface) for "wf", 1/0 by
   interfaces[k] <= max order otherwise *)
Theorem cv_vector_shape ords i0 irest mvs lm1 cap v :
  let intfs := i0 :: irest in
  let capv := match cap with Some c => c | None => last intfs i0 end in
  calc_cv_vector ords intfs mvs lm1 cap false = Some v ->
  length v = length intfs /\
  nth_error v (length intfs - 1) = Some 0%Z /\
  (forall k lk, S k < length intfs -> nth_error intfs k = Some lk ->
     exists mv b, nth_error mvs (S k) = Some mv /\ nth_error v k = Some b /\
                  cv_entry ords i0 capv lk mv b).
Proof.
  intros intfs capv Hv. unfold calc_cv_vector in Hv.
  destruct ords as [|o r]; [discriminate|]. fold intfs in Hv. cbv zeta in Hv. fold capv in Hv.
  destruct (cv_plus_shape o r i0 capv intfs (tl mvs) v Hv) as (Hlen & Hlast & Hent).
  split; [exact Hlen|]. split; [apply Hlast; discriminate|].
  intros k lk Hk Hlk. destruct (Hent k lk Hk Hlk) as (mv & b & Hmv & Hb & He).
  exists mv, b. rewrite nth_error_tl in Hmv. auto.
Qed.

Lemma cv_plus_defined o r i0 capv : (i0 <= capv)%Z -> forall intfs mvs,
  length intfs <= S (length mvs) -> exists v, cv_plus (o :: r) (list_max o r) i0 capv intfs mvs = Some v.
Proof.
  intros Hcap. induction intfs as [|li rest IH]; intros mvs Hlen; [now eexists|].
  destruct rest as [|l2 rest']; [now eexists|].
  destruct mvs as [|mv mrest]; [cbn in Hlen; lia|].
  rewrite cv_plus_cons2. destruct (IH mrest) as (ws & ->); [cbn [length] in *; lia|].
  destruct mv; try (eexists; reflexivity).
  destruct (compute_weight (o :: r) i0 li capv Mwf) as [w|] eqn:Hw; [eexists; reflexivity|].
  apply compute_weight_undefined in Hw. destruct Hw as [Hw|Hw]; [lia|discriminate].
Qed.

Theorem cv_vector_defined ords i0 irest mvs lm1 cap :
  let intfs := i0 :: irest in
  let capv := match cap with Some c => c | None => last intfs i0 end in
  ords <> [] -> (i0 <= capv)%Z -> length intfs <= length mvs ->
  exists v, calc_cv_vector ords intfs mvs lm1 cap false = Some v.
Proof.
  intros intfs capv Hne Hcap Hlen. destruct ords as [|o r]; [congruence|].
  unfold calc_cv_vector. fold intfs. cbv zeta. fold capv.
  apply cv_plus_defined; [exact Hcap|]. destruct mvs; cbn in *; lia.
Qed.

(* ------------------------------------------------------------------ segment choice *)

Section Pick.
Variable n : nat.
Variable u : Q.

(* the threshold c/n the code compares the random number with *)
Definition cumQ (c : nat) : Q := Z.of_nat c # Pos.of_nat n.

Lemma cumQ_mono c c' : c <= c' -> (cumQ c <= cumQ c')%Q.
Proof. intros H. unfold cumQ, Qle; cbn. apply Z.mul_le_mono_nonneg_r; lia. Qed.

Lemma sum_counts_firstn_S segs k sg :
  nth_error segs k = Some sg -> cum_counts segs (S k) = cum_counts segs k + snd sg.
Proof.
  unfold cum_counts, sum_counts. revert k; induction segs as [|a r IH]; intros k Hk; [destruct k; discriminate|].
  destruct k as [|k].
  - cbn in Hk. injection Hk as ->. cbn. lia.
  - cbn in Hk. specialize (IH k Hk). cbn [firstn fold_right] in *. lia.
Qed.

Lemma cum_counts_mono segs k k' : k <= k' -> cum_counts segs k <= cum_counts segs k'.
Proof.
  unfold cum_counts, sum_counts. revert k k'; induction segs as [|a r IH]; intros k k' H.
  - now rewrite !firstn_nil.
  - destruct k as [|k]; [cbn; lia|]. destruct k' as [|k']; [lia|].
    cbn [firstn fold_right]. specialize (IH k k'). lia.
Qed.

Lemma cum_counts_all segs : cum_counts segs (length segs) = sum_counts segs.
Proof. unfold cum_counts. now rewrite firstn_all. Qed.

Lemma wf_pick_from_spec segs : forall cum sg,
  wf_pick_from segs cum n u = Some sg <->
  exists k, nth_error segs k = Some sg /\
            (u <= cumQ (cum + cum_counts segs (S k)))%Q /\
            (forall k', k' < k -> ~ (u <= cumQ (cum + cum_counts segs (S k')))%Q).
Proof.
  induction segs as [|a r IH]; intros cum sg.
  - cbn. split; [discriminate|]. intros (k & Hk & _). destruct k; discriminate.
  - cbn [wf_pick_from]. unfold seg_count.
    assert (Hc1 : forall k, cum + cum_counts (a :: r) (S k) = (cum + snd a) + cum_counts r k).
    { intros k. unfold cum_counts, sum_counts. cbn [firstn fold_right]. lia. }
    assert (Hc0 : cum_counts r 0 = 0) by reflexivity.
    destruct (Qle_bool u (Z.of_nat (cum + snd a) # Pos.of_nat n)) eqn:Hq.
    + apply Qle_bool_iff in Hq. split.
      * intros [= <-]. exists 0. split; [reflexivity|]. split.
        -- rewrite Hc1, Hc0, Nat.add_0_r. exact Hq.
        -- intros k' Hk'. lia.
      * intros (k & Hk & _ & Hnot). destruct k as [|k]; [cbn in Hk; congruence|].
        exfalso. apply (Hnot 0); [lia|]. rewrite Hc1, Hc0, Nat.add_0_r. exact Hq.
    + assert (Hnq : ~ (u <= cumQ (cum + snd a))%Q).
      { intros H. apply Qle_bool_iff in H. unfold cumQ in H. congruence. }
      rewrite IH. split.
      * intros (k & Hk & Hle & Hnot). exists (S k). split; [exact Hk|]. split.
        -- now rewrite Hc1.
        -- intros k' Hk'. rewrite Hc1. destruct k' as [|k']; [now rewrite Hc0, Nat.add_0_r|].
           apply Hnot. lia.
      * intros (k & Hk & Hle & Hnot). destruct k as [|k].
        -- exfalso. rewrite Hc1, Hc0, Nat.add_0_r in Hle. contradiction.
        -- exists k. split; [exact Hk|]. split; [now rewrite <- Hc1|].
           intros k' Hk'. rewrite <- Hc1. apply Hnot. lia.
Qed.

Lemma wf_pick_from_none segs : forall cum,
  wf_pick_from segs cum n u = None -> segs = [] \/ ~ (u <= cumQ (cum + sum_counts segs))%Q.
Proof.
  induction segs as [|a r IH]; intros cum H; [now left|]. right.
  cbn [wf_pick_from] in H. unfold seg_count in H.
  destruct (Qle_bool u (Z.of_nat (cum + snd a) # Pos.of_nat n)) eqn:Hq; [discriminate|].
  replace (cum + sum_counts (a :: r)) with (cum + snd a + sum_counts r)
    by (unfold sum_counts; cbn [fold_right]; lia).
  destruct (IH _ H) as [->|Hn]; [|exact Hn].
  unfold sum_counts; cbn [fold_right]. rewrite Nat.add_0_r.
  intros Hle. apply Qle_bool_iff in Hle. unfold cumQ in Hle. congruence.
Qed.

End Pick.

(* segment k is chosen iff c_{k-1}/n < u <= c_k/n (for k = 0 only u <= c_0/n), where
   c_k is the cumulative interior count of segments 0..k and n the total weight *)
Theorem wf_pick_interval left right ords u sg :
  let segs := wf_segments left right ords in
  let n := wf_nframes left right ords in
  wf_pick left right ords u = Some sg <->
  (0 < n /\ exists k, nth_error segs k = Some sg /\
     (k = 0 \/ (cumQ n (cum_counts segs k) < u)%Q) /\
     (u <= cumQ n (cum_counts segs (S k)))%Q).
Proof.
  intros segs n. unfold wf_pick. fold n. fold segs.
  destruct (Nat.eqb_spec n 0) as [H0|H0].
  - split; [discriminate|]. intros [Hpos _]. lia.
  - rewrite wf_pick_from_spec. split.
    + intros (k & Hk & Hle & Hnot). split; [lia|]. exists k. split; [exact Hk|]. split; [|exact Hle].
      destruct k as [|k]; [now left|]. right. apply Qnot_le_lt. apply (Hnot k). lia.
    + intros (_ & k & Hk & Hlow & Hle). exists k. split; [exact Hk|]. split; [exact Hle|].
      intros k' Hk' Hle'. destruct Hlow as [->|Hlt]; [lia|].
      apply (Qlt_not_le _ _ Hlt). eapply Qle_trans; [exact Hle'|].
      apply cumQ_mono. cbn [plus]. apply cum_counts_mono. lia.
Qed.

(* the thresholds tile (0, 1]: consecutive thresholds differ by len_k / n and the last is n/n *)
Theorem wf_pick_widths left right ords k sg :
  let segs := wf_segments left right ords in
  nth_error segs k = Some sg ->
  cum_counts segs (S k) = cum_counts segs k + seg_count sg /\
  cum_counts segs 0 = 0 /\
  cum_counts segs (length segs) = wf_nframes left right ords.
Proof.
  intros segs Hk. split; [now apply sum_counts_firstn_S|]. split; [reflexivity|].
  apply cum_counts_all.
Qed.

Theorem wf_pick_total left right ords u :
  0 < wf_nframes left right ords -> (u <= 1)%Q -> exists sg, wf_pick left right ords u = Some sg.
Proof.
  intros Hpos Hu. unfold wf_pick. destruct (Nat.eqb_spec (wf_nframes left right ords) 0) as [H0|H0]; [lia|].
  destruct (wf_pick_from _ 0 _ u) as [sg|] eqn:Hp; [eauto|]. exfalso.
  apply wf_pick_from_none in Hp. destruct Hp as [Hnil|Hn].
  - unfold wf_nframes in Hpos. rewrite Hnil in Hpos. cbn in Hpos. lia.
  - apply Hn. cbn [plus]. fold (wf_nframes left right ords) in *.
    change (sum_counts (wf_segments left right ords)) with (wf_nframes left right ords).
    eapply Qle_trans; [exact Hu|]. unfold cumQ, Qle; cbn.
    rewrite <- (positive_nat_Z (Pos.of_nat (wf_nframes left right ords))).
    rewrite Nat2Pos.id by lia. lia.
Qed.

Theorem wf_pick_valid left right ords u s e n :
  wf_pick left right ords u = Some (s, e, n) -> valid_seg left right ords s e n.
Proof.
  intros H. apply wf_pick_interval in H. destruct H as (_ & k & Hk & _).
  apply wf_segments_valid. eapply nth_error_In; eauto.
Qed.

(* the extracted sub-path: frames s .. e inclusive, n + 2 of them *)
Theorem seg_frames_spec {A} (l : list A) s e n :
  e = s + n + 1 -> e < length l ->
  length (seg_frames (s, e, n) l) = n + 2 /\
  forall t, t <= n + 1 -> nth_error (seg_frames (s, e, n) l) t = nth_error l (s + t).
Proof.
  intros -> HL. unfold seg_frames. split.
  - rewrite firstn_length, skipn_length. lia.
  - intros t Ht. rewrite nth_error_firstn' by lia. apply nth_error_skipn'.
Qed.

(* ------------------------------------------------------------------ the seeding segment and length limits *)

Lemma fold_append_lim_none {A} (l : list A) : forall acc,
  fold_left (append_lim None) l acc = acc ++ l.
Proof.
  induction l as [|x l IH]; intros acc; cbn [fold_left].
  - now rewrite app_nil_r.
  - rewrite IH. unfold append_lim. now rewrite <- app_assoc.
Qed.

Lemma fold_append_lim_some {A} m (l : list A) : forall acc,
  fold_left (append_lim (Some m)) l acc = acc ++ firstn (m - length acc) l.
Proof.
  induction l as [|x l IH]; intros acc; cbn [fold_left].
  - now rewrite firstn_nil, app_nil_r.
  - rewrite IH. unfold append_lim. destruct (Nat.ltb_spec (length acc) m) as [Hlt|Hge].
    + rewrite app_length. cbn [length].
      replace (m - length acc) with (S (m - (length acc + 1))) by lia.
      cbn [firstn]. now rewrite <- app_assoc.
    + replace (m - length acc) with 0 by lia. reflexivity.
Qed.

(* the container keeps the first [maxlen] frames of the sub-path *)
Theorem wf_seed_firstn {A} pmaxlen sg (l : list A) :
  wf_seed pmaxlen sg l =
  match pmaxlen with None => seg_frames sg l | Some m => firstn m (seg_frames sg l) end.
Proof.
  unfold wf_seed. destruct pmaxlen as [m|].
  - rewrite fold_append_lim_some. cbn. now rewrite Nat.sub_0_r.
  - now rewrite fold_append_lim_none.
Qed.

(* path.maxlen is None or at least the number of frames of the sub-path (in particular
   when len(path) <= path.maxlen): the seed is the whole sub-path, entry .. exit inclusive *)
Theorem wf_seed_whole {A} pmaxlen (l : list A) s e n :
  e = s + n + 1 -> e < length l ->
  (pmaxlen = None \/ exists m, pmaxlen = Some m /\ n + 2 <= m) ->
  wf_seed pmaxlen (s, e, n) l = seg_frames (s, e, n) l.
Proof.
  intros He HL Hm. rewrite wf_seed_firstn. destruct Hm as [->|(m & -> & Hm)]; [reflexivity|].
  apply firstn_all2. destruct (seg_frames_spec l s e n He HL) as [Hlen _]. lia.
Qed.

(* a container limit below n + 2 (whatever its origin) returns a strict prefix of the
   sub-path: m frames entry, entry+1, ... and NOT the exit frame *)
Theorem wf_seed_truncated {A} m (l : list A) s e n :
  e = s + n + 1 -> e < length l -> m < n + 2 ->
  length (wf_seed (Some m) (s, e, n) l) = m /\
  (forall t, t < m -> nth_error (wf_seed (Some m) (s, e, n) l) t = nth_error l (s + t)) /\
  wf_seed (Some m) (s, e, n) l <> seg_frames (s, e, n) l.
Proof.
  intros He HL Hm. rewrite wf_seed_firstn.
  destruct (seg_frames_spec l s e n He HL) as [Hlen Hnth].
  assert (Hl : length (firstn m (seg_frames (s, e, n) l)) = m) by (rewrite firstn_length; lia).
  split; [exact Hl|]. split.
  - intros t Ht. rewrite nth_error_firstn' by exact Ht. apply Hnth. lia.
  - intros Heq. rewrite Heq in Hl. lia.
Qed.

(* return_seg=True: the returned segment is exactly one valid sub-path with its two end
   points — frame t of the segment IS frame s + t of the path — whenever the path respects
   its own limit (len(path) <= path.maxlen or path.maxlen is None).  No other length limit
   enters. *)
Theorem wf_pick_seed_exact {A} left right ords (frames : list A) pmaxlen u sg seed :
  length frames = length ords ->
  (pmaxlen = None \/ exists m, pmaxlen = Some m /\ length ords <= m) ->
  wf_pick_seed left right ords frames pmaxlen u = Some (sg, seed) ->
  let '(s, e, n) := sg in
  valid_seg left right ords s e n /\ wf_pick left right ords u = Some (s, e, n) /\
  length seed = n + 2 /\
  forall t, t <= n + 1 -> nth_error seed t = nth_error frames (s + t).
Proof.
  intros HLf Hm H. unfold wf_pick_seed in H.
  destruct (wf_pick left right ords u) as [[[s e] n]|] eqn:Hp; [|discriminate].
  injection H as <- <-. pose proof (wf_pick_valid _ _ _ _ _ _ _ Hp) as Hv.
  pose proof (valid_seg_bounds _ _ _ _ _ _ Hv) as Hb.
  assert (He : e = s + n + 1) by (destruct Hv as (He & _); exact He).
  assert (HL : e < length frames) by (rewrite HLf; lia).
  rewrite wf_seed_whole; [| exact He | exact HL |].
  - split; [exact Hv|]. split; [reflexivity|]. exact (seg_frames_spec frames s e n He HL).
  - destruct Hm as [->|(m & -> & Hm)]; [left; reflexivity|right; exists m; split; [reflexivity|lia]].
Qed.

(* ------------------------------------------------------------------ valid [0-] paths *)

(* A valid [0-] path.  Without lambda_minus_one ([lm1] = None) the ensemble is
   (-inf, lambda_0, lambda_0) with start condition R: first and last frame at or right of
   lambda_0, everything in between not right of it.  With lambda_minus_one = l (ANY number
   below lambda_0, 0 included) the ensemble is (l, (l + lambda_0)/2, lambda_0) with start
   condition L or R: each end is at or left of l or at or right of lambda_0 (all four
   combinations L->L, L->R, R->L, R->R), the frames in between are inside [l, lambda_0]
   (the engine stops at the first frame < l or > lambda_0).  At least one frame in between. *)
Definition minus_path (lm1 : option Z) (lam0 : Z) (ords : list Z) : Prop :=
  exists first mid lastv, ords = first :: mid ++ [lastv] /\ mid <> [] /\
    match lm1 with
    | None => (lam0 <= first /\ lam0 <= lastv /\ Forall (fun x => x <= lam0) mid)%Z
    | Some l => ((first <= l \/ lam0 <= first) /\ (lastv <= l \/ lam0 <= lastv) /\
                 Forall (fun x => l <= x <= lam0) mid)%Z
    end.

(* ... has the weight vector (1,), whether or not it ever reaches lambda_0 *)
Theorem cv_vector_minus_valid ords lam0 irest mvs lm1 cap :
  minus_path lm1 lam0 ords ->
  calc_cv_vector ords (lam0 :: irest) mvs lm1 cap true = Some [1%Z].
Proof.
  intros (first & mid & lastv & -> & Hne & H). unfold calc_cv_vector. cbv beta iota zeta.
  destruct (list_max_spec first (mid ++ [lastv])) as [_ Hub].
  destruct lm1 as [l|].
  - destruct H as (_ & _ & Hmid). destruct mid as [|m0 mid']; [congruence|].
    inversion Hmid as [|? ? Hm0 _]; subst.
    assert (Hle : (m0 <= list_max first ((m0 :: mid') ++ [lastv]))%Z) by (apply Hub; cbn; auto).
    destruct (Z.leb_spec l (list_max first ((m0 :: mid') ++ [lastv]))) as [_|Hlt]; [reflexivity|lia].
  - destruct H as (Hf & _ & _).
    assert (Hle : (first <= list_max first (mid ++ [lastv]))%Z) by (apply Hub; cbn; auto).
    destruct (Z.leb_spec lam0 (list_max first (mid ++ [lastv]))) as [_|Hlt]; [reflexivity|lia].
Qed.

(* ------------------------------------------------------------------ high-acceptance swap ratio *)

Theorem high_acc_ratio_def (c1o c2o c1n c2n : Z) :
  (c1o <> 0%Z -> c2o <> 0%Z ->
   (high_acc_ratio c1o c2o c1n c2n == inject_Z (c1n * c2n) / inject_Z (c1o * c2o))%Q) /\
  (c1o = 0%Z \/ c2o = 0%Z -> high_acc_ratio c1o c2o c1n c2n = 1%Q).
Proof.
  unfold high_acc_ratio. split.
  - intros H1 H2. destruct (Z.eqb_spec c1o 0) as [?|_]; [contradiction|].
    destruct (Z.eqb_spec c2o 0) as [?|_]; [contradiction|]. cbn [orb].
    assert (Hd : (c1o * c2o <> 0)%Z) by lia.
    set (a := (c1n * c2n)%Z). destruct (c1o * c2o)%Z as [|p|p] eqn:E; [congruence| |].
    + unfold Qeq, Qdiv, Qmult, Qinv, inject_Z; cbn. lia.
    + unfold Qeq, Qdiv, Qmult, Qinv, inject_Z; cbn. lia.
  - intros [-> | ->]; [reflexivity|]. rewrite Z.eqb_refl, orb_true_r. reflexivity.
Qed.

Theorem high_acc_accept_iff rand c1o c2o c1n c2n :
  high_acc_accept rand c1o c2o c1n c2n = true <-> (rand < high_acc_ratio c1o c2o c1n c2n)%Q.
Proof.
  unfold high_acc_accept. rewrite negb_true_iff. split.
  - intros H. apply Qnot_le_lt. intros Hle. apply Qle_bool_iff in Hle. congruence.
  - intros Hlt. destruct (Qle_bool _ rand) eqn:E; [|reflexivity].
    apply Qle_bool_iff in E. exfalso. exact (Qlt_not_le _ _ Hlt E).
Qed.
