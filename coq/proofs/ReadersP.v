(* Proofs about the on-the-fly reader models (model/ReadersM.v) for property C13. *)
From Coq Require Import ZArith List Bool Ascii Lia Sorted.
Import ListNotations.
From Inf Require Import model.ReadersM.
Open Scope Z_scope.

Arguments Z.modulo : simpl never.
Arguments Z.mul : simpl never.
Arguments Z.add : simpl never.
Arguments Z.of_nat : simpl never.

(* ------------------------------------------------------------------ files and cuts *)

(* a written text line: its content (no newline inside) followed by "\n" *)
Definition clean (l : list ascii) : Prop := ~ In nl l.
Definition fline (l : list ascii) : list ascii := l ++ [nl].
Definition render (ls : list (list ascii)) : list ascii := concat (map fline ls).

(* number of leading frames that fit entirely into the first c bytes *)
Fixpoint nfit (sizes : list nat) (c : nat) : nat :=
  match sizes with
  | [] => 0
  | s :: r => if (s <=? c)%nat then S (nfit r (c - s)) else 0
  end.

Definition fsize (f : list (list ascii)) : nat := length (render f).
Definition bytes_of (fs : list (list (list ascii))) : nat := length (render (concat fs)).

Lemma is_nl_true c : is_nl c = true <-> c = nl.
Proof. unfold is_nl. apply Ascii.eqb_eq. Qed.

Lemma is_nl_false c : is_nl c = false <-> c <> nl.
Proof. unfold is_nl. apply Ascii.eqb_neq. Qed.

Lemma is_nl_nl : is_nl nl = true.
Proof. reflexivity. Qed.

Lemma clean_cons a l : clean (a :: l) <-> a <> nl /\ clean l.
Proof. unfold clean; cbn. intuition congruence. Qed.

Lemma firstn_In' {A} (x : A) n l : In x (firstn n l) -> In x l.
Proof.
  revert l; induction n as [|n IH]; intros l H; cbn in H; [tauto|].
  destruct l as [|a l]; cbn in *; [tauto|]. destruct H as [H|H]; auto.
Qed.

Lemma clean_firstn n l : clean l -> clean (firstn n l).
Proof. unfold clean. intros H Hin. apply H. eapply firstn_In'; eauto. Qed.

Lemma render_cons l ls : render (l :: ls) = l ++ nl :: render ls.
Proof. unfold render, fline; cbn. now rewrite <- app_assoc. Qed.

Lemma render_app a b : render (a ++ b) = render a ++ render b.
Proof. unfold render. now rewrite map_app, concat_app. Qed.

Lemma readlines_line_app l X : clean l -> readlines (l ++ nl :: X) = fline l :: readlines X.
Proof.
  induction l as [|a l IH]; intros Hc; cbn.
  - reflexivity.
  - apply clean_cons in Hc as [Ha Hl].
    apply is_nl_false in Ha. rewrite Ha. rewrite (IH Hl). reflexivity.
Qed.

Lemma readlines_clean p : clean p -> p <> [] -> readlines p = [p].
Proof.
  induction p as [|a p IH]; intros Hc Hne; [congruence|].
  apply clean_cons in Hc as [Ha Hp]. apply is_nl_false in Ha.
  cbn. rewrite Ha. destruct p as [|b p].
  - reflexivity.
  - rewrite IH; [reflexivity|assumption|discriminate].
Qed.

Lemma readlines_render_app ls X :
  Forall clean ls -> readlines (render ls ++ X) = map fline ls ++ readlines X.
Proof.
  induction 1 as [|l ls Hl _ IH]; [reflexivity|].
  rewrite render_cons. rewrite <- app_assoc. cbn [app].
  rewrite readlines_line_app by assumption. rewrite IH. reflexivity.
Qed.

(* what readline sees of a partial last line *)
Definition partial (p : list ascii) : list (list ascii) := if is_nil p then [] else [p].

Lemma readlines_partial p : clean p -> readlines p = partial p.
Proof.
  destruct p as [|a p]; [reflexivity|]. intros Hc. unfold partial; cbn [is_nil].
  apply readlines_clean; [assumption|discriminate].
Qed.

(* a cut strictly inside the text of [ls]: some complete lines plus a proper part of the
   next line (possibly all of its content, never its newline) *)
Lemma firstn_render_lt ls c :
  Forall clean ls -> (c < length (render ls))%nat ->
  exists m p q, (m < length ls)%nat /\ firstn c (render ls) = render (firstn m ls) ++ p /\
                nth_error ls m = Some (p ++ q) /\ clean p.
Proof.
  intros Hcl; revert c. induction Hcl as [|l ls Hl _ IH]; intros c Hc.
  - cbn in Hc. lia.
  - rewrite render_cons in *. rewrite app_length in Hc. cbn [length] in Hc.
    destruct (Nat.le_gt_cases c (length l)) as [Hle|Hgt].
    + exists 0%nat, (firstn c l), (skipn c l). cbn [firstn render concat map app length nth_error].
      repeat split.
      * lia.
      * rewrite firstn_app. replace (c - length l)%nat with 0%nat by lia.
        cbn. now rewrite app_nil_r.
      * now rewrite firstn_skipn.
      * now apply clean_firstn.
    + destruct (IH (c - S (length l))%nat) as (m & p & q & Hm & Hf & Hn & Hp); [lia|].
      exists (S m), p, q. cbn [length firstn nth_error]. repeat split; try assumption; try lia.
      rewrite render_cons. rewrite firstn_app.
      rewrite firstn_all2 by lia.
      replace (c - length l)%nat with (S (c - S (length l))) by lia.
      cbn [firstn]. rewrite Hf. rewrite <- app_assoc. reflexivity.
Qed.

(* ------------------------------------------------------------------ str.split() *)

Lemma split_cons c r :
  split (c :: r) =
  if is_ws c then split r
  else match r with
       | [] => [[c]]
       | d :: _ => if is_ws d then [c] :: split r
                   else match split r with t :: ts => (c :: t) :: ts | [] => [[c]] end
       end.
Proof. reflexivity. Qed.

Lemma split_app_ws l w : is_ws w = true -> split (l ++ [w]) = split l.
Proof.
  intros Hw. induction l as [|c r IH]; cbn [app].
  - cbn. now rewrite Hw.
  - rewrite !split_cons. destruct (is_ws c); [exact IH|].
    destruct r as [|d r']; cbn [app].
    + rewrite Hw. cbn. now rewrite Hw.
    + change (d :: r' ++ [w]) with ((d :: r') ++ [w]). rewrite IH. reflexivity.
Qed.

Lemma split_fline l : split (fline l) = split l.
Proof. apply split_app_ws. reflexivity. Qed.

Lemma terminated_fline l : terminated (fline l) = true.
Proof. unfold terminated, fline. now rewrite last_last. Qed.

Lemma terminated_clean p : clean p -> terminated p = false.
Proof.
  unfold terminated. intros Hc. destruct p as [|a p]; [reflexivity|].
  apply is_nl_false. intros E. apply Hc. rewrite <- E.
  destruct (@exists_last _ (a :: p)) as (l' & x & Hx); [discriminate|].
  rewrite Hx. rewrite last_last. apply in_or_app; right; now left.
Qed.

Lemma blen_fline l : blen (fline l) = blen l + 1.
Proof. unfold blen, fline. rewrite app_length. cbn. lia. Qed.

Lemma fline_not_lone_nl l : l <> [] -> clean l -> (match fline l with [c] => is_nl c | _ => false end) = false.
Proof.
  destruct l as [|a [|b l]]; intros Hne Hc; try congruence; reflexivity.
Qed.

(* ------------------------------------------------------------------ run_lines *)

Lemma run_lines_app {S} (step : S -> list ascii -> step_res S) st l1 l2 :
  run_lines step st (l1 ++ l2) =
  match run_lines step st l1 with
  | Continue s => run_lines step s l2
  | other => other
  end.
Proof.
  revert st; induction l1 as [|l l1 IH]; intros st; cbn; [reflexivity|].
  destruct (step st l); auto.
Qed.

Lemma mod_frame j bs m : 0 <= m < bs -> (j * bs + m) mod bs = m.
Proof.
  intros H. rewrite Z.add_comm, Z_mod_plus_full. apply Z.mod_small; lia.
Qed.

(* ------------------------------------------------------------------ generic part:
   a reader that (complete) steps over every well-formed frame from a frame-boundary state
   to a frame-boundary state, adding its value, and (partial) returns without change and
   without exception on any proper part of a frame, returns exactly the frames in the cut *)
Section Generic.
Variables (S F : Type).
Variable step : S -> list ascii -> step_res S.
Variable traj : S -> list F.
Variable pos : S -> Z.
Variable B : S -> Prop.
Variable wf : list (list ascii) -> Prop.
Variable value : list (list ascii) -> F.

Hypothesis wf_clean : forall f, wf f -> Forall clean f.
Hypothesis complete : forall st f, B st -> wf f ->
  exists st', run_lines step st (map fline f) = Continue st' /\ B st' /\
              traj st' = value f :: traj st /\ pos st' = pos st + Z.of_nat (fsize f).
Hypothesis incomplete : forall st f m p, B st -> wf f -> (m < length f)%nat -> clean p ->
  let r := run_lines step st (map fline (firstn m f) ++ partial p) in
  res_exn r = None /\ traj (res_state r) = traj st /\ pos (res_state r) = pos st.

Lemma generic_cut : forall frames st c, B st -> Forall wf frames ->
  let k := nfit (map fsize frames) c in
  let r := run_lines step st (readlines (firstn c (render (concat frames)))) in
  res_exn r = None /\
  traj (res_state r) = rev (map value (firstn k frames)) ++ traj st /\
  pos (res_state r) = pos st + Z.of_nat (bytes_of (firstn k frames)).
Proof.
  induction frames as [|f fs IH]; intros st c HB Hwf.
  - cbn. rewrite firstn_nil. cbn. repeat split; lia.
  - inversion Hwf as [|? ? Hf Hfs]; subst.
    cbn [concat map nfit]. rewrite render_app.
    destruct (Nat.leb_spec (fsize f) c) as [Hle|Hgt].
    + rewrite firstn_app. rewrite firstn_all2 by (unfold fsize in Hle; lia).
      rewrite readlines_render_app by (apply wf_clean; assumption).
      rewrite run_lines_app.
      destruct (complete st f HB Hf) as (st' & Hrun & HB' & Htr & Hpos).
      rewrite Hrun. fold (fsize f).
      specialize (IH st' (c - fsize f)%nat HB' Hfs). cbn zeta in IH.
      destruct IH as (He & Ht & Hp). cbn zeta. split; [exact He|]. split.
      * rewrite Ht, Htr. cbn [firstn map rev]. rewrite <- app_assoc. reflexivity.
      * rewrite Hp, Hpos. cbn [firstn]. unfold bytes_of. cbn [concat].
        rewrite render_app, app_length. fold (fsize f). lia.
    + rewrite firstn_app. replace (c - length (render f))%nat with 0%nat by (unfold fsize in Hgt; lia).
      cbn [firstn]. rewrite app_nil_r.
      destruct (firstn_render_lt f c (wf_clean f Hf) Hgt) as (m & p & q & Hm & Hfn & _ & Hp).
      rewrite Hfn. rewrite readlines_render_app by (apply Forall_forall; intros x Hx;
        eapply Forall_forall; [apply (wf_clean f Hf)|]; eapply firstn_In'; eauto).
      rewrite readlines_partial by assumption.
      destruct (incomplete st f m p HB Hf Hm Hp) as (He & Ht & Hps).
      cbn zeta. cbn [firstn map rev app]. unfold bytes_of; cbn. repeat split; try assumption. lia.
Qed.

End Generic.

(* ------------------------------------------------------------------ xyz_reader (repaired) *)
Section Xyz.
Variable fok : token -> bool.
Variable N : nat.
Local Notation Nz := (Z.of_nat N).
Local Notation bs := (Z.of_nat N + 2).

Definition xyz_atom_ok (a : list ascii) : Prop :=
  exists s t1 t2 t3, split a = [s; t1; t2; t3] /\ fok t1 = true /\ fok t2 = true /\ fok t3 = true.
Definition xyz_row (a : list ascii) : list token := firstn 3 (tl (split a)).
Definition xyz_wf (f : list (list ascii)) : Prop :=
  exists cl cm atoms, f = cl :: cm :: atoms /\ length atoms = N /\ Forall clean f /\
    (exists tk rest, split cl = tk :: rest /\ parse_int tk = Some Nz) /\
    Forall xyz_atom_ok atoms.
Definition xyz_value (f : list (list ascii)) : xyz_frame := map xyz_row (skipn 2 f).

Definition xyz_B (st : xyz_state) : Prop :=
  x_cur st = [] /\ x_pos st = x_read st /\
  exists j, 0 <= j /\ x_i st = j * bs /\ (j = 0 \/ (x_N st = Nz /\ x_bs st = bs)).

Lemma xyz_step_count st j cl tk rest :
  0 <= j -> x_i st = j * bs -> (j = 0 \/ (x_N st = Nz /\ x_bs st = bs)) ->
  split cl = tk :: rest -> parse_int tk = Some Nz ->
  xyz_line fok true st (fline cl) =
  Continue (mkX (j * bs + 1) Nz bs (x_cur st) (x_traj st) (x_read st + blen (fline cl)) (x_pos st)).
Proof.
  intros Hj Hi Hc Hs Hp. unfold xyz_line.
  rewrite terminated_fline, split_fline, Hs. cbn [andb negb is_nil hd].
  assert (Hhdr : (if (x_i st =? 0) && true
                  then match parse_int tk with Some n => Some (n, n + 2) | None => None end
                  else Some (x_N st, x_bs st)) = Some (Nz, bs)).
  { destruct (Z.eqb_spec (x_i st) 0) as [E|E]; cbn [andb].
    - now rewrite Hp.
    - destruct Hc as [->|[-> ->]]; [lia|reflexivity]. }
  rewrite Hhdr.
  destruct (Z.eqb_spec bs 0) as [E|_]; [lia|].
  rewrite Hi. rewrite Z_mod_mult.
  cbn [Z.gtb Z.compare].
  destruct (Z.eqb_spec 0 (Nz + 1)) as [E|_]; [lia|]. cbn [andb]. reflexivity.
Qed.


Lemma xyz_step_inner j m cur tr rd ps l :
  0 <= j -> 1 <= m <= Nz + 1 -> (2 <= m -> xyz_atom_ok l) ->
  xyz_line fok true (mkX (j * bs + m) Nz bs cur tr rd ps) (fline l) =
  let cur' := if 2 <=? m then xyz_row l :: cur else cur in
  let rd' := rd + blen (fline l) in
  if m =? Nz + 1 then Continue (mkX (j * bs + m + 1) Nz bs [] (rev cur' :: tr) rd' rd')
  else Continue (mkX (j * bs + m + 1) Nz bs cur' tr rd' ps).
Proof.
  intros Hj Hm Hat. unfold xyz_line. cbn [x_i x_N x_bs x_cur x_traj x_read x_pos].
  rewrite terminated_fline, split_fline. cbn [andb negb].
  destruct (Z.eqb_spec (j * bs + m) 0) as [E|_]; [nia|]. cbn [andb].
  destruct (Z.eqb_spec bs 0) as [E|_]; [lia|].
  rewrite mod_frame by lia.
  assert (Hgt : (j * bs + m >? 0) = true) by (apply Z.gtb_lt; nia).
  rewrite Hgt, andb_true_r.
  destruct (Z.leb_spec 2 m) as [H2|H2].
  - assert (Hg : (m >? 1) = true) by (apply Z.gtb_lt; lia). rewrite Hg.
    destruct (Hat H2) as (s0 & t1 & t2 & t3 & Hs & F1 & F2 & F3).
    unfold xyz_row. rewrite Hs. cbn [length Nat.eqb negb tl firstn forallb].
    rewrite F1, F2, F3. cbn [andb]. reflexivity.
  - assert (Hg : (m >? 1) = false) by (rewrite Z.gtb_ltb; apply Z.ltb_ge; lia). rewrite Hg.
    reflexivity.
Qed.

(* lines m .. m+|ls|-1 of a frame, none of them the last one *)
Lemma xyz_run_inner_open j : 0 <= j -> forall ls m cur tr rd ps,
  1 <= m -> m + Z.of_nat (length ls) <= Nz + 1 ->
  (forall k l, nth_error ls k = Some l -> 2 <= m + Z.of_nat k -> xyz_atom_ok l) ->
  exists cur' rd',
    run_lines (xyz_line fok true) (mkX (j * bs + m) Nz bs cur tr rd ps) (map fline ls) =
    Continue (mkX (j * bs + m + Z.of_nat (length ls)) Nz bs cur' tr rd' ps).
Proof.
  intros Hj. induction ls as [|l ls IH]; intros m cur tr rd ps Hm Hlen Hat.
  - exists cur, rd. cbn. do 2 f_equal. lia.
  - cbn [map run_lines]. cbn [length] in Hlen.
    rewrite xyz_step_inner; [|lia|lia|].
    2:{ intros H2. apply (Hat 0%nat l); [reflexivity|]. lia. }
    cbn zeta. destruct (Z.eqb_spec m (Nz + 1)) as [E|_]; [lia|].
    edestruct (IH (m + 1)) as (cur' & rd' & Hrun); [lia|lia| |].
    { intros k l' Hk H2. apply (Hat (Datatypes.S k) l'); [exact Hk|lia]. }
    replace (j * bs + m + 1) with (j * bs + (m + 1)) by lia.
    rewrite Hrun. exists cur', rd'. do 2 f_equal. cbn [length]. lia.
Qed.

Lemma len_render_cons l ls :
  Z.of_nat (length (render (l :: ls))) = blen (fline l) + Z.of_nat (length (render ls)).
Proof. rewrite render_cons, blen_fline. unfold blen. rewrite app_length. cbn [length]. lia. Qed.

Lemma xyz_run_atoms j : 0 <= j -> forall ls m cur tr rd ps,
  2 <= m -> m + Z.of_nat (length ls) <= Nz + 1 -> Forall xyz_atom_ok ls ->
  run_lines (xyz_line fok true) (mkX (j * bs + m) Nz bs cur tr rd ps) (map fline ls) =
  Continue (mkX (j * bs + m + Z.of_nat (length ls)) Nz bs (rev (map xyz_row ls) ++ cur) tr
                (rd + Z.of_nat (length (render ls))) ps).
Proof.
  intros Hj. induction ls as [|l ls IH]; intros m cur tr rd ps Hm Hlen Hat.
  - cbn. do 2 f_equal; lia.
  - cbn [map run_lines]. cbn [length] in Hlen. inversion Hat as [|? ? Hl Hls]; subst.
    rewrite xyz_step_inner; [|lia|lia|auto].
    cbn zeta. destruct (Z.eqb_spec m (Nz + 1)) as [E|_]; [lia|].
    destruct (Z.leb_spec 2 m) as [_|?]; [|lia].
    replace (j * bs + m + 1) with (j * bs + (m + 1)) by lia.
    rewrite IH; [|lia|lia|assumption].
    rewrite len_render_cons. cbn [map rev length]. rewrite <- app_assoc. cbn [app].
    do 2 f_equal; lia.
Qed.

Lemma xyz_complete st f : xyz_B st -> xyz_wf f ->
  exists st', run_lines (xyz_line fok true) st (map fline f) = Continue st' /\ xyz_B st' /\
              x_traj st' = xyz_value f :: x_traj st /\ x_pos st' = x_pos st + Z.of_nat (fsize f).
Proof.
  intros (Hcur & Hpos & j & Hj & Hi & Hc) (cl & cm & atoms & -> & Hlen & Hclean & (tk & rest & Hs & Hp) & Hat).
  cbn [map run_lines].
  rewrite (xyz_step_count st j cl tk rest Hj Hi Hc Hs Hp).
  rewrite xyz_step_inner; [|lia|lia|lia]. cbn zeta. cbn [Z.leb Z.compare].
  unfold fsize. rewrite !len_render_cons.
  destruct (Z.eqb_spec 1 (Nz + 1)) as [E|E].
  - (* no atoms *)
    assert (atoms = []) by (destruct atoms; [reflexivity|cbn in Hlen; lia]). subst atoms.
    cbn [map run_lines]. eexists; split; [reflexivity|].
    cbn [x_cur x_pos x_read x_i x_N x_bs x_traj]. rewrite Hcur. cbn [rev].
    split; [|split; [reflexivity|rewrite Hpos; cbn [render map concat length]; lia]].
    split; [reflexivity|]. split; [reflexivity|].
    exists (j + 1). cbn [x_cur x_pos x_read x_i x_N x_bs x_traj]. split; [lia|]. split; [lia|]. right; split; reflexivity.
  - destruct (@exists_last _ atoms) as (ini & la & ->); [destruct atoms; [cbn in Hlen; lia|discriminate]|].
    apply Forall_app in Hat as [Hini Hla]. inversion Hla as [|? ? Hla' _]; subst.
    rewrite app_length in Hlen. cbn [length] in Hlen.
    rewrite map_app, run_lines_app.
    replace (j * bs + 1 + 1) with (j * bs + 2) by lia.
    rewrite (xyz_run_atoms j Hj ini 2); [|lia|lia|assumption].
    cbn [map run_lines].
    replace (j * bs + 2 + Z.of_nat (length ini)) with (j * bs + (2 + Z.of_nat (length ini))) by lia.
    rewrite xyz_step_inner; [|lia|lia|auto]. cbn zeta.
    destruct (Z.eqb_spec (2 + Z.of_nat (length ini)) (Nz + 1)) as [_|E2]; [|lia].
    destruct (Z.leb_spec 2 (2 + Z.of_nat (length ini))) as [_|?]; [|lia].
    eexists; split; [reflexivity|].
    cbn [x_cur x_pos x_read x_i x_N x_bs x_traj]. rewrite Hcur.
    split; [|split].
    + split; [reflexivity|]. split; [reflexivity|].
      exists (j + 1). cbn [x_cur x_pos x_read x_i x_N x_bs x_traj]. split; [lia|]. split; [lia|]. right; split; reflexivity.
    + unfold xyz_value. cbn [skipn]. rewrite app_nil_r. cbn [rev]. rewrite rev_involutive.
      rewrite map_app. reflexivity.
    + rewrite render_app, app_length. rewrite Nat2Z.inj_add. rewrite len_render_cons.
      rewrite Hpos. cbn [render map concat length]. lia.
Qed.


Lemma nth_error_firstn_some {A} n (l : list A) k x :
  nth_error (firstn n l) k = Some x -> nth_error l k = Some x.
Proof.
  revert l k; induction n as [|n IH]; intros l k H.
  - destruct k; discriminate.
  - destruct l as [|a l]; [destruct k; discriminate|].
    destruct k as [|k]; cbn in *; [assumption|]. now apply IH.
Qed.

Lemma xyz_partial_line st p : clean p ->
  let r := run_lines (xyz_line fok true) st (partial p) in
  res_exn r = None /\ res_state r = st.
Proof.
  intros Hc. unfold partial. destruct p as [|a p]; cbn [is_nil run_lines].
  - split; reflexivity.
  - unfold xyz_line. rewrite (terminated_clean _ Hc). cbn. split; reflexivity.
Qed.

Lemma xyz_incomplete st f m p : xyz_B st -> xyz_wf f -> (m < length f)%nat -> clean p ->
  let r := run_lines (xyz_line fok true) st (map fline (firstn m f) ++ partial p) in
  res_exn r = None /\ x_traj (res_state r) = x_traj st /\ x_pos (res_state r) = x_pos st.
Proof.
  intros (Hcur & Hpos & j & Hj & Hi & Hc) (cl & cm & atoms & -> & Hlen & Hclean & (tk & rest & Hs & Hp) & Hat) Hm Hp'.
  cbn zeta. rewrite run_lines_app.
  destruct m as [|m].
  - cbn [firstn map run_lines]. destruct (xyz_partial_line st p Hp') as [He Hst].
    rewrite He, Hst. repeat split.
  - cbn [firstn map run_lines].
    rewrite (xyz_step_count st j cl tk rest Hj Hi Hc Hs Hp).
    cbn [length] in Hm.
    assert (Hl : length (firstn m (cm :: atoms)) = m) by (apply firstn_length_le; cbn [length]; lia).
    edestruct (xyz_run_inner_open j Hj (firstn m (cm :: atoms)) 1) as (cur' & rd' & Hrun); [lia|lia| |].
    { intros k l Hk H2. apply nth_error_firstn_some in Hk.
      destruct k as [|k]; [lia|]. cbn in Hk.
      eapply Forall_forall; [exact Hat|]. eapply nth_error_In; eauto. }
    rewrite Hrun.
    match goal with |- context [run_lines _ ?s (partial p)] =>
      destruct (xyz_partial_line s p Hp') as [He Hst] end.
    rewrite He, Hst. repeat split.
Qed.

Theorem xyz_cut frames c : Forall xyz_wf frames ->
  xyz_read fok true (firstn c (render (concat frames))) =
  (None, map xyz_value (firstn (nfit (map fsize frames) c) frames),
   Z.of_nat (bytes_of (firstn (nfit (map fsize frames) c) frames))).
Proof.
  intros Hwf. unfold xyz_read.
  assert (HB : xyz_B xyz_init).
  { split; [reflexivity|]. split; [reflexivity|]. exists 0. cbn. split; [lia|]. split; [lia|]. now left. }
  assert (Hcl : forall f, xyz_wf f -> Forall clean f).
  { intros f (cl & cm & atoms & -> & _ & H & _). exact H. }
  destruct (generic_cut xyz_state xyz_frame (xyz_line fok true) x_traj x_pos xyz_B xyz_wf xyz_value
              Hcl xyz_complete xyz_incomplete frames xyz_init c HB Hwf) as (He & Ht & Hp).
  rewrite He, Ht, Hp. cbn [xyz_init x_traj x_pos]. rewrite app_nil_r, rev_involutive.
  reflexivity.
Qed.

End Xyz.

(* ------------------------------------------------------------------ repeated polls *)

Fixpoint nondecr (lo : nat) (cuts : list nat) : Prop :=
  match cuts with
  | [] => True
  | c :: r => (lo <= c)%nat /\ nondecr c r
  end.

Definition sum_nat (l : list nat) : nat := fold_right Nat.add 0%nat l.

Lemma bytes_of_sum fs : bytes_of fs = sum_nat (map fsize fs).
Proof.
  unfold bytes_of. induction fs as [|f fs IH]; [reflexivity|].
  cbn [concat map sum_nat fold_right]. rewrite render_app, app_length. fold (fsize f).
  unfold sum_nat in IH. now rewrite IH.
Qed.

Lemma nfit_le_length szs c : (nfit szs c <= length szs)%nat.
Proof.
  revert c; induction szs as [|s r IH]; intros c; cbn; [lia|].
  destruct (s <=? c)%nat; [specialize (IH (c - s)%nat)|]; lia.
Qed.

Lemma nfit_sum_le szs c : (sum_nat (firstn (nfit szs c) szs) <= c)%nat.
Proof.
  revert c; induction szs as [|s r IH]; intros c; cbn; [lia|].
  destruct (Nat.leb_spec s c); cbn; [specialize (IH (c - s)%nat); unfold sum_nat in *|]; lia.
Qed.

Lemma nfit_split szs : forall k0 c, (k0 <= length szs)%nat -> (sum_nat (firstn k0 szs) <= c)%nat ->
  nfit szs c = (k0 + nfit (skipn k0 szs) (c - sum_nat (firstn k0 szs)))%nat.
Proof.
  induction szs as [|s r IH]; intros k0 c Hk Hs.
  - destruct k0; [reflexivity|cbn [length] in Hk; lia].
  - destruct k0 as [|k0]; cbn [firstn skipn sum_nat fold_right] in *.
    + now rewrite Nat.sub_0_r.
    + cbn [nfit]. destruct (Nat.leb_spec s c) as [H|H]; [|unfold sum_nat in *; lia].
      rewrite (IH k0 (c - s)%nat); [|cbn in Hk; lia|unfold sum_nat in *; lia].
      unfold sum_nat. cbn. do 3 f_equal. lia.
Qed.

Lemma nfit_all szs c : (sum_nat szs <= c)%nat -> nfit szs c = length szs.
Proof.
  revert c; induction szs as [|s r IH]; intros c H; cbn in *; [reflexivity|].
  destruct (Nat.leb_spec s c); [|lia]. rewrite IH; [reflexivity|unfold sum_nat; lia].
Qed.

Lemma nfit_mono szs : forall c1 c2, (c1 <= c2)%nat -> (nfit szs c1 <= nfit szs c2)%nat.
Proof.
  induction szs as [|s r IH]; intros c1 c2 H; cbn; [lia|].
  destruct (Nat.leb_spec s c1), (Nat.leb_spec s c2); try lia.
  specialize (IH (c1 - s)%nat (c2 - s)%nat). lia.
Qed.

Lemma firstn_add {A} (l : list A) a b :
  firstn (a + b) l = firstn a l ++ firstn b (skipn a l).
Proof.
  revert l; induction a as [|a IH]; intros l; cbn; [reflexivity|].
  destruct l as [|x l]; cbn; [now rewrite firstn_nil|]. now rewrite IH.
Qed.

Lemma skipn_In' {A} (x : A) n l : In x (skipn n l) -> In x l.
Proof.
  revert l; induction n as [|n IH]; intros l H; cbn in H; [auto|].
  destruct l as [|a l]; cbn in *; [tauto|]. auto.
Qed.

Lemma skipn_add {A} (l : list A) a b : skipn a (skipn b l) = skipn (b + a) l.
Proof.
  revert l; induction b as [|b IH]; intros l; cbn; [reflexivity|].
  destruct l as [|x l]; [now rewrite skipn_nil|]. apply IH.
Qed.

Section Polls.
Variable F : Type.
Variable read : list ascii -> option exn * list F * Z.
Variable wf : list (list ascii) -> Prop.
Variable value : list (list ascii) -> F.

Hypothesis read_spec : forall frames c, Forall wf frames ->
  read (firstn c (render (concat frames))) =
  (None, map value (firstn (nfit (map fsize frames) c) frames),
   Z.of_nat (bytes_of (firstn (nfit (map fsize frames) c) frames))).

(* what every poll must return: the frames completed since the previous poll *)
Fixpoint expected (frames : list (list (list ascii))) (k0 : nat) (cuts : list nat)
  : list (option exn * list F * Z) :=
  match cuts with
  | [] => []
  | c :: r =>
    let k := nfit (map fsize frames) c in
    (None, map value (firstn (k - k0) (skipn k0 frames)), Z.of_nat (bytes_of (firstn k frames)))
      :: expected frames k r
  end.

Lemma polls_expected frames : Forall wf frames -> forall cuts k0 lo,
  (k0 <= length frames)%nat -> (bytes_of (firstn k0 frames) <= lo)%nat -> nondecr lo cuts ->
  polls read (render (concat frames)) (Z.of_nat (bytes_of (firstn k0 frames))) cuts =
  expected frames k0 cuts.
Proof.
  intros Hwf. induction cuts as [|c cuts IH]; intros k0 lo Hk Hlo Hnd; [reflexivity|].
  destruct Hnd as [Hc Hnd]. cbn [polls expected].
  rewrite Nat2Z.id.
  set (P := bytes_of (firstn k0 frames)) in *.
  assert (Hfile : render (concat frames) =
                  render (concat (firstn k0 frames)) ++ render (concat (skipn k0 frames))).
  { rewrite <- render_app, <- concat_app, firstn_skipn. reflexivity. }
  rewrite skipn_firstn_comm. rewrite Hfile. rewrite skipn_app.
  rewrite skipn_all2 by (unfold P, bytes_of; lia).
  replace (P - length (render (concat (firstn k0 frames))))%nat with 0%nat by (unfold P, bytes_of; lia).
  cbn [skipn app].
  rewrite read_spec by (apply Forall_forall; intros x Hx; eapply Forall_forall; [exact Hwf|];
                        eapply skipn_In'; eauto).
  set (k' := nfit (map fsize (skipn k0 frames)) (c - P)).
  assert (Hsplit : nfit (map fsize frames) c = (k0 + k')%nat).
  { rewrite (nfit_split (map fsize frames) k0 c).
    - unfold k'. rewrite skipn_map, firstn_map, <- bytes_of_sum. reflexivity.
    - rewrite map_length; lia.
    - rewrite firstn_map, <- bytes_of_sum. fold P. lia. }
  rewrite Hsplit. replace (k0 + k' - k0)%nat with k' by lia.
  assert (Hb : (P + bytes_of (firstn k' (skipn k0 frames)))%nat = bytes_of (firstn (k0 + k') frames)).
  { rewrite firstn_add. unfold P, bytes_of. rewrite concat_app, render_app, app_length. reflexivity. }
  rewrite <- Nat2Z.inj_add, Hb. rewrite <- Hfile.
  f_equal.
  apply (IH (k0 + k')%nat c).
  - rewrite <- Hsplit. rewrite <- (map_length fsize frames). apply nfit_le_length.
  - rewrite <- Hsplit. rewrite bytes_of_sum, <- firstn_map. apply nfit_sum_le.
  - exact Hnd.
Qed.

(* number of frames handed out after the last poll of [cuts] (k0 before the first) *)
Definition upto (sizes : list nat) (k0 : nat) (cuts : list nat) : nat :=
  fold_left (fun _ c => nfit sizes c) cuts k0.

Definition res_frames (r : option exn * list F * Z) : list F := snd (fst r).
Definition res_err (r : option exn * list F * Z) : option exn := fst (fst r).

Lemma expected_concat frames : forall cuts k0 lo,
  (k0 <= nfit (map fsize frames) lo)%nat -> nondecr lo cuts ->
  (k0 <= upto (map fsize frames) k0 cuts)%nat /\
  concat (map res_frames (expected frames k0 cuts)) =
    map value (firstn (upto (map fsize frames) k0 cuts - k0) (skipn k0 frames)) /\
  Forall (fun r => res_err r = None) (expected frames k0 cuts).
Proof.
  induction cuts as [|c cuts IH]; intros k0 lo Hk Hnd.
  - cbn. rewrite Nat.sub_diag. cbn. repeat split; auto.
  - destruct Hnd as [Hc Hnd]. cbn [expected map concat upto fold_left].
    set (k := nfit (map fsize frames) c).
    assert (Hk0k : (k0 <= k)%nat).
    { unfold k. etransitivity; [exact Hk|]. now apply nfit_mono. }
    destruct (IH k c (le_n _) Hnd) as (Hku & Hcat & Hall).
    fold (upto (map fsize frames) k cuts).
    set (U := upto (map fsize frames) k cuts) in *.
    split; [lia|]. split.
    + rewrite Hcat. unfold res_frames at 1. cbn [fst snd].
      replace (U - k0)%nat with ((k - k0) + (U - k))%nat by lia.
      rewrite firstn_add, map_app. f_equal. f_equal. f_equal.
      rewrite skipn_add. f_equal. lia.
    + constructor; [reflexivity|exact Hall].
Qed.

Lemma upto_last sizes : forall cuts k0, cuts <> [] -> upto sizes k0 cuts = nfit sizes (last cuts 0%nat).
Proof.
  induction cuts as [|c cuts IH]; intros k0 Hne; [congruence|].
  unfold upto. cbn [fold_left]. destruct cuts as [|c' cuts]; [reflexivity|].
  fold (upto sizes (nfit sizes c) (c' :: cuts)). rewrite IH by discriminate. reflexivity.
Qed.

(* every poll returns exactly the frames completed since the previous poll (and the position
   after all complete frames); nothing is raised; the concatenation of all polls is the list
   of frames complete at the last poll: each once, in order *)
Theorem polls_incremental frames cuts : Forall wf frames -> nondecr 0 cuts ->
  let rs := polls read (render (concat frames)) 0 cuts in
  rs = expected frames 0 cuts /\
  Forall (fun r => res_err r = None) rs /\
  concat (map res_frames rs) = map value (firstn (upto (map fsize frames) 0 cuts) frames).
Proof.
  intros Hwf Hnd. cbn zeta.
  pose proof (polls_expected frames Hwf cuts 0%nat 0%nat (Nat.le_0_l _) (Nat.le_0_l _) Hnd) as He.
  cbn [firstn] in He. change (Z.of_nat (bytes_of [])) with 0 in He. rewrite He.
  destruct (expected_concat frames cuts 0%nat 0%nat (Nat.le_0_l _) Hnd) as (_ & Hcat & Hall).
  split; [reflexivity|]. split; [exact Hall|].
  rewrite Hcat. rewrite Nat.sub_0_r. reflexivity.
Qed.

(* ... and once the writer is done (the last poll sees the whole file) that is every frame *)
Theorem polls_complete frames cuts : Forall wf frames -> nondecr 0 cuts -> cuts <> [] ->
  (bytes_of frames <= last cuts 0)%nat ->
  concat (map res_frames (polls read (render (concat frames)) 0 cuts)) = map value frames.
Proof.
  intros Hwf Hnd Hne Hlast.
  destruct (polls_incremental frames cuts Hwf Hnd) as (_ & _ & Hcat). rewrite Hcat.
  rewrite upto_last by assumption. rewrite nfit_all by (rewrite <- bytes_of_sum; exact Hlast).
  rewrite map_length, firstn_all. reflexivity.
Qed.

End Polls.

(* ------------------------------------------------------------------ lammpstrj_reader (repaired) *)
Section Lmp.
Variable fok : token -> bool.
Variable N : nat.
Local Notation Nz := (Z.of_nat N).
Local Notation bs := (Z.of_nat N + 9).

Definition lmp_id (a : list ascii) : Z :=
  match parse_int (hd [] (split a)) with Some id => id | None => 0 end.
Definition lmp_row (a : list ascii) : list token := firstn 6 (skipn 2 (split a)).

Definition lmp_box_ok (b : list ascii) : Prop :=
  (length (split b) = 2%nat \/ length (split b) = 3%nat) /\ forallb fok (split b) = true.
Definition lmp_atom_ok (a : list ascii) : Prop :=
  length (split a) = 9%nat /\ hd [] (split a) = last (split a) [] /\
  (exists id, parse_int (hd [] (split a)) = Some id /\ 1 <= id <= Nz) /\
  forallb fok (lmp_row a) = true.

(* the effect of line number m of a frame on the two snapshots *)
Definition lmp_body (m : Z) (l : list ascii) (bc : list (list token) * list (option (list token)))
  : list (list token) * list (option (list token)) :=
  if (5 <=? m) && (m <=? 7) then (set_nth (Z.to_nat (m - 5)) (split l) (fst bc), snd bc)
  else if 9 <=? m then (fst bc, set_nth (Z.to_nat (lmp_id l - 1)) (Some (lmp_row l)) (snd bc))
  else bc.

Definition lmp_line_ok (m : Z) (l : list ascii) : Prop :=
  (5 <= m <= 7 -> lmp_box_ok l) /\ (9 <= m -> lmp_atom_ok l).

Lemma lmp_step_inner j m box coord tr rd ps l :
  0 <= j -> (0 < j \/ 4 <= m) -> 0 <= m <= Nz + 8 -> lmp_line_ok m l ->
  lmp_line fok true (mkL (j * bs + m) Nz bs box coord tr rd ps) (fline l) =
  let bc := lmp_body m l (box, coord) in
  let rd' := rd + blen (fline l) in
  if m =? Nz + 8
  then Continue (mkL (j * bs + m + 1) Nz bs zeros_box (zeros_coord Nz) (bc :: tr) rd' rd')
  else Continue (mkL (j * bs + m + 1) Nz bs (fst bc) (snd bc) tr rd' ps).
Proof.
  intros Hj Hjm Hm [Hbox Hatom]. unfold lmp_line. cbn [l_i l_N l_bs l_box l_coord l_traj l_read l_pos].
  assert (Hi0 : (j * bs + m =? 0) = false) by (apply Z.eqb_neq; nia).
  assert (Hi3 : (j * bs + m =? 3) = false) by (apply Z.eqb_neq; nia).
  assert (Hgt : (j * bs + m >? 0) = true) by (apply Z.gtb_lt; nia).
  rewrite Hi0, Hi3. cbn [andb].
  destruct (Z.eqb_spec bs 0) as [E|_]; [lia|].
  rewrite mod_frame by lia.
  rewrite terminated_fline, split_fline, Hgt, andb_true_r. cbn [negb].
  replace (bs - 1) with (Nz + 8) by lia.
  unfold lmp_body. cbn [fst snd].
  destruct ((5 <=? m) && (m <=? 7)) eqn:E57.
  - apply andb_prop in E57 as [E5 E7]. apply Z.leb_le in E5, E7.
    destruct (Hbox (conj E5 E7)) as [Hlen Hf].
    assert (Hn : negb (Nat.eqb (length (split l)) 2 || Nat.eqb (length (split l)) 3) = false).
    { destruct Hlen as [-> | ->]; reflexivity. }
    rewrite Hn, Hf. cbn [orb]. reflexivity.
  - destruct (Z.leb_spec 9 m) as [H9|H9]; [|reflexivity].
    destruct (Hatom H9) as (Hlen & Hhl & (id & Hid & Hrange) & Hf).
    rewrite Hlen. cbn [Nat.eqb negb orb].
    destruct (list_eq_dec ascii_dec (hd [] (split l)) (last (split l) [])) as [_|Hne]; [|contradiction].
    cbn [negb orb]. rewrite Hid.
    destruct (Z.ltb_spec (id - 1) (- Nz)) as [?|_]; [lia|].
    destruct (Z.leb_spec Nz (id - 1)) as [?|_]; [lia|]. cbn [orb].
    fold (lmp_row l). rewrite Hf.
    destruct (Z.ltb_spec (id - 1) 0) as [?|_]; [lia|].
    unfold lmp_id. rewrite Hid. reflexivity.
Qed.


Fixpoint lmp_fold (m : Z) (ls : list (list ascii))
         (bc : list (list token) * list (option (list token))) :=
  match ls with
  | [] => bc
  | l :: r => lmp_fold (m + 1) r (lmp_body m l bc)
  end.

Fixpoint lmp_lines_ok (m : Z) (ls : list (list ascii)) : Prop :=
  match ls with
  | [] => True
  | l :: r => lmp_line_ok m l /\ lmp_lines_ok (m + 1) r
  end.

Lemma lmp_lines_ok_firstn n : forall ls m, lmp_lines_ok m ls -> lmp_lines_ok m (firstn n ls).
Proof.
  induction n as [|n IH]; intros ls m H; [exact I|].
  destruct ls as [|l ls]; [exact I|]. destruct H as [H1 H2]. split; [assumption|]. now apply IH.
Qed.

Lemma lmp_lines_ok_app : forall l1 m l2,
  lmp_lines_ok m (l1 ++ l2) <-> lmp_lines_ok m l1 /\ lmp_lines_ok (m + Z.of_nat (length l1)) l2.
Proof.
  induction l1 as [|a l1 IH]; intros m l2; cbn [app lmp_lines_ok length].
  - replace (m + Z.of_nat 0) with m by lia. tauto.
  - rewrite IH. replace (m + 1 + Z.of_nat (length l1)) with (m + Z.of_nat (Datatypes.S (length l1))) by lia.
    tauto.
Qed.

Lemma lmp_fold_app : forall l1 m l2 bc,
  lmp_fold m (l1 ++ l2) bc = lmp_fold (m + Z.of_nat (length l1)) l2 (lmp_fold m l1 bc).
Proof.
  induction l1 as [|a l1 IH]; intros m l2 bc; cbn [app lmp_fold length].
  - now replace (m + Z.of_nat 0) with m by lia.
  - rewrite IH. now replace (m + 1 + Z.of_nat (length l1)) with (m + Z.of_nat (Datatypes.S (length l1))) by lia.
Qed.

(* lines m .. m+|ls|-1 of frame j, none of them the last one of the frame *)
Lemma lmp_run_open j tr ps : 0 <= j -> forall ls m box coord rd,
  (0 < j \/ 4 <= m) -> 0 <= m -> m + Z.of_nat (length ls) <= Nz + 8 -> lmp_lines_ok m ls ->
  run_lines (lmp_line fok true) (mkL (j * bs + m) Nz bs box coord tr rd ps) (map fline ls) =
  Continue (mkL (j * bs + m + Z.of_nat (length ls)) Nz bs
                (fst (lmp_fold m ls (box, coord))) (snd (lmp_fold m ls (box, coord))) tr
                (rd + Z.of_nat (length (render ls))) ps).
Proof.
  intros Hj. induction ls as [|l ls IH]; intros m box coord rd Hjm Hm Hlen Hok.
  - cbn. do 2 f_equal; lia.
  - cbn [map run_lines lmp_fold]. cbn [length] in Hlen. destruct Hok as [Hl Hls].
    rewrite lmp_step_inner; [|lia|assumption|lia|assumption].
    cbn zeta. destruct (Z.eqb_spec m (Nz + 8)) as [E|_]; [lia|].
    replace (j * bs + m + 1) with (j * bs + (m + 1)) by lia.
    rewrite IH; [|lia|lia|lia|assumption].
    rewrite len_render_cons. rewrite <- surjective_pairing. cbn [length].
    do 2 f_equal; lia.
Qed.

(* ---- a partial last line never completes a frame and never raises *)
Definition lmp_safe (st : lmp_state) : Prop :=
  l_bs st <> 0 /\
  (l_i st = 3 \/ (l_i st mod l_bs st = l_bs st - 1 -> 9 <= l_i st mod l_bs st)).

Lemma lmp_partial_line st p : lmp_safe st -> clean p ->
  let r := run_lines (lmp_line fok true) st (partial p) in
  res_exn r = None /\ l_traj (res_state r) = l_traj st /\ l_pos (res_state r) = l_pos st.
Proof.
  intros [Hbs Hsafe] Hc. unfold partial. destruct p as [|a p]; cbn [is_nil run_lines].
  - repeat split.
  - set (q := a :: p) in *. unfold lmp_line.
    assert (Hlone : (match q with [c] => is_nl c | _ => false end) = false).
    { unfold q. destruct p; [|reflexivity]. apply is_nl_false. intros ->. apply Hc. now left. }
    rewrite Hlone, andb_false_r. rewrite (terminated_clean q Hc). cbn [negb orb andb].
    rewrite !orb_true_r.
    destruct (Z.eqb_spec (l_i st) 3) as [E3|E3]; [repeat split|].
    destruct (Z.eqb_spec (l_bs st) 0) as [?|_]; [contradiction|].
    destruct Hsafe as [?|Hsafe]; [contradiction|].
    destruct ((5 <=? l_i st mod l_bs st) && (l_i st mod l_bs st <=? 7)) eqn:E57; [repeat split|].
    destruct (Z.leb_spec 9 (l_i st mod l_bs st)) as [H9|H9]; [repeat split|].
    destruct (Z.eqb_spec (l_i st mod l_bs st) (l_bs st - 1)) as [E|_]; [specialize (Hsafe E); lia|].
    cbn [andb res_exn res_state l_traj l_pos]. repeat split.
Qed.

Hypothesis N_pos : (1 <= N)%nat.

Lemma lmp_safe_inner j m box coord tr rd ps :
  0 <= j -> 0 <= m <= Nz + 8 -> lmp_safe (mkL (j * bs + m) Nz bs box coord tr rd ps).
Proof.
  intros Hj Hm. split; cbn [l_bs l_i]; [lia|]. right. rewrite mod_frame by lia. lia.
Qed.

Lemma lmp_safe_head k n box coord tr rd ps :
  0 <= k <= 3 -> lmp_safe (mkL k n 4 box coord tr rd ps).
Proof.
  intros Hk. split; cbn [l_bs l_i]; [lia|].
  destruct (Z.eq_dec k 3) as [->|Hne]; [now left|right]. rewrite Z.mod_small by lia. lia.
Qed.

(* the four lines before the box block, from a frame boundary *)
Definition lmp_B (st : lmp_state) : Prop :=
  l_pos st = l_read st /\
  exists j, 0 <= j /\ l_i st = j * bs /\
            ((j = 0 /\ l_bs st = 4) \/
             (0 < j /\ l_N st = Nz /\ l_bs st = bs /\ l_box st = zeros_box /\ l_coord st = zeros_coord Nz)).

Definition lmp_count_ok (cnt : list ascii) : Prop :=
  exists tk rest, split cnt = tk :: rest /\ parse_int tk = Some Nz.

Lemma lmp_step_plain0 i st l : l_i st = i -> 0 <= i < 3 -> l_bs st = 4 -> (i = 0 -> l <> []) -> clean l ->
  lmp_line fok true st (fline l) =
  Continue (mkL (i + 1) (l_N st) 4 (l_box st) (l_coord st) (l_traj st) (l_read st + blen (fline l)) (l_pos st)).
Proof.
  intros Hi Hr Hb Hne Hc. unfold lmp_line. rewrite Hi, Hb.
  assert (Hlone : (i =? 0) && (match fline l with [c] => is_nl c | _ => false end) = false).
  { destruct (Z.eqb_spec i 0) as [E|E]; [|reflexivity]. cbn [andb].
    apply fline_not_lone_nl; auto. }
  rewrite Hlone.
  destruct (Z.eqb_spec i 3) as [?|_]; [lia|].
  cbn [Z.eqb]. rewrite Z.mod_small by lia.
  destruct (Z.leb_spec 5 i) as [?|_]; [lia|]. cbn [andb].
  destruct (Z.leb_spec 9 i) as [?|_]; [lia|].
  destruct (Z.eqb_spec i (4 - 1)) as [?|_]; [lia|]. cbn [andb]. reflexivity.
Qed.

Lemma lmp_step_count0 st cnt : l_i st = 3 -> l_bs st = 4 -> lmp_count_ok cnt ->
  lmp_line fok true st (fline cnt) =
  Continue (mkL 4 Nz bs zeros_box (zeros_coord Nz) (l_traj st) (l_read st + blen (fline cnt)) (l_pos st)).
Proof.
  intros Hi Hb (tk & rest & Hs & Hp). unfold lmp_line. rewrite Hi.
  cbn [Z.eqb Pos.eqb andb]. rewrite terminated_fline, split_fline, Hs. cbn [is_nil orb negb hd].
  rewrite Hp. destruct (Z.ltb_spec Nz 0) as [?|_]; [lia|].
  destruct (Z.eqb_spec bs 0) as [?|_]; [lia|].
  rewrite Z.mod_small by lia. cbn [Z.leb Z.compare andb].
  destruct (Z.eqb_spec 3 (bs - 1)) as [?|_]; [lia|]. cbn [andb]. reflexivity.
Qed.

Definition lmp_head_ok (h : list (list ascii)) : Prop :=
  exists h0 h1 h2 cnt, h = [h0; h1; h2; cnt] /\ h0 <> [] /\ lmp_count_ok cnt.

Lemma lmp_head_lines_ok h : lmp_head_ok h -> lmp_lines_ok 0 h.
Proof.
  intros (h0 & h1 & h2 & cnt & -> & _ & _). cbn. unfold lmp_line_ok. repeat split; intros; lia.
Qed.

(* any m <= 4 first lines of a frame, from a boundary state *)
Lemma lmp_run_head st h m : lmp_B st -> lmp_head_ok h -> Forall clean h -> (m <= 4)%nat ->
  exists st', run_lines (lmp_line fok true) st (map fline (firstn m h)) = Continue st' /\
              l_traj st' = l_traj st /\ l_pos st' = l_pos st /\ lmp_safe st' /\
              (m = 4%nat -> exists j, 0 <= j /\ l_i st = j * bs /\
                 st' = mkL (j * bs + 4) Nz bs zeros_box (zeros_coord Nz) (l_traj st)
                           (l_read st + Z.of_nat (length (render h))) (l_pos st)).
Proof.
  intros (Hpos & j & Hj & Hi & Hcase) Hh Hcl Hm.
  pose proof (lmp_head_lines_ok h Hh) as Hok.
  destruct Hh as (h0 & h1 & h2 & cnt & -> & Hne & Hcnt).
  destruct Hcase as [[-> Hb] | (Hj0 & HN & Hb & Hbox & Hcoord)].
  - (* first frame of the poll: block_size is still 4 *)
    inversion Hcl as [|? ? C0 Hcl1]; subst. inversion Hcl1 as [|? ? C1 Hcl2]; subst.
    inversion Hcl2 as [|? ? C2 Hcl3]; subst. clear Hcl1 Hcl2 Hcl3.
    replace (0 * bs) with 0 in Hi by lia.
    pose proof (lmp_step_plain0 0 st h0 Hi ltac:(lia) Hb ltac:(auto) C0) as S0.
    set (s1 := mkL (0 + 1) (l_N st) 4 (l_box st) (l_coord st) (l_traj st) (l_read st + blen (fline h0)) (l_pos st)) in *.
    pose proof (lmp_step_plain0 1 s1 h1 eq_refl ltac:(lia) eq_refl ltac:(lia) C1) as S1.
    set (s2 := mkL (1 + 1) (l_N s1) 4 (l_box s1) (l_coord s1) (l_traj s1) (l_read s1 + blen (fline h1)) (l_pos s1)) in *.
    pose proof (lmp_step_plain0 2 s2 h2 eq_refl ltac:(lia) eq_refl ltac:(lia) C2) as S2.
    set (s3 := mkL (2 + 1) (l_N s2) 4 (l_box s2) (l_coord s2) (l_traj s2) (l_read s2 + blen (fline h2)) (l_pos s2)) in *.
    pose proof (lmp_step_count0 s3 cnt eq_refl eq_refl Hcnt) as S3.
    destruct m as [|[|[|[|[|m]]]]]; [| | | | |lia]; cbn [firstn map run_lines];
      rewrite ?S0, ?S1, ?S2, ?S3; (eexists; split; [reflexivity|]);
      (split; [reflexivity|]); (split; [reflexivity|]);
      (split; [first [ split; [rewrite Hb; lia|right; rewrite Hi, Hb; rewrite Z.mod_small by lia; lia]
                     | apply lmp_safe_head; lia
                     | split; cbn [l_bs l_i]; [lia|right; rewrite Z.mod_small by lia; lia] ]|]);
      intros E; try discriminate E.
    exists 0. split; [lia|]. split; [lia|].
    cbn [s3 s2 s1 l_read l_traj l_pos]. rewrite !len_render_cons. cbn [render map concat length].
    f_equal; lia.
  - (* a later frame of the same poll *)
    destruct st as [i0 N0 b0 box0 coord0 tr rd ps]. cbn [l_i l_N l_bs l_box l_coord l_traj l_read l_pos] in *.
    subst i0 N0 b0 box0 coord0.
    assert (Hl : length (firstn m [h0; h1; h2; cnt]) = m) by (apply firstn_length_le; cbn [length]; lia).
    replace (j * bs) with (j * bs + 0) by lia.
    rewrite (lmp_run_open j tr ps Hj (firstn m [h0; h1; h2; cnt]) 0);
      [|lia|lia|lia|apply lmp_lines_ok_firstn; exact Hok].
    eexists; split; [reflexivity|]. split; [reflexivity|]. split; [reflexivity|].
    split; [rewrite Hl; replace (j * bs + 0 + Z.of_nat m) with (j * bs + Z.of_nat m) by lia;
            apply lmp_safe_inner; lia|].
    intros ->. exists j. split; [lia|]. split; [lia|].
    cbn [firstn length]. f_equal. lia.
Qed.


Definition lmp_wf (f : list (list ascii)) : Prop :=
  exists head tail, f = head ++ tail /\ lmp_head_ok head /\ Forall clean f /\
                    length tail = (N + 5)%nat /\ lmp_lines_ok 4 tail.

Definition lmp_value (f : list (list ascii)) : lmp_frame :=
  lmp_fold 4 (skipn 4 f) (zeros_box, zeros_coord Nz).

Lemma lmp_head_length h : lmp_head_ok h -> length h = 4%nat.
Proof. intros (h0 & h1 & h2 & cnt & -> & _). reflexivity. Qed.

Lemma lmp_complete st f : lmp_B st -> lmp_wf f ->
  exists st', run_lines (lmp_line fok true) st (map fline f) = Continue st' /\ lmp_B st' /\
              l_traj st' = lmp_value f :: l_traj st /\ l_pos st' = l_pos st + Z.of_nat (fsize f).
Proof.
  intros HB (head & tail & -> & Hh & Hcl & Hlen & Hok).
  pose proof (lmp_head_length head Hh) as Hhl.
  apply Forall_app in Hcl as [Hclh Hclt].
  destruct (lmp_run_head st head 4 HB Hh Hclh (le_n 4)) as (st4 & Hrun & _ & _ & _ & H4).
  destruct (H4 eq_refl) as (j & Hj & Hi & ->). clear H4.
  rewrite firstn_all2 in Hrun by lia.
  rewrite map_app, run_lines_app, Hrun.
  destruct (@exists_last _ tail) as (ini & la & ->); [destruct tail; [cbn in Hlen; lia|discriminate]|].
  rewrite app_length in Hlen. cbn [length] in Hlen.
  apply lmp_lines_ok_app in Hok as [Hoki [Hokl _]].
  rewrite map_app, run_lines_app.
  rewrite (lmp_run_open j _ _ Hj ini 4); [|lia|lia|lia|assumption].
  cbn [map run_lines].
  replace (j * bs + 4 + Z.of_nat (length ini)) with (j * bs + (4 + Z.of_nat (length ini))) by lia.
  rewrite lmp_step_inner; [|lia|lia|lia|assumption]. cbn zeta.
  destruct (Z.eqb_spec (4 + Z.of_nat (length ini)) (Nz + 8)) as [_|?]; [|lia].
  eexists; split; [reflexivity|].
  destruct HB as (Hpos & _).
  cbn [l_i l_N l_bs l_box l_coord l_traj l_read l_pos].
  split; [|split].
  - split; [reflexivity|]. exists (j + 1).
    cbn [l_i l_N l_bs l_box l_coord l_traj l_read l_pos].
    split; [lia|]. split; [lia|]. right. repeat split; lia.
  - f_equal. unfold lmp_value. rewrite skipn_app, skipn_all2 by lia.
    replace (4 - length head)%nat with 0%nat by lia. cbn [skipn app].
    rewrite lmp_fold_app. cbn [lmp_fold]. rewrite <- surjective_pairing. reflexivity.
  - unfold fsize. rewrite !render_app, !app_length, !Nat2Z.inj_add, len_render_cons.
    cbn [render map concat length]. lia.
Qed.

Lemma lmp_incomplete st f m p : lmp_B st -> lmp_wf f -> (m < length f)%nat -> clean p ->
  let r := run_lines (lmp_line fok true) st (map fline (firstn m f) ++ partial p) in
  res_exn r = None /\ l_traj (res_state r) = l_traj st /\ l_pos (res_state r) = l_pos st.
Proof.
  intros HB (head & tail & -> & Hh & Hcl & Hlen & Hok) Hm Hp.
  pose proof (lmp_head_length head Hh) as Hhl.
  apply Forall_app in Hcl as [Hclh Hclt].
  rewrite app_length in Hm.
  cbn zeta. rewrite run_lines_app, firstn_app, map_app, run_lines_app.
  destruct (Nat.le_gt_cases m 4) as [Hm4|Hm4].
  - (* the cut is inside the first four lines *)
    replace (m - length head)%nat with 0%nat by lia. cbn [firstn map run_lines].
    destruct (lmp_run_head st head m HB Hh Hclh Hm4) as (st' & Hrun & Ht & Hps & Hsafe & _).
    rewrite Hrun.
    destruct (lmp_partial_line st' p Hsafe Hp) as (He & Ht' & Hp').
    rewrite He, Ht', Hp'. repeat split; assumption.
  - rewrite firstn_all2 by lia.
    destruct (lmp_run_head st head 4 HB Hh Hclh (le_n 4)) as (st4 & Hrun & _ & _ & _ & H4).
    destruct (H4 eq_refl) as (j & Hj & Hi & ->). clear H4.
    rewrite firstn_all2 in Hrun by lia. rewrite Hrun.
    set (t := firstn (m - length head) tail).
    assert (Hlt : length t = (m - 4)%nat) by (unfold t; rewrite firstn_length_le; lia).
    rewrite (lmp_run_open j _ _ Hj t 4); [|lia|lia|lia|apply lmp_lines_ok_firstn; assumption].
    match goal with |- context [run_lines _ ?s (partial p)] =>
      destruct (lmp_partial_line s p) as (He & Ht' & Hp'); [|assumption|] end.
    { replace (j * bs + 4 + Z.of_nat (length t)) with (j * bs + (4 + Z.of_nat (length t))) by lia.
      apply lmp_safe_inner; lia. }
    rewrite He, Ht', Hp'. repeat split.
Qed.

Theorem lmp_cut frames c : Forall lmp_wf frames ->
  lmp_read fok true (firstn c (render (concat frames))) =
  (None, map lmp_value (firstn (nfit (map fsize frames) c) frames),
   Z.of_nat (bytes_of (firstn (nfit (map fsize frames) c) frames))).
Proof.
  intros Hwf. unfold lmp_read.
  assert (HB : lmp_B lmp_init).
  { split; [reflexivity|]. exists 0. cbn. split; [lia|]. split; [lia|]. left; split; reflexivity. }
  assert (Hcl : forall f, lmp_wf f -> Forall clean f).
  { intros f (h & t & -> & _ & H & _). exact H. }
  destruct (generic_cut lmp_state lmp_frame (lmp_line fok true) l_traj l_pos lmp_B lmp_wf lmp_value
              Hcl lmp_complete lmp_incomplete frames lmp_init c HB Hwf) as (He & Ht & Hp).
  rewrite He, Ht, Hp. cbn [lmp_init l_traj l_pos]. rewrite app_nil_r, rev_involutive.
  reflexivity.
Qed.

End Lmp.

(* ------------------------------------------------------------------ the boolean checkers of
   model/ReadersM.v imply the well-formedness hypotheses *)
Section WfB.
Variable fok : token -> bool.
Variable N : nat.

Lemma cleanb_sound l : cleanb l = true -> clean l.
Proof.
  unfold cleanb, clean. rewrite forallb_forall. intros H Hin. specialize (H _ Hin).
  now rewrite is_nl_nl in H.
Qed.

Lemma forallb_Forall {A} (p : A -> bool) (P : A -> Prop) l :
  (forall x, p x = true -> P x) -> forallb p l = true -> Forall P l.
Proof. intros HpP H. rewrite forallb_forall in H. apply Forall_forall. auto. Qed.

Lemma count_okb_sound cl : count_okb N cl = true ->
  exists tk rest, split cl = tk :: rest /\ parse_int tk = Some (Z.of_nat N).
Proof.
  unfold count_okb. destruct (split cl) as [|tk rest]; [discriminate|].
  destruct (parse_int tk) as [n|] eqn:E; [|discriminate]. intros H. apply Z.eqb_eq in H. subst n.
  exists tk, rest. split; [reflexivity|exact E].
Qed.

Lemma xyz_atom_okb_sound a : xyz_atom_okb fok a = true -> xyz_atom_ok fok a.
Proof.
  unfold xyz_atom_okb, xyz_atom_ok.
  destruct (split a) as [|s [|t1 [|t2 [|t3 [|? ?]]]]]; try discriminate.
  intros H. apply andb_prop in H as [H H3]. apply andb_prop in H as [H1 H2].
  exists s, t1, t2, t3. auto.
Qed.

Theorem xyz_wfb_sound f : xyz_wfb fok N f = true -> xyz_wf fok N f.
Proof.
  unfold xyz_wfb, xyz_wf. destruct f as [|cl [|cm atoms]]; try discriminate.
  intros H. apply andb_prop in H as [H H4]. apply andb_prop in H as [H H3].
  apply andb_prop in H as [H1 H2].
  exists cl, cm, atoms. split; [reflexivity|]. split; [now apply Nat.eqb_eq|].
  split; [eapply forallb_Forall; [apply cleanb_sound|exact H2]|].
  split; [now apply count_okb_sound|].
  eapply forallb_Forall; [apply xyz_atom_okb_sound|exact H4].
Qed.

Lemma lmp_box_okb_sound b : lmp_box_okb fok b = true -> lmp_box_ok fok b.
Proof.
  unfold lmp_box_okb, lmp_box_ok. intros H. apply andb_prop in H as [H1 H2]. split; [|exact H2].
  apply orb_prop in H1 as [H1|H1]; apply Nat.eqb_eq in H1; auto.
Qed.

Lemma lmp_atom_okb_sound a : lmp_atom_okb fok N a = true -> lmp_atom_ok fok N a.
Proof.
  unfold lmp_atom_okb, lmp_atom_ok, lmp_row. intros H.
  apply andb_prop in H as [H H4]. apply andb_prop in H as [H H3]. apply andb_prop in H as [H1 H2].
  split; [now apply Nat.eqb_eq|].
  split; [destruct (list_eq_dec ascii_dec (hd [] (split a)) (last (split a) [])); [assumption|discriminate]|].
  split; [|exact H4].
  destruct (parse_int (hd [] (split a))) as [id|] eqn:E; [|discriminate].
  apply andb_prop in H3 as [Ha Hb]. apply Z.leb_le in Ha, Hb. exists id. split; [reflexivity|lia].
Qed.

Lemma lmp_lines_okb_sound : forall ls m, lmp_lines_okb fok N m ls = true -> lmp_lines_ok fok N m ls.
Proof.
  induction ls as [|l ls IH]; intros m H; [exact I|]. cbn [lmp_lines_okb] in H.
  apply andb_prop in H as [H H3]. apply andb_prop in H as [H1 H2].
  split; [|now apply IH]. split.
  - intros Hm. destruct (Z.leb_spec 5 m); [|lia]. destruct (Z.leb_spec m 7); [|lia].
    cbn [andb] in H1. now apply lmp_box_okb_sound.
  - intros Hm. destruct (Z.leb_spec 9 m); [|lia]. now apply lmp_atom_okb_sound.
Qed.

Theorem lmp_wfb_sound f : lmp_wfb fok N f = true -> lmp_wf fok N f.
Proof.
  unfold lmp_wfb, lmp_wf. destruct f as [|h0 [|h1 [|h2 [|cnt tail]]]]; try discriminate.
  intros H. apply andb_prop in H as [H H5]. apply andb_prop in H as [H H4].
  apply andb_prop in H as [H H3]. apply andb_prop in H as [H1 H2].
  exists [h0; h1; h2; cnt], tail. split; [reflexivity|]. split.
  { exists h0, h1, h2, cnt. split; [reflexivity|]. split; [|now apply count_okb_sound].
    destruct h0; [discriminate H1|discriminate]. }
  split; [eapply forallb_Forall; [apply cleanb_sound|exact H3]|].
  split; [now apply Nat.eqb_eq|]. now apply lmp_lines_okb_sound.
Qed.

End WfB.

(* ------------------------------------------------------------------ what lmp_value is, stated
   without the reader's bookkeeping *)
Lemma set_nth_length {A} (x : A) : forall l n, length (set_nth n x l) = length l.
Proof. induction l as [|a l IH]; intros [|n]; cbn; auto. Qed.

Lemma nth_error_set_nth_eq {A} (x : A) : forall l n, (n < length l)%nat -> nth_error (set_nth n x l) n = Some x.
Proof.
  induction l as [|a l IH]; intros [|n] H; cbn in *; try lia; [reflexivity|]. apply IH. lia.
Qed.

Lemma nth_error_set_nth_neq {A} (x : A) : forall l n m, n <> m -> nth_error (set_nth n x l) m = nth_error l m.
Proof.
  induction l as [|a l IH]; intros [|n] [|m] H; cbn; try reflexivity; try congruence.
  apply IH. congruence.
Qed.

Section LmpValue.
Variable fok : token -> bool.
Variable N : nat.
Local Notation Nz := (Z.of_nat N).

Definition lmp_idx (a : list ascii) : nat := Z.to_nat (lmp_id a - 1).

Lemma lmp_atom_ok_id a : lmp_atom_ok fok N a -> 1 <= lmp_id a <= Nz.
Proof. intros (_ & _ & (id & Hid & Hr) & _). unfold lmp_id. now rewrite Hid. Qed.

Lemma lmp_lines_ok_atoms : forall ls m, 9 <= m -> lmp_lines_ok fok N m ls -> Forall (lmp_atom_ok fok N) ls.
Proof.
  induction ls as [|l ls IH]; intros m Hm H; [constructor|]. destruct H as [[_ Ha] Hr].
  constructor; [now apply Ha|]. apply (IH (m + 1)); [lia|exact Hr].
Qed.

Lemma lmp_body_atom m a box coord : 9 <= m ->
  lmp_body m a (box, coord) = (box, set_nth (lmp_idx a) (Some (lmp_row a)) coord).
Proof.
  intros Hm. unfold lmp_body. cbn [fst snd].
  destruct (Z.leb_spec m 7) as [?|_]; [lia|]. rewrite andb_false_r.
  destruct (Z.leb_spec 9 m) as [_|?]; [|lia]. reflexivity.
Qed.

Lemma lmp_fold_atoms : forall atoms m box coord, 9 <= m ->
  Forall (lmp_atom_ok fok N) atoms -> NoDup (map lmp_id atoms) -> length coord = N ->
  let r := lmp_fold m atoms (box, coord) in
  fst r = box /\ length (snd r) = N /\
  (forall a, In a atoms -> nth_error (snd r) (lmp_idx a) = Some (Some (lmp_row a))) /\
  (forall i, (forall a, In a atoms -> lmp_idx a <> i) -> nth_error (snd r) i = nth_error coord i).
Proof.
  induction atoms as [|a atoms IH]; intros m box coord Hm Hok Hnd Hlen; cbn zeta.
  - cbn. repeat split; auto. intros a [].
  - cbn [lmp_fold]. rewrite lmp_body_atom by assumption.
    pose proof (Forall_inv Hok) as Ha. pose proof (Forall_inv_tail Hok) as Hoks.
    cbn [map] in Hnd. apply NoDup_cons_iff in Hnd as [Hnin Hnd'].
    pose proof (lmp_atom_ok_id a Ha) as Hida.
    assert (Hm1 : 9 <= m + 1) by lia.
    assert (Hlen' : length (set_nth (lmp_idx a) (Some (lmp_row a)) coord) = N) by now rewrite set_nth_length.
    destruct (IH (m + 1) box (set_nth (lmp_idx a) (Some (lmp_row a)) coord) Hm1 Hoks Hnd' Hlen')
      as (Hb & Hl & Hin & Hout).
    cbn zeta in *. split; [exact Hb|]. split; [exact Hl|]. split.
    + intros a' [<-|Ha'].
      * rewrite Hout.
        -- apply nth_error_set_nth_eq. unfold lmp_idx. lia.
        -- intros b Hb' E. apply Hnin. apply in_map_iff. exists b. split; [|exact Hb'].
           assert (Hidb : 1 <= lmp_id b <= Nz).
           { apply lmp_atom_ok_id. eapply Forall_forall; [exact Hoks|exact Hb']. }
           unfold lmp_idx in E. lia.
      * now apply Hin.
    + intros i Hi. rewrite Hout by (intros b Hb'; apply Hi; now right).
      apply nth_error_set_nth_neq. apply Hi. now left.
Qed.

Theorem lmp_value_spec f : lmp_wf fok N f -> NoDup (map lmp_id (skipn 9 f)) ->
  fst (lmp_value N f) = map split (firstn 3 (skipn 5 f)) /\
  length (snd (lmp_value N f)) = N /\
  forall a, In a (skipn 9 f) ->
    nth_error (snd (lmp_value N f)) (Z.to_nat (lmp_id a - 1)) = Some (Some (lmp_row a)).
Proof.
  intros (head & tail & -> & (h0 & h1 & h2 & cnt & -> & _ & _) & _ & Hlen & Hok) Hnd.
  destruct tail as [|t4 [|b5 [|b6 [|b7 [|t8 atoms]]]]]; cbn [length] in Hlen; try lia.
  cbn [app skipn firstn map] in *. unfold lmp_value. cbn [app skipn lmp_fold].
  destruct Hok as (_ & _ & _ & _ & _ & Hatoms).
  apply lmp_lines_ok_atoms in Hatoms; [|lia].
  assert (Hpre : lmp_body (4 + 1 + 1 + 1 + 1) t8 (lmp_body (4 + 1 + 1 + 1) b7 (lmp_body (4 + 1 + 1) b6
                   (lmp_body (4 + 1) b5 (lmp_body 4 t4 (zeros_box, zeros_coord Nz))))) =
                 ([split b5; split b6; split b7], zeros_coord Nz)) by reflexivity.
  rewrite Hpre.
  assert (H9 : 9 <= 4 + 1 + 1 + 1 + 1 + 1) by lia.
  assert (Hzl : length (zeros_coord Nz) = N) by (unfold zeros_coord; rewrite repeat_length; lia).
  destruct (lmp_fold_atoms atoms (4 + 1 + 1 + 1 + 1 + 1) [split b5; split b6; split b7] (zeros_coord Nz)
              H9 Hatoms Hnd Hzl) as (Hb & Hl & Hin & _).
  cbn zeta in *. split; [exact Hb|]. split; [exact Hl|]. exact Hin.
Qed.

End LmpValue.

(* ------------------------------------------------------------------ incremental polling of the two text readers *)

Theorem xyz_incremental fok N frames cuts : Forall (xyz_wf fok N) frames -> nondecr 0 cuts ->
  let rs := polls (xyz_read fok true) (render (concat frames)) 0 cuts in
  rs = expected _ (xyz_value) frames 0 cuts /\
  Forall (fun r => res_err _ r = None) rs /\
  concat (map (res_frames _) rs) = map xyz_value (firstn (upto (map fsize frames) 0 cuts) frames).
Proof.
  apply (polls_incremental xyz_frame (xyz_read fok true) (xyz_wf fok N) xyz_value).
  intros fr c H. now apply (xyz_cut fok N).
Qed.

Theorem xyz_complete_after_writer fok N frames cuts : Forall (xyz_wf fok N) frames ->
  nondecr 0 cuts -> cuts <> [] -> (bytes_of frames <= last cuts 0)%nat ->
  concat (map (res_frames _) (polls (xyz_read fok true) (render (concat frames)) 0 cuts)) =
  map xyz_value frames.
Proof.
  apply (polls_complete xyz_frame (xyz_read fok true) (xyz_wf fok N) xyz_value).
  intros fr c H. now apply (xyz_cut fok N).
Qed.

Theorem lmp_incremental fok N frames cuts : (1 <= N)%nat -> Forall (lmp_wf fok N) frames ->
  nondecr 0 cuts ->
  let rs := polls (lmp_read fok true) (render (concat frames)) 0 cuts in
  rs = expected _ (lmp_value N) frames 0 cuts /\
  Forall (fun r => res_err _ r = None) rs /\
  concat (map (res_frames _) rs) = map (lmp_value N) (firstn (upto (map fsize frames) 0 cuts) frames).
Proof.
  intros HN. apply (polls_incremental lmp_frame (lmp_read fok true) (lmp_wf fok N) (lmp_value N)).
  intros fr c H. now apply (lmp_cut fok N HN).
Qed.

Theorem lmp_complete_after_writer fok N frames cuts : (1 <= N)%nat -> Forall (lmp_wf fok N) frames ->
  nondecr 0 cuts -> cuts <> [] -> (bytes_of frames <= last cuts 0)%nat ->
  concat (map (res_frames _) (polls (lmp_read fok true) (render (concat frames)) 0 cuts)) =
  map (lmp_value N) frames.
Proof.
  intros HN. apply (polls_complete lmp_frame (lmp_read fok true) (lmp_wf fok N) (lmp_value N)).
  intros fr c H. now apply (lmp_cut fok N HN).
Qed.

(* ------------------------------------------------------------------ the TRR polling loop *)

Definition yields (ev : list trr_event) : list nat :=
  flat_map (fun e => match e with TYield i => [i] | _ => [] end) ev.

Lemma yields_app a b : yields (a ++ b) = yields a ++ yields b.
Proof. unfold yields. apply flat_map_app. Qed.

Definition lay_ok (h : Z) (lay : layout) : Prop := Forall (fun fd => fst fd = h /\ 0 <= snd fd) lay.

(* offset of frame k *)
Definition off (lay : layout) (k : nat) : Z := layout_size (firstn k lay).

(* a read stays inside the bytes that were on disk when it was made, starts at a frame (or
   data) boundary and has exactly the length of that header / data block *)
Definition ev_safe (h : Z) (lay : layout) (e : trr_event) : Prop :=
  match e with
  | TReadHeader a l s => a + l <= s /\ exists k, (k < length lay)%nat /\ a = off lay k /\ l = h
  | TReadData a l s => a + l <= s /\ exists k d, nth_error lay k = Some (h, d) /\ a = off lay k + h /\ l = d
  | TYield i => (i < length lay)%nat
  | TGarbage _ => False
  end.

Lemma layout_size_app a b : layout_size (a ++ b) = layout_size a + layout_size b.
Proof. unfold layout_size. induction a as [|[x y] a IH]; cbn [app fold_right fst snd]; lia. Qed.

Lemma layout_size_cons x y l : layout_size ((x, y) :: l) = x + y + layout_size l.
Proof. reflexivity. Qed.

Section Trr.
Variables head h : Z.
Variable lay : layout.
Hypothesis h_pos : 0 < h.
Hypothesis h_head : h <= head.
Hypothesis Hlay : lay_ok h lay.
Local Notation n := (length lay).
Local Notation total := (layout_size lay).

Lemma lay_ok_nonneg l : lay_ok h l -> 0 <= layout_size l.
Proof.
  induction 1 as [|[x y] l [Hx Hy] _ IH]; [cbn; lia|]. cbn [fst snd] in *.
  rewrite layout_size_cons. lia.
Qed.

Lemma lay_ok_firstn k l : lay_ok h l -> lay_ok h (firstn k l).
Proof.
  unfold lay_ok. rewrite !Forall_forall. intros H x Hx. apply H. eapply firstn_In'; eauto.
Qed.

Lemma lay_ok_skipn k l : lay_ok h l -> lay_ok h (skipn k l).
Proof.
  unfold lay_ok. rewrite !Forall_forall. intros H x Hx. apply H. eapply skipn_In'; eauto.
Qed.

Lemma lay_ok_nth k x d : nth_error lay k = Some (x, d) -> x = h /\ 0 <= d.
Proof.
  intros H. apply nth_error_In in H. pose proof Hlay as HL. unfold lay_ok in HL.
  rewrite Forall_forall in HL. exact (HL _ H).
Qed.

Lemma off_0 : off lay 0 = 0.
Proof. reflexivity. Qed.

Lemma off_all : off lay n = total.
Proof. unfold off. now rewrite firstn_all. Qed.

Lemma off_le_total k : off lay k <= total.
Proof.
  unfold off. rewrite <- (firstn_skipn k lay) at 2. rewrite layout_size_app.
  pose proof (lay_ok_nonneg _ (lay_ok_skipn k lay Hlay)). lia.
Qed.

Lemma firstn_S_nth {A} (l : list A) k x : nth_error l k = Some x -> firstn (S k) l = firstn k l ++ [x].
Proof.
  revert l; induction k as [|k IH]; intros l H; destruct l as [|a l]; try discriminate.
  - cbn in H. injection H as ->. reflexivity.
  - cbn in H. change (firstn (S (S k)) (a :: l)) with (a :: firstn (S k) l).
    change (firstn (S k) (a :: l)) with (a :: firstn k l). cbn [app]. f_equal. now apply IH.
Qed.

Lemma off_S k d : nth_error lay k = Some (h, d) -> off lay (S k) = off lay k + h + d.
Proof.
  intros H. unfold off. rewrite (firstn_S_nth lay k _ H), layout_size_app, layout_size_cons.
  cbn. lia.
Qed.

Lemma nth_lt k d : nth_error lay k = Some (h, d) -> (k < n)%nat.
Proof. intros H. apply nth_error_Some. congruence. Qed.

Lemma nth_ex k : (k < n)%nat -> exists d, nth_error lay k = Some (h, d) /\ 0 <= d.
Proof.
  intros H. destruct (nth_error lay k) as [[x d]|] eqn:E.
  - destruct (lay_ok_nth k x d E) as [-> Hd]. eauto.
  - apply nth_error_None in E. lia.
Qed.

(* a whole header fits below [size <= total] at offset [off k] only if frame k exists *)
Lemma off_room k size : (k <= n)%nat -> off lay k + h <= size -> size <= total -> (k < n)%nat.
Proof.
  intros Hk H1 H2. destruct (Nat.eq_dec k n) as [->|]; [|lia]. rewrite off_all in H1. lia.
Qed.

Lemma frame_at_gen : forall l, lay_ok h l -> forall k o i x d, nth_error l k = Some (x, d) ->
  frame_at l o i (o + layout_size (firstn k l)) = Some ((i + k)%nat, x, d).
Proof.
  induction 1 as [|[x0 d0] l [Hx Hd] Hl IH]; intros k o i x d Hn; [destruct k; discriminate|].
  cbn [fst snd] in *. destruct k as [|k].
  - cbn in Hn. injection Hn as -> ->. cbn [firstn frame_at].
    change (layout_size []) with 0. rewrite Z.add_0_r, Z.eqb_refl, Nat.add_0_r. reflexivity.
  - cbn in Hn. cbn [firstn frame_at]. rewrite layout_size_cons.
    pose proof (lay_ok_nonneg _ (lay_ok_firstn k l Hl)) as Hnn.
    destruct (Z.eqb_spec (o + (x0 + d0 + layout_size (firstn k l))) o) as [E|_]; [lia|].
    replace (o + (x0 + d0 + layout_size (firstn k l))) with ((o + x0 + d0) + layout_size (firstn k l)) by lia.
    rewrite (IH k (o + x0 + d0) (S i) x d Hn). do 2 f_equal. f_equal. lia.
Qed.

Lemma frame_at_off k d : nth_error lay k = Some (h, d) -> frame_at lay 0 0%nat (off lay k) = Some (k, h, d).
Proof.
  intros H. pose proof (frame_at_gen lay Hlay k 0 0%nat h d H) as E. cbn [Z.add Nat.add] in E.
  exact E.
Qed.

(* the loop is either between frames (k frames handed out) or has read header k and waits
   for its data *)
Inductive tinv : trr_state -> nat -> Prop :=
| TA k hs : (k <= n)%nat -> (hs = 0 \/ hs = h) -> tinv (mkT (off lay k) hs None false) k
| TP k d : nth_error lay k = Some (h, d) -> tinv (mkT (off lay k + h) h (Some (k, d)) false) k.

Lemma trr_observe_inv st k size : tinv st k -> size <= total ->
  exists k', tinv (fst (trr_observe head lay st size)) k' /\
             Forall (ev_safe h lay) (snd (trr_observe head lay st size)) /\
             (k <= k')%nat /\ yields (snd (trr_observe head lay st size)) = seq k (k' - k).
Proof.
  intros Hinv Hsz. destruct Hinv as [k hs Hk Hhs | k d Hn]; unfold trr_observe;
    cbn [t_bad t_pend t_hs t_br].
  - set (guard := if hs =? 0 then head else hs).
    assert (Hg : h <= guard) by (unfold guard; destruct Hhs as [-> | ->]; cbn;
                                  [lia|destruct (Z.eqb_spec h 0); lia]).
    destruct (Z.geb_spec size (off lay k + guard)) as [Hge|Hlt].
    + assert (Hkn : (k < n)%nat) by (apply (off_room k size); lia).
      destruct (nth_ex k Hkn) as (d & Hn & Hd). rewrite (frame_at_off k d Hn).
      destruct (Z.leb_spec (off lay k + h) size) as [_|?]; [|lia].
      exists k. cbn [fst snd]. split; [now apply TP|]. split.
      * constructor; [|constructor]. cbn. split; [lia|]. exists k. auto.
      * split; [lia|]. rewrite Nat.sub_diag. reflexivity.
    + exists k. cbn [fst snd]. split; [now apply TA|]. split; [constructor|].
      split; [lia|]. rewrite Nat.sub_diag. reflexivity.
  - destruct (lay_ok_nth k h d Hn) as [_ Hd]. pose proof (nth_lt k d Hn) as Hkn.
    destruct (Z.geb_spec size (off lay k + h + d)) as [Hge|Hlt].
    + exists (S k). cbn [fst snd]. split.
      * rewrite <- (off_S k d Hn). apply TA; [lia|now right].
      * split.
        -- constructor; [|constructor; [exact Hkn|constructor]]. cbn. split; [lia|]. exists k, d. auto.
        -- split; [lia|]. replace (S k - k)%nat with 1%nat by lia. reflexivity.
    + exists k. cbn [fst snd]. split; [now apply TP|]. split; [constructor|].
      split; [lia|]. rewrite Nat.sub_diag. reflexivity.
Qed.

Lemma seq_join a b c : (a <= b)%nat -> (b <= c)%nat -> seq a (b - a) ++ seq b (c - b) = seq a (c - a).
Proof.
  intros H1 H2. replace (c - a)%nat with ((b - a) + (c - b))%nat by lia.
  rewrite seq_app. do 2 f_equal. lia.
Qed.

Lemma trr_run_inv : forall sizes st k, tinv st k -> Forall (fun s => s <= total) sizes ->
  exists k', tinv (fst (trr_run head lay st sizes)) k' /\
             Forall (ev_safe h lay) (snd (trr_run head lay st sizes)) /\
             (k <= k')%nat /\ yields (snd (trr_run head lay st sizes)) = seq k (k' - k).
Proof.
  induction sizes as [|s sizes IH]; intros st k Hinv Hsz.
  - exists k. cbn. rewrite Nat.sub_diag. repeat split; auto.
  - inversion Hsz as [|? ? Hs Hrest]; subst. cbn [trr_run].
    destruct (trr_observe_inv st k s Hinv Hs) as (k1 & Hinv1 & Hsafe1 & Hk1 & Hy1).
    destruct (trr_observe head lay st s) as [st1 ev1]. cbn [fst snd] in *.
    destruct (IH st1 k1 Hinv1 Hrest) as (k2 & Hinv2 & Hsafe2 & Hk2 & Hy2).
    destruct (trr_run head lay st1 sizes) as [st2 ev2]. cbn [fst snd] in *.
    exists k2. split; [exact Hinv2|]. split; [apply Forall_app; auto|]. split; [lia|].
    rewrite yields_app, Hy1, Hy2. now apply seq_join.
Qed.

Lemma trr_remaining_all : forall fuel k, (k <= n)%nat -> (n - k < fuel)%nat ->
  fst (trr_remaining fuel lay (off lay k) total) = total /\
  Forall (ev_safe h lay) (snd (trr_remaining fuel lay (off lay k) total)) /\
  yields (snd (trr_remaining fuel lay (off lay k) total)) = seq k (n - k).
Proof.
  induction fuel as [|f IH]; intros k Hk Hf; [lia|]. cbn [trr_remaining].
  destruct (Z.geb_spec (off lay k) total) as [Hge|Hlt].
  - assert (k = n).
    { destruct (Nat.eq_dec k n) as [|Hne]; [assumption|].
      destruct (nth_ex k ltac:(lia)) as (d & Hn & Hd).
      pose proof (off_le_total (S k)) as H1. rewrite (off_S k d Hn) in H1. lia. }
    subst k. rewrite Nat.sub_diag. cbn. rewrite off_all. repeat split; auto.
  - assert (Hkn : (k < n)%nat).
    { destruct (Nat.eq_dec k n) as [->|]; [rewrite off_all in Hlt; lia|lia]. }
    destruct (nth_ex k Hkn) as (d & Hn & Hd). rewrite (frame_at_off k d Hn).
    pose proof (off_le_total (S k)) as H1. rewrite (off_S k d Hn) in H1.
    destruct (Z.leb_spec (off lay k + h + d) total) as [_|?]; [|lia].
    rewrite <- (off_S k d Hn).
    destruct (IH (S k) ltac:(lia) ltac:(lia)) as (Hb & Hsafe & Hy).
    destruct (trr_remaining f lay (off lay (S k)) total) as [b ev]. cbn [fst snd] in *.
    split; [exact Hb|]. split.
    + constructor; [cbn; split; [lia|exists k; auto]|].
      constructor; [cbn; split; [lia|exists k, d; auto]|].
      constructor; [exact Hkn|exact Hsafe].
    + replace (n - k)%nat with (S (n - S k)) by lia. cbn [seq]. rewrite <- Hy. reflexivity.
Qed.

Lemma trr_finish_all st k : tinv st k -> t_pend st = None ->
  fst (trr_finish lay st total) = total /\
  Forall (ev_safe h lay) (snd (trr_finish lay st total)) /\
  yields (snd (trr_finish lay st total)) = seq k (n - k).
Proof.
  intros Hinv Hp. destruct Hinv as [k hs Hk Hhs | k d Hn]; [|discriminate].
  unfold trr_finish. cbn [t_bad t_br].
  destruct (Z.gtb_spec (total - off lay k) 0) as [Hgt|Hle].
  - apply trr_remaining_all; lia.
  - pose proof (off_le_total k) as H1.
    assert (k = n).
    { destruct (Nat.eq_dec k n) as [|Hne]; [assumption|].
      destruct (nth_ex k ltac:(lia)) as (d & Hn & Hd).
      pose proof (off_le_total (S k)) as H2. rewrite (off_S k d Hn) in H2. lia. }
    subst k. rewrite Nat.sub_diag. cbn. rewrite off_all. repeat split; auto.
Qed.

Lemma tinv_init : tinv trr_init 0.
Proof. unfold trr_init. rewrite <- off_0. apply TA; [lia|now left]. Qed.

Lemma tinv_not_bad st k : tinv st k -> t_bad st = false.
Proof. destruct 1; reflexivity. Qed.

(* while GROMACS runs: whatever sizes getsize reports (never more than what will eventually
   be written), every read lies inside the bytes on disk at that moment, starts at a
   header / data boundary with exactly that block's length, no read ever goes wrong, and the
   frames handed out are 0,1,2,... each once, in order *)
Theorem trr_never_reads_past_size sizes : Forall (fun s => s <= total) sizes ->
  t_bad (fst (trr_run head lay trr_init sizes)) = false /\
  Forall (ev_safe h lay) (snd (trr_run head lay trr_init sizes)) /\
  exists k, (k <= n)%nat /\ yields (snd (trr_run head lay trr_init sizes)) = seq 0 k.
Proof.
  intros Hs. destruct (trr_run_inv sizes trr_init 0%nat tinv_init Hs) as (k & Hinv & Hsafe & _ & Hy).
  split; [eapply tinv_not_bad; eauto|]. split; [exact Hsafe|].
  exists k. rewrite Nat.sub_0_r in Hy. split; [|exact Hy].
  destruct Hinv as [? ? ? ?|? d Hn]; [assumption|apply nth_lt in Hn; lia].
Qed.

(* after GROMACS has exited (the loop notices it only between frames) reading the rest
   hands out every remaining frame: all frames, each once, in order, and all bytes consumed *)
Theorem trr_quiescent_complete sizes : Forall (fun s => s <= total) sizes ->
  let st := fst (trr_run head lay trr_init sizes) in
  t_pend st = None ->
  fst (trr_finish lay st total) = total /\
  Forall (ev_safe h lay) (snd (trr_finish lay st total)) /\
  yields (snd (trr_run head lay trr_init sizes) ++ snd (trr_finish lay st total)) = seq 0 n.
Proof.
  intros Hs st Hp. unfold st in *.
  destruct (trr_run_inv sizes trr_init 0%nat tinv_init Hs) as (k & Hinv & _ & _ & Hy).
  destruct (trr_finish_all _ k Hinv Hp) as (Hb & Hsafe & Hy2).
  split; [exact Hb|]. split; [exact Hsafe|].
  rewrite yields_app, Hy, Hy2. rewrite Nat.sub_0_r.
  assert (Hk : (k <= n)%nat) by (destruct Hinv as [? ? ? ?|? d Hn]; [assumption|apply nth_lt in Hn; lia]).
  pose proof (seq_join 0 k n (Nat.le_0_l _) Hk) as E. rewrite !Nat.sub_0_r in E. exact E.
Qed.

End Trr.

(* ------------------------------------------------------------------ the readers before the repair (lead L1) *)

From Coq Require Import String.
Local Open Scope string_scope.
Definition str (s : String.string) : list ascii := String.list_ascii_of_string s.

(* one xyz frame with one atom; the file cut two bytes before its end *)
Definition l1_xyz_frame : list (list ascii) := [str "1"; str "c"; str "H 1.5 2.5 3.25"].

Lemma l1_xyz_torn_value :
  xyz_read py_float_ok false (firstn 17 (render l1_xyz_frame)) =
  (None, [[[str "1.5"; str "2.5"; str "3.2"]]], 17).
Proof. vm_compute. reflexivity. Qed.

(* CP2K right-aligns the atom count: a cut inside the leading blanks *)
Definition l1_xyz_frame2 : list (list ascii) := [str "  1"; str "c"; str "H 1.5 2.5 3.25"].

Lemma l1_xyz_zero_division :
  fst (fst (xyz_read py_float_ok false (firstn 1 (render l1_xyz_frame2)))) = Some EZeroDiv.
Proof. vm_compute. reflexivity. Qed.

(* LAMMPS: the last atom line complete except for its newline is accepted, the next poll
   starts on the lone newline and returns nothing although a whole frame follows it *)
Definition l1_lmp_frame : list (list ascii) :=
  [str "ITEM: TIMESTEP"; str "0"; str "ITEM: NUMBER OF ATOMS"; str "1"; str "ITEM: BOX BOUNDS pp pp pp";
   str "0 1"; str "0 1"; str "0 1"; str "ITEM: ATOMS id type x y z vx vy vz id";
   str "1 1 0.5 1.5 2.5 3 4 5 1"].

Definition l1_lmp_file : list ascii := render (List.app l1_lmp_frame l1_lmp_frame).
Definition l1_lmp_len : nat := List.length (render l1_lmp_frame).

Lemma l1_lmp_old_polls :
  map (fun r => (List.length (snd (fst r)), snd r))
      (polls (lmp_read py_float_ok false) l1_lmp_file 0 [(l1_lmp_len - 1)%nat; (2 * l1_lmp_len)%nat]) =
  [(1%nat, Z.of_nat l1_lmp_len - 1); (0%nat, Z.of_nat l1_lmp_len)].
Proof. vm_compute. reflexivity. Qed.

Theorem xyz_old_refuted :
  exists frames c, Forall (xyz_wf py_float_ok 1) frames /\
    xyz_read py_float_ok false (firstn c (render (List.concat frames))) <>
    (None, map xyz_value (firstn (nfit (map fsize frames) c) frames),
     Z.of_nat (bytes_of (firstn (nfit (map fsize frames) c) frames))).
Proof.
  exists [l1_xyz_frame], 17%nat. split.
  - repeat constructor. apply xyz_wfb_sound. vm_compute. reflexivity.
  - intros E. vm_compute in E. discriminate E.
Qed.

Theorem xyz_old_raises :
  exists frames c, Forall (xyz_wf py_float_ok 1) frames /\
    fst (fst (xyz_read py_float_ok false (firstn c (render (List.concat frames))))) = Some EZeroDiv.
Proof.
  exists [l1_xyz_frame2], 1%nat. split.
  - repeat constructor. apply xyz_wfb_sound. vm_compute. reflexivity.
  - vm_compute. reflexivity.
Qed.

Theorem lmp_old_refuted :
  exists frames cuts, Forall (lmp_wf py_float_ok 1) frames /\ nondecr 0 cuts /\
    polls (lmp_read py_float_ok false) (render (List.concat frames)) 0 cuts <>
    expected _ (lmp_value 1) frames 0 cuts.
Proof.
  exists [l1_lmp_frame; l1_lmp_frame], [(l1_lmp_len - 1)%nat; (2 * l1_lmp_len)%nat]. split; [|split].
  - repeat constructor; apply lmp_wfb_sound; vm_compute; reflexivity.
  - vm_compute. repeat split; lia.
  - intros E. apply (f_equal (map (fun r => List.length (snd (fst r))))) in E.
    vm_compute in E. discriminate E.
Qed.
