(* BRIDGE 2 (C02 -> C04): the exact probability matrix satisfies the hypotheses of C04.

   proofs/FracP.v proves conservation of the fractional weights for ANY matrix P given to a
   completed step, under the hypotheses [Prows] (full-length rows) and [Pcols] (the entries of a
   column over idle rows sum to 1 on an idle column, to 0 on a busy one).  Here [Pcols] is
   PROVED for the matrix of property C02:

     ExactP s P  :=  Prows s P  /\
                     is_Pspec_on_idle (WQ s) (locks s) (Pfun P)       (spec/PermS.v, verbatim)

   with  WQ s = map (map inject_Z) (W s)  and  Pfun P i j = nth j (nth i P []) 0,  i.e.
   P = Pspec of the idle block on idle rows x idle columns, P == 0 on every busy row or column.
   [ExactP_iff] restates the second conjunct on the [rstate] through idle / idleQ of
   proofs/BridgeMatchP.v.  The permanent of the idle block has to be non-zero (otherwise Pspec is
   0/0 == 0 and nothing sums to one); by BRIDGE 1 that is C05's invariant [Matchable], which is
   how the [..._matchable] versions get it.

   Prows is kept as a conjunct because is_Pspec_on_idle only speaks about the values read with
   nth (a list-of-lists artefact: the numpy array is n x n by construction) and the credit loop
   of the model ([qrow_add]) truncates to the shorter row. *)
From Coq Require Import ZArith QArith List Bool Arith Lia.
Import ListNotations.
From Inf Require Import model.RepexM model.MatchM proofs.RepexP proofs.MatchP proofs.FracP.
From Inf Require Import spec.PermS proofs.PermSpecP proofs.PermMatchP proofs.BridgeMatchP.
From Inf Require proofs.PermQuickSpecP proofs.PermP.
Open Scope nat_scope.

(* ------------------------------------------------------------------ the predicate *)

Definition WQ (s : rstate) : list (list Q) := map (map inject_Z) (W s).

Definition Pfun (P : list qrow) : nat -> nat -> Q := fun i j => nth j (nth i P []) 0%Q.

Definition ExactP (s : rstate) (P : list qrow) : Prop :=
  Prows s P /\ is_Pspec_on_idle (WQ s) (locks s) (Pfun P).

(* the same on the rstate, with the idle-block matrix of BRIDGE 1 *)
Definition ExactP_idle (s : rstate) (P : list qrow) : Prop :=
  Prows s P /\
  (forall a b, a < nidle s -> b < nidle s ->
     (Pfun P (nth a (idle s) 0%nat) (nth b (idle s) 0%nat) == Pspec (nidle s) (idleQ s) a b)%Q) /\
  (forall i j, i < size s -> j < size s -> is_locked s i = true \/ is_locked s j = true ->
     (Pfun P i j == 0)%Q).

Lemma WQ_nth s i j : nth j (nth i (WQ s) []) 0%Q = inject_Z (wij s i j).
Proof.
  unfold WQ, wij.
  change (@nil Q) with (map inject_Z []). rewrite map_nth.
  change 0%Q with (inject_Z 0). rewrite map_nth. reflexivity.
Qed.

Lemma idle_block_idleQ s a b : a < nidle s -> b < nidle s ->
  of_lists (idle_block (WQ s) (locks s)) a b = idleQ s a b.
Proof.
  intros Ha Hb. unfold of_lists, idle_block. cbv zeta. fold (idle s).
  set (g := fun i => map (fun j => nth j (nth i (WQ s) []) 0%Q) (idle s)).
  rewrite (nth_indep (map g (idle s)) [] (g 0)) by (rewrite map_length; exact Ha).
  rewrite map_nth. unfold g.
  set (h := fun j => nth j (nth (nth a (idle s) 0) (WQ s) []) 0%Q).
  rewrite (nth_indep (map h (idle s)) 0%Q (h 0)) by (rewrite map_length; exact Hb).
  rewrite map_nth. unfold h. rewrite WQ_nth. reflexivity.
Qed.

Lemma Pspec_idle_block s a b : a < nidle s -> b < nidle s ->
  (Pspec (nidle s) (of_lists (idle_block (WQ s) (locks s))) a b == Pspec (nidle s) (idleQ s) a b)%Q.
Proof.
  intros Ha Hb. apply PermQuickSpecP.Pspec_ext; [exact Ha|exact Hb|].
  intros x y Hx Hy. rewrite idle_block_idleQ by assumption. reflexivity.
Qed.

Lemma perm_idle_block s :
  (perm (nidle s) (of_lists (idle_block (WQ s) (locks s))) == perm (nidle s) (idleQ s))%Q.
Proof. apply perm_ext. intros x y Hx Hy. rewrite idle_block_idleQ by assumption. reflexivity. Qed.

Theorem ExactP_iff s P : ExactP s P <-> ExactP_idle s P.
Proof.
  unfold ExactP, ExactP_idle, is_Pspec_on_idle. cbv zeta. fold (idle s). fold (nidle s). fold (size s).
  split; intros (R & A & B); (split; [exact R|]); (split; [|exact B]); intros a b Ha Hb.
  - rewrite (A a b Ha Hb). now apply Pspec_idle_block.
  - rewrite (A a b Ha Hb). symmetry. now apply Pspec_idle_block.
Qed.

(* ------------------------------------------------------------------ sums *)

Fixpoint lsumf (l : list nat) (f : nat -> Q) : Q :=
  match l with [] => 0%Q | x :: r => (f x + lsumf r f)%Q end.

Lemma lsumf_ext l f g : (forall x, In x l -> (f x == g x)%Q) -> (lsumf l f == lsumf l g)%Q.
Proof.
  induction l as [|x r IH]; intros H; cbn [lsumf]; [reflexivity|].
  rewrite (H x (or_introl eq_refl)), IH; [reflexivity|]. intros y Hy. apply H. now right.
Qed.

Lemma lsumf_filter (p : nat -> bool) f l :
  (lsumf l (fun i => if p i then f i else 0%Q) == lsumf (filter p l) f)%Q.
Proof.
  induction l as [|x r IH]; cbn [lsumf filter]; [reflexivity|].
  destruct (p x); cbn [lsumf]; rewrite IH; ring.
Qed.

Lemma lsumf_qsum l f : (lsumf l f == qsum (length l) (fun a => f (nth a l 0%nat)))%Q.
Proof.
  induction l as [|x r IH]; cbn [lsumf length]; [reflexivity|].
  rewrite qsum_shift. cbn [nth]. rewrite IH. reflexivity.
Qed.

Lemma credited_lsumf s P c : forall slots i,
  (credited s P c i slots == lsumf (seq i (length slots)) (fun r => if is_locked s r then 0%Q else Pfun P r c))%Q.
Proof.
  induction slots as [|x r IH]; intros i; cbn [credited length seq lsumf]; [reflexivity|].
  rewrite IH. reflexivity.
Qed.

(* the ghost is busy: the idle slots are found among the first size - 1 *)
Lemma idle_real s : wf s -> idle s = filter (fun i => negb (is_locked s i)) (seq 0 (size s - 1)).
Proof.
  intros Wf. unfold idle, idle_idx. fold (size s). fold (is_locked s).
  change (fun i => negb (nth i (locks s) true)) with (fun i => negb (is_locked s i)).
  pose proof (wf_n _ Wf) as Hn.
  replace (size s) with (S (size s - 1)) at 1 by lia.
  rewrite seq_S, filter_app. cbn [filter plus]. rewrite (wf_ghost _ Wf). cbn [negb]. apply app_nil_r.
Qed.

(* what one step credits to column c, as a sum over the idle block *)
Lemma credited_idle s P c : wf s ->
  (credited s P c 0 (removelast (trajs s)) == qsum (nidle s) (fun a => Pfun P (nth a (idle s) 0%nat) c))%Q.
Proof.
  intros Wf. rewrite credited_lsumf, removelast_length, (wf_T _ Wf).
  rewrite (lsumf_ext _ _ (fun r => if negb (is_locked s r) then Pfun P r c else 0%Q)).
  2:{ intros x _. destruct (is_locked s x); reflexivity. }
  rewrite (lsumf_filter (fun i => negb (is_locked s i)) (fun r => Pfun P r c)).
  rewrite <- (idle_real s Wf). apply lsumf_qsum.
Qed.

(* ------------------------------------------------------------------ the exact P satisfies Pcols *)

Theorem ExactP_Pcols s P c :
  wf s -> ExactP s P -> ~ (perm (nidle s) (idleQ s) == 0)%Q -> Pcols s P c.
Proof.
  intros Wf HE Hnz. apply ExactP_iff in HE as (R & A & B).
  unfold Pcols. rewrite (credited_idle s P c Wf).
  destruct (is_locked s c) eqn:Lc.
  - (* busy (or out-of-range) column: every entry over an idle row is zero *)
    rewrite (qsum_ext _ _ (fun _ => 0%Q)); [apply qsum_zero|].
    intros a Ha. pose proof (idle_nth_unlocked s a Ha) as Ua.
    destruct (Nat.lt_ge_cases c (size s)) as [Hc|Hc].
    + apply B; [apply unlocked_lt; exact Ua|exact Hc|now right].
    + unfold Pfun. rewrite nth_overflow; [reflexivity|].
      rewrite (R _ (unlocked_real s _ Wf Ua)). exact Hc.
  - (* idle column: the column sum of Pspec *)
    destruct (idle_posn s c Lc) as [Hb Eb]. set (b := posn c (idle s)) in *.
    rewrite (qsum_ext _ _ (fun a => Pspec (nidle s) (idleQ s) a b)).
    + apply Pspec_col_sum; assumption.
    + intros a Ha. rewrite <- Eb. apply A; assumption.
Qed.

(* every row over an idle slot sums to one as well (not needed by C04; for completeness) *)
Theorem ExactP_row_sum s P a :
  ExactP s P -> ~ (perm (nidle s) (idleQ s) == 0)%Q -> a < nidle s ->
  (qsum (nidle s) (fun b => Pfun P (nth a (idle s) 0%nat) (nth b (idle s) 0%nat)) == 1)%Q.
Proof.
  intros HE Hnz Ha. apply ExactP_iff in HE as (_ & A & _).
  rewrite (qsum_ext _ _ (fun b => Pspec (nidle s) (idleQ s) a b)).
  - apply Pspec_row_sum; assumption.
  - intros b Hb. apply A; assumption.
Qed.

(* with C05's invariant instead of the permanent (BRIDGE 1) *)
Lemma Matchable_perm_nz s : Wnonneg s -> Matchable s -> ~ (perm (nidle s) (idleQ s) == 0)%Q.
Proof.
  intros Hw Hm E. apply (Matchable_iff_perm_pos s Hw) in Hm. rewrite E in Hm. discriminate.
Qed.

Corollary ExactP_Pcols_matchable s P c :
  wf s -> Wnonneg s -> Matchable s -> ExactP s P -> Pcols s P c.
Proof. intros Wf Hw Hm HE. apply ExactP_Pcols; [exact Wf|exact HE|now apply Matchable_perm_nz]. Qed.

(* ------------------------------------------------------------------ C04 without the Pcols hypothesis *)

Definition perm_nz (s : rstate) : Prop := ~ (perm (nidle s) (idleQ s) == 0)%Q.

Theorem treat_conservation_unit_exactP f k acc rows P f' c :
  InvF f -> FInv f -> step f (OpTreat k acc rows P) = Some f' ->
  ExactP (core f') P -> perm_nz (core f') ->
  (total c f' == total c f + if is_locked (core f') c then 0 else 1)%Q.
Proof.
  intros I F H HE Hnz.
  apply (treat_conservation_unit f k acc rows P f' c I F H (proj1 HE)).
  apply ExactP_Pcols; [|exact HE|exact Hnz].
  exact (inv_wf _ (step_Inv _ _ _ I H)).
Qed.

Theorem single_worker_unit_exactP f k acc rows P f' c :
  InvF f -> FInv f -> step f (OpTreat k acc rows P) = Some f' ->
  ExactP (core f') P -> perm_nz (core f') -> locked (core f') = [] -> c < size (core f') - 1 ->
  (total c f' == total c f + 1)%Q.
Proof.
  intros I F H HE Hnz Hl Hc.
  apply (single_worker_unit f k acc rows P f' c I F H (proj1 HE)); [|exact Hl|exact Hc].
  apply ExactP_Pcols; [|exact HE|exact Hnz].
  exact (inv_wf _ (step_Inv _ _ _ I H)).
Qed.

(* the matrices used along a run are the exact ones (no column is singled out) *)
Fixpoint Pexact (f : fstate) (ops : list op) : Prop :=
  match ops with
  | [] => True
  | o :: r =>
      match step f o with
      | None => True
      | Some f1 =>
          match o with
          | OpTreat _ _ _ P => ExactP (core f1) P /\ perm_nz (core f1)
          | _ => True
          end /\ Pexact f1 r
      end
  end.

Lemma Pexact_Pgood c : forall ops f, InvF f -> Pexact f ops -> Pgood c f ops.
Proof.
  induction ops as [|o r IH]; intros f I H; cbn [Pexact Pgood] in *; [exact Logic.I|].
  destruct (step f o) as [f1|] eqn:S; [|exact Logic.I].
  destruct H as [H1 H2]. pose proof (step_Inv _ _ _ I S) as I1.
  split; [|apply IH; assumption].
  destruct o as [? ?|? ? ?|q acc rows P]; try exact Logic.I.
  destruct H1 as [HE Hnz]. split; [exact (proj1 HE)|].
  apply ExactP_Pcols; [exact (inv_wf _ I1)|exact HE|exact Hnz].
Qed.

(* C04's conservation theorem for EVERY column at once, the hypothesis [Pgood] (with its
   unproved column sums) replaced by "the matrices are the permanent ratios" *)
Theorem conservation_exactP : forall ops f, InvF f -> FInv f -> Pexact f ops ->
  forall c f' k, idle_steps c f ops = Some (f', k) ->
  (total c f' == total c f + inject_Z (Z.of_nat k))%Q /\ FInv f' /\ InvF f'.
Proof.
  intros ops f I F H c f' k Hs.
  exact (conservation c ops f f' k I F (Pexact_Pgood c ops f I H) Hs).
Qed.

(* ------------------------------------------------------------------ with C05's invariant: the permanent is
   non-zero because the idle block is matchable *)

Lemma step_m_step f o ws f' : step_m f o ws = Some f' -> step f o = Some f'.
Proof.
  unfold step_m. intros H. destruct o as [c pin|cols paths pin|k acc rows P].
  - destruct ws as [|m1 rest]; [discriminate|].
    destruct (negb _); [discriminate|].
    destruct (pk_zs c) as [kz|]; destruct rest as [|m2 [|? ?]]; try discriminate.
    + destruct (lock _ _) as [sx|]; [|discriminate]. destruct (partner _) as [ox|]; [|discriminate].
      destruct (take_cert sx m2 kz ox); [exact H|discriminate].
    + exact H.
  - destruct (pick_lock_certs _ _ _ _); [exact H|discriminate].
  - destruct ws; [exact H|discriminate].
Qed.

Lemma treat_InvM f k acc rows P f' : InvM f -> step f (OpTreat k acc rows P) = Some f' -> InvM f'.
Proof. intros I H. apply (step_m_InvM f (OpTreat k acc rows P) [] f' I). exact H. Qed.

Theorem treat_conservation_unit_matchable f k acc rows P f' c :
  InvM f -> FInv f -> step f (OpTreat k acc rows P) = Some f' ->
  ExactP (core f') P -> Wnonneg (core f') ->
  (total c f' == total c f + if is_locked (core f') c then 0 else 1)%Q.
Proof.
  intros I F H HE Hw. destruct (treat_InvM _ _ _ _ _ _ I H) as [_ M1].
  apply (treat_conservation_unit_exactP f k acc rows P f' c (proj1 I) F H HE).
  now apply Matchable_perm_nz.
Qed.

(* certified runs (model/MatchM.v): every OpTreat uses an exact matrix on a state with
   non-negative weights; nothing is assumed about permanents or column sums *)
Fixpoint Pexact_m (f : fstate) (ops : list (op * list (list nat))) : Prop :=
  match ops with
  | [] => True
  | (o, ws) :: r =>
      match step_m f o ws with
      | None => True
      | Some f1 =>
          match o with
          | OpTreat _ _ _ P => ExactP (core f1) P /\ Wnonneg (core f1)
          | _ => True
          end /\ Pexact_m f1 r
      end
  end.

Lemma Pexact_m_Pexact : forall ops f, InvM f -> run_m f ops <> None -> Pexact_m f ops -> Pexact f (map fst ops).
Proof.
  induction ops as [|[o ws] r IH]; intros f I Hr H; cbn [Pexact_m Pexact map fst run_m] in *; [exact Logic.I|].
  destruct (step_m f o ws) as [f1|] eqn:S; [|congruence].
  rewrite (step_m_step _ _ _ _ S). destruct H as [H1 H2].
  pose proof (step_m_InvM _ _ _ _ I S) as I1.
  split; [|apply IH; assumption].
  destruct o as [? ?|? ? ?|q acc rows P]; try exact Logic.I.
  destruct H1 as [HE Hw]. split; [exact HE|]. apply Matchable_perm_nz; [exact Hw|exact (proj2 I1)].
Qed.

Theorem conservation_certified : forall ops f fe, InvM f -> FInv f -> run_m f ops = Some fe -> Pexact_m f ops ->
  forall c f' k, idle_steps c f (map fst ops) = Some (f', k) ->
  (total c f' == total c f + inject_Z (Z.of_nat k))%Q /\ FInv f' /\ InvF f'.
Proof.
  intros ops f fe I F Hr H c f' k Hs.
  apply (conservation_exactP (map fst ops) f (proj1 I) F); [|exact Hs].
  apply Pexact_m_Pexact; [exact I|congruence|exact H].
Qed.

(* ------------------------------------------------------------------ decidable versions (for examples and traces) *)

Definition ExactPb (s : rstate) (P : list qrow) : bool :=
  forallb (fun i => length (nth i P []) =? size s) (seq 0 (size s - 1)) &&
  is_Pspec_on_idle_b (WQ s) (locks s) (Pfun P).

Lemma ExactPb_sound s P : ExactPb s P = true -> ExactP s P.
Proof.
  unfold ExactPb. intros H. apply andb_true_iff in H as [A B]. split.
  - intros i Hi. rewrite forallb_forall in A. apply Nat.eqb_eq. apply A. apply in_seq. lia.
  - now apply PermP.is_Pspec_on_idle_b_sound.
Qed.

Definition perm_nzb (s : rstate) : bool := negb (Qeq_bool (perm (nidle s) (idleQ s)) 0).

Lemma perm_nzb_sound s : perm_nzb s = true -> perm_nz s.
Proof. unfold perm_nzb, perm_nz. intros H E. apply Qeq_bool_iff in E. rewrite E in H. discriminate. Qed.

Fixpoint Pexactb (f : fstate) (ops : list op) : bool :=
  match ops with
  | [] => true
  | o :: r =>
      match step f o with
      | None => true
      | Some f1 =>
          match o with
          | OpTreat _ _ _ P => ExactPb (core f1) P && perm_nzb (core f1)
          | _ => true
          end && Pexactb f1 r
      end
  end.

Lemma Pexactb_sound : forall ops f, Pexactb f ops = true -> Pexact f ops.
Proof.
  induction ops as [|o r IH]; intros f H; cbn [Pexactb Pexact] in *; [exact Logic.I|].
  destruct (step f o) as [f1|]; [|exact Logic.I].
  apply andb_true_iff in H as [H1 H2]. split; [|now apply IH].
  destruct o as [? ?|? ? ?|q acc rows P]; try exact Logic.I.
  apply andb_true_iff in H1 as [A B]. split; [now apply ExactPb_sound|now apply perm_nzb_sound].
Qed.

(* ------------------------------------------------------------------ non-vacuity: the run of theorems/C04.v *)

Definition bridge_ex4 : fstate :=
  mkFS (mkR [[1;0;0;0]; [0;1;0;0]; [0;1;1;0]; [0;0;0;0]]%Z [0;1;2;0] [false;false;false;true] [] 3)
       [(0, [0;0;0;0]%Q); (1, [0;0;0;0]%Q); (2, [0;0;0;0]%Q)] [] 0.

Definition bridge_ex4_ops : list op :=
  [OpPick (mkPick 1 1 (Some 0)) 0; OpPick (mkPick 2 2 None) 1;
   OpTreat 1 true [[0;1;1;0]%Z] [[0;0;0;0]; [0;0;0;0]; [0;0;1;0]; [0;0;0;0]]%Q;
   OpTreat 0 false [[1;0;0;0]; [0;1;1;0]]%Z [[1;0;0;0]; [0;1#2;1#2;0]; [0;1#2;1#2;0]; [0;0;0;0]]%Q].

Lemma bridge_ex4_Inv : InvF bridge_ex4.
Proof.
  unfold InvF. constructor; cbn.
  - constructor; cbn; auto.
  - intros jb [].
  - constructor.
  - intros c Hc. assert (E : c = 0 \/ c = 1 \/ c = 2) by lia. unfold is_locked. cbn.
    destruct E as [-> | [-> | ->]]; discriminate.
  - intros a b Ha Hb. assert (Ea : a = 0 \/ a = 1 \/ a = 2) by lia. assert (Eb : b = 0 \/ b = 1 \/ b = 2) by lia.
    destruct Ea as [-> | [-> | ->]]; destruct Eb as [-> | [-> | ->]]; cbn; intros E; try reflexivity; discriminate.
  - intros a Ha. assert (Ea : a = 0 \/ a = 1 \/ a = 2) by lia. destruct Ea as [-> | [-> | ->]]; cbn; lia.
  - constructor.
Qed.

Lemma bridge_ex4_FInv : FInv bridge_ex4.
Proof.
  constructor; cbn.
  - intros k v [E|[E|[E|[]]]]; injection E as <- <-; reflexivity.
  - intros k [<-|[<-|[<-|[]]]]; lia.
  - repeat constructor; cbn; intuition lia.
Qed.

(* both matrices of the run are the exact ones, so the column sums need not be assumed *)
Example bridge_ex4_exact : Pexact bridge_ex4 bridge_ex4_ops.
Proof. apply Pexactb_sound. vm_compute. reflexivity. Qed.

Example bridge_ex4_conservation :
  forall c, exists f' k, idle_steps c bridge_ex4 bridge_ex4_ops = Some (f', k) /\
    (total c f' == total c bridge_ex4 + inject_Z (Z.of_nat k))%Q.
Proof.
  intros c.
  assert (R : exists fk, idle_steps c bridge_ex4 bridge_ex4_ops = Some fk).
  { cbv [idle_steps bridge_ex4_ops].
    repeat match goal with |- context [step ?f ?o] =>
      let r := eval vm_compute in (step f o) in
      change (step f o) with r; cbv iota beta end.
    repeat match goal with |- context [is_locked ?s c] => destruct (is_locked s c) end; eexists; reflexivity. }
  destruct R as [[f' k] R]. exists f', k. split; [exact R|].
  exact (proj1 (conservation_exactP _ _ bridge_ex4_Inv bridge_ex4_FInv bridge_ex4_exact c f' k R)).
Qed.

(* the second completion of the run, taken alone (one worker left): every real column gets
   exactly one unit, with the exact matrix [[1;0;0]; [0;1/2;1/2]; [0;1/2;1/2]] *)
Definition bridge_ex4_mid : fstate :=
  match run bridge_ex4 (firstn 3 bridge_ex4_ops) with Some f => f | None => bridge_ex4 end.

Definition bridge_ex4_P : list qrow := [[1;0;0;0]; [0;1#2;1#2;0]; [0;1#2;1#2;0]; [0;0;0;0]]%Q.

Definition bridge_ex4_last : op := OpTreat 0 false [[1;0;0;0]; [0;1;1;0]]%Z bridge_ex4_P.

Example bridge_ex4_unit :
  exists f', step bridge_ex4_mid bridge_ex4_last = Some f' /\
    ExactP (core f') bridge_ex4_P /\ perm_nz (core f') /\
    forall c, c < 3 -> (total c f' == total c bridge_ex4_mid + 1)%Q.
Proof.
  assert (Hs : idle_steps 0 bridge_ex4 (firstn 3 bridge_ex4_ops) = Some (bridge_ex4_mid, 0))
    by (vm_compute; reflexivity).
  assert (He : Pexact bridge_ex4 (firstn 3 bridge_ex4_ops)) by (apply Pexactb_sound; vm_compute; reflexivity).
  destruct (conservation_exactP _ _ bridge_ex4_Inv bridge_ex4_FInv He 0 _ _ Hs) as (_ & F & I).
  destruct (step bridge_ex4_mid bridge_ex4_last) as [f'|] eqn:S; [|vm_compute in S; discriminate].
  pose proof S as S'. vm_compute in S'. injection S' as S'.
  assert (HE : ExactP (core f') bridge_ex4_P) by (subst f'; apply ExactPb_sound; vm_compute; reflexivity).
  assert (HN : perm_nz (core f')) by (subst f'; apply perm_nzb_sound; vm_compute; reflexivity).
  exists f'. split; [reflexivity|]. split; [exact HE|]. split; [exact HN|]. intros c Hc.
  apply (single_worker_unit_exactP _ _ _ _ _ _ c I F S HE HN); subst f'; [reflexivity|cbn; lia].
Qed.

(* a certified run (the one of theorems/C05.v, with the exact matrix of the state reached):
   conservation with no hypothesis on permanents or column sums *)
Definition Wnonnegb (s : rstate) : bool := forallb (forallb (fun z => (0 <=? z)%Z)) (W s).

Lemma Wnonnegb_sound s : Wnonnegb s = true -> Wnonneg s.
Proof.
  intros H. apply Wnonneg_of_entries. apply Forall_forall. intros row Hr. apply Forall_forall. intros z Hz.
  unfold Wnonnegb in H. rewrite forallb_forall in H. specialize (H row Hr).
  rewrite forallb_forall in H. apply Z.leb_le. now apply H.
Qed.

Fixpoint Pexact_mb (f : fstate) (ops : list (op * list (list nat))) : bool :=
  match ops with
  | [] => true
  | (o, ws) :: r =>
      match step_m f o ws with
      | None => true
      | Some f1 =>
          match o with
          | OpTreat _ _ _ P => ExactPb (core f1) P && Wnonnegb (core f1)
          | _ => true
          end && Pexact_mb f1 r
      end
  end.

Lemma Pexact_mb_sound : forall ops f, Pexact_mb f ops = true -> Pexact_m f ops.
Proof.
  induction ops as [|[o ws] r IH]; intros f H; cbn [Pexact_mb Pexact_m] in *; [exact Logic.I|].
  destruct (step_m f o ws) as [f1|]; [|exact Logic.I].
  apply andb_true_iff in H as [H1 H2]. split; [|now apply IH].
  destruct o as [? ?|? ? ?|q acc rows P]; try exact Logic.I.
  apply andb_true_iff in H1 as [A B]. split; [now apply ExactPb_sound|now apply Wnonnegb_sound].
Qed.

Definition bridge_ex5 : fstate :=
  mkFS (mkR [[1;0;0;0]; [0;1;1;0]; [0;1;1;0]; [0;0;0;0]]%Z [0;1;2;0] [false;false;false;true] [] 3)
       [(0, [0;0;0;0]%Q); (1, [0;0;0;0]%Q); (2, [0;0;0;0]%Q)] [] 0.

Definition bridge_ex5_ops : list (op * list (list nat)) :=
  [(OpPick (mkPick 2 1 None) 0, [[0;2;1;0]]);
   (OpTreat 0 true [[0;1;0;0]%Z] [[1;0;0;0]; [0;1;0;0]; [0;0;1;0]; [0;0;0;0]]%Q, [])].

Lemma bridge_ex5_InvM : InvM bridge_ex5.
Proof.
  split.
  - constructor; cbn.
    + constructor; cbn; auto.
    + intros jb [].
    + constructor.
    + intros c Hc. assert (E : c = 0 \/ c = 1 \/ c = 2) by lia. unfold is_locked. cbn.
      destruct E as [-> | [-> | ->]]; discriminate.
    + intros a b Ha Hb. assert (Ea : a = 0 \/ a = 1 \/ a = 2) by lia. assert (Eb : b = 0 \/ b = 1 \/ b = 2) by lia.
      destruct Ea as [-> | [-> | ->]]; destruct Eb as [-> | [-> | ->]]; cbn; intros E; try reflexivity; discriminate.
    + intros a Ha. assert (Ea : a = 0 \/ a = 1 \/ a = 2) by lia. destruct Ea as [-> | [-> | ->]]; cbn; lia.
    + constructor.
  - exists [0;1;2;0]. apply matb_mat. vm_compute. reflexivity.
Qed.

Example bridge_ex5_certified :
  exists fe, run_m bridge_ex5 bridge_ex5_ops = Some fe /\
    forall c, c < 3 -> (total c fe == total c bridge_ex5 + 1)%Q.
Proof.
  destruct (run_m bridge_ex5 bridge_ex5_ops) as [fe|] eqn:R; [|vm_compute in R; discriminate].
  exists fe. split; [reflexivity|]. intros c Hc.
  assert (F : FInv bridge_ex5).
  { constructor; cbn.
    - intros k v [E|[E|[E|[]]]]; injection E as <- <-; reflexivity.
    - intros k [<-|[<-|[<-|[]]]]; lia.
    - repeat constructor; cbn; intuition lia. }
  assert (He : Pexact_m bridge_ex5 bridge_ex5_ops) by (apply Pexact_mb_sound; vm_compute; reflexivity).
  assert (Hs : idle_steps c bridge_ex5 (map fst bridge_ex5_ops) = Some (fe, 1)).
  { pose proof R as R'. vm_compute in R'. injection R' as R'. subst fe.
    destruct c as [|[|[|c]]]; [vm_compute; reflexivity ..|lia]. }
  destruct (conservation_certified _ _ _ bridge_ex5_InvM F R He c fe 1 Hs) as (T & _).
  rewrite T. reflexivity.
Qed.

Print Assumptions ExactP_iff.
Print Assumptions ExactP_Pcols.
Print Assumptions ExactP_Pcols_matchable.
Print Assumptions treat_conservation_unit_exactP.
Print Assumptions single_worker_unit_exactP.
Print Assumptions conservation_exactP.
Print Assumptions treat_conservation_unit_matchable.
Print Assumptions conservation_certified.
Print Assumptions bridge_ex4_conservation.
Print Assumptions bridge_ex4_unit.
Print Assumptions bridge_ex5_certified.
