(* Bounded, by computation: on EVERY 0/1 staircase state with up to 5 plus-ensembles, in every
   row order and with every set of busy ensembles, the model of inf_retis returns exactly
   Pspec on the idle block and zero on busy rows and columns. *)
From Coq Require Import ZArith QArith List Bool Arith Lia.
From Inf Require Import model.PermM spec.PermS proofs.PermP.
Import ListNotations.
Open Scope Q_scope.

Lemma sweep01_1 : forall rp, sweep01 rp 1 = true. Proof. intro rp. vm_compute. reflexivity. Qed.
Lemma sweep01_2 : forall rp, sweep01 rp 2 = true. Proof. intro rp. vm_compute. reflexivity. Qed.
Lemma sweep01_3 : forall rp, sweep01 rp 3 = true. Proof. intro rp. vm_compute. reflexivity. Qed.
Lemma sweep01_4 : forall rp, sweep01 rp 4 = true. Proof. intro rp. vm_compute. reflexivity. Qed.
Lemma sweep01_5 : forall rp, sweep01 rp 5 = true. Proof. intro rp. vm_compute. reflexivity. Qed.

Lemma sweep01_le5 : forall rp m, (1 <= m <= 5)%nat -> sweep01 rp m = true.
Proof.
  intros rp m Hm.
  destruct m as [|[|[|[|[|[|m]]]]]]; try lia;
    [apply sweep01_1 | apply sweep01_2 | apply sweep01_3 | apply sweep01_4 | apply sweep01_5].
Qed.

Theorem inf_retis_eq_Pspec_staircase01_5 : forall rp m ks lk,
  (1 <= m <= 5)%nat ->
  length ks = m -> (forall k, In k ks -> (1 <= k <= m)%nat) ->
  length lk = S m ->
  refines_Pspec rp (stair_matrix ks) (lk ++ [true]).
Proof.
  intros rp m ks lk Hm. exact (sweep01_sound rp m (sweep01_le5 rp m Hm) ks lk).
Qed.
