(* Proofs about the specification-level permanent of coq/spec/PermS.v:
   extensionality, row scaling, Laplace-style expansion along any row / column,
   transpose invariance, and the row / column sums of Pspec. *)
From Coq Require Import QArith List Arith Lia Setoid Morphisms.
From Inf Require Import spec.PermS.
Open Scope Q_scope.

(* ------------------------------------------------------------------ *)
(* Unfolding equations                                                  *)

Lemma qsum_S : forall n f, qsum (S n) f = qsum n f + f n.
Proof. reflexivity. Qed.

Lemma perm_S : forall n M,
  perm (S n) M = qsum (S n) (fun j => M O j * perm n (minor 0 j M)).
Proof. reflexivity. Qed.

(* ------------------------------------------------------------------ *)
(* Index arithmetic for skip                                            *)

Definition unskip (j b : nat) : nat := if (b <? j)%nat then b else pred b.

(* destruct every [<?] / [=?] test whose arguments are if-free *)
Ltac no_if t :=
  lazymatch t with
  | context [if _ then _ else _] => fail
  | _ => idtac
  end.

Ltac dtests :=
  repeat match goal with
  | |- context [(?a <? ?b)%nat] =>
      no_if a; no_if b; destruct (Nat.ltb_spec a b); cbv iota
  | |- context [(?a =? ?b)%nat] =>
      no_if a; no_if b; destruct (Nat.eqb_spec a b); cbv iota
  end.

Lemma skip_0 : forall a, skip 0 a = S a.
Proof. reflexivity. Qed.

Lemma skip_S_0 : forall i, skip (S i) 0 = O.
Proof. reflexivity. Qed.

Lemma skip_S_S : forall i a, skip (S i) (S a) = S (skip i a).
Proof. intros i a. unfold skip. dtests; lia. Qed.

Lemma skip_lt_S : forall n k b, (b < n)%nat -> (skip k b < S n)%nat.
Proof. intros n k b H. unfold skip. dtests; lia. Qed.

Lemma skip_neq : forall i a, skip i a <> i.
Proof. intros i a. unfold skip. dtests; lia. Qed.

Lemma unskip_skip : forall j k, unskip j (skip j k) = k.
Proof. intros j k. unfold unskip, skip. dtests; lia. Qed.

Lemma skip_skip_unskip : forall l m y,
  skip (skip l m) (skip (unskip (skip l m) l) y) = skip l (skip m y).
Proof. intros l m y. unfold unskip, skip. dtests; lia. Qed.

(* ------------------------------------------------------------------ *)
(* qsum                                                                 *)

Lemma qsum_ext : forall n f g,
  (forall k, (k < n)%nat -> f k == g k) -> qsum n f == qsum n g.
Proof.
  induction n as [|n IH]; intros f g H.
  - reflexivity.
  - rewrite !qsum_S. rewrite (IH f g).
    + rewrite (H n); [reflexivity | lia].
    + intros k Hk. apply H. lia.
Qed.

Lemma qsum_plus : forall n f g,
  qsum n (fun k => f k + g k) == qsum n f + qsum n g.
Proof.
  induction n as [|n IH]; intros f g.
  - simpl. ring.
  - rewrite !qsum_S. rewrite IH. ring.
Qed.

Lemma qsum_scale : forall n c f,
  qsum n (fun k => c * f k) == c * qsum n f.
Proof.
  induction n as [|n IH]; intros c f.
  - simpl. ring.
  - rewrite !qsum_S. rewrite IH. ring.
Qed.

Lemma qsum_zero : forall n, qsum n (fun _ => 0) == 0.
Proof.
  induction n as [|n IH].
  - reflexivity.
  - rewrite qsum_S. rewrite IH. ring.
Qed.

Lemma qsum_swap : forall n m (f : nat -> nat -> Q),
  qsum n (fun a => qsum m (fun b => f a b)) ==
  qsum m (fun b => qsum n (fun a => f a b)).
Proof.
  induction n as [|n IH]; intros m f.
  - simpl. symmetry. apply qsum_zero.
  - rewrite qsum_S. rewrite IH. rewrite <- qsum_plus.
    apply qsum_ext. intros k Hk. rewrite qsum_S. reflexivity.
Qed.

Lemma qsum_shift : forall n f,
  qsum (S n) f == f O + qsum n (fun k => f (S k)).
Proof.
  induction n as [|n IH]; intros f.
  - simpl. ring.
  - rewrite qsum_S. rewrite IH. rewrite (qsum_S n). ring.
Qed.

Lemma qsum_skip : forall n j h, (j <= n)%nat ->
  qsum n (fun k => h (skip j k)) ==
  qsum (S n) (fun b => if (b =? j)%nat then 0 else h b).
Proof.
  induction n as [|n IH]; intros j h Hj.
  - assert (j = O) by lia. subst j. simpl. ring.
  - rewrite (qsum_S n). rewrite (qsum_S (S n)).
    destruct (Nat.eq_dec j (S n)) as [E | NE].
    + subst j. rewrite Nat.eqb_refl.
      transitivity (qsum n h + h n).
      * apply Qplus_comp.
        -- apply qsum_ext. intros k Hk. unfold skip.
           destruct (Nat.ltb_spec k (S n)); [reflexivity | lia].
        -- unfold skip. destruct (Nat.ltb_spec n (S n)); [reflexivity | lia].
      * rewrite <- (qsum_S n h).
        transitivity (qsum (S n) (fun b => if (b =? S n)%nat then 0 else h b)).
        -- apply qsum_ext. intros k Hk.
           destruct (Nat.eqb_spec k (S n)); [lia | reflexivity].
        -- ring.
    + rewrite (IH j h) by lia.
      apply Qplus_comp; [reflexivity |].
      unfold skip. destruct (Nat.ltb_spec n j); [lia |].
      destruct (Nat.eqb_spec (S n) j); [lia | reflexivity].
Qed.

(* double sums over ordered pairs of distinct indices, indexed two ways *)
Lemma qsum_pairs : forall n (g : nat -> nat -> Q),
  qsum (S n) (fun j => qsum n (fun k => g j (skip j k))) ==
  qsum (S n) (fun l => qsum n (fun m => g (skip l m) l)).
Proof.
  intros n g.
  transitivity (qsum (S n) (fun a => qsum (S n)
                  (fun b => if (a =? b)%nat then 0 else g a b))).
  - apply qsum_ext. intros j Hj.
    rewrite (qsum_skip n j (g j)) by lia.
    apply qsum_ext. intros b Hb. rewrite (Nat.eqb_sym b j). reflexivity.
  - rewrite qsum_swap.
    apply qsum_ext. intros l Hl.
    rewrite (qsum_skip n l (fun a => g a l)) by lia.
    reflexivity.
Qed.

(* ------------------------------------------------------------------ *)
(* perm: extensionality                                                 *)

Lemma perm_ext : forall n M M',
  (forall a b, (a < n)%nat -> (b < n)%nat -> M a b == M' a b) ->
  perm n M == perm n M'.
Proof.
  induction n as [|n IH]; intros M M' H.
  - reflexivity.
  - rewrite !perm_S. apply qsum_ext. intros k Hk.
    apply Qmult_comp.
    + apply H; lia.
    + apply IH. intros a b Ha Hb. unfold minor.
      apply H.
      * rewrite (skip_0 a). lia.
      * apply skip_lt_S. exact Hb.
Qed.

Lemma Pspec_zero_weight : forall n W i j, W i j == 0 -> Pspec n W i j == 0.
Proof.
  intros n W i j H. unfold Pspec, Qdiv. rewrite H. ring.
Qed.

(* ------------------------------------------------------------------ *)
(* Scaling one row                                                      *)

Lemma perm_scale_row : forall n W k c, (k < n)%nat ->
  perm n (scale_row k c W) == c * perm n W.
Proof.
  induction n as [|n IH]; intros W k c Hk.
  - lia.
  - rewrite !perm_S. rewrite <- qsum_scale.
    apply qsum_ext. intros j Hj.
    destruct k as [|k'].
    + transitivity (c * W O j * perm n (minor 0 j W)); [| ring].
      apply Qmult_comp.
      * reflexivity.
      * apply perm_ext. intros a b Ha Hb. reflexivity.
    + transitivity (W O j * (c * perm n (minor 0 j W))); [| ring].
      apply Qmult_comp.
      * reflexivity.
      * rewrite <- (IH (minor 0 j W) k' c) by lia.
        apply perm_ext. intros a b Ha Hb. reflexivity.
Qed.

(* ------------------------------------------------------------------ *)
(* Expansion along an arbitrary row                                     *)

Lemma perm_expand_row : forall n W i, (i < n)%nat ->
  perm n W == qsum n (fun j => W i j * perm (pred n) (minor i j W)).
Proof.
  induction n as [|n IH]; intros W i Hi.
  - lia.
  - destruct i as [|i'].
    + rewrite perm_S. reflexivity.
    + destruct n as [|n']; [lia |].
      assert (Hi' : (i' < S n')%nat) by lia.
      change (pred (S (S n'))) with (S n').
      set (g := fun a b => W O a * W (S i') b *
                  perm n' (minor i' (unskip a b) (minor 0 a W))).
      transitivity (qsum (S (S n')) (fun j => qsum (S n')
                      (fun k => g j (skip j k)))).
      * rewrite perm_S. apply qsum_ext. intros j Hj.
        rewrite (IH (minor 0 j W) i' Hi').
        rewrite <- qsum_scale.
        apply qsum_ext. intros k Hk.
        change (pred (S n')) with n'.
        unfold g. rewrite unskip_skip.
        unfold minor at 1. rewrite (skip_0 i'). ring.
      * rewrite qsum_pairs.
        apply qsum_ext. intros l Hl.
        rewrite perm_S. rewrite <- qsum_scale.
        apply qsum_ext. intros m Hm.
        unfold g.
        unfold minor at 3. rewrite (skip_S_0 i').
        transitivity (W (S i') l * (W O (skip l m) *
           perm n' (minor i' (unskip (skip l m) l) (minor 0 (skip l m) W))));
          [ring |].
        apply Qmult_comp; [reflexivity |].
        apply Qmult_comp; [reflexivity |].
        apply perm_ext. intros a b Ha Hb.
        unfold minor.
        rewrite skip_skip_unskip.
        rewrite (skip_0 (skip i' a)), (skip_0 a). rewrite skip_S_S.
        reflexivity.
Qed.

(* ------------------------------------------------------------------ *)
(* Expansion along column 0, transpose, arbitrary column                *)

Lemma perm_expand_col0 : forall n W,
  perm (S n) W == qsum (S n) (fun i => W i O * perm n (minor i 0 W)).
Proof.
  induction n as [|n IH]; intros W.
  - rewrite perm_S. reflexivity.
  - rewrite perm_S.
    rewrite (qsum_shift (S n)).
    rewrite (qsum_shift (S n) (fun i => W i O * perm (S n) (minor i 0 W))).
    apply Qplus_comp; [reflexivity |].
    set (G := fun j i => W O (S j) * W (S i) O *
                perm n (minor i 0 (minor 0 (S j) W))).
    transitivity (qsum (S n) (fun j => qsum (S n) (fun i => G j i))).
    + apply qsum_ext. intros j Hj.
      rewrite (IH (minor 0 (S j) W)).
      rewrite <- qsum_scale.
      apply qsum_ext. intros i Hi.
      unfold G. unfold minor at 1. rewrite (skip_0 i), (skip_S_0 j). ring.
    + rewrite qsum_swap.
      apply qsum_ext. intros i Hi.
      rewrite perm_S. rewrite <- qsum_scale.
      apply qsum_ext. intros j Hj.
      unfold G. unfold minor at 3. rewrite (skip_0 j), (skip_S_0 i).
      transitivity (W (S i) O * (W O (S j) *
                      perm n (minor i 0 (minor 0 (S j) W)))); [ring |].
      apply Qmult_comp; [reflexivity |].
      apply Qmult_comp; [reflexivity |].
      apply perm_ext. intros a b Ha Hb.
      unfold minor.
      rewrite (skip_0 (skip i a)), (skip_0 b), (skip_0 a), (skip_0 (skip j b)).
      rewrite !skip_S_S. reflexivity.
Qed.

Lemma perm_transpose : forall n W, perm n (transpose W) == perm n W.
Proof.
  induction n as [|n IH]; intros W.
  - reflexivity.
  - rewrite (perm_expand_col0 n W). rewrite perm_S.
    apply qsum_ext. intros j Hj.
    apply Qmult_comp; [reflexivity |].
    change (minor 0 j (transpose W)) with (transpose (minor j 0 W)).
    apply IH.
Qed.

Lemma perm_expand_col : forall n W j, (j < n)%nat ->
  perm n W == qsum n (fun i => W i j * perm (pred n) (minor i j W)).
Proof.
  intros n W j Hj.
  rewrite <- (perm_transpose n W).
  rewrite (perm_expand_row n (transpose W) j Hj).
  apply qsum_ext. intros i Hi.
  apply Qmult_comp; [reflexivity |].
  change (minor j i (transpose W)) with (transpose (minor i j W)).
  apply perm_transpose.
Qed.

(* ------------------------------------------------------------------ *)
(* Pspec: rows and columns sum to one                                   *)

Lemma Pspec_row_sum : forall n W i, (i < n)%nat -> ~ perm n W == 0 ->
  qsum n (fun j => Pspec n W i j) == 1.
Proof.
  intros n W i Hi Hnz.
  transitivity (/ perm n W *
                qsum n (fun j => W i j * perm (pred n) (minor i j W))).
  - rewrite <- qsum_scale. apply qsum_ext. intros j Hj.
    unfold Pspec, Qdiv. ring.
  - rewrite <- (perm_expand_row n W i Hi). field. exact Hnz.
Qed.

Lemma Pspec_col_sum : forall n W j, (j < n)%nat -> ~ perm n W == 0 ->
  qsum n (fun i => Pspec n W i j) == 1.
Proof.
  intros n W j Hj Hnz.
  transitivity (/ perm n W *
                qsum n (fun i => W i j * perm (pred n) (minor i j W))).
  - rewrite <- qsum_scale. apply qsum_ext. intros i Hi.
    unfold Pspec, Qdiv. ring.
  - rewrite <- (perm_expand_col n W j Hj). field. exact Hnz.
Qed.

(* ------------------------------------------------------------------ *)
(* Pspec is invariant under scaling a row by a nonzero constant         *)

Lemma Pspec_scale_invariant : forall n W k c i j,
  ~ c == 0 -> (k < n)%nat -> (i < n)%nat -> (j < n)%nat ->
  Pspec n (scale_row k c W) i j == Pspec n W i j.
Proof.
  intros n W k c i j Hc Hk Hi Hj.
  unfold Pspec, Qdiv.
  rewrite (perm_scale_row n W k c Hk).
  rewrite Qinv_mult_distr.
  destruct (Nat.eq_dec i k) as [E | NE].
  - subst i.
    assert (Hm : perm (pred n) (minor k j (scale_row k c W)) ==
                 perm (pred n) (minor k j W)).
    { apply perm_ext. intros a b Ha Hb. unfold minor, scale_row.
      destruct (Nat.eqb_spec (skip k a) k) as [E | _].
      - exfalso. exact (skip_neq k a E).
      - reflexivity. }
    rewrite Hm.
    unfold scale_row at 1. rewrite Nat.eqb_refl.
    generalize (/ perm n W) as iP. intros iP.
    field. exact Hc.
  - set (k' := if (k <? i)%nat then k else pred k).
    assert (Hk' : (k' < pred n)%nat).
    { unfold k'. destruct (Nat.ltb_spec k i); lia. }
    assert (Hm : perm (pred n) (minor i j (scale_row k c W)) ==
                 c * perm (pred n) (minor i j W)).
    { rewrite <- (perm_scale_row (pred n) (minor i j W) k' c Hk').
      apply perm_ext. intros a b Ha Hb. unfold minor, scale_row.
      assert (Hb' : (skip i a =? k)%nat = (a =? k')%nat).
      { unfold k', skip. dtests; lia. }
      rewrite Hb'. reflexivity. }
    rewrite Hm.
    unfold scale_row at 1.
    destruct (Nat.eqb_spec i k) as [E | _]; [contradiction |].
    generalize (/ perm n W) as iP. intros iP.
    field. exact Hc.
Qed.

(* ------------------------------------------------------------------ *)
(* Swapping two adjacent rows                                           *)

Lemma perm_swap_adjacent_rows : forall n W i, (S i < n)%nat ->
  perm n (fun a b => W (if (a =? i)%nat then S i
                        else if (a =? S i)%nat then i else a) b) == perm n W.
Proof.
  induction n as [|n IH]; intros W i Hi.
  - lia.
  - destruct i as [|i'].
    + rewrite (perm_expand_row (S n) W 1%nat Hi).
      rewrite perm_S.
      apply qsum_ext. intros j Hj.
      apply Qmult_comp; [reflexivity |].
      change (pred (S n)) with n.
      apply perm_ext. intros a b Ha Hb. unfold minor.
      rewrite (skip_0 a).
      destruct a as [|a']; reflexivity.
    + rewrite !perm_S.
      apply qsum_ext. intros j Hj.
      apply Qmult_comp; [reflexivity |].
      rewrite <- (IH (minor 0 j W) i') by lia.
      apply perm_ext. intros a b Ha Hb. unfold minor.
      rewrite (skip_0 a).
      change (S a =? S i')%nat with (a =? i')%nat.
      change (S a =? S (S i'))%nat with (a =? S i')%nat.
      destruct (a =? i')%nat; [reflexivity |].
      destruct (a =? S i')%nat; reflexivity.
Qed.

(* ------------------------------------------------------------------ *)
(* Non-negativity                                                       *)

Lemma qsum_nonneg : forall n f,
  (forall k, (k < n)%nat -> 0 <= f k) -> 0 <= qsum n f.
Proof.
  induction n as [|n IH]; intros f H.
  - apply Qle_refl.
  - rewrite qsum_S.
    setoid_replace 0 with (0 + 0) by ring.
    apply Qplus_le_compat.
    + apply IH. intros k Hk. apply H. lia.
    + apply H. lia.
Qed.

Lemma perm_nonneg : forall n W,
  (forall a b, (a < n)%nat -> (b < n)%nat -> 0 <= W a b) -> 0 <= perm n W.
Proof.
  induction n as [|n IH]; intros W H.
  - simpl. discriminate.
  - rewrite perm_S. apply qsum_nonneg. intros k Hk.
    apply Qmult_le_0_compat.
    + apply H; lia.
    + apply IH. intros a b Ha Hb. unfold minor. apply H.
      * rewrite (skip_0 a). lia.
      * apply skip_lt_S. exact Hb.
Qed.

Lemma Pspec_nonneg : forall n W i j,
  (forall a b, (a < n)%nat -> (b < n)%nat -> 0 <= W a b) ->
  0 < perm n W -> (i < n)%nat -> (j < n)%nat ->
  0 <= Pspec n W i j.
Proof.
  intros n W i j H Hpos Hi Hj.
  unfold Pspec, Qdiv.
  apply Qmult_le_0_compat.
  - apply Qmult_le_0_compat.
    + apply H; assumption.
    + apply perm_nonneg. intros a b Ha Hb. unfold minor. apply H.
      * pose proof (skip_lt_S (pred n) i a Ha). lia.
      * pose proof (skip_lt_S (pred n) j b Hb). lia.
  - apply Qinv_le_0_compat. apply Qlt_le_weak. exact Hpos.
Qed.
