(* permanent_prob (model/PermM.v, the Glynn path of REPEX_state.inf_retis for non-uniform
   blocks of at most 12 paths) returns the exact permanent ratios Pspec, for every size n >= 2.

   Ingredients: every row is divided by its maximum (Pspec does not see row scalings:
   Pspec_scale_rows), entry (i,j) of the intermediate matrix [out] is
   scaled_ij * perm (minor i j scaled) by fast_glynn_eq_perm (PermGlynnGrayP.v), every row of
   [out] sums to perm n scaled (Laplace expansion along that row), so the maximum of the row
   sums is perm n scaled and the final division gives Pspec. *)
From Coq Require Import ZArith QArith List Bool Arith Lia Setoid Morphisms.
From Inf Require Import spec.PermS model.PermM proofs.PermSpecP proofs.PermQuickP
  proofs.PermQuickSpecP proofs.PermGlynnP proofs.PermGlynnGrayP.
Import ListNotations.
Open Scope Q_scope.

(* ------------------------------------------------------------------ *)
(* list helpers                                                         *)

Lemma remove_nth_nil : forall {A} i, remove_nth i (@nil A) = [].
Proof. intros A i. destruct i; reflexivity. Qed.

Lemma nth_remove_nth : forall {A} (d : A) l i a, nth a (remove_nth i l) d = nth (skip i a) l d.
Proof.
  intros A d. induction l as [|x l IH]; intros i a.
  - rewrite remove_nth_nil.
    destruct a; destruct (skip i _); reflexivity.
  - destruct i as [|i].
    + cbn [remove_nth]. rewrite skip_0. reflexivity.
    + cbn [remove_nth]. destruct a as [|a].
      * reflexivity.
      * rewrite skip_S_S. cbn [nth]. apply IH.
Qed.

Lemma remove_nth_length : forall {A} (l : list A) i, (i < length l)%nat ->
  length (remove_nth i l) = pred (length l).
Proof.
  intros A. induction l as [|x l IH]; intros i Hi; [cbn in Hi; lia|].
  destruct i as [|i]; [reflexivity|]. cbn [remove_nth length] in *.
  rewrite IH by lia. destruct l; cbn in *; lia.
Qed.

Lemma remove_nth_incl : forall {A} (l : list A) i x, In x (remove_nth i l) -> In x l.
Proof.
  intros A. induction l as [|y l IH]; intros i x H; [destruct i; exact H|].
  destruct i as [|i]; [right; exact H|]. cbn [remove_nth] in H. destruct H as [-> | H]; [now left|].
  right. exact (IH i x H).
Qed.

(* of_lists of the list-level minor is the spec-level minor, at every index *)
Lemma of_lists_minor_l : forall i j (M : matrix) a b,
  of_lists (minor_l i j M) a b = minor i j (of_lists M) a b.
Proof.
  intros i j M a b. unfold of_lists, minor, minor_l.
  pose proof (map_nth (remove_nth j) (remove_nth i M) [] a) as E. rewrite remove_nth_nil in E. rewrite E.
  rewrite nth_remove_nth. rewrite nth_remove_nth. reflexivity.
Qed.

Lemma square_minor_l : forall n (M : matrix) i j, square (S n) M -> (i < S n)%nat -> (j < S n)%nat ->
  square n (minor_l i j M).
Proof.
  intros n M i j [Hl Hr] Hi Hj. split.
  - unfold minor_l. rewrite map_length, remove_nth_length by lia. rewrite Hl. reflexivity.
  - unfold minor_l. rewrite Forall_forall in *. intros r Hin.
    apply in_map_iff in Hin as (r0 & <- & Hin). apply remove_nth_incl in Hin.
    specialize (Hr r0 Hin). rewrite remove_nth_length by lia. rewrite Hr. reflexivity.
Qed.

(* qmaxl picks one of the elements, and dominates all of them *)
Lemma fold_max_in : forall r x,
  In (fold_left (fun m y : Q => if Qle_bool y m then m else y) r x) (x :: r).
Proof.
  induction r as [|y r IH]; intros x; [now left|].
  cbn [fold_left]. destruct (Qle_bool y x).
  - destruct (IH x) as [E | E]; [left; exact E | right; right; exact E].
  - right. exact (IH y).
Qed.

Lemma qmaxl_in : forall l, l <> [] -> In (qmaxl l) l.
Proof. intros [|x r] H; [congruence|]. apply fold_max_in. Qed.

Lemma qmaxl_all_eq : forall l c, l <> [] -> (forall x, In x l -> x == c) -> qmaxl l == c.
Proof. intros l c Hne H. apply H. apply qmaxl_in. exact Hne. Qed.

Lemma fold_max_ge : forall r x,
  x <= fold_left (fun m y : Q => if Qle_bool y m then m else y) r x /\
  forall z, In z r -> z <= fold_left (fun m y : Q => if Qle_bool y m then m else y) r x.
Proof.
  induction r as [|y r IH]; intros x; [split; [apply Qle_refl | intros z []]|].
  cbn [fold_left]. destruct (Qle_bool y x) eqn:E.
  - apply Qle_bool_iff in E. destruct (IH x) as [H1 H2]. split; [exact H1|].
    intros z [<- | Hz]; [eapply Qle_trans; eassumption | apply H2; exact Hz].
  - assert (Hlt : x <= y).
    { destruct (Qlt_le_dec x y) as [L | L]; [apply Qlt_le_weak; exact L|].
      apply Qle_bool_iff in L. congruence. }
    destruct (IH y) as [H1 H2]. split; [eapply Qle_trans; eassumption|].
    intros z [<- | Hz]; [exact H1 | apply H2; exact Hz].
Qed.

Lemma qmaxl_ge : forall l x, In x l -> x <= qmaxl l.
Proof.
  intros [|y r] x H; [destruct H|]. unfold qmaxl. destruct (fold_max_ge r y) as [H1 H2].
  destruct H as [<- | H]; [exact H1 | apply H2; exact H].
Qed.

Lemma qmaxl_pos : forall l, (exists x, In x l /\ 0 < x) -> ~ qmaxl l == 0.
Proof.
  intros l (x & Hin & Hx) E. pose proof (qmaxl_ge l x Hin) as H. rewrite E in H.
  exact (Qlt_not_le _ _ Hx H).
Qed.

(* opt_all of a list of successes *)
Lemma opt_all_map : forall {A B} (f : A -> option B) (R : A -> B -> Prop) l,
  (forall x, In x l -> exists y, f x = Some y /\ R x y) ->
  exists ys, opt_all (map f l) = Some ys /\ Forall2 R l ys.
Proof.
  intros A B f R. induction l as [|x l IH]; intros H.
  - exists []. split; [reflexivity | constructor].
  - destruct (H x (or_introl eq_refl)) as (y & Hy & Rxy).
    destruct IH as (ys & Hys & HR); [intros z Hz; apply H; now right|].
    exists (y :: ys). split; [|constructor; assumption].
    cbn [map opt_all]. rewrite Hy, Hys. reflexivity.
Qed.

Lemma Forall2_seq_nth : forall {B} (R : nat -> B -> Prop) n ys d,
  Forall2 R (seq 0 n) ys ->
  length ys = n /\ forall i, (i < n)%nat -> R i (nth i ys d).
Proof.
  intros B R n ys d H. split.
  - apply Forall2_len in H. rewrite seq_length in H. symmetry. exact H.
  - intros i Hi. pose proof (Forall2_nth R (seq 0 n) ys O d i H) as G.
    rewrite seq_length in G. specialize (G Hi). rewrite seq_nth in G by exact Hi. exact G.
Qed.

(* ------------------------------------------------------------------ *)
(* the row-scaled matrix                                                *)

Definition scaled_of (arr : matrix) : matrix :=
  map (fun row => let mx := qmaxl row in map (fun x => Qred (x / mx)) row) arr.

Lemma rownth_scaled : forall arr i,
  rownth (scaled_of arr) i = map (fun x => Qred (x / qmaxl (rownth arr i))) (rownth arr i).
Proof.
  intros arr i. unfold rownth, scaled_of.
  exact (map_nth (fun row => let mx := qmaxl row in map (fun x => Qred (x / mx)) row) arr [] i).
Qed.

Lemma square_scaled : forall n arr, square n arr -> square n (scaled_of arr).
Proof.
  intros n arr [Hl Hr]. split; [unfold scaled_of; rewrite map_length; exact Hl|].
  unfold scaled_of. rewrite Forall_forall in *. intros r Hin.
  apply in_map_iff in Hin as (r0 & <- & Hin). cbv zeta. rewrite map_length. apply Hr. exact Hin.
Qed.

Lemma mget_scaled : forall n arr i j, square n arr -> (i < n)%nat -> (j < n)%nat ->
  mget (scaled_of arr) i j == / qmaxl (rownth arr i) * mget arr i j.
Proof.
  intros n arr i j Hsq Hi Hj. unfold mget at 1. rewrite rownth_scaled.
  rewrite qnth_map by (rewrite (square_row_length n arr i Hsq Hi); exact Hj).
  rewrite Qred_correct. unfold mget, Qdiv. ring.
Qed.

(* ------------------------------------------------------------------ *)
(* the main theorem                                                     *)

Lemma mget_map_map : forall (f : Q -> Q) (o : matrix) i j,
  (i < length o)%nat -> (j < length (rownth o i))%nat ->
  mget (map (map f) o) i j = f (mget o i j).
Proof.
  intros f o i j Hi Hj. unfold mget.
  assert (E : rownth (map (map f) o) i = map f (rownth o i)).
  { unfold rownth. exact (map_nth (map f) o [] i). }
  rewrite E. apply qnth_map. exact Hj.
Qed.

Theorem permanent_prob_eq_Pspec : forall n arr,
  (2 <= n)%nat -> square n arr ->
  Forall (fun row => ~ qmaxl row == 0) arr ->
  ~ perm n (of_lists arr) == 0 ->
  exists P, permanent_prob arr = Some P /\
            square n P /\
            forall i j, (i < n)%nat -> (j < n)%nat -> mget P i j == Pspec n (of_lists arr) i j.
Proof.
  intros n arr Hn Hsq Hmax Hperm.
  destruct n as [|n1]; [lia|].
  pose proof Hsq as [Hl Hr].
  set (w := fun a => / qmaxl (rownth arr a)).
  set (Sc := of_lists (scaled_of arr)).
  (* row maxima are non-zero *)
  assert (Hmx : forall a, (a < S n1)%nat -> ~ qmaxl (rownth arr a) == 0).
  { intros a Ha. rewrite Forall_forall in Hmax. apply Hmax. unfold rownth. apply nth_In. lia. }
  assert (Hw : forall a, (a < S n1)%nat -> ~ w a == 0).
  { intros a Ha E. unfold w in E. apply (Hmx a Ha).
    rewrite <- (Qinv_involutive (qmaxl (rownth arr a))). rewrite E. reflexivity. }
  assert (HSc : forall a b, (a < S n1)%nat -> (b < S n1)%nat -> Sc a b == w a * of_lists arr a b).
  { intros a b Ha Hb. exact (mget_scaled (S n1) arr a b Hsq Ha Hb). }
  assert (HpermSc : perm (S n1) Sc == qprod (S n1) w * perm (S n1) (of_lists arr)).
  { rewrite <- perm_scale_rows. apply perm_ext. exact HSc. }
  assert (HpermSc_nz : ~ perm (S n1) Sc == 0).
  { rewrite HpermSc. intros E. apply Qmult_integral in E. destruct E as [E | E].
    - revert E. apply qprod_nonzero. exact Hw.
    - exact (Hperm E). }
  unfold permanent_prob. cbv zeta.
  (* no zero maximum *)
  assert (Hex : existsb (fun m => Qeq_bool m 0) (map qmaxl arr) = false).
  { apply not_true_is_false. intros E. apply existsb_exists in E as (m & Hin & Em).
    apply in_map_iff in Hin as (r & <- & Hin). apply Qeq_bool_iff in Em.
    rewrite Forall_forall in Hmax. exact (Hmax r Hin Em). }
  rewrite Hex. fold (scaled_of arr). rewrite Hl.
  pose proof (square_scaled (S n1) arr Hsq) as Hsqs.
  (* the entries of [out] *)
  set (entry := fun i j : nat =>
         let w0 := mget (scaled_of arr) i j in
         if Qeq_bool w0 0 then Some 0
         else match fast_glynn_perm (minor_l i j (scaled_of arr)) with
              | None => None
              | Some f => Some (Qred (f * w0))
              end).
  assert (Hentry : forall i j, (i < S n1)%nat -> (j < S n1)%nat ->
            exists y, entry i j = Some y /\ y == Sc i j * perm n1 (minor i j Sc)).
  { intros i j Hi Hj. unfold entry. cbv zeta.
    destruct (Qeq_bool (mget (scaled_of arr) i j) 0) eqn:E.
    - exists 0. split; [reflexivity|]. apply Qeq_bool_iff in E.
      change (Sc i j) with (mget (scaled_of arr) i j). rewrite E. ring.
    - destruct (fast_glynn_eq_perm n1 (minor_l i j (scaled_of arr))) as (p & Hp & Ep);
        [lia | apply square_minor_l; assumption |].
      rewrite Hp. eexists. split; [reflexivity|]. rewrite Qred_correct, Ep.
      change (Sc i j) with (mget (scaled_of arr) i j).
      rewrite (perm_ext n1 (of_lists (minor_l i j (scaled_of arr))) (minor i j Sc)).
      + ring.
      + intros a b _ _. rewrite of_lists_minor_l. reflexivity. }
  (* rows of [out] *)
  set (Rrow := fun (i : nat) (row : list Q) =>
         length row = S n1 /\
         forall j, (j < S n1)%nat -> qnth row j == Sc i j * perm n1 (minor i j Sc)).
  destruct (opt_all_map (fun i => opt_all (map (entry i) (seq 0 (S n1)))) Rrow (seq 0 (S n1)))
    as (o & Ho & HRo).
  { intros i Hi. apply in_seq in Hi.
    destruct (opt_all_map (entry i)
                (fun j y => y == Sc i j * perm n1 (minor i j Sc)) (seq 0 (S n1))) as (row & Hrow & HR).
    { intros j Hj. apply in_seq in Hj. apply Hentry; lia. }
    exists row. split; [exact Hrow|].
    destruct (Forall2_seq_nth _ (S n1) row 0 HR) as [L1 L2]. split; [exact L1 | exact L2]. }
  match goal with
  | |- context [match ?X with Some _ => _ | None => _ end] =>
      change X with (opt_all (map (fun i => opt_all (map (entry i) (seq 0 (S n1)))) (seq 0 (S n1))))
  end.
  rewrite Ho.
  destruct (Forall2_seq_nth Rrow (S n1) o [] HRo) as [Lo Ro].
  (* every row sum is the permanent of the scaled matrix *)
  assert (Hsum : forall i, (i < S n1)%nat -> qsuml (rownth o i) == perm (S n1) Sc).
  { intros i Hi. destruct (Ro i Hi) as [L E]. fold (rownth o i) in L, E.
    rewrite PermQuickSpecP.qsuml_qsum, L.
    rewrite (perm_expand_row (S n1) Sc i Hi). apply qsum_ext. intros j Hj.
    rewrite (E j Hj). reflexivity. }
  assert (Hmx_eq : qmaxl (map qsuml o) == perm (S n1) Sc).
  { apply qmaxl_all_eq.
    - destruct o; [cbn in Lo; lia | discriminate].
    - intros x Hin. apply in_map_iff in Hin as (r & <- & Hin).
      apply (In_nth _ _ []) in Hin as (i & Hi & <-). apply Hsum. lia. }
  assert (Hq : Qeq_bool (qmaxl (map qsuml o)) 0 = false).
  { apply not_true_is_false. intros E. apply Qeq_bool_iff in E. rewrite Hmx_eq in E.
    exact (HpermSc_nz E). }
  rewrite Hq. eexists. split; [reflexivity|]. split.
  - split; [rewrite map_length; exact Lo|].
    rewrite Forall_forall. intros r Hin. apply in_map_iff in Hin as (r0 & <- & Hin).
    rewrite map_length. apply (In_nth _ _ []) in Hin as (i & Hi & <-).
    destruct (Ro i ltac:(lia)) as [L _]. exact L.
  - intros i j Hi Hj. destruct (Ro i Hi) as [L E]. fold (rownth o i) in L, E.
    rewrite mget_map_map by (rewrite ?L; lia).
    rewrite Qred_correct, Hmx_eq. unfold mget. rewrite (E j Hj).
    transitivity (Pspec (S n1) Sc i j); [reflexivity|].
    transitivity (Pspec (S n1) (fun a b => w a * of_lists arr a b) i j).
    + apply Pspec_ext; assumption.
    + apply Pspec_scale_rows; assumption.
Qed.

(* the same under the hypotheses the caller guarantees: non-negative weights are not even
   needed, a positive entry in every row is enough for the row maxima to be non-zero *)
Corollary permanent_prob_eq_Pspec_pos : forall n arr,
  (2 <= n)%nat -> square n arr ->
  Forall (fun row => exists x, In x row /\ 0 < x) arr ->
  ~ perm n (of_lists arr) == 0 ->
  exists P, permanent_prob arr = Some P /\
            square n P /\
            forall i j, (i < n)%nat -> (j < n)%nat -> mget P i j == Pspec n (of_lists arr) i j.
Proof.
  intros n arr Hn Hsq Hpos Hperm. apply permanent_prob_eq_Pspec; try assumption.
  rewrite Forall_forall in *. intros r Hin. apply qmaxl_pos. apply Hpos. exact Hin.
Qed.

(* hence the result is doubly stochastic (what the np.allclose assertions of inf_retis test) *)
Corollary permanent_prob_doubly_stochastic : forall n arr P,
  (2 <= n)%nat -> square n arr ->
  Forall (fun row => ~ qmaxl row == 0) arr ->
  ~ perm n (of_lists arr) == 0 ->
  permanent_prob arr = Some P ->
  (forall i, (i < n)%nat -> qsuml (rownth P i) == 1) /\
  (forall j, (j < n)%nat -> qsuml (col j P) == 1).
Proof.
  intros n arr P Hn Hsq Hmax Hperm HP.
  destruct (permanent_prob_eq_Pspec n arr Hn Hsq Hmax Hperm) as (P' & HP' & HsqP & HE).
  rewrite HP in HP'. injection HP' as <-. split.
  - intros i Hi. rewrite PermQuickSpecP.qsuml_qsum, (square_row_length n P i HsqP Hi).
    rewrite <- (Pspec_row_sum n (of_lists arr) i Hi Hperm). apply qsum_ext. intros j Hj.
    apply HE; assumption.
  - intros j Hj. rewrite PermQuickSpecP.qsuml_qsum. unfold col at 1. rewrite map_length.
    destruct HsqP as [LP RP]. rewrite LP.
    rewrite <- (Pspec_col_sum n (of_lists arr) j Hj Hperm). apply qsum_ext. intros i Hi.
    rewrite qnth_col by lia. apply HE; assumption.
Qed.

(* n = 1: the model returns None whatever the entry (fast_glynn_perm [] = None, i.e. Python's
   range(0.5) TypeError, or a zero division); inf_retis never calls permanent_prob with one
   row - 1x1 blocks are filled with 1 directly in block_step *)
Lemma permanent_prob_1x1_none : forall x, permanent_prob [[x]] = None.
Proof.
  intros x. unfold permanent_prob. cbv zeta. cbn [map existsb length seq orb opt_all].
  destruct (Qeq_bool (qmaxl [x]) 0); [reflexivity|].
  destruct (Qeq_bool (mget [[Qred (x / qmaxl [x])]] 0 0) 0).
  - reflexivity.
  - reflexivity.
Qed.

Print Assumptions permanent_prob_eq_Pspec.
Print Assumptions permanent_prob_eq_Pspec_pos.
Print Assumptions permanent_prob_doubly_stochastic.
Print Assumptions permanent_prob_1x1_none.
