(* Proofs for property C17: the scheduler completes exactly the requested number of moves for
   every completion order; the task runner executes every unit exactly once and delivers its
   own outcome exactly once in every interleaving. *)
From Coq Require Import ZArith List Bool Lia Permutation.
Import ListNotations.
From Inf Require Import base.ListX model.SchedM.
Open Scope nat_scope.

(* ------------------------------------------------------------------ helpers *)

Lemma remove_nth_perm {A} (d : A) : forall l i, i < length l -> Permutation (nth i l d :: remove_nth i l) l.
Proof.
  induction l as [|a l IH]; intros i Hi; cbn in Hi; [lia|].
  destruct i as [|i]; cbn; [reflexivity|].
  rewrite perm_swap. constructor. apply IH. lia.
Qed.

Lemma remove_nth_length {A} : forall (l : list A) i, i < length l -> length (remove_nth i l) = length l - 1.
Proof.
  induction l as [|a l IH]; intros i Hi; cbn in Hi; [lia|].
  destruct i as [|i]; cbn; [lia|]. rewrite IH by lia. lia.
Qed.

(* ------------------------------------------------------------------ initiate phase *)

(* the repaired initiate(): exactly min(W, steps left) jobs are started *)
Lemma init_phase_spec : forall j fuel s,
  (0 <= toinit s)%Z -> (toinit s <= Z.of_nat (workers s))%Z -> cstep s < tsteps s ->
  j = Nat.min (Z.to_nat (toinit s)) (tsteps s - cstep s - (workers s - Z.to_nat (toinit s))) ->
  workers s - Z.to_nat (toinit s) <= tsteps s - cstep s ->
  j < fuel ->
  exists s', init_phase fuel s = Some s' /\
    cstep s' = cstep s /\ tsteps s' = tsteps s /\ workers s' = workers s /\ toinit s' = (-1)%Z /\
    pending s' = pending s ++ seq (submitted s) j /\ submitted s' = submitted s + j /\
    completed s' = completed s /\ restart_cstep s' = restart_cstep s.
Proof.
  induction j as [|j IH]; intros fuel s H0 HWt Hc Hj Hst Hf; (destruct fuel as [|fuel]; [lia|]);
    unfold init_phase in *; cbn [init_phase_g]; unfold initiate_g.
  - pose proof Hc as Hc'. apply Nat.ltb_lt in Hc'. rewrite Hc'. cbn [negb andb].
    (* nothing more to start: either toinitiate is 0 or the cap applies *)
    destruct ((0 <? toinit s)%Z) eqn:E0.
    + apply Z.ltb_lt in E0.
      assert (E1 : (toinit s <=? Z.of_nat (workers s) - Z.of_nat (tsteps s - cstep s))%Z = true) by (apply Z.leb_le; lia).
      rewrite E1. cbn [andb]. cbn.
      eexists. split; [reflexivity|]. cbn. rewrite app_nil_r, Nat.add_0_r. repeat split; auto.
    + apply Z.ltb_ge in E0. cbn [andb]. assert (Et : toinit s = 0%Z) by lia. rewrite Et. cbn.
      eexists. split; [reflexivity|]. cbn. rewrite app_nil_r, Nat.add_0_r. repeat split; auto.
  - pose proof Hc as Hc'. apply Nat.ltb_lt in Hc'. rewrite Hc'. cbn [negb andb].
    assert (E0 : (0 <? toinit s)%Z = true) by (apply Z.ltb_lt; lia). rewrite E0.
    assert (E1 : (toinit s <=? Z.of_nat (workers s) - Z.of_nat (tsteps s - cstep s))%Z = false) by (apply Z.leb_gt; lia).
    rewrite E1. cbn [andb].
    assert (E : (0 <=? toinit s - 1)%Z = true) by (apply Z.leb_le; lia). rewrite E.
    set (s1 := submit _).
    destruct (IH fuel s1) as (s' & R & A1 & A2 & A3 & A4 & A5 & A6 & A7 & A8).
    + cbn. lia.
    + cbn. lia.
    + cbn. exact Hc.
    + cbn. lia.
    + cbn. lia.
    + lia.
    + exists s'. split; [exact R|]. cbn in *. rewrite A5, A6, <- app_assoc. cbn.
      repeat split; auto; try lia.
Qed.

(* ------------------------------------------------------------------ main loop *)

Section Main.
  Variables c0 T W : nat.
  Hypothesis HW : 1 <= W.
  Hypothesis HD : c0 <= T.
  Let W' := Nat.min W (T - c0).

  Definition J (k : nat) (s : sch) : Prop :=
    cstep s = c0 + k /\ tsteps s = T /\ workers s = W /\ length (completed s) = k /\
    submitted s = W' + Nat.min k (T - c0 - W) /\
    Permutation (completed s ++ pending s) (seq 0 (submitted s)) /\
    restart_cstep s = c0 + k.

  Lemma main_loop_spec : forall d k s sched,
    J k s -> k + d = T - c0 ->
    exists s', main_loop (d + 2) s sched = Some s' /\
      cstep s' = T /\ length (completed s') = T - c0 /\ submitted s' = T - c0 /\ pending s' = [] /\
      Permutation (completed s') (seq 0 (T - c0)) /\ restart_cstep s' = T /\ restart_locked s' = [].
  Proof.
    induction d as [|d IH]; intros k s sched (J1 & J2 & J3 & J4 & J5 & J6 & J7) Hk.
    - (* all steps done: loop() returns False and writes the restart file *)
      cbn [main_loop Nat.add]. unfold loop. rewrite J1, J2.
      assert (E : T <=? c0 + k = true) by (apply Nat.leb_le; lia). rewrite E. cbn [negb].
      eexists. split; [reflexivity|]. cbn.
      assert (Hs : submitted s = T - c0) by lia.
      assert (Lp : length (completed s ++ pending s) = T - c0).
      { rewrite (Permutation_length J6), seq_length. exact Hs. }
      rewrite app_length in Lp.
      assert (Pe : pending s = []) by (destruct (pending s); [reflexivity|cbn in Lp; lia]).
      rewrite Pe, app_nil_r, Hs in J6.
      repeat split; auto; lia.
    - cbn [main_loop Nat.add]. unfold loop. rewrite J1, J2.
      assert (E : T <=? c0 + k = false) by (apply Nat.leb_gt; lia). rewrite E.
      cbn [set_cstep cstep tsteps]. rewrite ?J2.
      assert (E2 : S (c0 + k) <=? T = true) by (apply Nat.leb_le; lia). rewrite E2. cbn [negb].
      (* a future is pending *)
      assert (Lp : length (pending s) = submitted s - k).
      { pose proof (Permutation_length J6) as L. rewrite app_length, seq_length in L. lia. }
      assert (Np : 1 <= length (pending s)) by lia.
      set (i := hd 0 sched mod length (pending s)).
      assert (Hi : i < length (pending s)) by (apply Nat.mod_upper_bound; lia).
      set (s2 := write_toml (mkS (S (c0 + k)) (tsteps s) (workers s) (toinit s) (remove_nth i (pending s)) (submitted s)
                                 (completed s ++ [nth i (pending s) 0]) (restart_cstep s) (restart_locked s))).
      assert (Ec : complete (set_cstep s (S (c0 + k))) (hd 0 sched) = s2).
      { unfold complete, set_cstep. cbn [pending]. destruct (pending s) eqn:Ep; [cbn in Np; lia|]. reflexivity. }
      rewrite Ec.
      assert (P2 : Permutation (completed s2 ++ pending s2) (seq 0 (submitted s))).
      { cbn [s2 write_toml completed pending]. rewrite <- J6, <- app_assoc. apply Permutation_app_head. cbn [app].
        apply remove_nth_perm. exact Hi. }
      assert (F2 : cstep s2 = S (c0 + k) /\ tsteps s2 = T /\ workers s2 = W /\ submitted s2 = submitted s /\
                   length (completed s2) = S k /\ restart_cstep s2 = S (c0 + k)).
      { cbn [s2 write_toml cstep tsteps workers submitted completed restart_cstep]. rewrite app_length, J4. cbn. repeat split; auto; lia. }
      destruct F2 as (F21 & F22 & F23 & F24 & F25 & F26).
      rewrite F21, F22, F23.
      destruct (S (c0 + k) + W <=? T) eqn:Es.
      + apply Nat.leb_le in Es.
        apply (IH (S k) (submit s2) (tl sched)); [|lia].
        unfold J. cbn [submit cstep tsteps workers completed submitted pending restart_cstep].
        rewrite F21, F22, F23, F24, F25, F26.
        repeat split; auto; try lia.
        rewrite seq_S, app_assoc. cbn [Nat.add]. apply Permutation_app_tail. exact P2.
      + apply Nat.leb_gt in Es.
        apply (IH (S k) s2 (tl sched)); [|lia].
        unfold J. rewrite F21, F22, F23, F24, F25, F26.
        repeat split; auto; try lia.
  Qed.

  Theorem scheduler_steps_exact sched :
    exists s', scheduler c0 T W sched = Some s' /\
      cstep s' = T /\ length (completed s') = T - c0 /\ submitted s' = T - c0 /\ pending s' = [] /\
      Permutation (completed s') (seq 0 (T - c0)) /\ restart_cstep s' = T /\ restart_locked s' = [].
  Proof.
    unfold scheduler, scheduler_g. fold init_phase.
    destruct (Nat.eq_dec c0 T) as [Heq|Hne].
    { (* nothing left to do: no job is started *)
      assert (R : init_phase (W + 2) (start c0 T W) = Some (start c0 T W)).
      { replace (W + 2) with (S (W + 1)) by lia. unfold init_phase. cbn [init_phase_g]. unfold initiate_g. cbn [start cstep tsteps].
        assert (E : c0 <? T = false) by (apply Nat.ltb_ge; lia). rewrite E. reflexivity. }
      rewrite R. replace (T - c0 + 2) with (0 + 2) by lia.
      apply (main_loop_spec 0 0 (start c0 T W) sched); [|lia].
      unfold J, W'. cbn. replace (T - c0) with 0 by lia. rewrite Nat.min_0_r. repeat split; auto; lia. }
    destruct (init_phase_spec W' (W + 2) (start c0 T W)) as (s & R & A1 & A2 & A3 & A4 & A5 & A6 & A7 & A8).
    { cbn. lia. } { cbn. lia. } { cbn. lia. } { cbn. rewrite Nat2Z.id. unfold W'. lia. } { cbn. rewrite Nat2Z.id. lia. } { unfold W'. lia. }
    rewrite R. cbn in A1, A2, A3, A5, A6, A7, A8.
    replace (T - c0 + 2) with ((T - c0) + 2) by lia.
    apply (main_loop_spec (T - c0) 0 s sched); [|lia].
    unfold J. rewrite A1, A2, A3, A5, A6, A7, A8. cbn. repeat split; auto; try lia.
  Qed.
End Main.

(* after every completion the restart file records cstep = (start step) + number of completed
   moves: [complete] ends with write_toml, and between two completions cstep advances by one *)
Lemma complete_records s choice :
  pending s <> [] -> restart_cstep (complete s choice) = cstep s /\
  length (completed (complete s choice)) = S (length (completed s)).
Proof.
  intros H. unfold complete. destruct (pending s); [contradiction|]. cbn. rewrite app_length. cbn. lia.
Qed.

(* ------------------------------------------------------------------ task runner *)

Lemma fut_get_app u l a f : fut_get u l <> None -> fut_get u (l ++ [(a, f)]) = fut_get u l.
Proof.
  induction l as [|[b g] l IH]; cbn; [congruence|]. destruct (b =? u); auto.
Qed.

Lemma fut_get_app_new u l f : fut_get u l = None -> fut_get u (l ++ [(u, f)]) = Some f.
Proof.
  induction l as [|[b g] l IH]; cbn; [now rewrite Nat.eqb_refl|]. destruct (b =? u); [discriminate|auto].
Qed.

Lemma fut_get_set_same v f l g : fut_get v l = Some g -> fut_get v (fut_set v f l) = Some f.
Proof.
  induction l as [|[b h] l IH]; cbn; [discriminate|].
  destruct (Nat.eqb_spec b v) as [->|N]; cbn; [now rewrite Nat.eqb_refl|].
  destruct (Nat.eqb_spec b v); [contradiction|exact IH].
Qed.

Lemma fut_get_set_other u v f l : u <> v -> fut_get u (fut_set v f l) = fut_get u l.
Proof.
  intros N. induction l as [|[b h] l IH]; cbn; [reflexivity|].
  destruct (Nat.eqb_spec b v) as [->|Nv]; cbn.
  - destruct (Nat.eqb_spec v u); [congruence|reflexivity].
  - destruct (b =? u); [reflexivity|exact IH].
Qed.

Lemma first_done_spec fl fs u o : first_done fl fs = Some (u, o) -> In u fl /\ fut_get u fs = Some (FDone o).
Proof.
  induction fl as [|a r IH]; cbn; [discriminate|].
  destruct (fut_get a fs) as [[|o']|] eqn:G; intros H.
  - destruct (IH H). auto.
  - injection H as <- <-. auto.
  - destruct (IH H). auto.
Qed.

Lemma remove_first_perm u l : In u l -> Permutation l (u :: remove_first u l).
Proof.
  induction l as [|a l IH]; cbn; [tauto|]. destruct (Nat.eqb_spec a u) as [->|N]; intros H; [reflexivity|].
  destruct H as [H|H]; [contradiction|]. rewrite perm_swap. constructor. auto.
Qed.

Lemma in_set_nth_o {A} (x y : A) : forall l i, In x (set_nth_o i y l) -> x = y \/ In x l.
Proof.
  induction l as [|a l IH]; intros i H; [destruct i; contradiction|].
  destruct i as [|i]; cbn in H; destruct H as [H|H]; auto.
  - right. now right.
  - right. now left.
  - destruct (IH _ H); auto. right. now right.
Qed.

Lemma set_nth_o_in {A} (y : A) : forall l i, i < length l -> In y (set_nth_o i y l).
Proof.
  induction l as [|a l IH]; intros i H; cbn in H; [lia|]. destruct i; cbn; [now left|right; apply IH; lia].
Qed.

Lemma set_nth_o_keep {A} (x y z : A) : forall l i, nth_error l i = Some z -> x <> z -> In x l -> In x (set_nth_o i y l).
Proof.
  induction l as [|a l IH]; intros i Hn Hx Hin; [contradiction|].
  destruct i as [|i]; cbn in *.
  - injection Hn as ->. destruct Hin as [E|Hin]; [congruence|now right].
  - destruct Hin as [E|Hin]; [now left|right; eapply IH; eauto].
Qed.

Record RInv (r : runner) : Prop := {
  ri_lt_q : forall u, In u (queue r) -> u < next_unit r;
  ri_lt_e : forall u, In u (map fst (executed r)) -> u < next_unit r;
  ri_nd_qe : NoDup (queue r ++ map fst (executed r));
  ri_lt_f : forall u, In u (flist r) -> u < next_unit r;
  ri_lt_d : forall u, In u (map fst (delivered r)) -> u < next_unit r;
  ri_nd_fd : NoDup (flist r ++ map fst (delivered r));
  ri_deliv : forall u o, In (u, o) (delivered r) -> fut_get u (futs r) = Some (FDone o);
  ri_futs : forall u, u < next_unit r <-> fut_get u (futs r) <> None;
  ri_cover : forall u, u < next_unit r ->
             In u (queue r) \/ In (Some u) (busy r) \/ exists o, fut_get u (futs r) = Some (FDone o);
  ri_exec : forall u, u < next_unit r -> In u (queue r) \/ In u (map fst (executed r));
  ri_stop : stopping r = true -> queue r = []
}.

Lemma RInv_init w : RInv (runner_init w).
Proof.
  constructor; cbn [runner_init queue executed flist delivered futs busy next_unit stopping map app].
  - intros x [].
  - intros x [].
  - constructor.
  - intros x [].
  - intros x [].
  - constructor.
  - intros x o [].
  - intros x. cbn. split; [lia|congruence].
  - intros x Hx. lia.
  - intros x Hx. lia.
  - discriminate.
Qed.

Lemma NoDup_snoc_front {A} (l m : list A) x :
  NoDup (l ++ m) -> ~ In x (l ++ m) -> NoDup ((l ++ [x]) ++ m).
Proof.
  intros N H. rewrite <- app_assoc. cbn. apply NoDup_Add with (a := x) (l := l ++ m); [|constructor; assumption].
  apply Add_app.
Qed.

Theorem rstep_RInv r e r' : RInv r -> rstep r e = Some r' -> RInv r'.
Proof.
  intros I H. destruct e as [|w|w o| |]; cbn [rstep] in H.
  - (* submit *)
    destruct (stopping r) eqn:St; [discriminate|]. injection H as <-.
    assert (Fq : ~ In (next_unit r) (queue r ++ map fst (executed r))).
    { intros Hin. apply in_app_or in Hin as [Hin|Hin]; [apply (ri_lt_q _ I) in Hin|apply (ri_lt_e _ I) in Hin]; lia. }
    assert (Ff : ~ In (next_unit r) (flist r ++ map fst (delivered r))).
    { intros Hin. apply in_app_or in Hin as [Hin|Hin]; [apply (ri_lt_f _ I) in Hin|apply (ri_lt_d _ I) in Hin]; lia. }
    assert (Gn : fut_get (next_unit r) (futs r) = None).
    { destruct (fut_get (next_unit r) (futs r)) eqn:G; [|reflexivity].
      assert (next_unit r < next_unit r) by (apply (ri_futs _ I); congruence). lia. }
    constructor; cbn [queue executed flist delivered futs busy next_unit stopping].
    + intros u Hu. apply in_app_or in Hu as [Hu|[<-|[]]]; [apply (ri_lt_q _ I) in Hu|]; lia.
    + intros u Hu. apply (ri_lt_e _ I) in Hu. lia.
    + apply NoDup_snoc_front; [exact (ri_nd_qe _ I)|exact Fq].
    + intros u Hu. apply in_app_or in Hu as [Hu|[<-|[]]]; [apply (ri_lt_f _ I) in Hu|]; lia.
    + intros u Hu. apply (ri_lt_d _ I) in Hu. lia.
    + apply NoDup_snoc_front; [exact (ri_nd_fd _ I)|exact Ff].
    + intros u o Hu. rewrite fut_get_app; [apply (ri_deliv _ I); exact Hu|].
      rewrite (ri_deliv _ I _ _ Hu). discriminate.
    + intros u. destruct (Nat.eq_dec u (next_unit r)) as [->|N].
      * rewrite fut_get_app_new by exact Gn. split; [discriminate|lia].
      * split.
        -- intros Hu. assert (Hl : u < next_unit r) by lia. apply (ri_futs _ I) in Hl.
           rewrite fut_get_app by exact Hl. exact Hl.
        -- intros Hg. destruct (fut_get u (futs r)) eqn:G.
           ++ assert (u < next_unit r) by (apply (ri_futs _ I); congruence). lia.
           ++ exfalso. clear - G Hg N. induction (futs r) as [|[b g] l IH]; cbn in *.
              ** destruct (Nat.eqb_spec (next_unit r) u); congruence.
              ** destruct (b =? u); [discriminate|auto].
    + intros u Hu. destruct (Nat.eq_dec u (next_unit r)) as [->|N].
      * left. apply in_or_app. right. now left.
      * destruct (ri_cover _ I u ltac:(lia)) as [C|[C|(o & C)]].
        -- left. apply in_or_app. now left.
        -- right. now left.
        -- right. right. exists o. rewrite fut_get_app; [exact C|congruence].
    + intros u Hu. destruct (Nat.eq_dec u (next_unit r)) as [->|N].
      * left. apply in_or_app. right. now left.
      * destruct (ri_exec _ I u ltac:(lia)) as [C|C]; [left; apply in_or_app; now left|now right].
    + discriminate.
  - (* take *)
    destruct (nth_error (busy r) w) as [[u0|]|] eqn:Hb; try discriminate.
    destruct (queue r) as [|u q] eqn:Eq; [discriminate|].
    destruct (stopping r) eqn:St; [discriminate|]. injection H as <-.
    assert (Lw : w < length (busy r)) by (apply nth_error_Some; congruence).
    pose proof (ri_nd_qe _ I) as Nd. rewrite Eq in Nd.
    constructor; cbn [queue executed flist delivered futs busy next_unit stopping].
    + intros x Hx. apply (ri_lt_q _ I). rewrite Eq. now right.
    + intros x Hx. rewrite map_app in Hx. apply in_app_or in Hx as [Hx|[<-|[]]].
      * now apply (ri_lt_e _ I).
      * apply (ri_lt_q _ I). rewrite Eq. now left.
    + rewrite map_app. cbn [map fst].
      eapply Permutation_NoDup; [|exact Nd]. cbn [app].
      rewrite app_assoc. apply Permutation_cons_append.
    + exact (ri_lt_f _ I).
    + exact (ri_lt_d _ I).
    + exact (ri_nd_fd _ I).
    + exact (ri_deliv _ I).
    + exact (ri_futs _ I).
    + intros x Hx. destruct (ri_cover _ I x Hx) as [C|[C|C]].
      * rewrite Eq in C. destruct C as [<-|C]; [right; left; now apply set_nth_o_in|now left].
      * right. left. eapply set_nth_o_keep; eauto. discriminate.
      * right. now right.
    + intros x Hx. destruct (ri_exec _ I x Hx) as [C|C].
      * rewrite Eq in C. destruct C as [<-|C]; [right|now left]. rewrite map_app. apply in_or_app. right. now left.
      * right. rewrite map_app. apply in_or_app. now left.
    + discriminate.
  - (* finish *)
    destruct (nth_error (busy r) w) as [[u|]|] eqn:Hb; try discriminate.
    destruct (fut_get u (futs r)) as [[|o']|] eqn:G; try discriminate. injection H as <-.
    constructor; cbn [queue executed flist delivered futs busy next_unit stopping].
    + exact (ri_lt_q _ I).
    + exact (ri_lt_e _ I).
    + exact (ri_nd_qe _ I).
    + exact (ri_lt_f _ I).
    + exact (ri_lt_d _ I).
    + exact (ri_nd_fd _ I).
    + intros x ox Hx. pose proof (ri_deliv _ I _ _ Hx) as D.
      assert (x <> u) by (intros ->; congruence). rewrite fut_get_set_other by assumption. exact D.
    + intros x. destruct (Nat.eq_dec x u) as [->|N].
      * rewrite (fut_get_set_same _ _ _ _ G). split; [discriminate|]. intros _. apply (ri_futs _ I). congruence.
      * rewrite fut_get_set_other by assumption. exact (ri_futs _ I x).
    + intros x Hx. destruct (Nat.eq_dec x u) as [->|N].
      * right. right. exists o. exact (fut_get_set_same _ _ _ _ G).
      * destruct (ri_cover _ I x Hx) as [C|[C|(ox & C)]].
        -- now left.
        -- right. left. eapply set_nth_o_keep; eauto. congruence.
        -- right. right. exists ox. rewrite fut_get_set_other by assumption. exact C.
    + exact (ri_exec _ I).
    + exact (ri_stop _ I).
  - (* deliver *)
    destruct (first_done (flist r) (futs r)) as [[u o]|] eqn:Fd; [|discriminate]. injection H as <-.
    apply first_done_spec in Fd as (Hin & Hg).
    pose proof (remove_first_perm _ _ Hin) as Pm.
    constructor; cbn [queue executed flist delivered futs busy next_unit stopping].
    + exact (ri_lt_q _ I).
    + exact (ri_lt_e _ I).
    + exact (ri_nd_qe _ I).
    + intros x Hx. apply (ri_lt_f _ I). eapply Permutation_in; [apply Permutation_sym; exact Pm|now right].
    + intros x Hx. rewrite map_app in Hx. apply in_app_or in Hx as [Hx|[<-|[]]]; [now apply (ri_lt_d _ I)|now apply (ri_lt_f _ I)].
    + rewrite map_app. cbn [map fst].
      eapply Permutation_NoDup; [|exact (ri_nd_fd _ I)].
      transitivity ((u :: remove_first u (flist r)) ++ map fst (delivered r)); [apply Permutation_app_tail; exact Pm|].
      cbn [app]. rewrite app_assoc. apply Permutation_cons_append.
    + intros x ox Hx. apply in_app_or in Hx as [Hx|[E|[]]]; [now apply (ri_deliv _ I)|]. injection E as <- <-. exact Hg.
    + exact (ri_futs _ I).
    + exact (ri_cover _ I).
    + exact (ri_exec _ I).
    + exact (ri_stop _ I).
  - (* stop *)
    destruct (queue r) eqn:Eq; [|discriminate]. injection H as <-.
    constructor; cbn [queue executed flist delivered futs busy next_unit stopping].
    + intros u [].
    + exact (ri_lt_e _ I).
    + pose proof (ri_nd_qe _ I) as N. now rewrite Eq in N.
    + exact (ri_lt_f _ I).
    + exact (ri_lt_d _ I).
    + exact (ri_nd_fd _ I).
    + exact (ri_deliv _ I).
    + exact (ri_futs _ I).
    + intros x Hx. destruct (ri_cover _ I x Hx) as [C|C]; [rewrite Eq in C; contradiction|now right].
    + intros x Hx. destruct (ri_exec _ I x Hx) as [C|C]; [rewrite Eq in C; contradiction|now right].
    + reflexivity.
Qed.

Theorem rrun_RInv es : forall r r', RInv r -> rrun r es = Some r' -> RInv r'.
Proof.
  induction es as [|e es IH]; intros r r' I H; cbn in H.
  - injection H as <-. exact I.
  - destruct (rstep r e) as [r1|] eqn:S; [|discriminate]. eapply IH; [|exact H]. eapply rstep_RInv; eauto.
Qed.

(* the statement of the property on the runner *)
Theorem runner_exactly_once w es r :
  rrun (runner_init w) es = Some r ->
  NoDup (map fst (executed r)) /\                         (* no unit is executed twice *)
  NoDup (map fst (delivered r)) /\                        (* no result is delivered twice *)
  (forall u o, In (u, o) (delivered r) -> fut_get u (futs r) = Some (FDone o)) /\
  (quiescent r = true ->                                  (* after a clean shutdown ... *)
     queue r = [] /\
     forall u, u < next_unit r ->                         (* ... every submitted unit *)
       In u (map fst (executed r)) /\                     (* was executed *)
       exists o, fut_get u (futs r) = Some (FDone o)).    (* and its future holds its outcome *)
Proof.
  intros H. pose proof (rrun_RInv es _ _ (RInv_init w) H) as I.
  split; [eapply NoDup_app_r; exact (ri_nd_qe _ I)|].
  split; [eapply NoDup_app_r; exact (ri_nd_fd _ I)|].
  split; [exact (ri_deliv _ I)|].
  intros Q. unfold quiescent in Q. apply andb_true_iff in Q as [St Bz].
  pose proof (ri_stop _ I St) as Eq. split; [exact Eq|].
  intros u Hu. split.
  - destruct (ri_exec _ I u Hu) as [C|C]; [rewrite Eq in C; contradiction|exact C].
  - destruct (ri_cover _ I u Hu) as [C|[C|C]]; [rewrite Eq in C; contradiction| |exact C].
    rewrite forallb_forall in Bz. specialize (Bz _ C). discriminate.
Qed.

(* a resolved future never changes: the outcome is set exactly once *)
Theorem future_set_once r e r' u o :
  rstep r e = Some r' -> fut_get u (futs r) = Some (FDone o) -> fut_get u (futs r') = Some (FDone o).
Proof.
  intros H G. destruct e as [|w|w o2| |]; cbn [rstep] in H.
  - destruct (stopping r); [discriminate|]. injection H as <-. cbn. rewrite fut_get_app; [exact G|congruence].
  - destruct (nth_error (busy r) w) as [[?|]|]; try discriminate. destruct (queue r); [discriminate|].
    destruct (stopping r); [discriminate|]. injection H as <-. exact G.
  - destruct (nth_error (busy r) w) as [[v|]|]; try discriminate.
    destruct (fut_get v (futs r)) as [[|?]|] eqn:Gv; try discriminate. injection H as <-. cbn.
    assert (u <> v) by (intros ->; congruence). rewrite fut_get_set_other by assumption. exact G.
  - destruct (first_done _ _) as [[? ?]|]; [|discriminate]. injection H as <-. exact G.
  - destruct (queue r); [|discriminate]. injection H as <-. exact G.
Qed.
