(* Bounded, by computation: every 0/1 staircase state with exactly 6 plus-ensembles whose live
   paths are stored in non-decreasing order of support, with every set of busy ensembles. *)
From Coq Require Import ZArith QArith List Bool Arith Lia.
From Inf Require Import model.PermM spec.PermS proofs.PermP.
Import ListNotations.
Open Scope Q_scope.

Lemma sweep01_sorted_6 : forall rp, sweep01_sorted rp 6 = true.
Proof. intro rp. vm_compute. reflexivity. Qed.

Theorem inf_retis_eq_Pspec_staircase01_sorted_6 : forall rp ks lk,
  length ks = 6%nat -> nondecr 1 ks -> (forall k, In k ks -> (k <= 6)%nat) ->
  length lk = 7%nat ->
  refines_Pspec rp (stair_matrix ks) (lk ++ [true]).
Proof.
  intros rp ks lk. exact (sweep01_sorted_sound rp 6 (sweep01_sorted_6 rp) ks lk).
Qed.
