(* Bounded, by computation: every 0/1 staircase state with exactly 6 plus-ensembles whose live
   paths are stored in non-decreasing order of support, with every set of busy ensembles. *)
From Coq Require Import ZArith QArith List Bool Arith Lia.
From Inf Require Import model.PermM spec.PermS proofs.PermP.
Import ListNotations.
Open Scope Q_scope.

Lemma sweep01_sorted_6 : forall rp, sweep01_sorted rp 6 = true.
Proof. intro rp. vm_compute. reflexivity. Qed.

Theorem inf_retis_eq_Pspec_staircase01_sorted_6 : forall rp ks lk,
  length ks = 6%nat -> nondecr 1 ks -> (forall k, In k ks -> (k <= 6)%nat) ->
  length lk = 7%nat ->
  let W := stair_matrix ks in
  let locks := lk ++ [true] in
  idle_idx locks <> [] ->
  ~ perm (length (idle_idx locks)) (of_lists (idle_block W locks)) == 0 ->
  exists P, inf_retis rp 1 W locks = Some P /\ is_Pspec_on_idle W locks (mget P).
Proof.
  intros rp ks lk Hl Hs Hk Hlk W locks Hidle Hperm.
  apply case_ok_sound; [|exact Hidle|exact Hperm].
  pose proof (sweep01_sorted_6 rp) as Hsw. unfold sweep01_sorted in Hsw.
  rewrite forallb_forall in Hsw. specialize (Hsw ks (in_sorted_supports 6 ks Hl Hs Hk)).
  rewrite forallb_forall in Hsw. exact (Hsw _ (in_all_locks 6 lk Hlk)).
Qed.
