(* Glue, part 1: REPEX_state.inf_retis on its all-equal fast path
   (equal_minus && equal_pos, i.e. every path has one weight on its support) returns the exact
   permanent ratios Pspec on the idle block and zero on busy rows / columns - for every size,
   every lock vector and every tie order of the two np.argsort calls.

   Hypotheses are stated on the unlocked matrix U = input_mat[~locks][:, ~locks] with
   p = offset minus-rows and q plus-rows ([ustair]): the minus rows, read right to left, and
   the plus rows are staircases with one weight per row, the two off-diagonal corners vanish,
   and perm U <> 0.  The pieces:
     - quick_prob ignores all-zero columns on the left (quick_prob_zero_left) - the model hands
       quick_prob the full-width row blocks;
     - on a staircase row block quick_prob = Pspec of the square part (PermQuickSpecP.v);
     - Pspec of a block-diagonal matrix is Pspec of the blocks (PermBlockP.v), column reversal
       and the row sorting / un-sorting are permutations (PermPermuteP.v);
     - the two np.allclose assertions pass because Pspec is doubly stochastic;
     - dropping the locked rows / columns and re-inserting zeros matches spec.idle_block /
       is_Pspec_on_idle (inf_retis_with_of_core, for every path of inf_core). *)
From Coq Require Import ZArith QArith Qabs List Bool Arith Lia Setoid Morphisms Permutation.
From Inf Require Import spec.PermS model.PermM proofs.PermSpecP proofs.PermQuickP
  proofs.PermQuickSpecP proofs.PermGlynnP proofs.PermIdleP proofs.PermP proofs.PermPermanentP proofs.PermPermuteP proofs.PermBlockP.
Import ListNotations.
Open Scope Q_scope.

(* ------------------------------------------------------------------ *)
(* quick_prob on a matrix with extra all-zero columns on the left       *)

Definition allz (l : list Q) : Prop := Forall (fun x => x == 0) l.

Lemma allz_qsuml : forall l, allz l -> qsuml l == 0.
Proof.
  induction l as [|x l IH]; intros H; [reflexivity|]. inversion H; subst.
  rewrite qsuml_cons, IH by assumption. rewrite H2. ring.
Qed.

Lemma allz_zipw_mult : forall c t, allz c -> allz (zipw Qmult c t).
Proof.
  induction c as [|x c IH]; intros t H; [constructor|]. destruct t as [|y t]; [constructor|].
  inversion H; subst. cbn [zipw]. constructor; [rewrite H2; ring | apply IH; assumption].
Qed.

Lemma allz_qnth : forall l i, allz l -> qnth l i == 0.
Proof. intros l i H. apply all0_nth. exact H. Qed.

Lemma quick_step_zero_col : forall t c, allz c -> allz (fst (quick_step t c)).
Proof.
  intros t c H. unfold quick_step. cbv zeta.
  pose proof (allz_zipw_mult c t H) as Hz. pose proof (allz_qsuml _ Hz) as Hs.
  apply Qeq_bool_iff in Hs. rewrite Hs. cbn [fst]. exact Hz.
Qed.

Lemma quick_loop_zero_cols : forall cs t, Forall allz cs ->
  Forall allz (quick_loop t cs) /\ length (quick_loop t cs) = length cs.
Proof.
  induction cs as [|c cs IH]; intros t H; [split; [constructor | reflexivity]|].
  inversion H; subst. rewrite quick_loop_cons.
  destruct (IH (snd (quick_step t c)) H3) as [I1 I2]. split.
  - constructor; [apply quick_step_zero_col; assumption | exact I1].
  - cbn [length]. rewrite I2. reflexivity.
Qed.

Lemma quick_loop_app : forall c1 c2 t,
  quick_loop t (c1 ++ c2) = quick_loop t c1 ++ quick_loop (quick_final t c1) c2.
Proof.
  induction c1 as [|c c1 IH]; intros c2 t; [reflexivity|].
  cbn [app]. rewrite !quick_loop_cons. cbn [quick_final app]. rewrite IH. reflexivity.
Qed.

Lemma quick_loop_length : forall cs t, length (quick_loop t cs) = length cs.
Proof.
  induction cs as [|c cs IH]; intros t; [reflexivity|]. rewrite quick_loop_cons. cbn [length].
  rewrite IH. reflexivity.
Qed.

(* quick_prob only looks at the list of 0/1 columns *)
Definition quick_cols (n : nat) (cs : list (list Q)) : matrix :=
  of_columns n (rev (quick_loop (repeat 1 n) (rev cs))).

Lemma quick_prob_cols : forall arr,
  quick_prob arr = quick_cols (length arr) (columns (ncols arr) (map (map ind01) arr)).
Proof. reflexivity. Qed.

Lemma quick_cols_zero_left : forall n Z C i c, Forall allz Z -> (i < n)%nat -> (c < length Z + length C)%nat ->
  mget (quick_cols n (Z ++ C)) i c ==
  if (c <? length Z)%nat then 0 else mget (quick_cols n C) i (c - length Z).
Proof.
  intros n Z C i c HZ Hi Hc. unfold quick_cols.
  rewrite rev_app_distr, quick_loop_app, rev_app_distr.
  set (t' := quick_final (repeat 1 n) (rev C)).
  destruct (quick_loop_zero_cols (rev Z) t') as [Z1 Z2].
  { apply Forall_rev. exact HZ. }
  rewrite rev_length in Z2.
  rewrite mget_of_columns.
  2: exact Hi.
  2:{ rewrite app_length, !rev_length, Z2, quick_loop_length, rev_length. lia. }
  destruct (Nat.ltb_spec c (length Z)) as [L | L].
  - rewrite app_nth1 by (rewrite rev_length, Z2; exact L).
    apply allz_qnth. rewrite Forall_forall in Z1. apply Z1. apply in_rev.
    apply nth_In. rewrite rev_length, Z2. exact L.
  - rewrite app_nth2 by (rewrite rev_length, Z2; exact L). rewrite rev_length, Z2.
    rewrite mget_of_columns; [reflexivity | exact Hi |].
    rewrite rev_length, quick_loop_length, rev_length. lia.
Qed.

Lemma nth_skipn_plus : forall {A} (d : A) z l j, nth j (skipn z l) d = nth (z + j) l d.
Proof.
  intros A d. induction z as [|z IH]; intros l j; [reflexivity|].
  destruct l as [|x l]; [destruct j; reflexivity|]. cbn [skipn plus nth]. apply IH.
Qed.

Lemma map_seq_shift : forall {B} n z (f : nat -> B),
  map f (seq z n) = map (fun j => f (z + j)%nat) (seq 0 n).
Proof.
  intros B. induction n as [|n IH]; intros z f; [reflexivity|].
  cbn [seq map]. rewrite Nat.add_0_r. f_equal.
  rewrite (IH (S z) f), (IH 1%nat (fun j => f (z + j)%nat)). apply map_ext. intros j.
  f_equal. lia.
Qed.

Lemma col_skipn : forall z j (M : matrix), col j (map (skipn z) M) = col (z + j) M.
Proof.
  intros z j M. unfold col. rewrite map_map. apply map_ext. intros r. unfold qnth.
  apply nth_skipn_plus.
Qed.

Lemma ncols_len : forall n w (arr : matrix), (1 <= n)%nat -> length arr = n ->
  Forall (fun r => length r = w) arr -> ncols arr = w.
Proof.
  intros n w arr Hn Hl Hr. destruct arr as [|r arr]; [cbn in Hl; lia|]. inversion Hr; subst. reflexivity.
Qed.

Theorem quick_prob_zero_left : forall z n (arr : matrix),
  (1 <= n)%nat -> length arr = n -> Forall (fun r => length r = (z + n)%nat) arr ->
  (forall i c, (i < n)%nat -> (c < z)%nat -> mget arr i c == 0) ->
  forall i c, (i < n)%nat -> (c < z + n)%nat ->
  mget (quick_prob arr) i c ==
  if (c <? z)%nat then 0 else mget (quick_prob (map (skipn z) arr)) i (c - z).
Proof.
  intros z n arr Hn Hl Hr Hz i c Hi Hc.
  rewrite !quick_prob_cols. rewrite map_length, Hl.
  rewrite (ncols_len n (z + n) arr Hn Hl Hr).
  assert (Hr' : Forall (fun r => length r = n) (map (skipn z) arr)).
  { rewrite Forall_forall in *. intros r Hin. apply in_map_iff in Hin as (r0 & <- & Hin).
    rewrite skipn_length, (Hr r0 Hin). lia. }
  rewrite (ncols_len n n (map (skipn z) arr) Hn ltac:(rewrite map_length; exact Hl) Hr').
  set (wm := map (map ind01) arr).
  assert (E : columns (z + n) wm =
              map (fun j => col j wm) (seq 0 z) ++ columns n (map (map ind01) (map (skipn z) arr))).
  { unfold columns. rewrite seq_app, map_app. f_equal. cbn [plus].
    rewrite (map_seq_shift n z). apply map_ext. intros j. unfold wm.
    rewrite <- col_skipn. rewrite !map_map. f_equal. apply map_ext. intros r.
    rewrite skipn_map. reflexivity. }
  rewrite E.
  assert (LZ : length (map (fun j => col j wm) (seq 0 z)) = z) by (rewrite map_length, seq_length; reflexivity).
  assert (LC : length (columns n (map (map ind01) (map (skipn z) arr))) = n).
  { unfold columns. rewrite map_length, seq_length. reflexivity. }
  rewrite quick_cols_zero_left; [rewrite LZ; reflexivity | | exact Hi | rewrite LZ, LC; exact Hc].
  rewrite Forall_forall. intros cl Hin. apply in_map_iff in Hin as (j & <- & Hj). apply in_seq in Hj.
  unfold allz. rewrite Forall_forall. intros x Hx. unfold col, wm in Hx. rewrite map_map in Hx.
  apply in_map_iff in Hx as (r & <- & Hr0).
  apply (In_nth _ _ []) in Hr0 as (i0 & Hi0 & <-).
  rewrite qnth_map.
  - fold (rownth arr i0). fold (mget arr i0 j).
    assert (Z0 : mget arr i0 j == 0) by (apply Hz; lia).
    unfold ind01. apply Qeq_bool_iff in Z0. rewrite Z0. reflexivity.
  - rewrite Forall_forall in Hr. rewrite (Hr (nth i0 arr [])) by (apply nth_In; exact Hi0). lia.
Qed.

(* ------------------------------------------------------------------ *)
(* an n x (z+n) row block: z zero columns, then a staircase with one weight per row *)

Definition ustair (z n : nat) (kf : nat -> nat) (w : nat -> Q) (M : matrix) : Prop :=
  length M = n /\ Forall (fun r => length r = (z + n)%nat) M /\
  (forall i c, (i < n)%nat -> (c < z)%nat -> mget M i c == 0) /\
  (forall i c, (i < n)%nat -> (c < n)%nat -> (mget M i (z + c) == 0 <-> (kf i <= c)%nat)) /\
  (forall i c, (i < n)%nat -> (c < n)%nat -> (c < kf i)%nat -> mget M i (z + c) == w i).

Lemma mget_skipn : forall z (M : matrix) i c, mget (map (skipn z) M) i c = mget M i (z + c).
Proof.
  intros z M i c. unfold mget, rownth.
  pose proof (map_nth (skipn z) M [] i) as E. rewrite skipn_nil in E. rewrite E.
  unfold qnth. apply nth_skipn_plus.
Qed.

Lemma ustair_support : forall z n kf w M, ustair z n kf w M ->
  stair_support n kf (map (skipn z) M) /\
  (forall i c, (i < n)%nat -> (c < n)%nat -> (c < kf i)%nat -> mget (map (skipn z) M) i c == w i).
Proof.
  intros z n kf w M (Hl & Hr & Hz & Hs & Hw). split; [split; [|split]|].
  - rewrite map_length. exact Hl.
  - rewrite Forall_forall in *. intros r Hin. apply in_map_iff in Hin as (r0 & <- & Hin).
    rewrite skipn_length, (Hr r0 Hin). lia.
  - intros i c Hi Hc. rewrite mget_skipn. apply Hs; assumption.
  - intros i c Hi Hc Hk. rewrite mget_skipn. apply Hw; assumption.
Qed.

Lemma ustair_sW : forall z n kf w M, ustair z n kf w M ->
  forall a b, (a < n)%nat -> (b < n)%nat -> of_lists (map (skipn z) M) a b == w a * sW kf a b.
Proof.
  intros z n kf w M (Hl & Hr & Hz & Hs & Hw) a b Ha Hb.
  change (of_lists (map (skipn z) M) a b) with (mget (map (skipn z) M) a b). rewrite mget_skipn.
  unfold sW. destruct (Nat.ltb_spec b (kf a)) as [L | L].
  - rewrite (Hw a b Ha Hb L). ring.
  - apply (Hs a b Ha Hb) in L. rewrite L. ring.
Qed.

Lemma ustair_hall : forall z n kf w M, ustair z n kf w M ->
  ~ perm n (of_lists (map (skipn z) M)) == 0 -> hall n kf.
Proof.
  intros z n kf w M H Hp. apply perm_staircase_nonzero_iff_hall. intros E. apply Hp.
  rewrite (perm_ext n _ (fun a b => w a * sW kf a b) (ustair_sW z n kf w M H)).
  rewrite perm_scale_rows, E. ring.
Qed.

Lemma ustair_quick : forall z n kf w M, ustair z n kf w M -> hall n kf ->
  forall i c, (i < n)%nat -> (c < z + n)%nat ->
  mget (quick_prob M) i c ==
  if (c <? z)%nat then 0 else Pspec n (of_lists (map (skipn z) M)) i (c - z).
Proof.
  intros z n kf w M H Hh i c Hi Hc. pose proof H as (Hl & Hr & Hz & Hs & Hw).
  rewrite (quick_prob_zero_left z n M ltac:(lia) Hl Hr Hz i c Hi Hc).
  destruct (Nat.ltb_spec c z) as [L | L]; [reflexivity|].
  destruct (ustair_support z n kf w M H) as [S1 S2].
  apply (quick_prob_eq_Pspec_uniform_rows n kf w _ S1 S2); [|exact Hi | lia].
  apply (hall_iff_nzeros n kf _ S1). exact Hh.
Qed.

Lemma ustair_test : forall z n kf w M, ustair z n kf w M -> rows_equal_or_zero M z = true.
Proof.
  intros z n kf w M (Hl & Hr & Hz & Hs & Hw). unfold rows_equal_or_zero.
  apply forallb_forall. intros row Hin. apply (In_nth _ _ []) in Hin as (i & Hi & <-).
  rewrite Hl in Hi. fold (rownth M i).
  assert (Hlen : length (rownth M i) = (z + n)%nat).
  { rewrite Forall_forall in Hr. apply Hr. unfold rownth. apply nth_In. lia. }
  apply forallb_forall. intros x Hx. apply (In_nth _ _ 0) in Hx as (c & Hc & <-).
  rewrite Hlen in Hc. fold (qnth (rownth M i) c). fold (mget M i c). fold (mget M i z).
  apply orb_true_iff.
  destruct (Nat.lt_ge_cases c z) as [L | L].
  - right. apply Qeq_bool_iff. apply Hz; assumption.
  - replace c with (z + (c - z))%nat by lia.
    destruct (Nat.lt_ge_cases (c - z) (kf i)) as [K | K].
    + left. apply Qeq_bool_iff. rewrite (Hw i (c - z)%nat) by lia.
      assert (R : mget M i (z + 0) == w i) by (apply Hw; lia).
      rewrite Nat.add_0_r in R. rewrite R. reflexivity.
    + right. apply Qeq_bool_iff. apply Hs; lia.
Qed.

Lemma quick_prob_shape : forall arr,
  length (quick_prob arr) = length arr /\
  Forall (fun r => length r = ncols arr) (quick_prob arr).
Proof.
  intros arr. unfold quick_prob, of_columns. cbv zeta. split.
  - rewrite map_length, seq_length. reflexivity.
  - rewrite Forall_forall. intros r Hin. apply in_map_iff in Hin as (i & <- & _).
    rewrite map_length, rev_length, quick_loop_length, rev_length. unfold columns.
    rewrite map_length, seq_length. reflexivity.
Qed.

(* ------------------------------------------------------------------ *)
(* the all-equal fast path of inf_retis on the sorted matrix            *)

Definition fast_out (offset : nat) (S : matrix) : matrix :=
  let m := length S in
  map (@rev Q) (quick_prob (map (@rev Q) (firstn offset S)))
  ++ (if (offset <? m)%nat then quick_prob (skipn offset S) else skipn offset (repeat (repeat 0 m) m)).

Lemma nth_firstn_lt : forall {A} (d : A) n l a, (a < n)%nat -> nth a (firstn n l) d = nth a l d.
Proof.
  intros A d. induction n as [|n IH]; intros l a Ha; [lia|].
  destruct l as [|x l]; [reflexivity|]. destruct a as [|a]; [reflexivity|]. cbn. apply IH. lia.
Qed.

Lemma mget_rev_rows : forall (M : matrix) w a c, (a < length M)%nat ->
  length (rownth M a) = w -> (c < w)%nat ->
  mget (map (@rev Q) M) a c = mget M a (w - 1 - c).
Proof.
  intros M w a c Ha Hw Hc. unfold mget.
  assert (E : rownth (map (@rev Q) M) a = rev (rownth M a)).
  { unfold rownth. exact (map_nth (@rev Q) M [] a). }
  rewrite E. unfold qnth. rewrite rev_nth by lia. rewrite Hw. f_equal. lia.
Qed.

Lemma fast_out_Pspec : forall p q S kfm wm kfp wp,
  square (p + q) S ->
  ustair q p kfm wm (map (@rev Q) (firstn p S)) ->
  ustair p q kfp wp (skipn p S) ->
  ~ perm (p + q) (of_lists S) == 0 ->
  square (p + q) (fast_out p S) /\
  forall a b, (a < p + q)%nat -> (b < p + q)%nat ->
    mget (fast_out p S) a b == Pspec (p + q) (of_lists S) a b.
Proof.
  intros p q S kfm wm kfp wp Hsq Hm Hp Hperm.
  pose proof Hsq as [HlS HrS].
  set (W := of_lists S) in *.
  set (Mm := map (@rev Q) (firstn p S)) in *.
  set (Mp := skipn p S) in *.
  assert (Hrow : forall a, (a < p + q)%nat -> length (rownth S a) = (p + q)%nat).
  { intros a Ha. rewrite Forall_forall in HrS. apply HrS. unfold rownth. apply nth_In. lia. }
  (* entries of W through the two row blocks *)
  assert (F1 : forall a b, (a < p)%nat -> (b < p + q)%nat -> W a b = mget Mm a (p + q - 1 - b)).
  { intros a b Ha Hb. unfold Mm. rewrite (mget_rev_rows _ (p + q)%nat).
    - unfold mget, rownth. rewrite nth_firstn_lt by exact Ha. unfold W, of_lists, qnth. f_equal. lia.
    - rewrite firstn_length, HlS. lia.
    - unfold rownth. rewrite nth_firstn_lt by exact Ha. apply Hrow. lia.
    - lia. }
  assert (F2 : forall a b, W (p + a)%nat b = mget Mp a b).
  { intros a b. unfold Mp, mget, rownth, W, of_lists, qnth. rewrite nth_skipn_plus. reflexivity. }
  pose proof Hm as (Hm1 & Hm2 & Hm3 & Hm4 & Hm5).
  pose proof Hp as (Hp1 & Hp2 & Hp3 & Hp4 & Hp5).
  assert (Hblt : blt2 p q W).
  { intros a b Ha Hb. rewrite F1 by lia. apply Hm3; lia. }
  assert (Hll : forall a b, (p <= a < p + q)%nat -> (b < p)%nat -> W a b == 0).
  { intros a b Ha Hb. replace a with (p + (a - p))%nat by lia. rewrite F2. apply Hp3; lia. }
  (* the two diagonal blocks *)
  set (A' := of_lists (map (skipn q) Mm)).
  set (B := of_lists (map (skipn p) Mp)).
  assert (HA' : forall a c, (a < p)%nat -> (c < p)%nat -> A' a c == W a (p - 1 - c)%nat).
  { intros a c Ha Hc. unfold A'. change (of_lists (map (skipn q) Mm) a c) with (mget (map (skipn q) Mm) a c).
    rewrite mget_skipn. rewrite (F1 a (p - 1 - c)%nat) by lia.
    replace (p + q - 1 - (p - 1 - c))%nat with (q + c)%nat by lia. reflexivity. }
  assert (HB : forall a b, B a b = sub p W a b).
  { intros a b. unfold B, sub. change (of_lists (map (skipn p) Mp) a b) with (mget (map (skipn p) Mp) a b).
    rewrite mget_skipn. rewrite F2. reflexivity. }
  assert (HpA : perm p A' == perm p W).
  { rewrite (perm_ext p A' (fun a c => W a (p - 1 - c)%nat) HA'). apply perm_reverse_cols. }
  assert (HpB : perm q B == perm q (sub p W)).
  { apply perm_ext. intros a b _ _. rewrite HB. reflexivity. }
  pose proof (perm_two_blocks p q W Hblt) as Hprod.
  assert (HnzA : ~ perm p W == 0).
  { intros E. apply Hperm. rewrite Hprod, E. ring. }
  assert (HnzB : ~ perm q (sub p W) == 0).
  { intros E. apply Hperm. rewrite Hprod, E. ring. }
  assert (HhA : hall p kfm).
  { apply (ustair_hall q p kfm wm Mm Hm). fold A'. rewrite HpA. exact HnzA. }
  assert (HhB : hall q kfp).
  { apply (ustair_hall p q kfp wp Mp Hp). fold B. rewrite HpB. exact HnzB. }
  (* shapes *)
  destruct (quick_prob_shape Mm) as [SA1 SA2]. destruct (quick_prob_shape Mp) as [SB1 SB2].
  assert (LMp : length Mp = q) by exact Hp1.
  assert (LMm : length Mm = p) by exact Hm1.
  assert (NcA : (1 <= p)%nat -> ncols Mm = (p + q)%nat).
  { intros H1. rewrite (ncols_len p (q + p) Mm H1 Hm1 Hm2). lia. }
  assert (NcB : (1 <= q)%nat -> ncols Mp = (p + q)%nat).
  { intros H1. exact (ncols_len q (p + q) Mp H1 Hp1 Hp2). }
  assert (Lfirst : length (map (@rev Q) (quick_prob Mm)) = p) by (rewrite map_length, SA1; exact LMm).
  unfold fast_out. fold Mm. fold Mp. rewrite HlS. cbv zeta.
  match goal with |- context [map (@rev Q) (quick_prob Mm) ++ ?Y] => set (second := Y) end.
  assert (Lsecond : length second = q).
  { unfold second. destruct (Nat.ltb_spec p (p + q)) as [L | L].
    - rewrite SB1. exact LMp.
    - rewrite skipn_length, repeat_length. lia. }
  split.
  - split; [rewrite app_length, Lfirst, Lsecond; reflexivity|].
    apply Forall_app. split.
    + rewrite Forall_forall. intros r Hin. apply in_map_iff in Hin as (r0 & <- & Hin).
      rewrite rev_length. rewrite Forall_forall in SA2. rewrite (SA2 r0 Hin).
      apply NcA. destruct p; [|lia]. rewrite <- SA1 in LMm. destruct (quick_prob Mm); [destruct Hin | discriminate].
    + unfold second. destruct (Nat.ltb_spec p (p + q)) as [L | L].
      * rewrite Forall_forall in *. intros r Hin. rewrite (SB2 r Hin). apply NcB. lia.
      * assert (q = 0)%nat by lia. subst q. rewrite skipn_all2 by (rewrite repeat_length; lia). constructor.
  - intros a b Ha Hb. unfold mget at 1, rownth.
    destruct (Nat.lt_ge_cases a p) as [La | La].
    + rewrite app_nth1 by (rewrite Lfirst; exact La).
      fold (rownth (map (@rev Q) (quick_prob Mm)) a). fold (mget (map (@rev Q) (quick_prob Mm)) a b).
      rewrite (mget_rev_rows _ (p + q)%nat); [| rewrite SA1, LMm; exact La | | exact Hb].
      2:{ rewrite Forall_forall in SA2. rewrite (SA2 (rownth (quick_prob Mm) a)).
          - apply NcA. lia.
          - unfold rownth. apply nth_In. rewrite SA1, LMm. exact La. }
      rewrite (ustair_quick q p kfm wm Mm Hm HhA a (p + q - 1 - b)%nat La ltac:(lia)).
      destruct (Nat.ltb_spec (p + q - 1 - b) q) as [Lb | Lb].
      * symmetry. apply Pspec_two_blocks_upper_right; [exact Hblt | exact La | lia].
      * fold A'. replace (p + q - 1 - b - q)%nat with (p - 1 - b)%nat by lia.
        rewrite (Pspec_two_blocks_upper p q W a b Hblt HnzB La ltac:(lia)).
        rewrite (Pspec_ext p A' (fun a c => W a (p - 1 - c)%nat) a (p - 1 - b)%nat La ltac:(lia) HA').
        rewrite (Pspec_reverse_cols p W a (p - 1 - b)%nat La ltac:(lia)).
        replace (p - 1 - (p - 1 - b))%nat with b by lia. reflexivity.
    + rewrite app_nth2 by (rewrite Lfirst; exact La). rewrite Lfirst.
      unfold second. destruct (Nat.ltb_spec p (p + q)) as [L | L]; [|lia].
      fold (rownth (quick_prob Mp) (a - p)). fold (mget (quick_prob Mp) (a - p) b).
      rewrite (ustair_quick p q kfp wp Mp Hp HhB (a - p)%nat b ltac:(lia) Hb).
      destruct (Nat.ltb_spec b p) as [Lb | Lb].
      * symmetry. apply Pspec_two_blocks_lower_left; [exact Hblt | lia | exact Lb].
      * fold B. rewrite (Pspec_two_blocks_lower p q W a b Hblt HnzA ltac:(lia) ltac:(lia)).
        apply Pspec_ext; try lia. intros x y _ _. rewrite HB. reflexivity.
Qed.

(* ------------------------------------------------------------------ *)
(* the np.allclose assertions pass on an exact Pspec table              *)

Lemma Pspec_table_doubly_stochastic : forall n (P : matrix) W,
  square n P -> (forall i j, (i < n)%nat -> (j < n)%nat -> mget P i j == Pspec n W i j) ->
  ~ perm n W == 0 ->
  (forall i, (i < n)%nat -> qsuml (rownth P i) == 1) /\
  (forall j, (j < n)%nat -> qsuml (col j P) == 1).
Proof.
  intros n P W HsqP HE Hperm. split.
  - intros i Hi. rewrite PermQuickSpecP.qsuml_qsum, (PermGlynnGrayP.square_row_length n P i HsqP Hi).
    rewrite <- (Pspec_row_sum n W i Hi Hperm). apply qsum_ext. intros j Hj. apply HE; assumption.
  - intros j Hj. rewrite PermQuickSpecP.qsuml_qsum. unfold col at 1. rewrite map_length.
    destruct HsqP as [LP RP]. rewrite LP.
    rewrite <- (Pspec_col_sum n W j Hj Hperm). apply qsum_ext. intros i Hi.
    rewrite qnth_col by lia. apply HE; assumption.
Qed.

Lemma close1_of_eq : forall x, x == 1 -> close1 x = true.
Proof.
  intros x H. unfold close1. apply Qle_bool_iff. rewrite H.
  setoid_replace (1 - 1) with 0 by ring. cbn. discriminate.
Qed.

Lemma checks_pass : forall n (P : matrix) W,
  square n P -> (forall i j, (i < n)%nat -> (j < n)%nat -> mget P i j == Pspec n W i j) ->
  ~ perm n W == 0 ->
  forallb close1 (map qsuml P) && forallb close1 (map (fun j => qsuml (col j P)) (seq 0 n)) = true.
Proof.
  intros n P W HsqP HE Hperm.
  destruct (Pspec_table_doubly_stochastic n P W HsqP HE Hperm) as [R C].
  apply andb_true_iff. split; apply forallb_forall; intros x Hin; apply in_map_iff in Hin as (y & <- & Hy).
  - apply close1_of_eq. apply (In_nth _ _ []) in Hy as (i & Hi & <-). destruct HsqP as [LP _].
    apply R. lia.
  - apply close1_of_eq. apply in_seq in Hy. apply C. lia.
Qed.

(* ------------------------------------------------------------------ *)
(* inf_core on the all-equal fast path                                  *)

Lemma sort_idx_Permutation : forall p q mi pi0,
  Permutation mi (seq 0 p) -> Permutation pi0 (seq 0 q) ->
  Permutation (mi ++ map (fun i => (i + p)%nat) pi0) (seq 0 (p + q)).
Proof.
  intros p q mi pi0 H1 H2. rewrite seq_app. apply Permutation_app; [exact H1|]. cbn [plus].
  assert (E : seq p q = map (fun i => (i + p)%nat) (seq 0 q)).
  { rewrite <- (map_id (seq p q)). rewrite (map_seq_shift q p (fun j => j)).
    apply map_ext. intros; lia. }
  rewrite E. apply Permutation_map. exact H2.
Qed.

Lemma rows_test_rev : forall p q (M : matrix), (1 <= p)%nat ->
  Forall (fun r => length r = (p + q)%nat) M ->
  rows_equal_or_zero (map (@rev Q) M) q = true -> rows_equal_or_zero M (p - 1) = true.
Proof.
  intros p q M Hp Hr H. unfold rows_equal_or_zero in *. rewrite forallb_forall in *.
  intros row Hin. specialize (H (rev row) (in_map _ _ _ Hin)). rewrite forallb_forall in *.
  intros x Hx. specialize (H x (proj1 (in_rev _ _) Hx)).
  rewrite Forall_forall in Hr. specialize (Hr row Hin).
  unfold qnth in H. rewrite rev_nth in H by lia. rewrite Hr in H.
  replace (p + q - S q)%nat with (p - 1)%nat in H by lia. exact H.
Qed.

Lemma square_sorted : forall n (U : matrix) idx, square n U -> Permutation idx (seq 0 n) ->
  square n (map (rownth U) idx).
Proof.
  intros n U idx [Hl Hr] HP. split.
  - rewrite map_length, (Permutation_length HP), seq_length. reflexivity.
  - rewrite Forall_forall in *. intros r Hin. apply in_map_iff in Hin as (i & <- & Hi).
    apply (Permutation_in _ HP) in Hi. apply in_seq in Hi. apply Hr. unfold rownth. apply nth_In. lia.
Qed.

Lemma square_unsort : forall n (P : matrix) idx, square n P -> Permutation idx (seq 0 n) ->
  square n (unsort idx P).
Proof.
  intros n P idx [Hl Hr] HP. unfold unsort. rewrite Hl. split.
  - rewrite map_length, seq_length. reflexivity.
  - rewrite Forall_forall in *. intros r Hin. apply in_map_iff in Hin as (i & <- & Hi).
    apply in_seq in Hi.
    assert (Hin : In i idx) by (apply (Permutation_in _ (Permutation_sym HP)); apply in_seq; lia).
    destruct (index_of_In i idx Hin) as [K _].
    rewrite (Permutation_length HP), seq_length in K.
    apply Hr. unfold rownth. apply nth_In. lia.
Qed.

Theorem inf_core_fast : forall rp mi pi0 p q (U : matrix) kfm wm kfp wp,
  (1 <= p + q)%nat -> square (p + q) U ->
  Permutation mi (seq 0 p) -> Permutation pi0 (seq 0 q) ->
  let Sm := map (rownth U) (mi ++ map (fun i => (i + p)%nat) pi0) in
  ustair q p kfm wm (map (@rev Q) (firstn p Sm)) ->
  ustair p q kfp wp (skipn p Sm) ->
  ~ perm (p + q) (of_lists U) == 0 ->
  exists o, inf_core rp mi pi0 p U = Some o /\ square (p + q) o /\
            forall i j, (i < p + q)%nat -> (j < p + q)%nat ->
              mget o i j == Pspec (p + q) (of_lists U) i j.
Proof.
  intros rp mi pi0 p q U kfm wm kfp wp Hn HsqU Hmi Hpi Sm Hm Hp Hperm.
  pose proof (sort_idx_Permutation p q mi pi0 Hmi Hpi) as HP.
  set (idx := mi ++ map (fun i => (i + p)%nat) pi0) in *.
  pose proof (square_sorted (p + q) U idx HsqU HP) as HsqS. fold Sm in HsqS.
  pose proof HsqU as [HlU HrU]. pose proof HsqS as [HlS HrS].
  assert (HpermS : ~ perm (p + q) (of_lists Sm) == 0).
  { unfold Sm. rewrite (perm_sorted (p + q) idx U HP). exact Hperm. }
  destruct (fast_out_Pspec p q Sm kfm wm kfp wp HsqS Hm Hp HpermS) as [HsqF HF].
  unfold inf_core. cbv zeta. rewrite HlU.
  destruct (Nat.eqb_spec (p + q) 0) as [E | _]; [lia|].
  fold idx. fold Sm.
  assert (T1 : rows_equal_or_zero (firstn p Sm) (p - 1) = true).
  { destruct p as [|p']; [reflexivity|].
    apply (rows_test_rev (Datatypes.S p') q); [lia | | exact (ustair_test _ _ _ _ _ Hm)].
    rewrite Forall_forall in *. intros r Hin. apply HrS. apply (In_nth _ _ []) in Hin as (i & Hi & <-).
    rewrite firstn_length in Hi. rewrite nth_firstn_lt by lia. apply nth_In. lia. }
  assert (T2 : (if (p + q <=? p)%nat then true else rows_equal_or_zero (skipn p Sm) p) = true).
  { destruct (p + q <=? p)%nat; [reflexivity|]. exact (ustair_test _ _ _ _ _ Hp). }
  rewrite T1, T2. cbn [andb].
  change (map (@rev Q) (quick_prob (map (@rev Q) (firstn p Sm))) ++
          (if (p <? p + q)%nat then quick_prob (skipn p Sm)
           else skipn p (repeat (repeat 0 (p + q)%nat) (p + q))))
    with (map (@rev Q) (quick_prob (map (@rev Q) (firstn p Sm))) ++
          (if (p <? length Sm)%nat then quick_prob (skipn p Sm)
           else skipn p (repeat (repeat 0 (length Sm)) (length Sm)))) || idtac.
  assert (EF : map (@rev Q) (quick_prob (map (@rev Q) (firstn p Sm))) ++
          (if (p <? p + q)%nat then quick_prob (skipn p Sm)
           else skipn p (repeat (repeat 0 (p + q)%nat) (p + q))) = fast_out p Sm).
  { unfold fast_out. cbv zeta. rewrite HlS. reflexivity. }
  rewrite EF.
  set (o := unsort idx (fast_out p Sm)).
  assert (Hso : square (p + q) o) by (apply square_unsort; assumption).
  assert (Ho : forall i j, (i < p + q)%nat -> (j < p + q)%nat ->
             mget o i j == Pspec (p + q) (of_lists U) i j).
  { apply unsort_Pspec; [exact HP | apply HsqF | exact HF]. }
  rewrite (checks_pass (p + q) o (of_lists U) Hso Ho Hperm).
  exists o. split; [reflexivity|]. split; assumption.
Qed.

(* ------------------------------------------------------------------ *)
(* dropping and re-inserting the locked rows and columns                *)

Lemma idle_idx_cons : forall b ls,
  idle_idx (b :: ls) = if b then map Datatypes.S (idle_idx ls) else O :: map Datatypes.S (idle_idx ls).
Proof.
  intros b ls. unfold idle_idx. cbn [length seq filter].
  change (nth 0 (b :: ls) true) with b.
  assert (E : filter (fun i => negb (nth i (b :: ls) true)) (seq 1 (length ls)) =
              map Datatypes.S (filter (fun i => negb (nth i ls true)) (seq 0 (length ls)))).
  { rewrite <- seq_shift. generalize (seq 0 (length ls)). intros l.
    induction l as [|x l IH]; [reflexivity|]. cbn [map filter].
    change (nth (Datatypes.S x) (b :: ls) true) with (nth x ls true).
    destruct (negb (nth x ls true)); cbn [map]; rewrite IH; reflexivity. }
  rewrite E. destruct b; reflexivity.
Qed.

Lemma keep_idle : forall {A} (d : A) locks l, length l = length locks ->
  keep (map negb locks) l = map (fun i => nth i l d) (idle_idx locks).
Proof.
  intros A d. induction locks as [|b ls IH]; intros l Hl.
  - destruct l; reflexivity.
  - destruct l as [|x l]; [discriminate|]. injection Hl as Hl.
    rewrite idle_idx_cons. cbn [map keep]. destruct b; cbn [negb map]; rewrite map_map; cbn [nth];
      rewrite (IH l Hl); reflexivity.
Qed.

Lemma unlocked_idle_block : forall (W : matrix) locks, square (length locks) W ->
  unlocked W locks = idle_block W locks.
Proof.
  intros W locks [Hl Hr]. unfold unlocked, idle_block. cbv zeta.
  rewrite (keep_idle [] locks W Hl). rewrite map_map. apply map_ext_in. intros i Hi.
  apply keep_idle. unfold idle_idx in Hi. apply filter_In in Hi as [Hi _]. apply in_seq in Hi.
  rewrite Forall_forall in Hr. apply Hr. apply nth_In. lia.
Qed.

Lemma idle_idx_lt : forall locks a, (a < length (idle_idx locks))%nat ->
  (nth a (idle_idx locks) O < length locks)%nat.
Proof.
  intros locks a Ha. pose proof (nth_In (idle_idx locks) O Ha) as H. unfold idle_idx in H at 2.
  apply filter_In in H as [H _]. apply in_seq in H. lia.
Qed.

Lemma idle_idx_unlocked : forall locks a, (a < length (idle_idx locks))%nat ->
  nth (nth a (idle_idx locks) O) locks true = false.
Proof.
  intros locks a Ha. pose proof (nth_In (idle_idx locks) O Ha) as H. unfold idle_idx in H at 2.
  apply filter_In in H as [_ H]. apply negb_true_iff in H. exact H.
Qed.

Lemma np_insert_idle : forall {A} (z d : A) locks p l, length l = length (idle_idx locks) ->
  length (np_insert_from p l (insert_list_from p locks) z) = length locks /\
  forall a, (a < length l)%nat ->
    nth (nth a (idle_idx locks) O) (np_insert_from p l (insert_list_from p locks) z) d = nth a l d.
Proof.
  intros A z d. induction locks as [|b ls IH]; intros p l Hl.
  - cbn in Hl. destruct l; [|discriminate]. split; [reflexivity | intros a Ha; cbn in Ha; lia].
  - rewrite idle_idx_cons in *. destruct b.
    + rewrite map_length in Hl. cbn [insert_list_from]. rewrite np_insert_from_cons_eq.
      destruct (IH p l Hl) as [I1 I2]. split; [cbn [length]; rewrite I1; reflexivity|].
      intros a Ha. rewrite (nth_indep _ O (Datatypes.S O)) by (rewrite map_length; lia).
      rewrite map_nth. cbn [nth]. apply I2. exact Ha.
    + cbn [length] in Hl. rewrite map_length in Hl. destruct l as [|x l]; [discriminate|].
      injection Hl as Hl. cbn [insert_list_from np_insert_from].
      rewrite count_occ_insert_list_from_S. cbn [repeat app].
      destruct (IH (Datatypes.S p) l Hl) as [I1 I2]. split; [cbn [length]; rewrite I1; reflexivity|].
      intros a Ha. destruct a as [|a]; [reflexivity|]. cbn [nth].
      rewrite (nth_indep _ O (Datatypes.S O)) by (rewrite map_length; cbn in Ha; lia).
      rewrite map_nth. apply I2. cbn in Ha. lia.
Qed.

Lemma reinsert_idle : forall locks k (o : matrix) a b,
  k = length (idle_idx locks) -> square k o -> (a < k)%nat -> (b < k)%nat ->
  mget (reinsert locks k o) (nth a (idle_idx locks) O) (nth b (idle_idx locks) O) = mget o a b.
Proof.
  intros locks k o a b Hk [Hl Hr] Ha Hb. unfold reinsert, np_insert.
  set (I := insert_list_from 0 locks).
  destruct (np_insert_idle (repeat 0 k) [] locks 0 o ltac:(lia)) as [L1 N1]. fold I in L1, N1.
  unfold mget, rownth.
  rewrite (nth_indep _ [] ((fun r => np_insert_from 0 r I 0) [])).
  2:{ rewrite map_length, L1. apply idle_idx_lt. lia. }
  rewrite (map_nth (fun r => np_insert_from 0 r I 0)).
  rewrite N1 by lia.
  assert (Hrow : length (nth a o []) = length (idle_idx locks)).
  { rewrite Forall_forall in Hr. rewrite (Hr (nth a o [])) by (apply nth_In; lia). exact Hk. }
  destruct (np_insert_idle 0 0 locks 0 (nth a o []) Hrow) as [_ N2]. fold I in N2.
  unfold qnth. apply N2. lia.
Qed.

Theorem inf_retis_with_of_core : forall rp mi pi off (W : matrix) locks o,
  square (length locks) W ->
  let U := unlocked W locks in
  let k := length U in
  inf_core rp mi pi (off - count_true (firstn off locks)) U = Some o ->
  square k o ->
  (forall a b, (a < k)%nat -> (b < k)%nat -> mget o a b == Pspec k (of_lists U) a b) ->
  exists P, inf_retis_with rp mi pi off W locks = Some P /\ is_Pspec_on_idle W locks (mget P).
Proof.
  intros rp mi pi off W locks o HsqW U k Hcore Hsq Ho.
  exists (reinsert locks k o). split.
  - unfold inf_retis_with. cbv zeta. fold (unlocked W locks). fold U. rewrite Hcore. reflexivity.
  - assert (EU : U = idle_block W locks) by (apply unlocked_idle_block; exact HsqW).
    assert (Hk : k = length (idle_idx locks)).
    { unfold k. rewrite EU. unfold idle_block. cbv zeta. rewrite map_length. reflexivity. }
    unfold is_Pspec_on_idle. cbv zeta. rewrite <- EU, <- Hk. split.
    + intros a b Ha Hb. rewrite (reinsert_idle locks k o a b Hk Hsq Ha Hb). apply Ho; assumption.
    + intros i j Hi Hj Hlk. unfold reinsert. rewrite reinsert_locked_zero; [reflexivity|].
      rewrite (nth_indep locks false true Hi), (nth_indep locks false true Hj). exact Hlk.
Qed.

(* ------------------------------------------------------------------ *)
(* argsort answers a permutation                                        *)

Lemma ins_key_Permutation : forall x l, Permutation (ins_key x l) (x :: l).
Proof.
  intros x. induction l as [|y r IH]; [apply Permutation_refl|].
  cbn [ins_key]. destruct (fst x <=? fst y)%Z; [apply Permutation_refl|].
  apply (Permutation_trans (perm_skip y IH)). apply perm_swap.
Qed.

Lemma map_snd_combine : forall {A B} (l1 : list A) (l2 : list B), length l1 = length l2 ->
  map snd (combine l1 l2) = l2.
Proof.
  intros A B. induction l1 as [|a l1 IH]; intros l2 H; destruct l2 as [|b l2]; try discriminate; [reflexivity|].
  cbn. f_equal. apply IH. cbn in H. lia.
Qed.

Lemma argsort_Permutation : forall keys, Permutation (argsort keys) (seq 0 (length keys)).
Proof.
  intros keys. unfold argsort.
  assert (G : forall l, Permutation (fold_right ins_key [] l) l).
  { induction l as [|x l IH]; [constructor|]. cbn [fold_right].
    apply (Permutation_trans (ins_key_Permutation x _)). constructor. exact IH. }
  apply (Permutation_trans (Permutation_map snd (G _))).
  rewrite map_snd_combine by (rewrite seq_length; reflexivity). apply Permutation_refl.
Qed.

(* ------------------------------------------------------------------ *)
(* row blocks under a permutation of their rows                         *)

Lemma mget_rows_idx : forall (M : matrix) idx i c, (i < length idx)%nat ->
  mget (map (rownth M) idx) i c = mget M (nth i idx O) c.
Proof.
  intros M idx i c Hi. unfold mget. f_equal. unfold rownth at 1.
  rewrite (nth_indep _ [] (rownth M O)) by (rewrite map_length; exact Hi).
  apply map_nth.
Qed.

Lemma ustair_rows_permute : forall z n kf w M idx, ustair z n kf w M -> Permutation idx (seq 0 n) ->
  ustair z n (fun i => kf (nth i idx O)) (fun i => w (nth i idx O)) (map (rownth M) idx).
Proof.
  intros z n kf w M idx (Hl & Hr & Hz & Hs & Hw) HP.
  assert (L : length idx = n) by (rewrite (Permutation_length HP); apply seq_length).
  assert (Hlt : forall i, (i < n)%nat -> (nth i idx O < n)%nat).
  { intros i Hi. apply Permutation_seq_nth_lt; assumption. }
  split; [rewrite map_length; exact L|]. split; [|split; [|split]].
  - rewrite Forall_forall in *. intros r Hin. apply in_map_iff in Hin as (i & <- & Hi).
    apply (Permutation_in _ HP) in Hi. apply in_seq in Hi. apply Hr. unfold rownth. apply nth_In. lia.
  - intros i c Hi Hc. rewrite mget_rows_idx by lia. apply Hz; [apply Hlt; exact Hi | exact Hc].
  - intros i c Hi Hc. rewrite mget_rows_idx by lia. apply Hs; [apply Hlt; exact Hi | exact Hc].
  - intros i c Hi Hc Hk. rewrite mget_rows_idx by lia. apply Hw; [apply Hlt; exact Hi | exact Hc | exact Hk].
Qed.

Lemma firstn_map_rownth_app : forall (U : matrix) (l1 l2 : list nat),
  firstn (length l1) (map (rownth U) (l1 ++ l2)) = map (rownth U) l1.
Proof.
  intros U l1 l2. rewrite map_app. rewrite <- (map_length (rownth U) l1). rewrite firstn_app.
  rewrite Nat.sub_diag, firstn_all. cbn [firstn]. apply app_nil_r.
Qed.

Lemma skipn_map_rownth_app : forall (U : matrix) (l1 l2 : list nat),
  skipn (length l1) (map (rownth U) (l1 ++ l2)) = map (rownth U) l2.
Proof.
  intros U l1 l2. rewrite map_app. rewrite <- (map_length (rownth U) l1). rewrite skipn_app.
  rewrite Nat.sub_diag, skipn_all. reflexivity.
Qed.

Lemma map_rev_rows_firstn : forall p (U : matrix) idx, (forall i, In i idx -> (i < p)%nat) ->
  map (@rev Q) (map (rownth U) idx) = map (rownth (map (@rev Q) (firstn p U))) idx.
Proof.
  intros p U idx H. rewrite map_map. apply map_ext_in. intros i Hi. specialize (H i Hi).
  unfold rownth. pose proof (map_nth (@rev Q) (firstn p U) [] i) as E. cbn [rev] in E. rewrite E.
  rewrite nth_firstn_lt by exact H. reflexivity.
Qed.

Lemma map_rows_skipn : forall p (U : matrix) idx,
  map (rownth U) (map (fun i => (i + p)%nat) idx) = map (rownth (skipn p U)) idx.
Proof.
  intros p U idx. rewrite map_map. apply map_ext. intros i. unfold rownth.
  rewrite nth_skipn_plus. f_equal. lia.
Qed.

(* ------------------------------------------------------------------ *)
(* inf_retis on the all-equal fast path: hypotheses on the unlocked matrix, any tie order *)

Lemma square_idle_block : forall (W : matrix) locks,
  square (length (idle_idx locks)) (idle_block W locks).
Proof.
  intros W locks. unfold idle_block. cbv zeta. split; [apply map_length|].
  rewrite Forall_forall. intros r Hin. apply in_map_iff in Hin as (i & <- & _). apply map_length.
Qed.

Theorem inf_retis_with_fast : forall rp mi pi0 off (W : matrix) locks p q kfm wm kfp wp,
  square (length locks) W ->
  let U := unlocked W locks in
  p = (off - count_true (firstn off locks))%nat -> length U = (p + q)%nat -> (1 <= p + q)%nat ->
  Permutation mi (seq 0 p) -> Permutation pi0 (seq 0 q) ->
  ustair q p kfm wm (map (@rev Q) (firstn p U)) ->
  ustair p q kfp wp (skipn p U) ->
  ~ perm (p + q) (of_lists U) == 0 ->
  exists P, inf_retis_with rp mi pi0 off W locks = Some P /\ is_Pspec_on_idle W locks (mget P).
Proof.
  intros rp mi pi0 off W locks p q kfm wm kfp wp HsqW U Hp HlU Hn Hmi Hpi Hm Hpl Hperm.
  assert (HsqU : square (p + q) U).
  { unfold U. rewrite (unlocked_idle_block W locks HsqW). rewrite <- HlU. unfold U.
    rewrite (unlocked_idle_block W locks HsqW).
    replace (length (idle_block W locks)) with (length (idle_idx locks))
      by (unfold idle_block; cbv zeta; rewrite map_length; reflexivity).
    apply square_idle_block. }
  assert (Lmi : length mi = p) by (rewrite (Permutation_length Hmi); apply seq_length).
  assert (Lpi : length pi0 = q) by (rewrite (Permutation_length Hpi); apply seq_length).
  destruct (inf_core_fast rp mi pi0 p q U
              (fun i => kfm (nth i mi O)) (fun i => wm (nth i mi O))
              (fun i => kfp (nth i pi0 O)) (fun i => wp (nth i pi0 O)) Hn HsqU Hmi Hpi)
    as (o & Ho & Hso & HE).
  - pose proof (firstn_map_rownth_app U mi (map (fun i => (i + p)%nat) pi0)) as E1.
    rewrite Lmi in E1. rewrite E1.
    rewrite (map_rev_rows_firstn p).
    + apply ustair_rows_permute; assumption.
    + intros i Hi. apply (Permutation_in _ Hmi) in Hi. apply in_seq in Hi. lia.
  - pose proof (skipn_map_rownth_app U mi (map (fun i => (i + p)%nat) pi0)) as E1.
    rewrite Lmi in E1. rewrite E1. rewrite map_rows_skipn.
    apply ustair_rows_permute; assumption.
  - exact Hperm.
  - apply (inf_retis_with_of_core rp mi pi0 off W locks o HsqW).
    + rewrite <- Hp. exact Ho.
    + fold U. rewrite HlU. exact Hso.
    + fold U. rewrite HlU. exact HE.
Qed.

Print Assumptions quick_prob_zero_left.
Print Assumptions fast_out_Pspec.
Print Assumptions inf_core_fast.
Print Assumptions inf_retis_with_of_core.
Print Assumptions argsort_Permutation.
Print Assumptions inf_retis_with_fast.
