(* quick_prob (the fast path of inf_retis) returns a doubly stochastic matrix, supported on the
   support of its argument, for matrices of ANY size: it suffices that column c (counted from
   the left, from 0) has at most c zero entries - the form Hall's condition takes for the
   sorted staircases inf_retis hands to quick_prob, and a condition that does not even need the
   staircase shape.

   Invariant of the column loop (last column first): the remaining masses t_r stay in [0,1] and
   add up to the number of columns still to do; hence the column's total s is >= 1, nothing is
   clamped, every column of the result sums to 1, and when the last column is done the remaining
   masses are 0, i.e. every row has been distributed completely. *)
From Coq Require Import ZArith NArith QArith Qabs List Bool Arith Lia Lqa Setoid Morphisms.
From Inf Require Import model.PermM spec.PermS.
Import ListNotations.
Open Scope Q_scope.

Definition Qn (k : nat) : Q := inject_Z (Z.of_nat k).

Lemma Qn_S : forall k, Qn (S k) == Qn k + 1.
Proof. intros k. unfold Qn. rewrite Nat2Z.inj_succ. unfold Z.succ. rewrite inject_Z_plus. reflexivity. Qed.

Lemma Qn_le : forall a b, (a <= b)%nat -> Qn a <= Qn b.
Proof. intros a b H. unfold Qn. rewrite <- Zle_Qle. lia. Qed.

Definition is01 (l : list Q) : Prop := Forall (fun c => c == 0 \/ c == 1) l.
Definition bounded01 (l : list Q) : Prop := Forall (fun x => 0 <= x /\ x <= 1) l.
Definition nonneg (l : list Q) : Prop := Forall (fun x => 0 <= x) l.
Definition nzeros (l : list Q) : nat := length (filter (fun x => Qeq_bool x 0) l).
Definition leq := Forall2 Qeq.
(* zero weight -> zero probability, entry by entry *)
Definition zero_where_zero (c e : list Q) : Prop := Forall2 (fun w x => w == 0 -> x == 0) c e.

(* ------------------------------------------------------------------ *)
(* One entry of one column step                                         *)

Lemma elem : forall s c x, 1 <= s -> (c == 0 \/ c == 1) -> 0 <= x -> x <= 1 ->
  let e := Qred (c * x / s) in
  let y := clamp0 (Qred (x - e)) in
  0 <= e /\ e == c * x / s /\ (c == 0 -> e == 0) /\ y == x - e /\ 0 <= y /\ y <= 1.
Proof.
  intros s c x Hs Hc Hx0 Hx1 e y.
  assert (He : e == c * x / s) by (unfold e; apply Qred_correct).
  assert (Hspos : 0 < s) by lra.
  assert (Hinv : 0 < / s) by (apply Qinv_lt_0_compat; exact Hspos).
  assert (Hsi : s * / s == 1) by (apply Qmult_inv_r; lra).
  assert (Hi1 : / s <= 1) by nra.
  assert (Hxe : 0 <= e /\ e <= x).
  { rewrite He. unfold Qdiv. destruct Hc as [Hc | Hc]; rewrite Hc; split; nra. }
  assert (Hy : y == x - e).
  { unfold y, clamp0. destruct (Qle_bool 0 (Qred (x - e))) eqn:E.
    - apply Qred_correct.
    - assert (H : 0 <= Qred (x - e)) by (rewrite Qred_correct; lra).
      apply Qle_bool_iff in H. congruence. }
  split; [tauto|]. split; [exact He|]. split.
  - intros H0. rewrite He, H0. unfold Qdiv. ring.
  - split; [exact Hy|]. rewrite Hy. split; lra.
Qed.

(* ------------------------------------------------------------------ *)
(* One column step, as lists                                            *)

Definition step_e (s : Q) (col t : list Q) : list Q := map (fun x => Qred (x / s)) (zipw Qmult col t).
Definition step_t (t e : list Q) : list Q := map clamp0 (zipw (fun a b => Qred (a - b)) t e).

Lemma step_lists : forall s, 1 <= s -> forall col t,
  length col = length t -> is01 col -> bounded01 t ->
  let e := step_e s col t in
  let t' := step_t t e in
  length e = length t /\ length t' = length t /\ nonneg e /\
  qsuml e == qsuml (zipw Qmult col t) / s /\
  zero_where_zero col e /\ bounded01 t' /\ qsuml t' == qsuml t - qsuml e /\
  leq t' (zipw Qminus t e).
Proof.
  intros s Hs. assert (Hs0 : ~ s == 0) by lra.
  induction col as [|c col IH]; intros t Hl Hc Ht.
  - destruct t; [|discriminate]. cbn. repeat split; try constructor; unfold Qdiv; ring.
  - destruct t as [|x t]; [discriminate|]. cbn in Hl. injection Hl as Hl.
    inversion Hc as [|? ? Hc1 Hc2]; subst. inversion Ht as [|? ? [Hx0 Hx1] Ht2]; subst.
    specialize (IH t Hl Hc2 Ht2). cbv zeta in IH.
    destruct IH as (I1 & I2 & I3 & I4 & I5 & I6 & I7 & I8).
    destruct (elem s c x Hs Hc1 Hx0 Hx1) as (E1 & E2 & E3 & E4 & E5 & E6).
    unfold step_e, step_t in *. cbn [zipw map length qsuml fold_right].
    split; [f_equal; exact I1|]. split; [f_equal; exact I2|].
    split; [constructor; assumption|].
    split.
    { change (fold_right Qplus 0 ?l) with (qsuml l). rewrite I4, E2. field. exact Hs0. }
    split; [constructor; assumption|].
    split; [constructor; [split; assumption | assumption]|].
    split.
    { change (fold_right Qplus 0 ?l) with (qsuml l). rewrite I7, E4. ring. }
    constructor; [exact E4 | exact I8].
Qed.

(* the column total is at least (total remaining mass) - (number of zeros in the column) *)
Lemma col_total_lower : forall col t,
  length col = length t -> is01 col -> bounded01 t ->
  qsuml t <= qsuml (zipw Qmult col t) + Qn (nzeros col).
Proof.
  induction col as [|c col IH]; intros t Hl Hc Ht.
  - destruct t; [|discriminate]. unfold nzeros, Qn, inject_Z. cbn. lra.
  - destruct t as [|x t]; [discriminate|]. cbn in Hl. injection Hl as Hl.
    inversion Hc as [|? ? Hc1 Hc2]; subst. inversion Ht as [|? ? [Hx0 Hx1] Ht2]; subst.
    specialize (IH t Hl Hc2 Ht2). cbn [zipw qsuml fold_right].
    change (fold_right Qplus 0 ?l) with (qsuml l).
    unfold nzeros. cbn [filter]. fold (nzeros col).
    destruct (Qeq_bool c 0) eqn:E.
    + apply Qeq_bool_iff in E. cbn [length]. fold (nzeros col). rewrite Qn_S. rewrite E. lra.
    + destruct Hc1 as [H0 | H1].
      * apply Qeq_bool_iff in H0. congruence.
      * fold (nzeros col). rewrite H1. lra.
Qed.

Lemma quick_step_spec : forall t col k,
  length col = length t -> is01 col -> bounded01 t -> qsuml t == Qn k -> (S (nzeros col) <= k)%nat ->
  let e := fst (quick_step t col) in
  let t' := snd (quick_step t col) in
  length e = length t /\ length t' = length t /\ nonneg e /\ qsuml e == 1 /\
  zero_where_zero col e /\ bounded01 t' /\ qsuml t' == Qn (pred k) /\
  leq t' (zipw Qminus t e).
Proof.
  intros t col k Hl Hc Ht Hk Hz.
  pose proof (col_total_lower col t Hl Hc Ht) as Hlow.
  set (s := qsuml (zipw Qmult col t)) in *.
  assert (Hs : 1 <= s).
  { pose proof (Qn_le _ _ Hz) as H. rewrite Qn_S in H. lra. }
  assert (Hq : Qeq_bool s 0 = false).
  { destruct (Qeq_bool s 0) eqn:E; [|reflexivity]. apply Qeq_bool_iff in E. lra. }
  unfold quick_step. fold s. rewrite Hq. cbn [fst snd].
  destruct (step_lists s Hs col t Hl Hc Ht) as (I1 & I2 & I3 & I4 & I5 & I6 & I7 & I8).
  fold s in I4. unfold step_e, step_t in *.
  assert (He1 : qsuml (map (fun x => Qred (x / s)) (zipw Qmult col t)) == 1).
  { rewrite I4. field. lra. }
  repeat split; try assumption.
  rewrite I7, He1, Hk. destruct k as [|k]; [lia|]. rewrite Qn_S. cbn [pred]. ring.
Qed.

(* ------------------------------------------------------------------ *)
(* The loop                                                             *)

Fixpoint quick_final (t : list Q) (cols : list (list Q)) : list Q :=
  match cols with
  | [] => t
  | c :: r => quick_final (snd (quick_step t c)) r
  end.

(* column i (in processing order) may have at most k-1-i zeros *)
Fixpoint budget_ok (cols : list (list Q)) (k : nat) : Prop :=
  match cols with
  | [] => True
  | c :: r => (S (nzeros c) <= k)%nat /\ budget_ok r (pred k)
  end.

Definition rowsum (es : list (list Q)) (i : nat) : Q := qsuml (map (fun e => qnth e i) es).

Lemma leq_nth : forall l1 l2 i, leq l1 l2 -> qnth l1 i == qnth l2 i.
Proof.
  intros l1 l2 i H. revert i. induction H as [|x y l1 l2 Hxy _ IH]; intros i.
  - reflexivity.
  - destruct i; [exact Hxy | apply IH].
Qed.

Lemma nth_zipw_minus : forall a b i, length a = length b ->
  qnth (zipw Qminus a b) i == qnth a i - qnth b i.
Proof.
  induction a as [|x a IH]; intros b i Hl.
  - destruct b; [|discriminate]. destruct i; cbn; ring.
  - destruct b as [|y b]; [discriminate|]. injection Hl as Hl. destruct i; cbn; [ring | apply IH; exact Hl].
Qed.

Lemma quick_loop_cons : forall t c r,
  quick_loop t (c :: r) = fst (quick_step t c) :: quick_loop (snd (quick_step t c)) r.
Proof. intros t c r. cbn [quick_loop]. destruct (quick_step t c) as [e t']. reflexivity. Qed.

Lemma quick_loop_spec : forall cols t k,
  Forall (fun c => length c = length t /\ is01 c) cols ->
  bounded01 t -> qsuml t == Qn k -> budget_ok cols k ->
  let es := quick_loop t cols in
  let tf := quick_final t cols in
  Forall2 (fun c e => length e = length t /\ nonneg e /\ qsuml e == 1 /\ zero_where_zero c e) cols es /\
  length tf = length t /\ bounded01 tf /\ qsuml tf == Qn (k - length cols) /\
  (forall i, rowsum es i == qnth t i - qnth tf i).
Proof.
  induction cols as [|c r IH]; intros t k Hc Ht Hk Hb.
  - cbn [quick_loop quick_final length]. rewrite Nat.sub_0_r. repeat split; try assumption; try constructor.
    intros i. unfold rowsum. cbn [map qsuml fold_right]. ring.
  - inversion Hc as [|? ? [Hc1 Hc2] Hc3]; subst. destruct Hb as [Hb1 Hb2].
    destruct (quick_step_spec t c k Hc1 Hc2 Ht Hk Hb1) as (S1 & S2 & S3 & S4 & S5 & S6 & S7 & S8).
    assert (Hc3' : Forall (fun c0 => length c0 = length (snd (quick_step t c)) /\ is01 c0) r).
    { rewrite S2. exact Hc3. }
    specialize (IH (snd (quick_step t c)) (pred k) Hc3' S6 S7 Hb2). cbv zeta in IH.
    destruct IH as (I1 & I2 & I3 & I4 & I5).
    cbv zeta. rewrite quick_loop_cons. cbn [quick_final length].
    split.
    { constructor; [repeat split; assumption|].
      rewrite S2 in I1. exact I1. }
    split; [rewrite I2; exact S2|]. split; [exact I3|].
    split.
    { rewrite I4. replace (pred k - length r)%nat with (k - S (length r))%nat by lia. reflexivity. }
    intros i. unfold rowsum in *. cbn [map qsuml fold_right].
    change (fold_right Qplus 0 ?l) with (qsuml l). rewrite (I5 i).
    rewrite (leq_nth _ _ i S8). rewrite nth_zipw_minus by (symmetry; exact S1). ring.
Qed.

(* ------------------------------------------------------------------ *)
(* Small list facts                                                     *)

Lemma qsuml_cons : forall x l, qsuml (x :: l) = x + qsuml l.
Proof. reflexivity. Qed.

Lemma qsuml_app : forall l1 l2, qsuml (l1 ++ l2) == qsuml l1 + qsuml l2.
Proof.
  induction l1 as [|x l1 IH]; intros l2.
  - change (qsuml ([] ++ l2)) with (qsuml l2). change (qsuml []) with 0. ring.
  - change ((x :: l1) ++ l2) with (x :: (l1 ++ l2)). rewrite !qsuml_cons, IH. ring.
Qed.

Lemma qsuml_rev : forall l, qsuml (rev l) == qsuml l.
Proof.
  induction l as [|x l IH]; [reflexivity|].
  change (rev (x :: l)) with (rev l ++ [x]). rewrite qsuml_app, !qsuml_cons, IH.
  change (qsuml []) with 0. ring.
Qed.

Lemma qsuml_repeat1 : forall n, qsuml (repeat 1 n) == Qn n.
Proof.
  induction n as [|n IH]; [reflexivity|]. rewrite Qn_S.
  change (repeat 1 (S n)) with (1 :: repeat 1 n). rewrite qsuml_cons, IH. ring.
Qed.

Lemma nth_repeat_lt : forall {A} (x d : A) n i, (i < n)%nat -> nth i (repeat x n) d = x.
Proof. intros A x d. induction n as [|n IH]; intros i H; [lia|]. destruct i; [reflexivity|]. cbn. apply IH. lia. Qed.

Lemma nonneg_sum0_all0 : forall l, nonneg l -> qsuml l == 0 -> Forall (fun x => x == 0) l.
Proof.
  induction l as [|x l IH]; intros Hn Hs; [constructor|].
  inversion Hn as [|? ? Hx Hl]; subst. rewrite qsuml_cons in Hs.
  assert (H0 : 0 <= qsuml l).
  { clear -Hl. induction Hl as [|y l Hy _ IH]; [change (qsuml []) with 0; lra|]. rewrite qsuml_cons. lra. }
  constructor; [lra|]. apply IH; [exact Hl | lra].
Qed.

Lemma all0_nth : forall l i, Forall (fun x => x == 0) l -> qnth l i == 0.
Proof.
  induction l as [|x l IH]; intros i H; [destruct i; reflexivity|].
  inversion H; subst. destruct i; [assumption | apply IH; assumption].
Qed.

Lemma nonneg_nth : forall l i, nonneg l -> 0 <= qnth l i.
Proof.
  induction l as [|x l IH]; intros i H; [destruct i; cbn; lra|].
  inversion H; subst. destruct i; [assumption | apply IH; assumption].
Qed.

Lemma map_nth_seq : forall (l : list Q), map (fun i => qnth l i) (seq 0 (length l)) = l.
Proof.
  induction l as [|x l IH]; [reflexivity|]. cbn [length seq map]. f_equal.
  rewrite <- seq_shift, map_map. exact IH.
Qed.

Lemma Forall2_app_single : forall {A B} (R : A -> B -> Prop) l1 l2 a b,
  Forall2 R l1 l2 -> R a b -> Forall2 R (l1 ++ [a]) (l2 ++ [b]).
Proof. intros A B R l1 l2 a b H Hab. apply Forall2_app; [exact H | constructor; [exact Hab | constructor]]. Qed.

Lemma Forall2_rev : forall {A B} (R : A -> B -> Prop) l1 l2, Forall2 R l1 l2 -> Forall2 R (rev l1) (rev l2).
Proof. intros A B R l1 l2 H. induction H; cbn; [constructor|]. apply Forall2_app_single; assumption. Qed.

Lemma Forall2_nth : forall {A B} (R : A -> B -> Prop) l1 l2 da db i,
  Forall2 R l1 l2 -> (i < length l1)%nat -> R (nth i l1 da) (nth i l2 db).
Proof.
  intros A B R l1 l2 da db i H. revert i. induction H as [|x y l1 l2 Hxy _ IH]; intros i Hi; [cbn in Hi; lia|].
  destruct i; [exact Hxy|]. cbn. apply IH. cbn in Hi. lia.
Qed.

Lemma Forall2_len : forall {A B} (R : A -> B -> Prop) l1 l2, Forall2 R l1 l2 -> length l1 = length l2.
Proof. intros A B R l1 l2 H. induction H; cbn; [reflexivity | f_equal; assumption]. Qed.

Lemma budget_rev : forall l, (forall c, (c < length l)%nat -> (nzeros (nth c l []) <= c)%nat) ->
  budget_ok (rev l) (length l).
Proof.
  induction l as [|x l IH] using rev_ind; intros H; [exact I|].
  rewrite rev_app_distr. cbn [rev app budget_ok]. rewrite app_length. cbn [length].
  replace (length l + 1)%nat with (S (length l)) by lia. cbn [pred]. split.
  - specialize (H (length l)). rewrite app_length in H. cbn in H.
    rewrite app_nth2 in H by lia. rewrite Nat.sub_diag in H. cbn in H.
    assert (nzeros x <= length l)%nat by (apply H; lia). lia.
  - apply IH. intros c Hc. specialize (H c). rewrite app_length in H. cbn in H.
    rewrite app_nth1 in H by exact Hc. apply H. lia.
Qed.

(* ------------------------------------------------------------------ *)
(* quick_prob                                                           *)

Lemma ind01_is01 : forall x, ind01 x == 0 \/ ind01 x == 1.
Proof. intros x. unfold ind01. destruct (Qeq_bool x 0); [left | right]; reflexivity. Qed.

Lemma col_wm : forall j (arr : matrix), col j (map (map ind01) arr) = map ind01 (col j arr).
Proof.
  intros j arr. unfold col. rewrite !map_map. apply map_ext. intros r. unfold qnth.
  change 0 with (ind01 0) at 1. apply map_nth.
Qed.

Lemma nzeros_map_ind01 : forall l, nzeros (map ind01 l) = nzeros l.
Proof.
  induction l as [|x l IH]; [reflexivity|]. unfold nzeros in *. cbn [map filter].
  unfold ind01 at 1. destruct (Qeq_bool x 0) eqn:E; cbn; [f_equal; exact IH | exact IH].
Qed.

Theorem quick_prob_doubly_stochastic : forall n (arr : matrix),
  length arr = n -> Forall (fun r => length r = n) arr ->
  (forall c, (c < n)%nat -> (nzeros (col c arr) <= c)%nat) ->
  let P := quick_prob arr in
  (forall i, (i < n)%nat -> qsuml (rownth P i) == 1) /\
  (forall j, (j < n)%nat -> qsuml (col j P) == 1) /\
  (forall i j, 0 <= mget P i j) /\
  (forall i j, (i < n)%nat -> (j < n)%nat -> mget arr i j == 0 -> mget P i j == 0).
Proof.
  intros n arr Hn Hrows Hz P.
  assert (Hnc : ncols arr = n).
  { destruct arr as [|r arr]; [exact Hn|]. inversion Hrows; subst. cbn. assumption. }
  set (wm := map (map ind01) arr).
  set (cl := columns n wm).
  assert (Hcl_len : length cl = n) by (unfold cl, columns; rewrite map_length, seq_length; reflexivity).
  assert (Hcl_nth : forall c, (c < n)%nat -> nth c cl [] = map ind01 (col c arr)).
  { intros c Hc. unfold cl, columns.
    rewrite (nth_indep _ [] (col 0 wm)) by (rewrite map_length, seq_length; exact Hc).
    rewrite (map_nth (fun j => col j wm) (seq 0 n) 0%nat c). rewrite seq_nth by exact Hc.
    cbn [plus]. unfold wm. apply col_wm. }
  set (t0 := repeat 1 n).
  assert (Ht0_len : length t0 = n) by (unfold t0; apply repeat_length).
  assert (Hcols : Forall (fun c => length c = length t0 /\ is01 c) (rev cl)).
  { apply Forall_forall. intros c Hin. apply in_rev in Hin. unfold cl, columns in Hin.
    apply in_map_iff in Hin as (j & <- & _). unfold wm. rewrite col_wm. split.
    - unfold col. rewrite !map_length. rewrite Ht0_len. exact Hn.
    - unfold is01. apply Forall_forall. intros x Hx. apply in_map_iff in Hx as (y & <- & _). apply ind01_is01. }
  assert (Ht0_b : bounded01 t0).
  { unfold bounded01, t0. apply Forall_forall. intros x Hx. apply repeat_spec in Hx. subst. split; lra. }
  assert (Ht0_s : qsuml t0 == Qn n) by (unfold t0; apply qsuml_repeat1).
  assert (Hbud : budget_ok (rev cl) n).
  { rewrite <- Hcl_len. apply budget_rev. intros c Hc. rewrite Hcl_len in Hc.
    rewrite (Hcl_nth c Hc). rewrite nzeros_map_ind01. apply Hz. exact Hc. }
  destruct (quick_loop_spec (rev cl) t0 n Hcols Ht0_b Ht0_s Hbud) as (L1 & L2 & L3 & L4 & L5).
  set (es := quick_loop t0 (rev cl)) in *.
  set (tf := quick_final t0 (rev cl)) in *.
  rewrite rev_length, Hcl_len, Nat.sub_diag in L4.
  assert (Htf0 : Forall (fun x => x == 0) tf).
  { apply nonneg_sum0_all0; [|exact L4]. unfold nonneg. eapply Forall_impl; [|exact L3]. cbn. intros a [H _]. exact H. }
  assert (Hes_len : length es = n).
  { apply Forall2_len in L1. rewrite rev_length, Hcl_len in L1. symmetry. exact L1. }
  (* the result matrix *)
  assert (HP : P = of_columns n (rev es)).
  { unfold P, quick_prob. rewrite Hnc, Hn. reflexivity. }
  assert (Hrow : forall i, (i < n)%nat -> rownth P i = map (fun c => qnth c i) (rev es)).
  { intros i Hi. rewrite HP. unfold of_columns, rownth.
    rewrite (nth_indep _ [] (map (fun c => qnth c 0) (rev es))) by (rewrite map_length, seq_length; exact Hi).
    rewrite (map_nth (fun i0 => map (fun c => qnth c i0) (rev es)) (seq 0 n) 0%nat i).
    rewrite seq_nth by exact Hi. reflexivity. }
  assert (L1r : Forall2 (fun c e => length e = length t0 /\ nonneg e /\ qsuml e == 1 /\ zero_where_zero c e) cl (rev es)).
  { apply Forall2_rev in L1. rewrite rev_involutive in L1. exact L1. }
  assert (Hentry : forall i j, (i < n)%nat -> mget P i j = qnth (nth j (rev es) []) i).
  { intros i j Hi. unfold mget. rewrite (Hrow i Hi). unfold qnth.
    destruct (Nat.lt_ge_cases j (length (rev es))) as [Hj | Hj].
    - rewrite (nth_indep _ 0 ((fun c => nth i c 0) [])) by (rewrite map_length; exact Hj).
      apply (map_nth (fun c => nth i c 0)).
    - rewrite nth_overflow by (rewrite map_length; exact Hj).
      rewrite (nth_overflow (rev es)) by exact Hj. destruct i; reflexivity. }
  split; [|split; [|split]].
  - intros i Hi. rewrite (Hrow i Hi). rewrite map_rev, qsuml_rev.
    change (qsuml (map (fun e => qnth e i) es)) with (rowsum es i). rewrite (L5 i).
    unfold t0, qnth. rewrite nth_repeat_lt by exact Hi. fold (qnth tf i). rewrite (all0_nth tf i Htf0). ring.
  - intros j Hj.
    assert (Hcj : col j P = nth j (rev es) []).
    { unfold col. rewrite HP. unfold of_columns. rewrite map_map.
      assert (Hlen : length (nth j (rev es) []) = n).
      { pose proof (Forall2_nth _ cl (rev es) [] [] j L1r) as H. rewrite Hcl_len in H.
        destruct (H Hj) as (H1 & _). rewrite H1. exact Ht0_len. }
      symmetry. rewrite <- (map_nth_seq (nth j (rev es) [])) at 1. rewrite Hlen. symmetry.
      apply map_ext_in. intros i Hi. apply in_seq in Hi. unfold qnth.
      destruct (Nat.lt_ge_cases j (length (rev es))) as [Hjl | Hjl].
      + rewrite (nth_indep _ 0 ((fun c => nth i c 0) [])) by (rewrite map_length; exact Hjl).
        apply (map_nth (fun c => nth i c 0)).
      + rewrite rev_length, Hes_len in Hjl. lia. }
    rewrite Hcj.
    pose proof (Forall2_nth _ cl (rev es) [] [] j L1r) as H. rewrite Hcl_len in H.
    destruct (H Hj) as (_ & _ & H3 & _). exact H3.
  - intros i j. destruct (Nat.lt_ge_cases i n) as [Hi | Hi].
    + rewrite (Hentry i j Hi). apply nonneg_nth.
      destruct (Nat.lt_ge_cases j n) as [Hj | Hj].
      * pose proof (Forall2_nth _ cl (rev es) [] [] j L1r) as H. rewrite Hcl_len in H.
        destruct (H Hj) as (_ & H2 & _). exact H2.
      * rewrite nth_overflow by (rewrite rev_length, Hes_len; exact Hj). constructor.
    + unfold mget, rownth. rewrite nth_overflow.
      * unfold qnth. destruct j; cbn; lra.
      * rewrite HP. unfold of_columns. rewrite map_length, seq_length. exact Hi.
  - intros i j Hi Hj H0. rewrite (Hentry i j Hi).
    pose proof (Forall2_nth _ cl (rev es) [] [] j L1r) as H. rewrite Hcl_len in H.
    destruct (H Hj) as (H1 & _ & _ & H4). rewrite (Hcl_nth j Hj) in H4.
    unfold zero_where_zero in H4.
    assert (Hli : (i < length (map ind01 (col j arr)))%nat).
    { unfold col. rewrite !map_length, Hn. exact Hi. }
    pose proof (Forall2_nth _ _ _ 0 0 i H4 Hli) as H5. cbn beta in H5. apply H5.
    assert (Hq : forall d, nth i (map (fun r : list Q => qnth r j) arr) d = mget arr i j).
    { intros d. unfold mget, rownth.
      assert (Hia : (i < length (map (fun r : list Q => qnth r j) arr))%nat) by (rewrite map_length, Hn; exact Hi).
      rewrite (nth_indep _ d ((fun r : list Q => qnth r j) []) Hia).
      apply (map_nth (fun r : list Q => qnth r j)). }
    assert (Hq1 : nth i (map ind01 (col j arr)) 0 = ind01 (mget arr i j)).
    { rewrite (nth_indep _ 0 (ind01 0) Hli). rewrite (map_nth ind01). f_equal. unfold col. apply Hq. }
    rewrite Hq1. unfold ind01. apply Qeq_bool_iff in H0. rewrite H0. reflexivity.
Qed.

(* ------------------------------------------------------------------ *)
(* Staircases: rows are prefixes of non-zero weights padded with zeros; row r (in the sorted
   order inf_retis establishes) reaches beyond the diagonal: r < k_r <= n. For sorted supports
   this is exactly Hall's condition, i.e. perm <> 0. *)

Definition pad_row (n : nat) (ws : list Q) : list Q := ws ++ repeat 0 (n - length ws).
Definition staircase (n : nat) (rows : list (list Q)) : matrix := map (pad_row n) rows.

Lemma qnth_pad_row_nonzero : forall n ws c,
  Forall (fun w => ~ w == 0) ws -> (c < length ws)%nat -> Qeq_bool (qnth (pad_row n ws) c) 0 = false.
Proof.
  intros n ws c Hw Hc. unfold pad_row, qnth. rewrite app_nth1 by exact Hc.
  destruct (Qeq_bool (nth c ws 0) 0) eqn:E; [|reflexivity]. apply Qeq_bool_iff in E.
  rewrite Forall_forall in Hw. exfalso. apply (Hw (nth c ws 0)); [apply nth_In; exact Hc | exact E].
Qed.

Lemma staircase_col_zeros : forall n c rows base,
  Forall (Forall (fun w => ~ w == 0)) rows ->
  (forall r, (r < length rows)%nat -> (base + r < length (nth r rows []))%nat) ->
  (nzeros (col c (staircase n rows)) <= c - base)%nat.
Proof.
  intros n c. induction rows as [|ws rest IH]; intros base Hnz Hk.
  - cbn. lia.
  - inversion Hnz as [|? ? Hw Hrest]; subst.
    assert (Hk0 : (base < length ws)%nat).
    { specialize (Hk 0%nat). cbn in Hk. rewrite Nat.add_0_r in Hk. apply Hk. lia. }
    assert (IH' : (nzeros (col c (staircase n rest)) <= c - S base)%nat).
    { apply IH; [exact Hrest|]. intros r Hr. specialize (Hk (S r)). cbn in Hk.
      replace (S base + r)%nat with (base + S r)%nat by lia. apply Hk. lia. }
    unfold staircase, col, nzeros in *. cbn [map filter].
    destruct (Nat.lt_ge_cases c (length ws)) as [Hc | Hc].
    + rewrite (qnth_pad_row_nonzero n ws c Hw Hc). lia.
    + destruct (Qeq_bool (qnth (pad_row n ws) c) 0); cbn [length]; lia.
Qed.

Theorem quick_prob_doubly_stochastic_staircase : forall n rows,
  length rows = n ->
  Forall (Forall (fun w => ~ w == 0)) rows ->
  (forall r, (r < n)%nat -> (r < length (nth r rows []) <= n)%nat) ->
  let P := quick_prob (staircase n rows) in
  (forall i, (i < n)%nat -> qsuml (rownth P i) == 1) /\
  (forall j, (j < n)%nat -> qsuml (col j P) == 1) /\
  (forall i j, 0 <= mget P i j) /\
  (forall i j, (i < n)%nat -> (j < n)%nat -> mget (staircase n rows) i j == 0 -> mget P i j == 0).
Proof.
  intros n rows Hl Hnz Hk.
  apply quick_prob_doubly_stochastic.
  - unfold staircase. rewrite map_length. exact Hl.
  - unfold staircase. apply Forall_forall. intros row Hin. apply in_map_iff in Hin as (ws & <- & Hin).
    unfold pad_row. rewrite app_length, repeat_length.
    destruct (In_nth rows ws [] Hin) as (r & Hr & Hnth). rewrite Hl in Hr.
    specialize (Hk r Hr). rewrite Hnth in Hk. lia.
  - intros c Hc. pose proof (staircase_col_zeros n c rows 0%nat Hnz) as H. rewrite Nat.sub_0_r in H.
    apply H. intros r Hr. rewrite Hl in Hr. specialize (Hk r Hr). cbn. lia.
Qed.
