(* Proofs about the zero-swap model (property C11). *)
From Coq Require Import ZArith QArith List Bool Lia.
Import ListNotations.
From Inf Require Import base.ListX model.PathM model.EngineM model.WeightM model.SwapM proofs.PathP.
From Inf Require model.MovesM.
Open Scope Z_scope.

(* ------------------------------------------------------------------ the stop rule *)

(* the frame lies beyond an interface: add_to_path's "crossed left/right" *)
Definition crossedb (l r : Z) (f : frame) : bool := (ford f <? l) || (r <? ford f).

(* the first k frames of s are what a run produces when only the interfaces stop it:
   none of the first k-1 is beyond an interface, the k-th is *)
Definition stops_at (l r : Z) (s : list frame) (k : nat) : Prop :=
  (1 <= k)%nat /\ (forall f, In f (firstn (k - 1) s) -> crossedb l r f = false) /\
  exists lastf, nth_error s (k - 1) = Some lastf /\ crossedb l r lastf = true.

Lemma add_to_path_room p f l r :
  (plen p < maxlen p)%nat ->
  MovesM.add_to_path_g true p f l r =
  Some (mkP (pts p ++ [f]) (maxlen p) (torigin p),
        crossedb l r f,
        crossedb l r f || (S (plen p) =? maxlen p)%nat, true).
Proof.
  intros Hroom. unfold MovesM.add_to_path_g, append.
  destruct (Nat.ltb_spec (plen p) (maxlen p)) as [_|Hge]; [|lia].
  cbn [pts]. rewrite rev_app_distr. cbn [rev app].
  unfold crossedb, plen. cbn [pts maxlen]. rewrite app_length. cbn [length].
  replace (length (pts p) + 1)%nat with (S (length (pts p))) by lia.
  destruct (ford f <? l); destruct (r <? ford f); destruct (S (length (pts p)) =? maxlen p)%nat; reflexivity.
Qed.

(* what a normal return of the propagation loop means (current stop rule) *)
Lemma propagate_loop_inv l r : forall s p n0 p' succ n',
  (plen p < maxlen p)%nat ->
  MovesM.propagate_loop_g true p s l r n0 = PR p' succ n' ->
  exists k, (1 <= k)%nat /\ n' = (n0 + k)%nat /\ (k <= length s)%nat /\
    pts p' = pts p ++ firstn k s /\ maxlen p' = maxlen p /\ torigin p' = torigin p /\
    (plen p + k <= maxlen p)%nat /\
    (forall f, In f (firstn (k - 1) s) -> crossedb l r f = false) /\
    (exists lastf, nth_error s (k - 1) = Some lastf /\ succ = crossedb l r lastf) /\
    (succ = false -> (plen p + k = maxlen p)%nat).
Proof.
  induction s as [|f s IH]; intros p n0 p' succ n' Hroom H; cbn [MovesM.propagate_loop_g] in H; [discriminate|].
  rewrite (add_to_path_room p f l r Hroom) in H.
  destruct (crossedb l r f) eqn:Hc; cbn [orb] in H.
  { inversion H; subst; clear H. exists 1%nat. cbn [firstn length Nat.sub pts maxlen torigin nth_error].
    repeat split; try lia; try discriminate; try (intros ? []).
    exists f. split; [reflexivity|symmetry; exact Hc]. }
  destruct (Nat.eqb_spec (S (plen p)) (maxlen p)) as [Hfull|Hnf].
  { inversion H; subst; clear H. exists 1%nat. cbn [firstn length Nat.sub pts maxlen torigin nth_error].
    repeat split; try lia; try (intros ? []).
    exists f. split; [reflexivity|symmetry; exact Hc]. }
  set (p1 := mkP (pts p ++ [f]) (maxlen p) (torigin p)) in *.
  assert (Hl : plen p1 = S (plen p)).
  { unfold plen, p1. cbn [pts]. rewrite app_length. cbn [length]. lia. }
  assert (Hroom1 : (plen p1 < maxlen p1)%nat) by (rewrite Hl; unfold p1; cbn [maxlen]; lia).
  destruct (IH p1 (S n0) p' succ n' Hroom1 H) as (k & K1 & K2 & K3 & K4 & K5 & K6 & K7 & K8 & K9 & K10).
  exists (S k). cbn [firstn length]. unfold p1 in K4, K5, K6. cbn [pts maxlen torigin] in K4, K5, K6.
  rewrite Hl in *. cbn [maxlen p1] in *.
  replace (S k - 1)%nat with (S (k - 1)) by lia. cbn [firstn nth_error].
  split; [lia|]. split; [lia|]. split; [lia|].
  split; [rewrite K4, <- app_assoc; reflexivity|].
  split; [exact K5|]. split; [exact K6|]. split; [unfold p1 in K7; cbn [maxlen] in K7; lia|].
  split; [intros g [<-|Hg]; [exact Hc|apply K8; exact Hg]|].
  split; [exact K9|].
  intros Hs. specialize (K10 Hs). unfold p1 in K10. cbn [maxlen] in K10. lia.
Qed.

Lemma propagate_loop_run l r : forall pre p n0 lastf post,
  (forall f, In f pre -> crossedb l r f = false) -> crossedb l r lastf = true ->
  (plen p + length pre + 1 <= maxlen p)%nat ->
  MovesM.propagate_loop_g true p (pre ++ lastf :: post) l r n0 =
  PR (mkP (pts p ++ pre ++ [lastf]) (maxlen p) (torigin p)) true (n0 + length pre + 1).
Proof.
  induction pre as [|f pre IH]; intros p n0 lastf post Hpre Hlast Hroom; cbn [app MovesM.propagate_loop_g length] in *.
  - rewrite add_to_path_room by lia. rewrite Hlast. cbn [orb]. f_equal. lia.
  - rewrite add_to_path_room by lia. rewrite (Hpre f (or_introl eq_refl)). cbn [orb].
    destruct (Nat.eqb_spec (S (plen p)) (maxlen p)); [lia|].
    rewrite IH; try assumption.
    + cbn [pts maxlen torigin]. rewrite <- app_assoc. cbn [app]. f_equal. lia.
    + intros g Hg. apply Hpre. right. exact Hg.
    + unfold plen in *. cbn [pts maxlen]. rewrite app_length. cbn [length]. lia.
Qed.

Lemma skipn_nth_error {A} (s : list A) : forall j x, nth_error s j = Some x -> skipn j s = x :: skipn (S j) s.
Proof.
  induction s as [|y s IH]; intros [|j] x H; cbn in *; try discriminate.
  - congruence.
  - apply IH. exact H.
Qed.

(* a stream that stops at k splits accordingly *)
Lemma stops_at_split l r s k :
  stops_at l r s k -> exists lastf, s = firstn (k - 1) s ++ lastf :: skipn k s /\ crossedb l r lastf = true /\
                                    firstn k s = firstn (k - 1) s ++ [lastf] /\ length (firstn (k - 1) s) = (k - 1)%nat.
Proof.
  intros (Hk & _ & lastf & Hn & Hc). exists lastf.
  assert (Hlen : (k - 1 < length s)%nat) by (apply nth_error_Some; rewrite Hn; discriminate).
  pose proof (firstn_skipn (k - 1) s) as Hs.
  pose proof (skipn_nth_error s _ _ Hn) as Hsk. replace (S (k - 1)) with k in Hsk by lia.
  repeat split.
  - rewrite <- Hsk. symmetry. exact Hs.
  - exact Hc.
  - rewrite <- Hs at 1. rewrite Hsk. replace k with ((k - 1) + 1)%nat at 1 by lia.
    rewrite firstn_app. rewrite (firstn_all2 (n := k - 1 + 1)) by (rewrite firstn_length; lia).
    rewrite firstn_length. replace (k - 1 + 1 - Nat.min (k - 1) (length s))%nat with 1%nat by lia. reflexivity.
  - rewrite firstn_length. lia.
Qed.

(* ------------------------------------------------------------------ one engine call *)

Lemma engine_call_inv M t streams init rv l r p' rest c :
  engine_call (empty_path M t) streams init rv l r = Ok (p', rest, c) ->
  exists s0 k, streams = s0 :: rest /\ pts p' = firstn k s0 /\ maxlen p' = M /\ torigin p' = t /\
    (1 <= k <= M)%nat /\ (k <= length s0)%nat /\
    (forall f, In f (firstn (k - 1) s0) -> crossedb l r f = false) /\
    ((k < M)%nat -> stops_at l r s0 k) /\
    c = mkCall init rv l r M k.
Proof.
  unfold engine_call. destruct streams as [|s0 rest0]; [discriminate|].
  destruct s0 as [|f tl]; [discriminate|].
  unfold MovesM.propagate_fixed, MovesM.propagate_g.
  destruct M as [|M].
  { cbn. discriminate. }
  destruct (MovesM.propagate_loop_g true (empty_path (S M) t) (f :: tl) l r 0) as [p1 succ n| |] eqn:E; try discriminate.
  intros H. inversion H; subst; clear H.
  apply propagate_loop_inv in E; [|cbn; lia].
  destruct E as (k & K1 & K2 & K3 & K4 & K5 & K6 & K7 & K8 & (lf & Hn & Hs) & K10).
  cbn [empty_path pts maxlen torigin plen length app] in *. cbn [Nat.add] in *. subst n.
  exists (f :: tl), k. repeat split; try assumption; try lia.
  - exists lf. split; [exact Hn|]. destruct succ; [symmetry; exact Hs|]. specialize (K10 eq_refl). lia.
Qed.

Lemma engine_call_run M t s0 rest init rv l r k :
  stops_at l r s0 k -> (k <= M)%nat ->
  engine_call (empty_path M t) (s0 :: rest) init rv l r =
  Ok (mkP (firstn k s0) M t, rest, mkCall init rv l r M k).
Proof.
  intros Hst HkM. pose proof Hst as (Hk1 & Hpre & _).
  destruct (stops_at_split _ _ _ _ Hst) as (lastf & Hs & Hc & Hf & Hlen).
  unfold engine_call. destruct s0 as [|f tl].
  { destruct (firstn (k - 1) []); discriminate. }
  unfold MovesM.propagate_fixed, MovesM.propagate_g. rewrite Hs at 1.
  rewrite propagate_loop_run; try assumption.
  - cbn [empty_path pts maxlen torigin app]. rewrite Hlen. rewrite <- Hf.
    replace (0 + (k - 1) + 1)%nat with k by lia. reflexivity.
  - cbn [empty_path plen pts maxlen length]. rewrite Hlen. lia.
Qed.

(* ------------------------------------------------------------------ path construction *)

Lemma append_spec p f :
  pts (fst (append p f)) = (if (plen p <? maxlen p)%nat then pts p ++ [f] else pts p) /\
  maxlen (fst (append p f)) = maxlen p /\ torigin (fst (append p f)) = torigin p.
Proof. unfold append. destruct (plen p <? maxlen p)%nat; cbn; auto. Qed.

Lemma firstn_rev_length {A} (s : list A) k : (k <= length s)%nat -> length (rev (firstn k s)) = k.
Proof. intros H. rewrite rev_length, firstn_length. lia. Qed.

Section WithDump.
Variable dumpf : dlabel -> Z -> Z.

Lemma retis_path0_acc e0 e1 allowed old1 streams path0 streams1 calls :
  retis_path0 dumpf e0 e1 allowed old1 streams = Ok (path0, ACC, streams1, calls) ->
  allowed = true /\
  exists f10 f11 s0 k,
    first_frame old1 = Some f10 /\ second_frame old1 = Some f11 /\ streams = s0 :: streams1 /\
    pts path0 = rev (firstn k s0) ++ [dump dumpf DSecond f11] /\
    maxlen path0 = e_maxlen e0 /\ torigin path0 = 0 /\
    (2 <= k)%nat /\ (k + 1 < e_maxlen e0)%nat /\ (k <= e_maxlen e1 - 1)%nat /\ (k <= length s0)%nat /\
    (forall f, In f (firstn (k - 1) s0) -> crossedb (e_i0 e0) (e_i2 e0) f = false) /\
    ((k < e_maxlen e1 - 1)%nat -> stops_at (e_i0 e0) (e_i2 e0) s0 k) /\
    (e_scL e0 = false -> has_L_start_end path0 e0 = false) /\
    calls = [mkCall (copy_frame 0 f10) true (e_i0 e0) (e_i2 e0) (e_maxlen e1 - 1) k].
Proof.
  unfold retis_path0. destruct (first_frame old1) as [f10|]; [|discriminate].
  destruct allowed.
  - destruct (engine_call _ streams _ true _ _) as [[[ptmp str1] c]|] eqn:E; [|discriminate].
    destruct (second_frame old1) as [f11|]; [|discriminate].
    apply engine_call_inv in E. destruct E as (s0 & k & -> & Ep & Em & Et & Ek & Ekl & Epre & Estop & ->).
    set (P := fst (append_all (empty_path (e_maxlen e0) 0) (rev (pts ptmp)))).
    assert (HP : pts P = firstn (e_maxlen e0) (rev (firstn k s0))) by (unfold P; rewrite append_all_from_empty, Ep; reflexivity).
    assert (HPm : maxlen P = e_maxlen e0 /\ torigin P = 0).
    { unfold P. pose proof (append_all_spec (empty_path (e_maxlen e0) 0) (rev (pts ptmp))) as (_ & A & B & _). split; assumption. }
    destruct HPm as [HPm HPt].
    pose proof (append_spec P (dump dumpf DSecond f11)) as (A1 & A2 & A3).
    set (P0 := fst (append P (dump dumpf DSecond f11))) in *.
    assert (HlenP : plen P = Nat.min (e_maxlen e0) k).
    { unfold plen. rewrite HP, firstn_length, firstn_rev_length by exact Ekl. reflexivity. }
    intros H.
    destruct (Nat.eqb_spec (plen P0) (e_maxlen e0)) as [|Hne]; [discriminate|].
    destruct (Nat.ltb_spec (plen P0) 3) as [|Hge3]; [discriminate|].
    destruct (negb (e_scL e0) && has_L_start_end P0 e0) eqn:EL; [discriminate|].
    inversion H; subst path0 streams1 calls; clear H.
    rewrite HPm, HlenP in A1.
    destruct (Nat.ltb_spec (Nat.min (e_maxlen e0) k) (e_maxlen e0)) as [Hlt|Hge].
    + assert (Hk : (k < e_maxlen e0)%nat) by lia.
      rewrite HP in A1. rewrite firstn_all2 in A1 by (rewrite firstn_rev_length by exact Ekl; lia).
      assert (Hl0 : plen P0 = (k + 1)%nat).
      { unfold plen. rewrite A1, app_length, firstn_rev_length by exact Ekl. reflexivity. }
      split; [reflexivity|]. exists f10, f11, s0, k.
      repeat split; try assumption; try lia; try congruence.
      * match goal with H : (k < _)%nat |- _ => destruct (Estop H) as (_ & _ & HH); exact HH end.
      * intros HscL. rewrite HscL in EL. exact EL.
    + exfalso. apply Hne. unfold plen. rewrite A1. fold (plen P). rewrite HlenP. lia.
  - destruct (second_frame old1) as [f11|]; [|discriminate].
    set (tmp := fst (append (empty_path (e_maxlen e1 - 1) 0) (copy_frame 0 f10))).
    set (P := fst (append_all (empty_path (e_maxlen e0) 0) (rev (pts tmp)))).
    pose proof (append_spec P (dump dumpf DSecond f11)) as (A1 & A2 & A3).
    set (P0 := fst (append P (dump dumpf DSecond f11))) in *.
    assert (Hl : (plen P0 <= 2)%nat).
    { assert (Ht : (length (pts tmp) <= 1)%nat).
      { unfold tmp. pose proof (append_spec (empty_path (e_maxlen e1 - 1) 0) (copy_frame 0 f10)) as (B & _).
        rewrite B. cbn [empty_path plen pts length maxlen]. destruct (0 <? e_maxlen e1 - 1)%nat; cbn; lia. }
      assert (HP : (plen P <= 1)%nat).
      { unfold plen, P. rewrite append_all_from_empty, firstn_length, rev_length. lia. }
      unfold plen in *. rewrite A1. destruct (length (pts P) <? maxlen P)%nat; [rewrite app_length; cbn [length]|]; lia. }
    intros H.
    destruct (Nat.eqb_spec (plen P0) (e_maxlen e0)); [discriminate|].
    destruct (Nat.ltb_spec (plen P0) 3); [discriminate|lia].
Qed.

Lemma plen_map_erase p : plen p = length (map erase (pts p)).
Proof. unfold plen. now rewrite map_length. Qed.

Lemma retis_path1_acc e0 e1 allowed old0 streams path1 streams1 calls :
  retis_path1 dumpf e0 e1 allowed old0 streams = Ok (path1, ACC, streams1, calls) ->
  allowed = true /\
  exists f0l f0m2 s1 k,
    last_frame old0 = Some f0l /\ last2_frame old0 = Some f0m2 /\ streams = s1 :: streams1 /\
    map erase (pts path1) = erase (dump dumpf DSecondLast f0m2) :: map erase (firstn k s1) /\
    maxlen path1 = e_maxlen e1 /\ torigin path1 = 0 /\
    (2 <= k)%nat /\ (k + 1 < e_maxlen e1)%nat /\ (k <= length s1)%nat /\
    stops_at (e_i0 e1) (e_i2 e1) s1 k /\
    calls = [mkCall (copy_frame 0 f0l) false (e_i0 e1) (e_i2 e1) (e_maxlen e1 - 1) k].
Proof.
  unfold retis_path1. destruct (last_frame old0) as [f0l|]; [|discriminate].
  destruct allowed.
  - destruct (engine_call _ streams _ false _ _) as [[[ptmp str1] c]|] eqn:E; [|discriminate].
    destruct (last2_frame old0) as [f0m2|]; [|discriminate].
    apply engine_call_inv in E. destruct E as (s1 & k & -> & Ep & Em & Et & Ek & Ekl & Epre & Estop & ->).
    set (pp := dump dumpf DSecondLast f0m2).
    pose proof (append_spec (empty_path (e_maxlen e1) 0) pp) as (A1 & A2 & A3).
    set (Q := fst (append (empty_path (e_maxlen e1) 0) pp)) in *.
    cbn [empty_path plen pts length maxlen torigin app] in A1, A2, A3.
    destruct (Nat.ltb_spec 0 (e_maxlen e1)) as [_|Hz]; [|lia].
    pose proof (iadd_pts 0 Q ptmp) as HI.
    assert (HQl : plen Q = 1%nat) by (unfold plen; rewrite A1; reflexivity).
    rewrite A1, A2, HQl, Ep in HI. cbn [map app] in HI.
    rewrite firstn_all2 in HI by (rewrite map_length, firstn_length; lia).
    assert (HIm : maxlen (iadd 0 Q ptmp) = e_maxlen e1 /\ torigin (iadd 0 Q ptmp) = 0).
    { unfold iadd. pose proof (append_all_spec Q (copy_frames 0 (pts ptmp))) as (_ & B & C & _). rewrite B, C, A2, A3. auto. }
    set (P1 := iadd 0 Q ptmp) in *.
    assert (Hl1 : plen P1 = S k).
    { rewrite plen_map_erase, HI. cbn [length]. rewrite map_length, firstn_length. lia. }
    intros H.
    destruct (Nat.leb_spec (e_maxlen e1) (plen P1)) as [|Hlt]; [discriminate|].
    destruct (Nat.ltb_spec (plen P1) 3) as [|Hge3]; [discriminate|].
    inversion H; subst path1 streams1 calls; clear H.
    split; [reflexivity|]. exists f0l, f0m2, s1, k.
    destruct HIm as [HIm HIt].
    assert (Hst : stops_at (e_i0 e1) (e_i2 e1) s1 k) by (apply Estop; lia).
    split; [reflexivity|]. split; [reflexivity|]. split; [reflexivity|]. split; [exact HI|].
    split; [exact HIm|]. split; [exact HIt|]. split; [lia|]. split; [lia|]. split; [exact Ekl|].
    split; [exact Hst|reflexivity].
  - set (P1 := fst (append (empty_path (e_maxlen e1 - 1) 0) (copy_frame 0 f0l))).
    assert (Hl : (plen P1 <= 1)%nat).
    { unfold plen, P1. pose proof (append_spec (empty_path (e_maxlen e1 - 1) 0) (copy_frame 0 f0l)) as (B & _).
      rewrite B. cbn [empty_path plen pts length maxlen]. destruct (0 <? e_maxlen e1 - 1)%nat; cbn; lia. }
    intros H.
    destruct (Nat.leb_spec (e_maxlen e1) (plen P1)); [discriminate|].
    destruct (Nat.ltb_spec (plen P1) 3); [discriminate|lia].
Qed.

Lemma is_acc_true s : is_acc s = true -> s = ACC.
Proof. destruct s; cbn; congruence. Qed.

Lemma retis_acc_inv e0 e1 old0 old1 streams draws sp0 sp1 st calls nd :
  retis_swap_zero dumpf e0 e1 old0 old1 streams draws = Out true sp0 sp1 st calls nd ->
  exists ep streams1 streams2 calls0 calls1,
    end_point (sp_path old0) (e_i0 e0) (e_i2 e0) = Some ep /\
    lm1_early e0 (sp_path old0) = false /\
    retis_path0 dumpf e0 e1 (is_R ep) (sp_path old1) streams = Ok (sp_path sp0, ACC, streams1, calls0) /\
    retis_path1 dumpf e0 e1 (is_R ep) (sp_path old0) streams1 = Ok (sp_path sp1, ACC, streams2, calls1) /\
    st = ACC /\ sp_status sp0 = ACC /\ sp_status sp1 = ACC /\ calls = calls0 ++ calls1.
Proof.
  unfold retis_swap_zero.
  destruct (end_point (sp_path old0) (e_i0 e0) (e_i2 e0)) as [ep|]; [|discriminate].
  destruct (lm1_early e0 (sp_path old0)) eqn:Eearly; [discriminate|].
  destruct (retis_path0 dumpf e0 e1 (is_R ep) (sp_path old1) streams) as [[[[path0 st0] str1] calls0]|] eqn:E0; [|discriminate].
  destruct (retis_path1 dumpf e0 e1 (is_R ep) (sp_path old0) str1) as [[[[path1 st1] str2] calls1]|] eqn:E1; [|discriminate].
  destruct (is_acc st0) eqn:A0; destruct (is_acc st1) eqn:A1; cbn [andb].
  - apply is_acc_true in A0, A1. subst st0 st1.
    intros H. exists ep, str1, str2, calls0, calls1.
    destruct (is_wf (e_move e0) || is_wf (e_move e1)).
    + destruct draws as [|u draws']; [discriminate|].
      destruct (high_acc_swap path1 (sp_path old1) e0 e1 u) as [[a s]|] eqn:EH; [|discriminate].
      destruct (final_weight path0 e0); [|discriminate]. destruct (final_weight path1 e1); [|discriminate].
      inversion H; subst; clear H. cbn [negb andb sp_path sp_status].
      unfold high_acc_swap in EH.
      destruct (cw path1 (intf_w e0) (e_move e0)); [|discriminate].
      destruct (cw (sp_path old1) (intf_w e1) (e_move e1)); [|discriminate].
      destruct (cw (sp_path old1) (intf_w e0) (e_move e0)); [|discriminate].
      destruct (cw path1 (intf_w e1) (e_move e1)); [|discriminate].
      destruct (high_acc_accept _ _ _ _ _); inversion EH; subst.
      repeat split; try reflexivity; assumption.
    + destruct (final_weight path0 e0); [|discriminate]. destruct (final_weight path1 e1); [|discriminate].
      inversion H; subst; clear H. cbn [negb andb sp_path sp_status]. repeat split; try reflexivity; assumption.
  - destruct (final_weight path0 e0); [|discriminate]. destruct (final_weight path1 e1); discriminate.
  - destruct (final_weight path0 e0); [|discriminate]. destruct (final_weight path1 e1); discriminate.
  - destruct (final_weight path0 e0); [|discriminate]. destruct (final_weight path1 e1); discriminate.
Qed.


(* ------------------------------------------------------------------ shape of an accepted retis swap *)

Lemma first_second_shape p f g :
  first_frame p = Some f -> second_frame p = Some g -> exists tl, pts p = f :: g :: tl.
Proof.
  unfold first_frame, second_frame. destruct (pts p) as [|a [|b t]]; cbn; try discriminate.
  intros [= ->] [= ->]. eauto.
Qed.

Lemma last_last2_shape p f g :
  last_frame p = Some f -> last2_frame p = Some g -> exists pre, pts p = pre ++ [g; f].
Proof.
  unfold last_frame, last2_frame. intros H1 H2.
  destruct (rev (pts p)) as [|a [|b t]] eqn:E; cbn in *; try discriminate.
  injection H1 as ->. injection H2 as ->. exists (rev t).
  rewrite <- (rev_involutive (pts p)), E. cbn. rewrite <- app_assoc. reflexivity.
Qed.

Lemma end_is_R ep : is_R ep = true -> ep = SR.
Proof. destruct ep; cbn; congruence. Qed.

(* everything an accepted retis_swap_zero tells about its inputs and outputs *)
Definition retis_acc_shape (e0 e1 : ens) (old0 old1 new0 new1 : path)
           (streams : list (list frame)) (calls : list call) : Prop :=
  exists f10 f11 tl1 pre0 f0m2 f0l s0 s1 rest k0 k1,
    pts old1 = f10 :: f11 :: tl1 /\ pts old0 = pre0 ++ [f0m2; f0l] /\
    streams = s0 :: s1 :: rest /\
    pts new0 = rev (firstn k0 s0) ++ [dump dumpf DSecond f11] /\
    maxlen new0 = e_maxlen e0 /\ torigin new0 = 0 /\
    map erase (pts new1) = erase (dump dumpf DSecondLast f0m2) :: map erase (firstn k1 s1) /\
    maxlen new1 = e_maxlen e1 /\ torigin new1 = 0 /\
    (2 <= k0 <= length s0)%nat /\ (k0 + 1 < e_maxlen e0)%nat /\ (k0 <= e_maxlen e1 - 1)%nat /\
    (forall f, In f (firstn (k0 - 1) s0) -> crossedb (e_i0 e0) (e_i2 e0) f = false) /\
    ((k0 < e_maxlen e1 - 1)%nat -> stops_at (e_i0 e0) (e_i2 e0) s0 k0) /\
    (2 <= k1 <= length s1)%nat /\ (k1 + 1 < e_maxlen e1)%nat /\
    stops_at (e_i0 e1) (e_i2 e1) s1 k1 /\
    (e_scL e0 = false -> has_L_start_end new0 e0 = false) /\
    end_point old0 (e_i0 e0) (e_i2 e0) = Some SR /\ lm1_early e0 old0 = false /\
    calls = [mkCall (copy_frame 0 f10) true (e_i0 e0) (e_i2 e0) (e_maxlen e1 - 1) k0;
             mkCall (copy_frame 0 f0l) false (e_i0 e1) (e_i2 e1) (e_maxlen e1 - 1) k1].

Theorem retis_acc_struct e0 e1 old0 old1 streams draws sp0 sp1 st calls nd :
  retis_swap_zero dumpf e0 e1 old0 old1 streams draws = Out true sp0 sp1 st calls nd ->
  st = ACC /\ sp_status sp0 = ACC /\ sp_status sp1 = ACC /\
  retis_acc_shape e0 e1 (sp_path old0) (sp_path old1) (sp_path sp0) (sp_path sp1) streams calls.
Proof.
  intros H. apply retis_acc_inv in H.
  destruct H as (ep & str1 & str2 & calls0 & calls1 & Hep & Hearly & H0 & H1 & Hst & Hs0 & Hs1 & Hcalls).
  apply retis_path0_acc in H0.
  destruct H0 as (Hall & f10 & f11 & s0 & k0 & Hf10 & Hf11 & Hstr & Hp0 & Hm0 & Ht0 & Hk0 & Hk0m & Hk0m1 & Hk0l & Hpre0 & Hstop0 & HL & Hc0).
  apply retis_path1_acc in H1.
  destruct H1 as (_ & f0l & f0m2 & s1 & k1 & Hf0l & Hf0m2 & Hstr1 & Hp1 & Hm1 & Ht1 & Hk1 & Hk1m & Hk1l & Hstop1 & Hc1).
  destruct (first_second_shape _ _ _ Hf10 Hf11) as (tl1 & Hold1).
  destruct (last_last2_shape _ _ _ Hf0l Hf0m2) as (pre0 & Hold0).
  apply end_is_R in Hall. subst ep.
  split; [exact Hst|]. split; [exact Hs0|]. split; [exact Hs1|].
  exists f10, f11, tl1, pre0, f0m2, f0l, s0, s1, str2, k0, k1.
  subst streams str1 calls calls0 calls1.
  repeat match goal with |- _ /\ _ => split end; try assumption; try reflexivity; try lia.
Qed.

(* the junction: the last two frames of the new [0-] path are the engine's own frame for the
   phase point old[0+][0] it was started from and the dumped copy of old[0+][1]; the first two
   frames of the new [0+] path are the dumped copy of old[0-][-2] and the engine's own frame
   for the phase point old[0-][-1] *)
Theorem retis_junction_frames e0 e1 old0 old1 new0 new1 streams calls :
  retis_acc_shape e0 e1 old0 old1 new0 new1 streams calls ->
  exists f10 f11 tl1 pre0 f0m2 f0l g0 r0 g1 r1 rest back forw,
    pts old1 = f10 :: f11 :: tl1 /\ pts old0 = pre0 ++ [f0m2; f0l] /\
    streams = (g0 :: r0) :: (g1 :: r1) :: rest /\
    pts new0 = back ++ [g0; dump dumpf DSecond f11] /\
    map erase (pts new1) = erase (dump dumpf DSecondLast f0m2) :: erase g1 :: forw /\
    map c_init calls = [copy_frame 0 f10; copy_frame 0 f0l] /\ map c_rev calls = [true; false].
Proof.
  intros (f10 & f11 & tl1 & pre0 & f0m2 & f0l & s0 & s1 & rest & k0 & k1 & Ho1 & Ho0 & Hs & Hp0 & _ & _ & Hp1 & _ & _ &
          Hk0 & _ & _ & _ & _ & Hk1 & _ & _ & _ & _ & _ & Hc).
  destruct s0 as [|g0 r0]; [cbn in Hk0; lia|]. destruct s1 as [|g1 r1]; [cbn in Hk1; lia|].
  destruct k0 as [|k0]; [lia|]. destruct k1 as [|k1]; [lia|].
  cbn [firstn rev map] in Hp0, Hp1.
  exists f10, f11, tl1, pre0, f0m2, f0l, g0, r0, g1, r1, rest, (rev (firstn k0 r0)), (map erase (firstn k1 r1)).
  subst calls. repeat split; try assumption.
  rewrite Hp0, <- app_assoc. reflexivity.
Qed.

Definition lastn {A} (n : nat) (l : list A) : list A := skipn (length l - n) l.

Lemma lastn_app2 {A} (pre : list A) a b : lastn 2 (pre ++ [a; b]) = [a; b].
Proof.
  unfold lastn. rewrite app_length. cbn [length].
  replace (length pre + 2 - 2)%nat with (length pre + 0)%nat by lia.
  rewrite skipn_app, Nat.add_0_r, skipn_all, Nat.sub_diag. reflexivity.
Qed.

Lemma map_ford_erase l : map ford l = map (fun e : Z * Z * bool => fst (fst e)) (map erase l).
Proof. rewrite map_map. apply map_ext. intros []; reflexivity. Qed.

(* ... as order parameters, when the engine's first frame carries the order parameter of the
   phase point it was given (the propagate contract, property C12) *)
Theorem retis_junction_orders e0 e1 old0 old1 new0 new1 streams calls :
  retis_acc_shape e0 e1 old0 old1 new0 new1 streams calls ->
  (forall k c s g, nth_error calls k = Some c -> nth_error streams k = Some s -> hd_error s = Some g ->
                   ford g = ford (c_init c)) ->
  lastn 2 (orders new0) = firstn 2 (orders old1) /\
  firstn 2 (orders new1) = lastn 2 (orders old0).
Proof.
  intros Hsh Hhon. destruct (retis_junction_frames _ _ _ _ _ _ _ _ Hsh)
    as (f10 & f11 & tl1 & pre0 & f0m2 & f0l & g0 & r0 & g1 & r1 & rest & back & forw & Ho1 & Ho0 & Hs & Hp0 & Hp1 & Hci & _).
  destruct calls as [|c0 [|c1 [|]]]; try discriminate. cbn in Hci. injection Hci as Hc0 Hc1.
  assert (Hg0 : ford g0 = ford f10).
  { rewrite (Hhon 0%nat c0 (g0 :: r0) g0); subst; cbn; try reflexivity. rewrite Hc0. reflexivity. }
  assert (Hg1 : ford g1 = ford f0l).
  { rewrite (Hhon 1%nat c1 (g1 :: r1) g1); subst; cbn; try reflexivity. rewrite Hc1. reflexivity. }
  unfold orders. split.
  - rewrite Hp0, Ho1, map_app. cbn [map firstn]. rewrite lastn_app2. cbn [dump ford]. rewrite Hg0. reflexivity.
  - rewrite (map_ford_erase (pts new1)), Hp1, Ho0, map_app. cbn [map firstn erase dump ford fst]. rewrite lastn_app2, Hg1. reflexivity.
Qed.


(* ------------------------------------------------------------------ validity of the new paths *)

Lemma crossedb_false l r f : crossedb l r f = false <-> l <= ford f <= r.
Proof.
  unfold crossedb. destruct (Z.ltb_spec (ford f) l); destruct (Z.ltb_spec r (ford f)); cbn; split; intros; try lia; try discriminate; reflexivity.
Qed.

Lemma crossedb_true l r f : crossedb l r f = true <-> (ford f < l \/ r < ford f).
Proof.
  unfold crossedb. destruct (Z.ltb_spec (ford f) l); destruct (Z.ltb_spec r (ford f)); cbn; split; intros; try lia; try discriminate; reflexivity.
Qed.

Lemma zmin3 a b c : a <= b <= c -> zmin_list a [b; c] = a.
Proof. intros. unfold zmin_list. cbn. lia. Qed.
Lemma zmax3 a b c : a <= b <= c -> zmax_list a [b; c] = c.
Proof. intros. unfold zmax_list. cbn. lia. Qed.

(* the start letter check_interfaces computes for a non-empty path and an ordered triple *)
Lemma has_L_start p e a rest :
  e_i0 e <= e_i1 e <= e_i2 e -> orders p = a :: rest ->
  has_L_start_end p e = false -> classify (e_i0 e) (e_i2 e) a <> SL.
Proof.
  intros Hord Ho. unfold has_L_start_end, check_interfaces, ordermin, ordermax, intf_of. rewrite Ho.
  destruct (argmin_from a 0 1 rest) as [omin imin]. destruct (argmax_from a 0 1 rest) as [omax imax].
  rewrite zmin3, zmax3 by exact Hord. cbn [ci_start ci_end].
  unfold start_point. rewrite Ho. destruct (Z.ltb_spec (e_i2 e) (e_i0 e)); [lia|].
  cbn [opt_is_L]. destruct (classify (e_i0 e) (e_i2 e) a); cbn; congruence.
Qed.

Theorem retis_swap_valid e0 e1 old0 old1 new0 new1 streams calls :
  retis_acc_shape e0 e1 old0 old1 new0 new1 streams calls ->
  (e_maxlen e0 <= e_maxlen e1)%nat ->
  e_i0 e0 <= e_i1 e0 <= e_i2 e0 ->
  (forall f10 f11 tl, pts old1 = f10 :: f11 :: tl -> e_i2 e0 <= ford f11) ->
  (forall pre a b, pts old0 = pre ++ [a; b] -> ford a <= e_i0 e1) ->
  (* the new [0-] path *)
  (exists a mid b, orders new0 = a :: mid ++ [b] /\ mid <> [] /\ (3 <= plen new0 < e_maxlen e0)%nat /\
     (a < e_i0 e0 \/ e_i2 e0 < a) /\ (e_scL e0 = false -> e_i2 e0 < a) /\
     (forall o, In o mid -> e_i0 e0 <= o <= e_i2 e0) /\ e_i2 e0 <= b) /\
  (* the new [0+] path *)
  (exists a mid b, orders new1 = a :: mid ++ [b] /\ mid <> [] /\ (3 <= plen new1 < e_maxlen e1)%nat /\
     a <= e_i0 e1 /\ (forall o, In o mid -> e_i0 e1 <= o <= e_i2 e1) /\
     (b < e_i0 e1 \/ e_i2 e1 < b)).
Proof.
  intros (f10 & f11 & tl1 & pre0 & f0m2 & f0l & s0 & s1 & rest & k0 & k1 & Ho1 & Ho0 & Hs & Hp0 & Hm0 & _ & Hp1 & Hm1 & _ &
          Hk0 & Hk0m & _ & _ & Hstop0 & Hk1 & Hk1m & Hstop1 & HL & _ & _ & _) Hml Hord H11 H0m2.
  split.
  - assert (Hst : stops_at (e_i0 e0) (e_i2 e0) s0 k0) by (apply Hstop0; lia).
    pose proof Hst as (_ & Hpre & _).
    destruct (stops_at_split _ _ _ _ Hst) as (lastf & _ & Hc & Hf & Hlen).
    rewrite Hf, rev_app_distr in Hp0. cbn [rev app] in Hp0.
    set (mid := rev (firstn (k0 - 1) s0)) in *.
    assert (Hmidlen : length mid = (k0 - 1)%nat) by (unfold mid; rewrite rev_length; exact Hlen).
    assert (Hor : orders new0 = ford lastf :: map ford mid ++ [ford f11]).
    { unfold orders. rewrite Hp0. cbn [map]. rewrite map_app. reflexivity. }
    exists (ford lastf), (map ford mid), (ford f11).
    split; [exact Hor|].
    split; [intros E; apply (f_equal (@length Z)) in E; rewrite map_length, Hmidlen in E; cbn in E; lia|].
    split; [unfold plen; rewrite Hp0; cbn [length]; rewrite app_length, Hmidlen; cbn [length]; lia|].
    apply crossedb_true in Hc.
    split; [exact Hc|].
    split.
    + intros HscL. specialize (HL HscL). apply (has_L_start _ _ _ _ Hord Hor) in HL.
      destruct Hc as [Hc|Hc]; [|exact Hc]. exfalso. apply HL. unfold classify.
      destruct (Z.leb_spec (ford lastf) (e_i0 e0)); [reflexivity|lia].
    + split; [|exact (H11 _ _ _ Ho1)].
      intros o Ho. apply in_map_iff in Ho. destruct Ho as (f & <- & Hf'). apply crossedb_false, Hpre.
      unfold mid in Hf'. apply in_rev in Hf'. exact Hf'.
  - pose proof Hstop1 as (_ & Hpre & _).
    destruct (stops_at_split _ _ _ _ Hstop1) as (lastf & _ & Hc & Hf & Hlen).
    rewrite Hf, map_app in Hp1. cbn [map] in Hp1.
    assert (Hor : orders new1 = ford f0m2 :: map ford (firstn (k1 - 1) s1) ++ [ford lastf]).
    { unfold orders. rewrite map_ford_erase, Hp1. cbn [map erase dump ford fst]. rewrite map_app. cbn [map fst].
      rewrite <- map_ford_erase. reflexivity. }
    exists (ford f0m2), (map ford (firstn (k1 - 1) s1)), (ford lastf).
    split; [exact Hor|].
    split; [intros E; apply (f_equal (@length Z)) in E; rewrite map_length, Hlen in E; cbn in E; lia|].
    split; [rewrite plen_map_erase, Hp1; cbn [length]; rewrite app_length, map_length, Hlen; cbn [length]; lia|].
    split; [exact (H0m2 _ _ _ Ho0)|].
    split; [|apply crossedb_true; exact Hc].
    intros o Ho. apply in_map_iff in Ho. destruct Ho as (f & <- & Hf'). apply crossedb_false, Hpre. exact Hf'.
Qed.

End WithDump.
